"""Implementation side of C16: build real callables from terms, decorate them with a real
LineProfiler (once and twice), use them through the right access path and report
  * profiler.functions (as leaf ids) after each decoration,
  * the structure of the returned objects (marker / __wrapped__ chain / wrapper types),
  * which leaf functions ran at which profiler.enable_count, for the undecorated, the
    decorated and the twice-decorated object,
  * executions of two marker lines per leaf vs the hits the profiler reports for them.

term: ["fn",k,i] | ["wr",k,i] | ["cm",t] | ["sm",t] | ["bd",t] | ["pt",t] | ["pm",t]
      | ["pr",g,s,d] (None for an absent accessor) | ["cp",t];   k: 0 plain 1 gen 2 coro 3 asyncgen
"""
import functools
import inspect
import threading
import types
import warnings

from harness.drivers.common import read_payload, emit

ACALL, AGET, ASET, ADEL, ACACHED = 0, 1, 2, 3, 4


class Suspend:
    def __await__(self):
        yield 'susp'


# marker line 0 at the start of the body; marker line 1 in the middle (after the first suspension
# of generator / coroutine / async-generator bodies) - in mode 'raise' the exception is raised FROM
# that line; marker line 2 in the clean-up code (finally:), which runs on exhaustion, on the raise,
# and when the object is closed early, thrown into or dropped.  SUSP_LINE is the line of the first
# suspension: it executes as often as marker 0 and is where close()/throw() interrupt the body.
# The text does not mention the leaf's number (it is the global ME of the namespace the
# function is defined in): all leaves of one kind are textually identical functions of the
# same name at the same line of DIFFERENT files, i.e. their code objects compare equal by
# value (co_filename is not part of code equality) - as for a vendored / copied module.
SRC = {
    0: "def f(*a, **k):\n    T(ME, 0)\n    try:\n        T(ME, 1)\n    finally:\n        T(ME, 2)\n    return ME\n",
    1: "def f(*a, **k):\n    T(ME, 0)\n    try:\n        yield 1\n        T(ME, 1)\n        yield 2\n    finally:\n        T(ME, 2)\n",
    2: "async def f(*a, **k):\n    T(ME, 0)\n    try:\n        await SUSP()\n        T(ME, 1)\n    finally:\n        T(ME, 2)\n    return ME\n",
    3: "async def f(*a, **k):\n    T(ME, 0)\n    try:\n        yield 1\n        await SUSP()\n        T(ME, 1)\n        yield 2\n    finally:\n        T(ME, 2)\n",
}
# The same bodies as ONE `def` inside a factory that is executed once per leaf: all such leaves
# share the very same code object (same file, same line) and differ only in __kwdefaults__
# (the `def cb(x, i=i)` idiom; no closure).  Their statistics share one (file, line, name) key.
def _factory(src):
    lines = src.replace('ME', '_me').replace('(*a, **k)', '(*a, _me=_me0, **k)').splitlines()
    return 'def make(_me0):\n' + ''.join('    ' + l + '\n' for l in lines) + '    return f\n'


SRC_DEF = {k: _factory(v) for k, v in SRC.items()}
MARK_LINES = {0: (2, 4, 6), 1: (2, 5, 8), 2: (2, 5, 7), 3: (2, 6, 9)}
SUSP_LINE = {1: 4, 2: 4, 3: 4}
MODES = ['exhaust', 'raise', 'close', 'throw', 'drop']


class Boom(BaseException):
    pass


def drive(aw):
    try:
        while True:
            aw.send(None)
    except StopIteration as e:
        return e.value


def consume(r, mode='exhaust'):
    if mode == 'raise':
        try:
            _consume(r, 'exhaust')
        except Boom:
            pass
        return
    _consume(r, mode)


def _consume(r, mode='exhaust'):
    """Use up what an access returned.  mode: run it to the end / advance to the first
    suspension and then close() it / throw into it / let go of it (the caller holds no other
    reference, so it is finalised as soon as this returns)."""
    if inspect.isgenerator(r):
        if mode == 'exhaust':
            for _ in r:
                pass
            return
        next(r)
        if mode == 'close':
            r.close()
        elif mode == 'throw':
            try:
                r.throw(Boom())
            except Boom:
                pass
    elif inspect.iscoroutine(r):
        if mode == 'exhaust':
            drive(r)
            return
        r.send(None)
        if mode == 'close':
            r.close()
        elif mode == 'throw':
            try:
                r.throw(Boom())
            except Boom:
                pass
    elif inspect.isasyncgen(r):
        if mode == 'exhaust':
            while True:
                try:
                    drive(r.__anext__())
                except StopAsyncIteration:
                    break
            return
        drive(r.__anext__())
        if mode == 'close':
            drive(r.aclose())
        elif mode == 'throw':
            try:
                drive(r.athrow(Boom()))
            except Boom:
                pass


class Holder:
    pass


# subclasses of the standard wrapper types (user code does subclass them)
class SubClassmethod(classmethod):
    pass


class SubStaticmethod(staticmethod):
    pass


class SubPartial(functools.partial):
    pass


class SubPartialmethod(functools.partialmethod):
    pass


class SubProperty(property):
    pass


class SubCachedProperty(functools.cached_property):
    pass


def decoy(*a, **k):        # never called, never decorated
    return 'decoy'


# keyword arguments whose names coincide with parameter names used inside the profiler
KW = dict(func=1, self=2, args=3, kwds=4, cmd=5, globals=6, locals=7, wrapper=8)


class Ctx:
    def __init__(self, caseno, deco='lp', same_def=False, subclass=False, stray=False):
        from line_profiler import LineProfiler
        self.prof = LineProfiler()
        if deco == 'global':
            # the explicit decorator `line_profiler.profile`: a GlobalProfiler, enabled, handed our
            # profiler the way kernprof does it (no atexit hook, no output files)
            from line_profiler.explicit_profiler import GlobalProfiler
            self.deco = GlobalProfiler()
            self.deco._kernprof_overwrite(self.prof)
        else:
            self.deco = self.prof
        self.same_def = same_def
        self.subclass = subclass
        self.stray = stray
        self.raising = False
        self.hook0 = None
        self.factories = {}
        self.fname = {}
        self.caseno = caseno
        self.leaves = {}      # id(function) -> (i, kind)
        self.byid = {}        # i -> function
        self.kinds = {}
        self.execs = {}
        self.runs = []
        self.order = []
        self.holder = Holder()

    def T(self, i, j):
        self.execs[i][j] += 1
        d = int(self.prof.enable_count)
        if j == 0:
            self.runs.append([i, d])
            hook, self.hook0 = self.hook0, None
            if hook is not None:
                hook()                 # e.g. another thread makes a complete profiled call now
        else:
            for r in reversed(self.runs):
                if r[0] == i:
                    if r[1] != d:
                        r[1] = -1
                    break
            if j == 1 and self.raising:
                raise Boom()           # the exception originates on the marker-1 line of the body

    def leaf(self, k, i):
        if i in self.byid:          # the same function object used twice inside one object
            self.order.append(i)
            return self.byid[i]
        if self.same_def:
            fname = '<c16-%d-def%d>' % (self.caseno, k)
            if k not in self.factories:
                ns = {'T': self.T, 'SUSP': Suspend}
                exec(compile(SRC_DEF[k], fname, 'exec'), ns)
                self.factories[k] = ns['make']
            f = self.factories[k](i)
        else:
            ns = {'T': self.T, 'SUSP': Suspend, 'ME': i}
            fname = '<c16-%d-%d>' % (self.caseno, i)
            exec(compile(SRC[k], fname, 'exec'), ns)
            f = ns['f']
        self.fname[i] = fname
        if self.stray:
            # the `wrapper.func = fn` idiom: a plain function that merely CARRIES attributes named like
            # those of partial / bound method / property objects
            for a in ('func', '__func__', 'fget', 'fset', 'fdel', 'args', 'keywords', '__self__'):
                setattr(f, a, decoy if a not in ('args', 'keywords') else (() if a == 'args' else {}))
        self.leaves[id(f)] = (i, k)
        self.byid[i] = f
        self.kinds[i] = k
        self.execs[i] = [0, 0, 0]
        self.order.append(i)
        return f

    def build(self, t):
        tag = t[0]
        if tag == 'fn':
            return self.leaf(t[1], t[2])
        if tag == 'wr':
            return self.deco(self.leaf(t[1], t[2]))
        sub = self.subclass
        if tag == 'cm':
            return (SubClassmethod if sub else classmethod)(self.build(t[1]))
        if tag == 'sm':
            return (SubStaticmethod if sub else staticmethod)(self.build(t[1]))
        if tag == 'bd':
            return types.MethodType(self.build(t[1]), self.holder)
        if tag == 'pt':
            return (SubPartial if sub else functools.partial)(self.build(t[1]), 'p')
        if tag == 'pm':
            return (SubPartialmethod if sub else functools.partialmethod)(self.build(t[1]), 'pm')
        if tag == 'pr':
            return (SubProperty if sub else property)(*[None if x is None else self.build(x) for x in t[1:4]])
        if tag == 'cp':
            return (SubCachedProperty if sub else functools.cached_property)(self.build(t[1]))
        raise ValueError(t)

    def marked(self, o):
        return getattr(o, '__line_profiler_id__', None) == id(self.prof)

    def describe(self, o):
        if self.subclass and isinstance(o, (classmethod, staticmethod, functools.partial, functools.partialmethod,
                                            property, functools.cached_property)) \
                and type(o) in (classmethod, staticmethod, functools.partial, functools.partialmethod, property,
                                functools.cached_property):
            return [95]           # the subclass was lost when the wrapper object was rebuilt
        if isinstance(o, classmethod):
            return [3] + self.describe(o.__func__)
        if isinstance(o, staticmethod):
            return [4] + self.describe(o.__func__)
        if isinstance(o, types.MethodType):
            return [5] + self.describe(o.__func__)
        if isinstance(o, functools.partialmethod):
            return [7] + self.describe(o.func)
        if isinstance(o, functools.partial):
            return [6] + self.describe(o.func)
        if isinstance(o, property):
            out = [8]
            for x in (o.fget, o.fset, o.fdel):
                out += [0] if x is None else self.describe(x)
            return out
        if isinstance(o, functools.cached_property):
            return [9] + self.describe(o.func)
        if inspect.isfunction(o):
            if id(o) in self.leaves:
                i, k = self.leaves[id(o)]
                return [99] if self.marked(o) else [1, k, i]
            if self.marked(o):
                inner = getattr(o, '__wrapped__', None)
                if inner is not None and id(inner) in self.leaves and not self.marked(inner):
                    i, k = self.leaves[id(inner)]
                    return [2, k, i]
                return [98] + (self.describe(inner) if inner is not None else [])   # a second wrapper layer
            return [97]
        return [96]

    def func_ids(self):
        return [self.leaves.get(id(f), (-1, 0))[0] for f in self.prof.functions]

    def hits(self):
        st = self.prof.get_stats().timings
        out = {}
        for (fname, _first, _name), rows in st.items():
            out.setdefault(fname, {})
            for lineno, nhits, _t in rows:
                out[fname][lineno] = out[fname].get(lineno, 0) + nhits
        return out


def leaf_kinds(t):
    if t is None:
        return set()
    if t[0] in ('fn', 'wr'):
        return {t[1]}
    out = set()
    for x in t[1:]:
        if isinstance(x, list):
            out |= leaf_kinds(x)
    return out


def hits_execs(ctx, ids, h0, h1):
    """Per leaf in `ids`: hits and exact executions of [marker 0, marker 1, marker 2, first-suspension
    line (non-plain kinds)], and separately the executions of markers 0 and 2 (once per run, what the
    model predicts).  Leaves made by one `def` share their statistics key: a leaf is then credited what
    is left of the key's hits after the exact executions of the other leaves of that key (equal to its
    own executions iff the key's total is exact)."""
    hits, execs, model = [], [], []
    for i in ids:
        fname = ctx.fname[i]
        k = ctx.kinds[i]
        off = 1 if ctx.same_def else 0
        mates = [j for j in set(ctx.order) if ctx.fname[j] == fname and j != i]
        rows = [(ln, j) for j, ln in enumerate(MARK_LINES[k])]
        if k in SUSP_LINE:
            rows.append((SUSP_LINE[k], 0))        # executes exactly as often as marker 0
        for ln, j in rows:
            tot = h1.get(fname, {}).get(ln + off, 0) - h0.get(fname, {}).get(ln + off, 0)
            hits.append(tot - sum(ctx.execs[m][j] for m in mates))
            execs.append(ctx.execs[i][j])
        model += [ctx.execs[i][0], ctx.execs[i][2]]
    return hits, execs, model


def plan_for(t):
    tag = t[0]
    if tag in ('fn', 'wr', 'bd', 'pt'):
        base = [('call', 0), ('call', 1), ('inscall', 0)]
    elif tag in ('cm', 'sm'):
        base = [('clscall', 0), ('inscall', 0), ('clscall', 1)]
    elif tag == 'pm':
        base = [('inscall', 0), ('inscall', 1)]
    elif tag == 'pr':
        base = []
        if t[1] is not None:
            base += [('get', 0), ('get', 1)]
        if t[2] is not None:
            base += [('set', 0), ('set', 1)]
        if t[3] is not None:
            base += [('del', 0)]
    elif tag == 'cp':
        base = [('cget', 0), ('cget2', 0), ('cget', 1)]
    else:
        raise ValueError(t)
    modes = MODES if (leaf_kinds(t) - {0}) else ['exhaust', 'raise']
    if tag == 'cp':
        modes = [m for m in modes if m != 'drop']    # the value stays cached on the instance
    plan = []
    first = [b for b in base if b[1] == 0 and b[0] not in ('cget2',)][:1]
    for m in modes:
        for how, d in base:
            if (how == 'cget2' and m != 'exhaust') or (how in ('set', 'del') and m not in ('exhaust', 'raise')):
                continue                              # nothing to consume there
            plan.append((how, d, m))
    for how, d in first:        # the same use from / beside another thread
        plan.append((how, 0, 'thread:worker'))
        plan.append((how, 0, 'thread:main'))
        plan.append((how, 0, 'thread:short-other'))
        plan.append((how, 0, 'thread:short-other-w'))
    return plan


ACCESS_CODE = {'call': ACALL, 'inscall': ACALL, 'clscall': ACALL, 'get': AGET, 'set': ASET, 'del': ADEL,
               'cget': AGET, 'cget2': ACACHED}


def in_thread(fn):
    """run fn in a fresh thread, re-raising what it raised"""
    box = []

    def body():
        try:
            fn()
        except BaseException as e:  # noqa
            box.append(e)
    th = threading.Thread(target=body)
    th.start()
    th.join(60)
    if box:
        raise box[0]


def while_other_thread_inside(ctx, fn):
    """run fn in this thread while another thread sits inside a profiled section"""
    entered, leave = threading.Event(), threading.Event()
    box = []

    def other():
        try:
            with ctx.prof:
                entered.set()
                leave.wait(60)
        except BaseException as e:  # noqa
            box.append(e)
            entered.set()
    th = threading.Thread(target=other)
    th.start()
    entered.wait(60)
    try:
        fn()
    finally:
        leave.set()
        th.join(60)
    if box:
        raise box[0]


def perform(ctx, obj, plan, threads=True, C=None):
    """Use `obj` through every access of the plan; returns the runs of each.  threads=False: the
    accesses that involve a second thread are made plainly in this thread (same expected outcome)."""
    if C is None:
        C = type('C', (), {'x': obj})
    out = []
    state = {}

    def act(how, mode):
        if how == 'call':
            consume(obj('a', **KW), mode)
        elif how == 'inscall':
            consume(C().x('a', **KW), mode)
        elif how == 'clscall':
            consume(C.x('a', **KW), mode)
        elif how == 'get':
            consume(C().x, mode)
        elif how == 'set':
            C().x = 5
        elif how == 'del':
            del C().x
        elif how == 'cget':
            state['inst'] = C()
            consume(state['inst'].x, mode)
        elif how == 'cget2':
            state['inst'].x          # cached: nothing runs; the cached value is not used again
    def short_section_elsewhere():
        def sect():
            with ctx.prof:
                pass
        in_thread(sect)

    def guarded(how, mode):
        ctx.raising = (mode == 'raise')
        try:
            act(how, mode)
        except Boom:
            pass
        finally:
            ctx.raising = False
            ctx.hook0 = None

    for how, d, mode in plan:
        ctx.runs = []
        where = 'here'
        if mode.startswith('thread:'):
            where, mode = (mode if threads else 'here'), 'exhaust'
        if where == 'thread:worker':
            # the access happens in a worker thread (its own enable depth 0) while the main
            # thread is inside a profiled section
            with ctx.prof:
                in_thread(lambda: guarded(how, mode))
        elif where == 'thread:main':
            # ... and in the main thread while a worker is inside a profiled section
            while_other_thread_inside(ctx, lambda: guarded(how, mode))
        elif where == 'thread:short-other':
            # while this thread is INSIDE the underlying function (just after its first line), another
            # thread makes a complete profiled section (enable ... disable) and ends; the rest of the
            # function's lines must still be counted
            ctx.hook0 = short_section_elsewhere
            guarded(how, mode)
        elif where == 'thread:short-other-w':
            # the same with the function running in a worker thread
            ctx.hook0 = short_section_elsewhere
            in_thread(lambda: guarded(how, mode))
        elif d:
            with ctx.prof:
                guarded(how, mode)
        else:
            guarded(how, mode)
        out.append(ctx.runs)
    state.clear()
    return out


def enc_runs(runs_per_access):
    out = []
    for runs in runs_per_access:
        for i, d in runs:
            out += [i, d]
        out.append(-2)
    return out


def run_case(caseno, case):
    import sys
    ctx = Ctx(caseno, case.get('deco', 'lp'), bool(case.get('same_def')), bool(case.get('subclass')), bool(case.get('stray')))
    put_back = bool(case.get('put_back'))
    t = case['term']
    res = dict(err=None)
    plan = plan_for(t)
    res['plan'] = [[ACCESS_CODE[h], d] for h, d, _m in plan]
    res['modes'] = [m for _h, _d, m in plan]
    first = [(h, 0, 'exhaust') for h, d, _m in plan if d == 0 and h != 'cget2'][:1]
    res['sib_access'] = ACCESS_CODE[first[0][0]] if first else 0
    try:
        with warnings.catch_warnings():
            warnings.simplefilter('ignore')
            # siblings: decorated in a row, the decorated objects themselves are temporaries
            kept = []
            for st in case.get('before', []):
                kept.append(ctx.deco(ctx.build(st)))
            sib_ids = list(ctx.order)
            res['sib_regs'] = ctx.func_ids()
            res['sib_shapes'] = [ctx.describe(w) for w in kept]
            obj = ctx.build(t)
            main_ids = ctx.order[len(sib_ids):]
            res['regs0'] = ctx.func_ids()
            res['leaf_ids'] = list(main_ids)
            # put_back: the object is a member of an EXISTING class; the member is looked up in the class
            # dict, decorated and put back with setattr (no __set_name__ happens again)
            C0 = type('C', (), {'x': obj}) if put_back else None
            res['orig'] = enc_runs(perform(ctx, obj, plan, threads=False, C=C0))
            p1 = ctx.deco(vars(C0)['x'] if put_back else obj)
            if put_back:
                setattr(C0, 'x', p1)
            res['funcs1'] = ctx.func_ids()
            res['shape1'] = ctx.describe(p1)
            p2 = ctx.deco(vars(C0)['x'] if put_back else p1)
            res['funcs2'] = ctx.func_ids()
            res['shape2'] = ctx.describe(p2)
            res['same_object'] = p2 is p1
            h0 = ctx.hits()
            for i in set(ctx.order):
                ctx.execs[i] = [0, 0, 0]
            res['runs1'] = enc_runs(perform(ctx, p1, plan, C=C0))
            if put_back:
                setattr(C0, 'x', p2)
            res['runs2'] = enc_runs(perform(ctx, p2, plan, threads=False, C=C0))
            res['sib_runs'] = [enc_runs(perform(ctx, w, first)) for w in kept]
            h1 = ctx.hits()
            res['hits'], res['execs_all'], res['execs'] = hits_execs(ctx, main_ids, h0, h1)
            res['sib_hits'], res['sib_execs_all'], res['sib_execs'] = hits_execs(ctx, sib_ids, h0, h1)
            res['count_after'] = int(ctx.prof.enable_count)
    except BaseException as e:  # noqa
        res['err'] = '%s: %s' % (type(e).__name__, e)
    finally:
        for _ in range(8):
            if ctx.prof.enable_count <= 0:
                break
            ctx.prof.disable_by_count()
        sys.settrace(None)
        mon = sys.monitoring
        if mon.get_tool(mon.PROFILER_ID) is not None:
            mon.free_tool_id(mon.PROFILER_ID)
    return res


def main():
    payload = read_payload()
    out = [run_case(n, c) for n, c in enumerate(payload['cases'])]
    emit(dict(results=out))


if __name__ == '__main__':
    main()
