"""Implementation side of C19: the real kernprof.main called in-process, again and again,
in ONE interpreter (this driver process, cwd = a temp directory with generated programs),
observing the interpreter before and after every call.

Between cases the driver puts the interpreter back itself (sys.argv / sys.path objects and
contents, line_profiler.profile, builtins.profile, timer threads, trace hooks), so every
case starts from the state its `init` describes and cases are independent.

No instrumentation of kernprof or line_profiler: observations are reads of sys, builtins,
threading and of two public attributes of line_profiler.profile."""
import builtins
import contextlib
import io
import os
import sys
import threading

from harness.drivers.common import read_payload, emit

A0 = sys.argv            # the list objects kernprof's decorators capture when it is imported
P0 = sys.path


def run_rt(kernprof, sched, interval):
    """Drive the real kernprof.RepeatedTimer through a schedule of Fire / DumpDone / Stop.
    The dump function blocks until the schedule says DumpDone, so that stop() can be placed
    inside a dump deterministically.  Returns which scheduled expiries happened and how many
    timer threads are alive at the end, after all dumps in progress were let go."""
    import time
    lock = threading.Lock()
    entered = threading.Semaphore(0)
    pending = []          # (release event, thread) of dumps in progress, oldest first
    state = dict(entries=0, free=False)

    def dump(outfile):
        ev = threading.Event()
        with lock:
            state['entries'] += 1
            pending.append((ev, threading.current_thread()))
        entered.release()
        if not state['free']:
            ev.wait(20)
    before = set(threading.enumerate())
    rt = kernprof.RepeatedTimer(interval, dump, 'unused.out')
    fires = []
    try:
        for e in sched:
            if e == 'Fire':
                fires.append(entered.acquire(timeout=3.5 * interval))
            elif e == 'DumpDone':
                with lock:
                    item = pending.pop(0) if pending else None
                if item is not None:
                    item[0].set()
                    item[1].join(5.0)
            elif e == 'Stop':
                rt.stop()
            else:
                raise AssertionError(e)
        scheduled = sum(1 for f in fires if f)
        # the dumps still in progress return
        while True:
            with lock:
                item = pending.pop(0) if pending else None
            if item is None:
                break
            item[0].set()
            item[1].join(5.0)
        time.sleep(0.01)
        for t in threading.enumerate():
            if isinstance(t, threading.Timer) and t not in before and t.finished.is_set():
                t.join(2.0)
        alive = [t for t in threading.enumerate() if t not in before and t.is_alive()]
        noisy = state['entries'] != scheduled       # an expiry nobody scheduled slipped in (machine stalled)
        return dict(fires=fires, threads=len(alive), noisy=noisy, entries=state['entries'])
    finally:
        state['free'] = True
        rt.stop()
        for _ in range(3):
            for t in threading.enumerate():
                if isinstance(t, threading.Timer) and t not in before:
                    t.cancel()
            with lock:
                items, pending[:] = list(pending), []
            for ev, th in items:
                ev.set()
            for t in threading.enumerate():
                if t not in before and t is not threading.current_thread():
                    t.join(2.0)


def main():
    payload = read_payload()
    tmp = os.path.realpath(payload['tmp'])
    os.chdir(tmp)
    for rel, text in payload['files'].items():
        p = os.path.join(tmp, rel)
        os.makedirs(os.path.dirname(p), exist_ok=True)
        with open(p, 'w') as f:
            f.write(text)
    # scripts given by bare name are looked up on $PATH (kernprof.find_script): one directory of ours comes first
    os.environ['PATH'] = os.path.join(tmp, 'pathdir') + os.pathsep + os.environ.get('PATH', '')
    orig_path = [tmp if (e == '' or os.path.realpath(e) == tmp) else e for e in P0]
    P0[:] = orig_path
    import kernprof
    import line_profiler
    gp = line_profiler.profile
    assert sys.argv is A0 and sys.path is P0
    main_thread = threading.main_thread()
    baseline_threads = set(threading.enumerate())
    ptoken = {}
    for i, e in enumerate(orig_path):
        if e != tmp:
            ptoken.setdefault(e, 'p%d' % i)

    def canon(s):
        if not isinstance(s, str):
            return '<%s>' % type(s).__name__
        if s in ptoken:
            return ptoken[s]
        return s.replace(tmp, '/T')

    def helper_threads():
        for t in threading.enumerate():
            if isinstance(t, threading.Timer) and t.finished.is_set():
                t.join(2.0)        # a cancelled timer is on its way out: wait for it
        return [t for t in threading.enumerate() if t is not main_thread and t not in baseline_threads and t.is_alive()]

    def tool_set():
        mon = getattr(sys, 'monitoring', None)
        if mon is None:
            return []
        return [i for i in range(6) if mon.get_tool(i) is not None]

    def reset(init):
        for t in threading.enumerate():
            if isinstance(t, threading.Timer):
                t.cancel()
        for t in threading.enumerate():
            if isinstance(t, threading.Timer):
                t.join(2.0)
        sys.settrace(None)
        sys.setprofile(None)
        mon = getattr(sys, 'monitoring', None)
        for i in tool_set():
            with contextlib.suppress(Exception):
                mon.free_tool_id(i)
        builtins.__dict__.pop('profile', None)
        gp._profile = None
        gp.enabled = None
        if init['profile'] == 'disabled':
            gp.disable()
        if init['argv_rebound']:
            A0[:] = []
            sys.argv = list(init['argv'])
        else:
            A0[:] = init['argv']
            sys.argv = A0
        if init['path_rebound']:
            P0[:] = []
            sys.path = list(orig_path)
        else:
            P0[:] = orig_path
            sys.path = P0

    out = []
    for case in payload['cases']:
        reset(case['init'])
        profs = []                      # (object, label) of the profiler objects met, in order of appearance
        counters = dict(own=0)

        def label(obj, run_number, own_hint=False):
            """run_number: index of the kernprof run that just ended, None after an ordinary-use step;
            own_hint: that run's setup file used the decorator (a new object in profile._profile is its own profiler)"""
            if obj is None:
                return None
            for o, lab in profs:
                if o is obj:
                    return lab
            if type(obj).__name__ in ('LineProfiler', 'ContextualProfile'):
                if run_number is None or (own_hint and any(l == ['ext', run_number] for _, l in profs)) \
                        or (own_hint and obj is not builtins.__dict__.get('profile') and counters.get('plain_hint')):
                    counters['own'] += 1
                    lab = ['own', counters['own']]       # created by line_profiler.profile.enable() itself
                elif all(l != ['ext', run_number] for _, l in profs):
                    lab = ['ext', run_number]            # kernprof's profiler of that run
                else:
                    return ['other', type(obj).__name__]
                profs.append((obj, lab))
                return lab
            return ['other', type(obj).__name__]

        def observe(prev_argv, prev_path, run_number, raised, own_hint=False, plain=False):
            hs = helper_threads()
            counters['plain_hint'] = plain       # plain cProfile mode: kernprof's profiler is in no builtin to be recognised by
            blt = label(builtins.__dict__.get('profile'), run_number)      # first: this is kernprof's profiler for sure
            return dict(raised=raised,
                        argv=[canon(a) for a in sys.argv], argv_same=sys.argv is prev_argv, argv_cap=sys.argv is A0,
                        path=[canon(a) for a in sys.path], path_same=sys.path is prev_path,
                        enabled=gp.enabled, profile=label(gp._profile, run_number, own_hint), builtin=blt,
                        threads=len(hs), thread_kinds=sorted({type(t).__name__ for t in hs}),
                        tracing=bool(sys.gettrace() is not None or sys.getprofile() is not None or tool_set()))

        def ordinary_use(op):
            """-> (answer code, error text): 0 returned its argument / nothing to answer, 1 wrapped, 2 TypeError, 3 other"""
            so = io.StringIO()
            with contextlib.redirect_stdout(so):
                try:
                    if op == 'enable':
                        gp.enable()
                        return 0, None
                    if op == 'disable':
                        gp.disable()
                        return 0, None

                    def f(x):
                        return x + 1
                    g = gp(f)
                    ok = g(1) == 2
                    return ((0 if g is f else 1) if ok else 3), None
                except TypeError as e:
                    return 2, 'TypeError: %s' % e
                except Exception as e:  # noqa
                    return 3, '%s: %s' % (type(e).__name__, e)
        before = observe(sys.argv, sys.path, None, None)
        seen = []
        for j, run in enumerate(case['runs']):
            pre = []
            for op in run.get('pre_use', []):
                pa, pp = sys.argv, sys.path
                code, err = ordinary_use(op)
                ob = observe(pa, pp, None, None)
                ob['code'], ob['err'] = code, err
                pre.append(ob)
            prev_argv, prev_path = sys.argv, sys.path
            so, se = io.StringIO(), io.StringIO()
            if run.get('stdout_closed'):
                so.close()          # kernprof's own print()s (after the results are dumped) raise ValueError
            raised = None
            with contextlib.redirect_stdout(so), contextlib.redirect_stderr(se):
                try:
                    kernprof.main(list(run['args']))
                except BaseException as e:  # noqa
                    raised = type(e).__name__
            ob = observe(prev_argv, prev_path, j, raised, own_hint=bool(run.get('setup_uses')), plain=bool(run.get('plain')))
            ob['stderr'] = se.getvalue()[-300:]
            ob['pre'] = pre
            seen.append(ob)
        # ordinary use of the importable decorator afterwards
        use, use_err = ordinary_use('decorate')
        out.append(dict(before=before, seen=seen, use=use, use_err=use_err))
    reset(dict(profile='undecided', argv=['driver'], argv_rebound=False, path_rebound=False))
    import atexit
    atexit.unregister(gp.show)          # hooks registered by the ordinary-use steps: not at the driver's exit
    rt_out = []
    for sched in payload.get('rt', []):
        r = run_rt(kernprof, sched, payload.get('rt_interval', 0.12))
        if r['noisy']:
            r = run_rt(kernprof, sched, payload.get('rt_interval', 0.12) * 2)
        rt_out.append(r)
    emit(dict(cases=out, rt=rt_out, kernprof_file=kernprof.__file__, tmp=tmp))


if __name__ == '__main__':
    main()
