"""Implementation side of C03, stream `kern`: callables decorated by kernprof's own profiler while kernprof's
interval timer (`kernprof -i N`) is dumping statistics.

The REAL kernprof.main runs in-process (`-b -i 1`, `-l -i 1`, or plain `-i 1`) on a small script that calls
back into `play()` below.  kernprof.RepeatedTimer is replaced by a recorder, so that the function kernprof
hands to its timer is known; a scenario's `tick` step calls exactly that function, from another thread as the
real timer does, and joins it - the moment of the tick is part of the input instead of wall-clock luck.

Scenario steps (each is applied to the decorated callable AND to its undecorated twin; both outcomes recorded):
  ['call', a]      fn(a)                      (returns a + 10)
  ['raise', a]     fn_raise(a)                (raises KeyError)
  ['gstart', n]    g = gen(n); next(g)        ['gsend', v]  g.send(v)       ['gclose'] g.close()
  ['costart']      c = co(); c.send(None)     ['cosend', v] c.send(v)       (a suspended decorated coroutine keeps
                                                                             its profiler's enable_count at 1)
  ['tick']         the timer fires
"""
import builtins
import contextlib
import io
import os
import sys
import threading

STATE = {'scenario': None, 'result': None}
_MISSING = object()


class RecordingTimer:
    """stands in for kernprof.RepeatedTimer: remembers what kernprof wants run periodically"""
    instances = []

    def __init__(self, interval, function, *args, **kwargs):
        self.interval, self.function, self.args, self.kwargs = interval, function, args, kwargs
        self.stopped = False
        RecordingTimer.instances.append(self)

    def start(self):
        pass

    def stop(self):
        self.stopped = True


class Susp:
    __slots__ = ('v',)

    def __init__(self, v):
        self.v = v

    def __await__(self):
        r = yield self.v
        return r


def outcome(thunk):
    try:
        return ['ret', thunk()]
    except StopIteration as e:
        return ['stop', e.value]
    except BaseException as e:      # noqa
        return ['exc', type(e).__name__]


def play(profile):
    """called by the script that kernprof runs; `profile` is the decorator kernprof installed"""
    sc = STATE['scenario']

    def fn(a):
        return a + 10

    def fn_raise(a):
        raise KeyError(a)

    def gen(n):
        total = 0
        while n:
            got = yield n
            total += got or 0
            n -= 1
        return total

    async def co():
        total = 0
        for i in range(3):
            total += (await Susp(i)) or 0
        return total

    plain = dict(fn=fn, fn_raise=fn_raise, gen=gen, co=co)
    deco = {k: profile(v) for k, v in plain.items()}
    objs = {'plain': {}, 'deco': {}}
    steps_out = []
    for st in sc['steps']:
        if st[0] == 'tick':
            errs = []

            def fire():
                try:
                    for t in RecordingTimer.instances:
                        t.function(*t.args, **t.kwargs)
                except BaseException as e:      # noqa
                    errs.append(type(e).__name__)
            th = threading.Thread(target=fire)
            th.start()
            th.join()
            steps_out.append(['tick', errs, len(RecordingTimer.instances)])
            continue
        pair = []
        for side, fs in (('plain', plain), ('deco', deco)):
            o = objs[side]
            if st[0] == 'call':
                pair.append(outcome(lambda: fs['fn'](st[1])))
            elif st[0] == 'raise':
                pair.append(outcome(lambda: fs['fn_raise'](st[1])))
            elif st[0] == 'gstart':
                def start():
                    o['g'] = fs['gen'](st[1])
                    return next(o['g'])
                pair.append(outcome(start))
            elif st[0] == 'gsend':
                pair.append(outcome(lambda: o['g'].send(st[1])) if 'g' in o else ['none'])
            elif st[0] == 'gclose':
                pair.append(outcome(lambda: o['g'].close()) if 'g' in o else ['none'])
            elif st[0] == 'costart':
                def cstart():
                    o['c'] = fs['co']()
                    return o['c'].send(None)
                pair.append(outcome(cstart))
            elif st[0] == 'cosend':
                pair.append(outcome(lambda: o['c'].send(st[1])) if 'c' in o else ['none'])
        steps_out.append([st[0]] + pair)
    # leave nothing suspended behind (a decorated coroutine holds its profiler enabled)
    for side in ('plain', 'deco'):
        for k in ('g', 'c'):
            ob = objs[side].pop(k, None)
            if ob is not None:
                with contextlib.suppress(BaseException):
                    ob.close()
    STATE['result'] = steps_out


SCRIPT = '''import builtins
from harness.drivers import c03_kern
try:
    _p = builtins.__dict__['profile']
except KeyError:
    from line_profiler import profile as _p
c03_kern.play(_p)
'''


def tool_free():
    return sys.monitoring.get_tool(sys.monitoring.PROFILER_ID) is None


def run_case(c, tmp):
    import kernprof
    script = os.path.join(tmp, 'c03_kern_script.py')
    out = os.path.join(tmp, 'c03_kern.prof')
    with open(script, 'w') as f:
        f.write(SCRIPT)
    with contextlib.suppress(OSError):
        os.remove(out)
    RecordingTimer.instances.clear()
    STATE.update(scenario=c, result=None)
    saved_argv, saved_path, saved_cwd = sys.argv, list(sys.path), os.getcwd()
    saved_profile = builtins.__dict__.get('profile', _MISSING)
    saved_timer = kernprof.RepeatedTimer
    kernprof.RepeatedTimer = RecordingTimer
    args = {'b': ['-b'], 'l': ['-l'], 'plain': []}[c['mode']] + ['-i', '1', '-o', out, script]
    buf = io.StringIO()
    try:
        with contextlib.redirect_stdout(buf), contextlib.redirect_stderr(buf):
            try:
                kernprof.main(args)
                how = 'ok'
            except SystemExit as e:
                how = 'exit:%r' % (e.code,)
            except BaseException as e:      # noqa
                how = 'exc:' + type(e).__name__
    finally:
        kernprof.RepeatedTimer = saved_timer
        sys.argv = saved_argv
        sys.path[:] = saved_path
        os.chdir(saved_cwd)
        if saved_profile is _MISSING:
            builtins.__dict__.pop('profile', None)
        else:
            builtins.__dict__['profile'] = saved_profile
    free = tool_free()
    if not free:
        sys.monitoring.free_tool_id(sys.monitoring.PROFILER_ID)
    timers = RecordingTimer.instances
    return dict(steps=STATE['result'], main=how, timers=len(timers), stopped=all(t.stopped for t in timers),
                free=free, dumped=os.path.exists(out) and os.path.getsize(out) > 0)


def run(cases, tmp):
    os.makedirs(tmp, exist_ok=True)
    res = []
    for c in cases:
        try:
            res.append(run_case(c, tmp))
        except BaseException as e:      # noqa
            import traceback
            res.append(dict(driver_error='%s: %s' % (type(e).__name__, e), tb=traceback.format_exc()[-1500:]))
    for name in ('c03_kern_script.py', 'c03_kern.prof'):
        with contextlib.suppress(OSError):
            os.remove(os.path.join(tmp, name))
    return res
