"""Python AST -> AstLite (coq/theories/Ast/AstLite.v), and AstLite -> Coq text.

Used by the C08/C09 drivers (inside the implementation's process) and by the
property harnesses (to print case shards).  No line_profiler import here.

JSON form of a statement:
  ['F', async, name, [deco...], [stmt...], line, hdr]  deco = ['N', name] | ['D', id]; hdr = id of args/returns
  ['C', name, id, [stmt...], line]
  ['I', [[name, asname]...], line]
  ['IF', module|None, [[name, asname]...], level, line]
  ['X', id, [[owner_line, [stmt...]]...], line]
  ['O', id, line]                                      id < 0: a string-constant expression statement
  ['P', dotted_name, line|None|-1, flags]               profile.add_imported_function_or_module(<dotted>)

Everything the transformers never look at is interned: equal ids <=> equal
ast.dump (without positions) of the collapsed part.
"""
import ast

PROFILER = 'profile'
ATTR = 'add_imported_function_or_module'


class Interner:
    def __init__(self):
        self.pos = {}
        self.neg = {}
        self.node_ids = {}     # id(node) of every node inside a registration statement -> count (shared nodes)

    def get(self, key, negative=False):
        tab = self.neg if negative else self.pos
        if key not in tab:
            tab[key] = (-(len(tab) + 1)) if negative else len(tab)
        return tab[key]


def _dotted(e):
    if isinstance(e, ast.Name):
        return e.id
    if isinstance(e, ast.Attribute) and isinstance(e.ctx, ast.Load):
        b = _dotted(e.value)
        return None if b is None else b + '.' + e.attr
    return None


def prof_call_name(st):
    """dotted name if `st` is  profile.add_imported_function_or_module(<dotted>)  else None"""
    if not isinstance(st, ast.Expr) or not isinstance(st.value, ast.Call):
        return None
    c = st.value
    f = c.func
    if not (isinstance(f, ast.Attribute) and f.attr == ATTR and isinstance(f.value, ast.Name)
            and f.value.id == PROFILER):
        return None
    if len(c.args) != 1 or c.keywords:
        return None
    return _dotted(c.args[0])


def _dump(x):
    if isinstance(x, ast.AST):
        return ast.dump(x, include_attributes=False)
    if isinstance(x, list):
        return '[' + ','.join(_dump(y) for y in x) + ']'
    return repr(x)


def _is_stmt_list(v):
    return isinstance(v, list) and v and all(isinstance(x, ast.stmt) for x in v)


def conv_body(body, it):
    return [conv_stmt(s, it) for s in body]


def conv_deco(d, it):
    if isinstance(d, ast.Name):
        return ['N', d.id]
    return ['D', it.get('deco:' + _dump(d))]


def conv_stmt(s, it):
    line = getattr(s, 'lineno', None)
    if isinstance(s, (ast.FunctionDef, ast.AsyncFunctionDef)):
        # args / returns / type params are never touched: interned as a header id, which
        # coq_stmt prints as part of the (uninspected) function name: "name#hdr"
        hdr = it.get('fhdr:' + _dump(s.args) + _dump(s.returns) + _dump(getattr(s, 'type_params', [])))
        return ['F', isinstance(s, ast.AsyncFunctionDef), s.name,
                [conv_deco(d, it) for d in s.decorator_list], conv_body(s.body, it), line, hdr]
    if isinstance(s, ast.ClassDef):
        hid = it.get('chdr:' + _dump(s.bases) + _dump(s.keywords) + _dump(s.decorator_list)
                     + _dump(getattr(s, 'type_params', [])))
        return ['C', s.name, hid, conv_body(s.body, it), line]
    if isinstance(s, ast.Import):
        return ['I', [[a.name, a.asname] for a in s.names], line]
    if isinstance(s, ast.ImportFrom):
        return ['IF', s.module, [[a.name, a.asname] for a in s.names], s.level, line]
    pn = prof_call_name(s)
    if pn is not None:
        # the statement's location is the location of ALL its nodes: a node with another line, or a
        # node object shared with another registration statement, makes the location -1 (nowhere);
        # a statement spanning several lines is flagged (an inserted call must sit on one line)
        nodes = [n for n in ast.walk(s) if 'lineno' in getattr(n, '_attributes', ())]
        lines_ = {getattr(n, 'lineno', None) for n in nodes}
        shared = False
        for n in ast.walk(s):
            it.node_ids[id(n)] = it.node_ids.get(id(n), 0) + 1
            shared = shared or it.node_ids[id(n)] > 1
        multi = any(getattr(n, 'end_lineno', None) not in (None, getattr(n, 'lineno', None)) for n in nodes)
        loc = line if (len(lines_) == 1 and not shared) else -1
        return ['P', pn, loc, dict(multiline=multi, shared=shared, mixed=len(lines_) != 1)]
    # compound statements: every nested statement list, in generic_visit (field) order
    bodies = []
    hdr = [type(s).__name__]
    compound = False
    for fld, val in ast.iter_fields(s):
        if isinstance(val, list) and val and all(isinstance(x, ast.stmt) for x in val):
            compound = True
            bodies.append([line, conv_body(val, it)])
            hdr.append('<%s>' % fld)
        elif isinstance(val, list) and val and all(isinstance(x, ast.ExceptHandler) for x in val):
            compound = True
            for h in val:
                bodies.append([getattr(h, 'lineno', line), conv_body(h.body, it)])
                hdr.append('<handler %s %r>' % (_dump(h.type), h.name))
        elif isinstance(val, list) and val and all(isinstance(x, ast.match_case) for x in val):
            compound = True
            for c in val:
                bodies.append([line, conv_body(c.body, it)])
                hdr.append('<case %s %s>' % (_dump(c.pattern), _dump(c.guard)))
        else:
            hdr.append('%s=%s' % (fld, _dump(val)))
    if compound or isinstance(s, (ast.If, ast.For, ast.While, ast.Try, ast.With, ast.AsyncFor, ast.AsyncWith,
                                  ast.Match) + ((ast.TryStar,) if hasattr(ast, 'TryStar') else ())):
        return ['X', it.get('x:' + '|'.join(hdr)), bodies, line]
    if isinstance(s, ast.Expr) and isinstance(s.value, ast.Constant) and isinstance(s.value.value, str):
        return ['O', it.get('doc:' + repr(s.value.value), negative=True), line]
    return ['O', it.get('o:' + _dump(s)), line]


def conv_module(tree, it):
    it.node_ids = {}
    return conv_body(tree.body, it)


# ---- statistics helpers (python side) -------------------------------------------------
def walk(body):
    for s in body:
        yield s
        k = s[0]
        if k == 'F':
            yield from walk(s[4])
        elif k == 'C':
            yield from walk(s[3])
        elif k == 'X':
            for _l, b in s[2]:
                yield from walk(b)


def depth(body, d=1):
    m = d if body else 0
    for s in body:
        k = s[0]
        if k == 'F':
            m = max(m, depth(s[4], d + 1))
        elif k == 'C':
            m = max(m, depth(s[3], d + 1))
        elif k == 'X':
            for _l, b in s[2]:
                m = max(m, depth(b, d + 1))
    return m


def funcs(body):
    return [s for s in walk(body) if s[0] == 'F']


def regs(body):
    return [s[1] for s in walk(body) if s[0] == 'P']


def erase(body):
    """python mirror of AstLite.erase (used by the python-side spec predicates)"""
    out = []
    for s in body:
        k = s[0]
        if k == 'P':
            continue
        if k == 'F':
            out.append(['F', s[1], s[2], [d for d in s[3] if d != ['N', PROFILER]], erase(s[4]), s[5], s[6]])
        elif k == 'C':
            out.append(['C', s[1], s[2], erase(s[3]), s[4]])
        elif k == 'X':
            out.append(['X', s[1], [[l, erase(b)] for l, b in s[2]], s[3]])
        else:
            out.append(s)
    return out


# ---- AstLite -> Coq text ---------------------------------------------------------------
def _ascii(s):
    for ch in s:
        if not (32 <= ord(ch) < 127):
            raise ValueError('non-ASCII/unprintable character in Coq string: %r' % s)
    return '"' + s.replace('"', '""') + '"'


def _z(n):
    return '(%d)' % n


def _ostr(s):
    return 'None' if s is None else '(Some %s)' % _ascii(s)


def _names(ns):
    return '[' + '; '.join('(%s, %s)' % (_ascii(n), _ostr(a)) for n, a in ns) + ']'


def coq_stmt(s):
    k = s[0]
    if k == 'F':
        decos = '[' + '; '.join(('DName %s' % _ascii(d[1])) if d[0] == 'N' else ('DOther %s' % _z(d[1]))
                                for d in s[3]) + ']'
        return '(FuncDef %s %s %s %s %s)' % ('true' if s[1] else 'false', _ascii('%s#%d' % (s[2], s[6])),
                                             decos, coq_body(s[4]), _z(s[5]))
    if k == 'C':
        return '(ClassDef %s %s %s %s)' % (_ascii(s[1]), _z(s[2]), coq_body(s[3]), _z(s[4]))
    if k == 'I':
        return '(Import %s %s)' % (_names(s[1]), _z(s[2]))
    if k == 'IF':
        return '(ImportFrom %s %s %s %s)' % (_ostr(s[1]), _names(s[2]), _z(s[3]), _z(s[4]))
    if k == 'X':
        return '(Compound %s [%s] %s)' % (_z(s[1]), '; '.join('(%s, %s)' % (_z(l), coq_body(b)) for l, b in s[2]), _z(s[3]))
    if k == 'O':
        return '(Other %s %s)' % (_z(s[1]), _z(s[2]))
    if k == 'P':
        return '(ProfCall %s %s)' % (_ascii(s[1]), 'None' if s[2] is None else '(Some %s)' % _z(s[2]))
    raise ValueError(k)


def coq_body(b):
    return '[' + '; '.join(coq_stmt(s) for s in b) + ']'
