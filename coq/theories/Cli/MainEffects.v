(* E3 - kernprof.main as an effect program over the process-global state it touches
   (hand model, tied to /repo by the in-process correspondence runs of C19; the global
   `profile` object is driven through the *translated* _kernprof_overwrite / __call__).

   What is modelled, with the lines of kernprof.py (repaired tree) it stands for:
     @_restore_sys_lists('argv', 'path')                       258-285, 348
         a contextlib.contextmanager used as a decorator: on every CALL of main the lists
         sys.argv / sys.path are looked up, copied, the body runs, and in a `finally` the
         copies are written back and the names are put back on those list objects.
     sys.argv = [options.script] + options.args               442   (REBINDS the name)
     sys.path.insert(0, ...)                                   448, 457, 495 (in place)
     old_global_state = ...; install_profiler(prof); ...        483-484, 556-558
         ... global_profiler._profile, .enabled = old_global_state   (in the finally)
     builtins.__dict__['profile'] = prof                       486-487 (never removed)
     rt = RepeatedTimer(...) once, rt.stop() in the finally    500-501, 533-535
     try / except (KeyboardInterrupt, SystemExit) / finally    504-558

   sys.argv and sys.path are *references* into a heap of list objects, so rebinding the
   name and updating the object in place are different things.

   The model is parametrised by six booleans [Fixes]; all-false is the tree before the four
   "fix:" commits 204c2e5, d567ae1, f436ae3, 2d3e878, a77d816, fcd15c8 (decorators capturing the lists at
   import and writing back without a finally, install_profiler(None), two timers).
   [current] is the tree as it is now.  Keeping the unrepaired behaviours in the model lets
   Props/C19.v also state that each repair is necessary. *)
From LP Require Import Prelude.Py Explicit.Base Gen.GlobalProfiler.

(* ---- repairs that can be switched on ------------------------------------------------ *)
Record Fixes := mkFixes {
  fx_argv_inplace : bool;  (* main writes `sys.argv[:] = ...` instead of rebinding sys.argv *)
  fx_at_call : bool;       (* the restoring decorators look sys.argv / sys.path up when main is
                              CALLED (not at import) and put the name back on that object *)
  fx_finally : bool;       (* the restoring decorators write back in a `finally` *)
  fx_profile : bool;       (* main puts the global profile's (enabled, _profile) back as found *)
  fx_timer : bool;         (* the RepeatedTimer is created once *)
  fx_builtin : bool;       (* main removes / restores builtins.profile *)
  fx_autoprof : bool;      (* -l: outstanding enable_by_count() calls - auto-profiling's registration statements
                              (-p), or the program's own - are balanced before main ends *)
  fx_profile_first : bool; (* main hands the decorator back at the TOP of its finally, before it writes /
                              shows the results - which can fail (5d3505e) *)
  fx_missing : bool;       (* a script / module that cannot be found: the decorator (already taken over) is
                              handed back before SystemExit leaves main *)
  fx_untraced : bool;      (* -l: main also releases the profiler when the program did
                              `profile.enable(); sys.settrace(None)` (trace function gone, sys.monitoring id kept) *)
  fx_cprofile_off : bool;  (* cProfile flavour: main switches the profiler off itself instead of relying on
                              dump_stats() -> create_stats() (which is not reached when the output file cannot be opened) *)
  fx_direct_enable : bool  (* -l: main switches the LineProfiler off even when the program called
                              profile.enable() itself and ended before profile.disable().  fcd15c8 does it
                              only `if sys.gettrace() is prof`, i.e. when the trace slot holds THIS run's
                              profiler - which in this model is exactly the leaking case: a profiler found
                              enabled at entry is never displaced (the program's enable() raises instead),
                              and the slot then keeps the foreign profiler, which main must not touch *)
}.

(* ===> the behaviour of the current tree (edit here if kernprof.main changes again) <===
   repaired: lists looked up at call time + names put back (f436ae3), finally (d567ae1),
   decorator state handed back (2d3e878), one timer (204c2e5).
   decorator state handed back (2d3e878), one timer (204c2e5), auto-profiling's
   enable_by_count() balanced in main's finally (a77d816).
   fcd15c8: -l also undoes a program's own profile.enable()
   (`if sys.gettrace() is prof: prof.disable()`); 5d3505e: the decorator is handed back first.
   not changed: sys.argv is still rebound by main (harmless now); builtins.profile stays;
   three defects: fx_missing, fx_untraced, fx_cprofile_off (see Props/C19.v). *)
Definition current : Fixes := mkFixes false true true true true false true true false false false true.
(* the tree before the repairs *)
Definition unrepaired : Fixes := mkFixes false false false false false false false false false false false false.

(* ---- the state --------------------------------------------------------------------- *)
Definition heap := Z -> list string.
Definition upd (h : heap) (i : Z) (v : list string) : heap := fun j => if Z.eqb j i then v else h j.

(* a module attribute naming a list object, and the object the decorator captured *)
Record cell := mkCell { heap_ : heap; ref : Z; cap : Z }.
Definition cur (c : cell) : list string := heap_ c (ref c).
Definition write_obj (i : Z) (v : list string) (c : cell) : cell := mkCell (upd (heap_ c) i v) (ref c) (cap c).
Definition bind (i : Z) (c : cell) : cell := mkCell (heap_ c) i (cap c).
Definition insert0 (x : string) (c : cell) : cell := write_obj (ref c) (x :: cur c) c.
Definition append_cur (x : string) (c : cell) : cell := write_obj (ref c) (cur c ++ [x]) c.
(* a list object nobody reachable refers to yet *)
Definition fresh (c : cell) : Z := Z.max (ref c) (cap c) + 1.

(* name = name + [x]: the name moves to a new list object *)
Definition rebind_with (x : string) (c : cell) : cell := bind (fresh c) (write_obj (fresh c) (cur c ++ [x]) c).

Record St := mkSt {
  argv : cell;                    (* sys.argv *)
  path : cell;                    (* sys.path *)
  gp : GP;                        (* line_profiler.profile *)
  builtin : option prof;          (* builtins.profile *)
  timers : Z;                     (* RepeatedTimer chains still running *)
  tracing : option prof;          (* the profiler that is enabled right now *)
  next_prof : Z                   (* names kernprof's profiler objects: Ext 0, Ext 1, ... *)
}.

Definition upd_argv (f : cell -> cell) (s : St) : St :=
  mkSt (f (argv s)) (path s) (gp s) (builtin s) (timers s) (tracing s) (next_prof s).
Definition upd_path (f : cell -> cell) (s : St) : St :=
  mkSt (argv s) (f (path s)) (gp s) (builtin s) (timers s) (tracing s) (next_prof s).
Definition set_gp (g : GP) (s : St) : St :=
  mkSt (argv s) (path s) g (builtin s) (timers s) (tracing s) (next_prof s).
Definition set_builtin (b : option prof) (s : St) : St :=
  mkSt (argv s) (path s) (gp s) b (timers s) (tracing s) (next_prof s).
Definition set_timers (t : Z) (s : St) : St :=
  mkSt (argv s) (path s) (gp s) (builtin s) t (tracing s) (next_prof s).
Definition set_tracing (t : option prof) (s : St) : St :=
  mkSt (argv s) (path s) (gp s) (builtin s) (timers s) t (next_prof s).
Definition set_next_prof (n : Z) (s : St) : St :=
  mkSt (argv s) (path s) (gp s) (builtin s) (timers s) (tracing s) n.

(* ---- the RepeatedTimer behind -i N (kernprof.py 147-179) --------------------------------------
   __init__ calls start(); start() arms a threading.Timer unless is_running; the timer thread
   runs _run(): `is_running = False; start(); dump_func(outfile)` - it re-arms BEFORE dumping;
   stop() cancels the Timer object `_timer` refers to (a no-op on one that has fired) and clears
   is_running.  The dump takes time, so stop() in the main thread can fall into it. *)
Inductive tevent :=
| Fire          (* the armed timer expires: its thread enters _run *)
| DumpDone      (* one dump in progress returns: that thread leaves _run *)
| Stop.         (* rt.stop() in the main thread *)
Inductive tstatus := Armed | Fired | Cancelled.

Record RT := mkRT {
  rt_running : bool;        (* self.is_running *)
  rt_cur : tstatus;         (* the Timer object self._timer refers to *)
  rt_orphans : nat;         (* armed Timer objects nothing refers to any more *)
  rt_dumping : nat          (* threads inside dump_func *)
}.

Definition rt_start (t : RT) : RT :=
  if rt_running t then t
  else mkRT true Armed (rt_orphans t + match rt_cur t with Armed => 1 | _ => 0 end) (rt_dumping t).

(* [rearm_first]: _run calls start() before dump_func (true: the tree as it is) or after it *)
Definition rt_step (rearm_first : bool) (t : RT) (e : tevent) : RT :=
  match e with
  | Fire =>
      match rt_cur t with
      | Armed => let t1 := mkRT false Fired (rt_orphans t) (S (rt_dumping t)) in
                 if rearm_first then rt_start t1 else t1
      | _ => t                                           (* nothing armed: nothing can expire *)
      end
  | DumpDone =>
      match rt_dumping t with
      | O => t
      | S n => let t1 := mkRT (rt_running t) (rt_cur t) (rt_orphans t) n in
               if rearm_first then t1 else rt_start t1
      end
  | Stop => mkRT false (match rt_cur t with Armed => Cancelled | c => c end) (rt_orphans t) (rt_dumping t)
  end.

Definition rt_init : RT := mkRT true Armed 0 0.           (* RepeatedTimer(...): __init__ -> start() *)
Definition rt_exec (rearm_first : bool) (t : RT) (es : list tevent) : RT := fold_left (rt_step rearm_first) es t.
Definition rt_armed (t : RT) : nat := match rt_cur t with Armed => 1 | _ => 0 end + rt_orphans t.
Definition rt_threads (t : RT) : nat := rt_armed t + rt_dumping t.

(* helper threads that remain once rt.stop() has been called after the schedule [es] and the
   dumps then in progress have returned *)
Definition rt_leftover (rearm_first : bool) (es : list tevent) : nat :=
  let t := rt_exec rearm_first rt_init (es ++ [Stop]) in
  rt_threads (rt_exec rearm_first t (repeat DumpDone (rt_dumping t))).

(* the order in the current tree *)
Definition rearm_before_dump : bool := true.

(* ---- ordinary use of the importable decorator -------------------------------------------------- *)
Inductive uop :=
| UEnable                         (* line_profiler.profile.enable() *)
| UDisable                        (* line_profiler.profile.disable() *)
| UDecorate.                      (* line_profiler.profile(f) *)

(* through the translated methods, in the world of the moment (no LINE_PROFILE, sys.argv = av);
   a call that raises leaves the object as it was *)
Definition uop_gp (u : uop) (av : list string) (g : GP) : GP :=
  match u with
  | UEnable => match enable g None with Ok (_, g') => g' | Err _ => g end
  | UDisable => match disable g with Ok (_, g') => g' | Err _ => g end
  | UDecorate => match decorate g (fun _ => None) av (Fn 0) with Ok (_, g') => g' | Err _ => g end
  end.
Definition uses_gp (us : list uop) (av : list string) (g : GP) : GP := fold_left (fun g u => uop_gp u av g) us g.

(* ---- inputs of one run ---------------------------------------------------------------- *)
Inductive outcome := Return | SysExit | KbdInt | Exc.     (* how the profiled program ends *)
Inductive result := Returned | Raised.                    (* how kernprof.main ends *)

Inductive leave :=
| LNone                    (* no, or balanced: enable()..disable(), `with profile:`, decorated functions *)
| LEnable                  (* profile.enable() without disable() *)
| LByCount                 (* profile.enable_by_count() / profile.__enter__() without the matching exit *)
| LEnableUntraced.         (* profile.enable() and later sys.settrace(None): the trace function is gone,
                              the sys.monitoring tool id the profiler claimed is not released *)

Record Prog := mkProg {
  p_outcome : outcome;
  p_touch_path : bool;     (* the program does sys.path.append("/prog-added") *)
  p_touch_argv : bool;     (* the program does sys.argv.append("prog-added") *)
  p_rebind_path : bool;    (* ... and then sys.path = sys.path + ["/prog-rebound"]  (a NEW list) *)
  p_rebind_argv : bool;    (* ... and sys.argv = sys.argv + ["prog-rebound"] *)
  p_uses_builtin : bool;   (* the program decorates with the builtin `profile` whenever one exists
                              (`try: profile / except NameError: profile = lambda f: f`) *)
  p_leaves : leave;        (* the program switches the builtin `profile` on itself and ends (returns, exits,
                              raises) before switching it off again *)
  p_regs : Z;              (* -l -p sel: how many of the program's import statements the selection
                              matches (with --prof-imports and the script selected: all of them).
                              Auto-profiling puts `profile.add_imported_function_or_module(x)` after
                              each; for a function / class / module it ends in enable_by_count() *)
  p_sched : list tevent    (* -i N: what the periodic-dump timer does while the program runs
                              (expiries and dump completions, in any interleaving) *)
}.

Record Opts := mkOpts {
  o_line : bool;               (* -l *)
  o_builtin : bool;            (* -b *)
  o_module : bool;             (* -m mod *)
  o_setup : option string;     (* -s file: Some (dirname file) *)
  o_setup_uses : list uop;     (* what the setup file does with line_profiler.profile (it runs
                                  "outside of the profiler": before kernprof takes the decorator over) *)
  o_interval : Z;              (* -i N (0 = not given / 0; may be negative) *)
  o_dump_fails : bool;         (* -o names a file that cannot be opened: prof.dump_stats() raises in main's finally *)
  o_print_fails : bool;        (* sys.stdout is closed: the first print() after the dump raises in main's finally *)
  o_script_missing : bool;     (* the script / module does not exist: find_script() raises SystemExit(1) - after
                                  the profiler was installed into the decorator and builtins, before the try *)
  o_new_argv : list string;    (* [script] + args *)
  o_script_dir : string;       (* os.path.dirname(script_file) *)
  o_cwd : string               (* os.path.abspath(os.curdir) *)
}.

(* _kernprof_overwrite through the translated method (it never raises) *)
Definition overwrite (g : GP) (p : option prof) : GP :=
  match kernprof_overwrite g p with Ok (_, g') => g' | Err _ => g end.

Definition setup_uses (o : Opts) : list uop := match o_setup o with Some _ => o_setup_uses o | None => [] end.

Definition result_of (o : outcome) : result := match o with Exc => Raised | _ => Returned end.

(* How the program really ends.  In plain cProfile mode (neither -l nor -b) kernprof does not
   set builtins.profile, so a program that uses the builtin when there is one picks up whatever
   an EARLIER in-process run left there; its decorated function then tries to enable that stale
   profiler inside the running cProfile, which CPython 3.12 refuses with ValueError. *)
Definition is_some {A} (x : option A) : bool := match x with Some _ => true | None => false end.

(* does the run execute registration statements? (kernprof.py 508-521: only with -l and -p) *)
Definition registers (o : Opts) (p : Prog) : bool := o_line o && (0 <? p_regs p).

(* A profiler that is ALREADY enabled when main is called (left by an earlier run, or the
   caller's) makes every attempt to enable another one raise ValueError on CPython 3.12
   (sys.monitoring PROFILER_ID is taken).  Plain cProfile mode: runctx fails before the program
   starts.  -l / -b: the program runs up to its first enable - a registration statement right
   after its imports if there is one, else the first call of a decorated function. *)
(* cProfile.Profile.dump_stats() -> create_stats() -> disable(): kernprof's final dump switches the
   cProfile flavour off as a side effect (kernprof.py ContextualProfile inherits it) *)
Definition cprofile_dump_disables : bool := true.

(* does this run end with its own profiler still enabled? *)
Definition leaks (cfg : Fixes) (o : Opts) (p : Prog) : bool :=
  negb (o_script_missing o) &&
  if o_line o then
    ((registers o p || match p_leaves p with LByCount => true | _ => false end) && negb (fx_autoprof cfg))
    || (match p_leaves p with LEnable => true | _ => false end && negb (fx_direct_enable cfg))
    || (match p_leaves p with LEnableUntraced => true | _ => false end && negb (fx_untraced cfg))
  else if o_builtin o then
    match p_leaves p with
    | LNone => false
    | _ => negb (fx_cprofile_off cfg) && (negb cprofile_dump_disables || o_dump_fails o)
    end
  else false.

(* does main get as far as the profiled program? *)
Definition ran (o : Opts) : bool := negb (o_script_missing o).
(* `if options.output_interval:` - ANY non-zero value, also a negative one (argparse takes `-i -2`): the timer is
   created with max(interval, 1) seconds, and the same truth test guards rt.stop() *)
Definition timed (o : Opts) : bool := negb (o_interval o =? 0) && ran o.
(* writing / announcing / showing the results fails: an exception leaves main's finally *)
Definition results_fail (o : Opts) : bool := ran o && (o_dump_fails o || o_print_fails o).

Definition body_runs (o : Opts) (p : Prog) (found_tracing : option prof) : bool :=
  ran o && (negb (is_some found_tracing) || ((o_line o || o_builtin o) && negb (registers o p))).

(* How the program really ends.  Besides the above: in plain cProfile mode kernprof does not set
   builtins.profile, so a program that uses the builtin when there is one picks up whatever an
   EARLIER in-process run left there; enabling that stale profiler inside the running cProfile is
   refused with ValueError as well. *)
Definition effective_outcome (o : Opts) (p : Prog) (found_builtin found_tracing : option prof) : outcome :=
  if is_some found_tracing then Exc
  else if p_uses_builtin p && negb (o_line o || o_builtin o) && is_some found_builtin
  then Exc else p_outcome p.

Definition run_result (o : Opts) (eff : outcome) : result :=
  if negb (ran o) || results_fail o then Raised else result_of eff.

Definition assign_argv (cfg : Fixes) (v : list string) (c : cell) : cell :=
  if fx_argv_inplace cfg then write_obj (ref c) v c
  else bind (fresh c) (write_obj (fresh c) v c).

(* ---- the body of main, top to bottom ------------------------------------------------- *)
Definition main_body (cfg : Fixes) (o : Opts) (p : Prog) (s : St) : result * St :=
  (* 442: sys.argv = [options.script] + options.args *)
  let s := upd_argv (assign_argv cfg (o_new_argv o)) s in
  (* 443-448: -m: sys.path.insert(0, cwd) *)
  let s := upd_path (fun c => if o_module o then insert0 (o_cwd o) c else c) s in
  (* 449-459: -s: sys.path.insert(0, dirname(setup)); the setup file is executed *)
  let s := upd_path (fun c => match o_setup o with Some d => insert0 d c | None => c end) s in
  let s := set_gp (uses_gp (setup_uses o) (cur (argv s)) (gp s)) s in
  (* 461-469: prof = LineProfiler() / ContextualProfile() *)
  let pr := Ext (next_prof s) in
  let s := set_next_prof (next_prof s + 1) s in
  (* 471-484: old_global_state = ...; install_profiler(prof) *)
  let found := gp s in
  let s := set_gp (overwrite (gp s) (Some pr)) s in
  (* 486-487: builtins.__dict__['profile'] = prof  (-l implies -b) *)
  let found_builtin := builtin s in
  let s := set_builtin (if o_line o || o_builtin o then Some pr else builtin s) s in
  (* 489-495: script mode: sys.path.insert(0, dirname(script_file)) *)
  let s := upd_path (fun c => if o_module o || negb (ran o) then c else insert0 (o_script_dir o) c) s in
  (* 499-501: the RepeatedTimer (created twice before 204c2e5) *)
  let timed := timed o in
  let s := set_timers (timers s + (if timed then (if fx_timer cfg then 1 else 2) else 0)) s in
  (* 502-532: try: the program runs; its profiled parts run with the profiler enabled and
     every one of them switches it off again on the way out (wrappers / runctx use finally) *)
  let found_tracing := tracing s in
  let s := set_tracing (if is_some found_tracing then found_tracing else Some pr) s in
  let s := upd_path (fun c => if p_touch_path p && body_runs o p found_tracing then append_cur "/prog-added" c else c) s in
  let s := upd_argv (fun c => if p_touch_argv p && body_runs o p found_tracing then append_cur "prog-added" c else c) s in
  let s := upd_path (fun c => if p_rebind_path p && body_runs o p found_tracing then rebind_with "/prog-rebound" c else c) s in
  let s := upd_argv (fun c => if p_rebind_argv p && body_runs o p found_tracing then rebind_with "prog-rebound" c else c) s in
  (* ... except ([leaks]) the registrations of auto-profiling: enable_by_count() once per registered
     import (line_profiler/autoprofile/line_profiler_utils.py:25), and a program that switches the
     builtin profile on and does not switch it off.  main's finally does, for -l,
     `while prof.enable_count > 0: prof.disable_by_count()` (a77d816) and
     `if sys.gettrace() is prof: prof.disable()` (fcd15c8: a direct enable(); only when the slot holds
     this run's profiler - below the slot is only ever set to [pr] when nothing was found in it);
     for the cProfile flavour the final dump_stats() disables. *)
  let s := set_tracing (if leaks cfg o p && negb (is_some found_tracing)
                        then Some pr else found_tracing) s in
  (* 531-532: except (KeyboardInterrupt, SystemExit): pass     533: finally: *)
  (* 534-535: rt.stop(); what is left of that timer once its dumps in progress have returned *)
  let s := set_timers (timers s - (if timed then 1 else 0)
                       + (if timed then Z.of_nat (rt_leftover rearm_before_dump (p_sched p)) else 0)) s in
  (* 556-558: the decorator state is handed back (install_profiler(None) before 2d3e878) *)
  (* in the finally the decorator is handed back FIRST (5d3505e; last before that, so that a failing
     dump / print / view skipped it); a missing script never reaches the try at all *)
  let handed_back := if ran o then fx_profile_first cfg || negb (results_fail o) else fx_missing cfg in
  let s := set_gp (if handed_back
                   then (if fx_profile cfg || negb (ran o)
                         then set_enabled (f_enabled found) (set_profile (f_profile found) (gp s))
                         else overwrite (gp s) None)
                   else gp s) s in
  let s := set_builtin (if fx_builtin cfg then found_builtin else builtin s) s in
  (run_result o (effective_outcome o p found_builtin found_tracing), s).

(* ---- the restoring decorator(s) around main, as contextlib runs them ------------------------------------- *)
Definition restore_cell (cfg : Fixes) (lst : Z) (old : list string) (c : cell) : cell :=
  let c1 := write_obj lst old c in               (* lst[:] = old *)
  if fx_at_call cfg then bind lst c1 else c1.

Definition with_restore (cfg : Fixes) (get : St -> cell) (put : (cell -> cell) -> St -> St)
           (body : St -> result * St) (s : St) : result * St :=
  let c := get s in
  let lst := if fx_at_call cfg then ref c else cap c in     (* which object the decorator holds *)
  let old := heap_ c lst in                                  (* old = lst.copy() *)
  let rs := body s in                                        (* yield *)
  match fst rs with
  | Returned => (Returned, put (restore_cell cfg lst old) (snd rs))
  | Raised => if fx_finally cfg then (Raised, put (restore_cell cfg lst old) (snd rs)) else rs
  end.

Definition main (cfg : Fixes) (o : Opts) (p : Prog) : St -> result * St :=
  with_restore cfg argv upd_argv (with_restore cfg path upd_path (main_body cfg o p)).

(* several in-process runs; a raising run is caught by the caller, who carries on *)
Definition run := (Opts * Prog)%type.
Fixpoint exec_runs (cfg : Fixes) (s : St) (rs : list run) : St :=
  match rs with
  | [] => s
  | (o, p) :: t => exec_runs cfg (snd (main cfg o p s)) t
  end.

(* ---- runs interleaved with ordinary use of the decorator ---------------------------------------- *)
Inductive act :=
| ARun (o : Opts) (p : Prog)      (* kernprof.main([...]) *)
| AUse (u : uop).                 (* enable() / disable() / a decoration, by the host program *)

Definition do_uop (u : uop) (s : St) : St := set_gp (uop_gp u (cur (argv s)) (gp s)) s.
Definition do_act (cfg : Fixes) (s : St) (a : act) : St :=
  match a with ARun o p => snd (main cfg o p s) | AUse u => do_uop u s end.
Definition exec_acts (cfg : Fixes) (s : St) (acts : list act) : St := fold_left (do_act cfg) acts s.

(* what the ordinary uses ALONE do to the decorator: the host's uses in the host's world (sys.argv
   = av), the uses made by a run's setup file in the world kernprof gives it (sys.argv = [script] + args) *)
Fixpoint user_gp (acts : list act) (av : list string) (g : GP) : GP :=
  match acts with
  | [] => g
  | ARun o p :: t => user_gp t av (uses_gp (setup_uses o) (o_new_argv o) g)
  | AUse u :: t => user_gp t av (uop_gp u av g)
  end.

(* ---- what can be observed, and the property ------------------------------------------- *)
(* ordinary use of the decorator afterwards: profile(f) raises iff this is false
   (world-independent, see [usable_spec] in Cli/MainEffectsProofs.v) *)
Definition usable (g : GP) : bool :=
  match decorate g (fun _ => None) [] (Fn 0) with Ok _ => true | Err _ => false end.

Definition undecided (g : GP) : bool :=
  match f_enabled g, f_profile g with None, None => true | _, _ => false end.

Definition same_decision (a b : GP) : bool :=
  opt_eqb Bool.eqb (f_enabled a) (f_enabled b) && opt_eqb prof_eqb (f_profile a) (f_profile b).

Definition strs_eqb := list_eqb String.eqb.

(* the five clauses of C19, about the state before the run(s) and after *)
Definition argv_ok (b a : St) : bool := strs_eqb (cur (argv b)) (cur (argv a)).
Definition path_ok (b a : St) : bool := strs_eqb (cur (path b)) (cur (path a)).
(* "usable and back to deciding for itself": usable, with the decision and the profiler it was
   found with (undecided if it was undecided; a user's explicit enable() / disable() is kept) *)
Definition profile_ok (b a : St) : bool := usable (gp a) && same_decision (gp b) (gp a).
Definition tracing_ok (b a : St) : bool := opt_eqb prof_eqb (tracing b) (tracing a).
Definition timers_ok (b a : St) : bool := Z.eqb (timers b) (timers a).

Definition restored (b a : St) : bool :=
  argv_ok b a && path_ok b a && profile_ok b a && tracing_ok b a && timers_ok b a.

(* the full statement of C19 for a given behaviour of main *)
(* (setup files that themselves use the decorator are ordinary use: see [user_gp]) *)
Definition setup_silent (rs : list run) : bool :=
  forallb (fun r => match setup_uses (fst r) with [] => true | _ => false end) rs.
Definition C19_statement (cfg : Fixes) : Prop :=
  forall (s : St) (rs : list run), usable (gp s) = true -> setup_silent rs = true ->
                                   restored s (exec_runs cfg s rs) = true.

(* two interpreter states nobody can tell apart through the five clauses *)
Definition veq (a b : St) : Prop :=
  cur (argv a) = cur (argv b) /\ cur (path a) = cur (path b) /\ gp a = gp b
  /\ tracing a = tracing b /\ timers a = timers b.

(* ---- a concrete interpreter, for witnesses and for the case shards -------------------- *)
Definition mk_cell (contents : list string) (rebound : bool) : cell :=
  (* object 0 is the one kernprof saw at import; if the caller rebound the name since then,
     the name is on object 1 *)
  if rebound then mkCell (upd (fun _ => []) 1 contents) 1 0
  else mkCell (upd (fun _ => []) 0 contents) 0 0.

Definition mk_state (argv0 : list string) (argv_rebound : bool) (path0 : list string) (path_rebound : bool)
           (g : GP) (nprof : Z) : St :=
  mkSt (mk_cell argv0 argv_rebound) (mk_cell path0 path_rebound) g None 0 None nprof.

Definition st0 : St := mk_state ["driver"] false ["/lib"] false gp_init 0.
Definition opts0 : Opts := mkOpts true false false None [] 0 false false false ["prog.py"; "a"] "" "/T".
Definition returns : Prog := mkProg Return false false false false true LNone 0 [].
Definition raises : Prog := mkProg Exc false false false false true LNone 0 [Fire].
