(* Proofs about the effect model of kernprof.main (Cli/MainEffects.v) for C19. *)
From LP Require Import Prelude.Py Explicit.Base Gen.GlobalProfiler Cli.MainEffects.

(* ---- small facts ------------------------------------------------------------------- *)
Lemma upd_same h i v : upd h i v i = v.
Proof. unfold upd. rewrite Z.eqb_refl. reflexivity. Qed.

Lemma strs_eqb_refl l : strs_eqb l l = true.
Proof. induction l as [|x l IH]; [reflexivity|]. cbn. rewrite String.eqb_refl. exact IH. Qed.

Lemma prof_eqb_refl p : prof_eqb p p = true.
Proof. destruct p; cbn; apply Z.eqb_refl. Qed.

Lemma oprof_eqb_refl (p : option prof) : opt_eqb prof_eqb p p = true.
Proof. destruct p; [apply prof_eqb_refl|reflexivity]. Qed.

Lemma obool_eqb_refl (b : option bool) : opt_eqb Bool.eqb b b = true.
Proof. destruct b as [[|]|]; reflexivity. Qed.

(* profile(f) raises exactly when the object says "enabled" but has no profiler,
   whatever os.environ and sys.argv are *)
Lemma usable_spec g :
  usable g = match f_enabled g, f_profile g with Some true, None => false | _, _ => true end.
Proof. destruct g as [[[|]|] [p|] pre c a]; reflexivity. Qed.

Lemma decorate_raises_iff g environ av f :
  (exists e, decorate g environ av f = Err e) <-> usable g = false.
Proof.
  rewrite usable_spec. destruct g as [[[|]|] [p|] pre c a]; cbn [f_enabled f_profile]; split.
  all: try (intros [e H]; discriminate H). all: try discriminate. all: try reflexivity.
  - intros _. exists TypeError. reflexivity.
  - intros [e H]. unfold decorate in H. cbn [f_enabled] in H.
    destruct (implicit_setup _ environ av) as [[u g']|e'] eqn:E; [|].
    + unfold implicit_setup in E.
      match type of E with (if ?b then _ else _) = _ => destruct b end; cbn in E; inversion E; subst; cbn in H; discriminate.
    + unfold implicit_setup in E.
      match type of E with (if ?b then _ else _) = _ => destruct b end; cbn in E; discriminate.
  - intros [e H]. unfold decorate in H. cbn [f_enabled] in H.
    destruct (implicit_setup _ environ av) as [[u g']|e'] eqn:E; [|].
    + unfold implicit_setup in E.
      match type of E with (if ?b then _ else _) = _ => destruct b end; cbn in E; inversion E; subst; cbn in H; discriminate.
    + unfold implicit_setup in E.
      match type of E with (if ?b then _ else _) = _ => destruct b end; cbn in E; discriminate.
Qed.

(* ---- the RepeatedTimer: stop() leaves nothing behind, whenever it comes ------------------------- *)
Definition rt_stopped (t : RT) : Prop := rt_running t = false /\ rt_cur t <> Armed /\ rt_orphans t = O.

Lemma rt_step_orphans t e : rt_orphans t = O -> rt_orphans (rt_step true t e) = O.
Proof.
  intros H. destruct t as [r c o d]. cbn in H. subst o.
  destruct e; cbn; [destruct c; reflexivity|destruct d; reflexivity|reflexivity].
Qed.

Lemma rt_exec_orphans es : forall t, rt_orphans t = O -> rt_orphans (rt_exec true t es) = O.
Proof.
  induction es as [|e es IH]; intros t H; [exact H|]. cbn [rt_exec fold_left]. apply IH. apply rt_step_orphans. exact H.
Qed.

Lemma rt_step_stopped t e : rt_stopped t -> rt_stopped (rt_step true t e).
Proof.
  intros (R & C & O). destruct t as [r c o d]. cbn in R, C, O. subst r o. unfold rt_stopped.
  destruct e; cbn.
  - destruct c; [congruence| |]; cbn; repeat split; congruence.
  - destruct d; cbn; repeat split; assumption.
  - destruct c; [congruence| |]; repeat split; congruence.
Qed.

Lemma rt_exec_stopped es : forall t, rt_stopped t -> rt_stopped (rt_exec true t es).
Proof.
  induction es as [|e es IH]; intros t H; [exact H|]. cbn [rt_exec fold_left]. apply IH. apply rt_step_stopped. exact H.
Qed.

Lemma rt_stop_stops t : rt_orphans t = O -> rt_stopped (rt_step true t Stop).
Proof. intros H. destruct t as [r c o d]. cbn in H. subst o. unfold rt_stopped. destruct c; cbn; repeat split; congruence. Qed.

Lemma rt_drain t : rt_stopped t -> rt_threads (rt_exec true t (repeat DumpDone (rt_dumping t))) = O.
Proof.
  destruct t as [r c o d]. intros (R & C & O). cbn in R, C, O. subst r o. cbn [rt_dumping].
  induction d as [|d IH]; cbn.
  - unfold rt_threads, rt_armed. cbn. destruct c; [congruence|reflexivity|reflexivity].
  - exact IH.
Qed.

(* whatever happened before stop() and whatever happens afterwards: no timer is armed any more,
   none can be armed again, and the only threads left are dumps on their way out *)
Theorem rt_stop_final (pre post : list tevent) :
  let t := rt_exec true rt_init (pre ++ Stop :: post) in
  rt_armed t = O /\ rt_running t = false
  /\ rt_threads (rt_exec true t (repeat DumpDone (rt_dumping t))) = O.
Proof.
  assert (E : rt_exec true rt_init (pre ++ Stop :: post)
              = rt_exec true (rt_step true (rt_exec true rt_init pre) Stop) post).
  { unfold rt_exec. rewrite fold_left_app. reflexivity. }
  cbn zeta. rewrite E.
  assert (H0 : rt_orphans (rt_exec true rt_init pre) = O) by (apply rt_exec_orphans; reflexivity).
  pose proof (rt_exec_stopped post _ (rt_stop_stops _ H0)) as S.
  set (t := rt_exec true (rt_step true (rt_exec true rt_init pre) Stop) post) in *.
  split; [|split].
  - destruct S as (_ & C & O). unfold rt_armed. rewrite O. destruct (rt_cur t); [congruence|reflexivity|reflexivity].
  - apply S.
  - apply rt_drain. exact S.
Qed.

Theorem rt_leftover_none (es : list tevent) : rt_leftover rearm_before_dump es = O.
Proof.
  unfold rt_leftover, rearm_before_dump.
  replace (es ++ [Stop]) with (es ++ Stop :: []) by reflexivity.
  apply (rt_stop_final es []).
Qed.

(* with the other order (_run dumps first and re-arms afterwards) a stop() that falls into a
   dump is undone when the dump returns: one timer is armed again, for ever *)
Lemma rt_dump_first_leaks :
  rt_leftover false [Fire] = 1%nat
  /\ rt_armed (rt_exec false rt_init [Fire; Stop; DumpDone]) = 1%nat
  /\ rt_leftover false [] = O /\ rt_leftover false [Fire; DumpDone] = O.
Proof. vm_compute. repeat split; reflexivity. Qed.

(* ---- what main_body does to each part of the state -------------------------------------- *)
Definition path_after (o : Opts) (p : Prog) (tr : option prof) (c : cell) : cell :=
  let c := if o_module o then insert0 (o_cwd o) c else c in
  let c := match o_setup o with Some d => insert0 d c | None => c end in
  let c := if o_module o || negb (ran o) then c else insert0 (o_script_dir o) c in
  let c := if p_touch_path p && body_runs o p tr then append_cur "/prog-added" c else c in
  if p_rebind_path p && body_runs o p tr then rebind_with "/prog-rebound" c else c.

Definition argv_after (cfg : Fixes) (o : Opts) (p : Prog) (tr : option prof) (c : cell) : cell :=
  let c := assign_argv cfg (o_new_argv o) c in
  let c := if p_touch_argv p && body_runs o p tr then append_cur "prog-added" c else c in
  if p_rebind_argv p && body_runs o p tr then rebind_with "prog-rebound" c else c.

Definition tracing_after (cfg : Fixes) (o : Opts) (p : Prog) (n : Z) (tr : option prof) : option prof :=
  if leaks cfg o p && negb (is_some tr) then Some (Ext n) else tr.

(* g: the decorator as the setup file left it (that is what main snapshots and hands back) *)
(* is the decorator handed back at all? *)
Definition handback_ok (cfg : Fixes) (o : Opts) : bool :=
  if ran o then fx_profile_first cfg || negb (results_fail o) else fx_missing cfg.

Definition gp_after (cfg : Fixes) (o : Opts) (g : GP) (n : Z) : GP :=
  let g1 := overwrite g (Some (Ext n)) in
  if handback_ok cfg o
  then (if fx_profile cfg || negb (ran o) then set_enabled (f_enabled g) (set_profile (f_profile g) g1) else overwrite g1 None)
  else g1.

Lemma cur_assign cfg v c : cur (assign_argv cfg v c) = v.
Proof. unfold assign_argv, cur. destruct (fx_argv_inplace cfg); cbn; apply upd_same. Qed.

Definition gp_setup (o : Opts) (g : GP) : GP := uses_gp (setup_uses o) (o_new_argv o) g.

Definition timers_after (cfg : Fixes) (o : Opts) (p : Prog) (t : Z) : Z :=
  let timed := timed o in
  t + (if timed then (if fx_timer cfg then 1 else 2) else 0) - (if timed then 1 else 0)
  + (if timed then Z.of_nat (rt_leftover rearm_before_dump (p_sched p)) else 0).

Definition builtin_after (cfg : Fixes) (o : Opts) (b : option prof) (n : Z) : option prof :=
  if fx_builtin cfg then b else if o_line o || o_builtin o then Some (Ext n) else b.

Lemma main_body_eq cfg o p s :
  main_body cfg o p s
  = (run_result o (effective_outcome o p (builtin s) (tracing s)),
     mkSt (argv_after cfg o p (tracing s) (argv s)) (path_after o p (tracing s) (path s)) (gp_after cfg o (gp_setup o (gp s)) (next_prof s))
          (builtin_after cfg o (builtin s) (next_prof s)) (timers_after cfg o p (timers s)) (tracing_after cfg o p (next_prof s) (tracing s))
          (next_prof s + 1)).
Proof.
  unfold main_body, argv_after, path_after, gp_after, handback_ok, timers_after, builtin_after, tracing_after, gp_setup.
  destruct s as [a pa g b t tr n]. cbn. rewrite cur_assign.
  destruct (fx_builtin cfg); reflexivity.
Qed.

(* does the write-back of the restoring decorators happen? *)
Definition restoring (cfg : Fixes) (r : result) : bool :=
  match r with Raised => fx_finally cfg | Returned => true end.

Definition held (cfg : Fixes) (c : cell) : Z := if fx_at_call cfg then ref c else cap c.

Definition wrapped_cell (cfg : Fixes) (r : result) (c0 c : cell) : cell :=
  if restoring cfg r then restore_cell cfg (held cfg c0) (heap_ c0 (held cfg c0)) c else c.

(* the state after one call of main, in closed form *)
Lemma main_eq cfg o p s :
  main cfg o p s
  = (run_result o (effective_outcome o p (builtin s) (tracing s)),
     mkSt (wrapped_cell cfg (run_result o (effective_outcome o p (builtin s) (tracing s))) (argv s) (argv_after cfg o p (tracing s) (argv s)))
          (wrapped_cell cfg (run_result o (effective_outcome o p (builtin s) (tracing s))) (path s) (path_after o p (tracing s) (path s)))
          (gp_after cfg o (gp_setup o (gp s)) (next_prof s))
          (builtin_after cfg o (builtin s) (next_prof s)) (timers_after cfg o p (timers s)) (tracing_after cfg o p (next_prof s) (tracing s))
          (next_prof s + 1)).
Proof.
  unfold main, with_restore. rewrite main_body_eq. unfold wrapped_cell, restoring, held.
  destruct s as [a pa g b t tr n]. cbn [fst snd argv path builtin tracing].
  destruct (run_result o (effective_outcome o p b tr)); cbn [restoring]; try reflexivity.
  destruct (fx_finally cfg); reflexivity.
Qed.

(* from here on main is used through [main_eq] only (vm_compute still sees through) *)
Global Opaque main main_body.

(* ---- cells ----------------------------------------------------------------------------- *)
Lemma path_after_cap o p tr c : cap (path_after o p tr c) = cap c.
Proof.
  unfold path_after. destruct (o_module o || negb (ran o)), (o_module o), (o_setup o), (p_touch_path p && body_runs o p tr), (p_rebind_path p && body_runs o p tr); reflexivity.
Qed.

Lemma path_after_ref o p tr c : p_rebind_path p = false -> ref (path_after o p tr c) = ref c.
Proof.
  intros H. unfold path_after. rewrite H.
  destruct (o_module o || negb (ran o)), (o_module o), (o_setup o), (p_touch_path p && body_runs o p tr); reflexivity.
Qed.

Lemma argv_after_cap cfg o p tr c : cap (argv_after cfg o p tr c) = cap c.
Proof.
  unfold argv_after, assign_argv.
  destruct (fx_argv_inplace cfg), (p_touch_argv p && body_runs o p tr), (p_rebind_argv p && body_runs o p tr); reflexivity.
Qed.

Lemma argv_after_ref_inplace cfg o p tr c :
  fx_argv_inplace cfg = true -> p_rebind_argv p = false -> ref (argv_after cfg o p tr c) = ref c.
Proof. intros H R. unfold argv_after, assign_argv. rewrite H, R. destruct (p_touch_argv p && body_runs o p tr); reflexivity. Qed.

(* the write-back gives the name its old contents back when the decorator holds the
   object the name is (still / again) on *)
Lemma wrapped_restores cfg r c0 c :
  restoring cfg r = true -> cap c = cap c0 ->
  (fx_at_call cfg = true \/ (ref c0 = cap c0 /\ ref c = ref c0)) ->
  cur (wrapped_cell cfg r c0 c) = cur c0
  /\ ref (wrapped_cell cfg r c0 c) = ref c0
  /\ cap (wrapped_cell cfg r c0 c) = cap c0.
Proof.
  intros Hr Hcap H. unfold wrapped_cell. rewrite Hr. unfold restore_cell, held, cur.
  destruct (fx_at_call cfg) eqn:A.
  - cbn. rewrite upd_same. auto.
  - destruct H as [H|[H1 H2]]; [discriminate|]. cbn. rewrite H2, H1, upd_same. rewrite <- H1. rewrite Hcap. auto.
Qed.

(* ---- one run --------------------------------------------------------------------------- *)
Lemma run_path cfg o p s :
  restoring cfg (fst (main cfg o p s)) = true ->
  (fx_at_call cfg = true \/ (ref (path s) = cap (path s) /\ p_rebind_path p = false)) ->
  let s' := snd (main cfg o p s) in
  cur (path s') = cur (path s) /\ ref (path s') = ref (path s) /\ cap (path s') = cap (path s).
Proof.
  intros Hr H. rewrite main_eq in *. cbn [fst snd path] in *.
  apply wrapped_restores; [exact Hr|apply path_after_cap|].
  destruct H as [H|[H1 H2]]; [left; assumption|right]. split; [exact H1|apply path_after_ref; exact H2].
Qed.

Lemma run_argv cfg o p s :
  restoring cfg (fst (main cfg o p s)) = true ->
  (fx_at_call cfg = true \/ (fx_argv_inplace cfg = true /\ ref (argv s) = cap (argv s) /\ p_rebind_argv p = false)) ->
  let s' := snd (main cfg o p s) in
  cur (argv s') = cur (argv s) /\ ref (argv s') = ref (argv s) /\ cap (argv s') = cap (argv s).
Proof.
  intros Hr H. rewrite main_eq in *. cbn [fst snd argv] in *.
  apply wrapped_restores; [exact Hr|apply argv_after_cap|].
  destruct H as [H|(H1 & H2 & H3)]; [left; assumption|right]. split; [exact H2|apply argv_after_ref_inplace; assumption].
Qed.

Lemma overwrite_fields g p :
  f_output_prefix (overwrite g p) = f_output_prefix g /\ f_created (overwrite g p) = f_created g
  /\ f_atexit (overwrite g p) = f_atexit g.
Proof. destruct g. cbn. auto. Qed.

Lemma run_profile_fixed cfg o p s :
  fx_profile cfg = true -> handback_ok cfg o = true ->
  let s' := snd (main cfg o p s) in
  f_enabled (gp s') = f_enabled (gp_setup o (gp s)) /\ f_profile (gp s') = f_profile (gp_setup o (gp s)).
Proof. intros H K. rewrite main_eq. cbn [snd gp]. unfold gp_after. rewrite H, K. destruct (gp_setup o (gp s)). cbn. auto. Qed.

Lemma run_timers cfg o p s :
  (fx_timer cfg = true \/ o_interval o = 0) ->
  timers (snd (main cfg o p s)) = timers s.
Proof.
  intros H. rewrite main_eq. cbn [snd timers]. unfold timers_after, timed. rewrite rt_leftover_none.
  destruct (Z.eqb_spec (o_interval o) 0) as [T|T]; destruct (ran o); cbn [andb negb]; try lia.
  all: destruct H as [H|H]; [rewrite H; lia|lia].
Qed.

Lemma run_timers_leak cfg o p s :
  fx_timer cfg = false -> o_interval o <> 0 -> ran o = true ->
  timers (snd (main cfg o p s)) = timers s + 1.
Proof.
  intros H T R. rewrite main_eq. cbn [snd timers]. unfold timers_after, timed. rewrite H, R, rt_leftover_none.
  destruct (Z.eqb_spec (o_interval o) 0) as [E|E]; cbn [andb negb]; [contradiction|lia].
Qed.

(* every repair there is (the model's flags except the two that do not concern C19's clauses) *)
Definition all_repaired (cfg : Fixes) : bool :=
  fx_at_call cfg && fx_finally cfg && fx_profile cfg && fx_timer cfg && fx_autoprof cfg && fx_direct_enable cfg
  && fx_profile_first cfg && fx_missing cfg && fx_untraced cfg && fx_cprofile_off cfg.

Lemma all_repaired_spec cfg :
  all_repaired cfg = true ->
  fx_at_call cfg = true /\ fx_finally cfg = true /\ fx_profile cfg = true /\ fx_timer cfg = true
  /\ fx_autoprof cfg = true /\ fx_direct_enable cfg = true /\ fx_profile_first cfg = true
  /\ fx_missing cfg = true /\ fx_untraced cfg = true /\ fx_cprofile_off cfg = true.
Proof. unfold all_repaired. rewrite !andb_true_iff. tauto. Qed.

Lemma leaks_fixed cfg o p :
  fx_autoprof cfg = true -> fx_direct_enable cfg = true -> fx_untraced cfg = true -> fx_cprofile_off cfg = true ->
  leaks cfg o p = false.
Proof.
  intros A D U C. unfold leaks, cprofile_dump_disables. rewrite A, D, U, C.
  destruct (o_script_missing o), (o_line o), (o_builtin o), (p_leaves p), (registers o p); reflexivity.
Qed.

Lemma handback_fixed cfg o : fx_profile_first cfg = true -> fx_missing cfg = true -> handback_ok cfg o = true.
Proof. intros A B. unfold handback_ok. rewrite A, B. destruct (ran o); reflexivity. Qed.

Lemma run_tracing cfg o p s :
  leaks cfg o p = false ->
  tracing (snd (main cfg o p s)) = tracing s.
Proof. intros H. rewrite main_eq. cbn [snd tracing]. unfold tracing_after. rewrite H. reflexivity. Qed.

(* the tree as it is: a run that registers imports for auto-profiling, started with no profiler
   enabled, ends with its LineProfiler enabled *)
Lemma run_tracing_leak cfg o p s :
  leaks cfg o p = true -> tracing s = None ->
  tracing (snd (main cfg o p s)) = Some (Ext (next_prof s)).
Proof. intros R T. rewrite main_eq. cbn [snd tracing]. unfold tracing_after. rewrite R, T. reflexivity. Qed.

(* ---- sequences of runs ------------------------------------------------------------------ *)
(* along the execution: every run's write-back happens *)
Fixpoint all_restoring (cfg : Fixes) (s : St) (rs : list run) : bool :=
  match rs with
  | [] => true
  | (o, p) :: t => restoring cfg (fst (main cfg o p s)) && all_restoring cfg (snd (main cfg o p s)) t
  end.
(* along the execution: no run ends with main raising *)
Fixpoint no_exception (cfg : Fixes) (s : St) (rs : list run) : bool :=
  match rs with
  | [] => true
  | (o, p) :: t => match fst (main cfg o p s) with Returned => true | Raised => false end
                   && no_exception cfg (snd (main cfg o p s)) t
  end.
Definition no_interval (rs : list run) : bool := forallb (fun r => o_interval (fst r) =? 0) rs.

Lemma no_exception_restoring cfg rs : forall s, no_exception cfg s rs = true -> all_restoring cfg s rs = true.
Proof.
  induction rs as [|[o p] t IH]; intros s H; [reflexivity|].
  cbn [no_exception all_restoring] in *. apply andb_prop in H as [H1 H2].
  rewrite (IH _ H2). destruct (fst (main cfg o p s)); [reflexivity|discriminate].
Qed.

Lemma finally_restoring cfg rs : forall s, fx_finally cfg = true -> all_restoring cfg s rs = true.
Proof.
  induction rs as [|[o p] t IH]; intros s F; [reflexivity|].
  cbn [all_restoring]. rewrite (IH _ F). unfold restoring. rewrite F.
  destruct (fst (main cfg o p s)); reflexivity.
Qed.

Lemma runs_path cfg rs : forall s,
  all_restoring cfg s rs = true -> fx_at_call cfg = true ->
  let s' := exec_runs cfg s rs in
  cur (path s') = cur (path s) /\ ref (path s') = ref (path s) /\ cap (path s') = cap (path s).
Proof.
  induction rs as [|[o p] t IH]; intros s Hr H; [cbn; auto|].
  cbn [all_restoring] in Hr. apply andb_prop in Hr as [Hp Ht].
  destruct (run_path cfg o p s Hp (or_introl H)) as (A & B & C).
  cbn [exec_runs].
  destruct (IH (snd (main cfg o p s)) Ht H) as (A' & B' & C').
  cbn zeta in *. rewrite A', B', C', A, B, C. auto.
Qed.

Lemma runs_argv cfg rs : forall s,
  all_restoring cfg s rs = true -> fx_at_call cfg = true ->
  let s' := exec_runs cfg s rs in
  cur (argv s') = cur (argv s) /\ ref (argv s') = ref (argv s) /\ cap (argv s') = cap (argv s).
Proof.
  induction rs as [|[o p] t IH]; intros s Hr H; [cbn; auto|].
  cbn [all_restoring] in Hr. apply andb_prop in Hr as [Hp Ht].
  destruct (run_argv cfg o p s Hp (or_introl H)) as (A & B & C).
  cbn [exec_runs].
  destruct (IH (snd (main cfg o p s)) Ht H) as (A' & B' & C').
  cbn zeta in *. rewrite A', B', C', A, B, C. auto.
Qed.

Lemma gp_setup_silent o g : setup_uses o = [] -> gp_setup o g = g.
Proof. intros H. unfold gp_setup. rewrite H. reflexivity. Qed.

(* every run of the sequence hands the decorator back *)
Definition all_handed (cfg : Fixes) (rs : list run) : bool := forallb (fun r => handback_ok cfg (fst r)) rs.

Lemma all_handed_fixed cfg rs : fx_profile_first cfg = true -> fx_missing cfg = true -> all_handed cfg rs = true.
Proof. intros A B. unfold all_handed. rewrite forallb_forall. intros r _. apply handback_fixed; assumption. Qed.

Lemma runs_profile_fixed cfg rs : forall s,
  fx_profile cfg = true -> all_handed cfg rs = true -> setup_silent rs = true ->
  let s' := exec_runs cfg s rs in
  f_enabled (gp s') = f_enabled (gp s) /\ f_profile (gp s') = f_profile (gp s).
Proof.
  induction rs as [|[o p] t IH]; intros s H K Q; [cbn; auto|].
  cbn [setup_silent forallb fst] in Q. apply andb_prop in Q as [Q1 Q2].
  cbn [all_handed forallb fst] in K. apply andb_prop in K as [K1 K2].
  assert (E : setup_uses o = []) by (destruct (setup_uses o); [reflexivity|discriminate]).
  cbn [exec_runs]. destruct (run_profile_fixed cfg o p s H K1) as [A B].
  rewrite (gp_setup_silent o _ E) in A, B.
  destruct (IH (snd (main cfg o p s)) H K2 Q2) as [A' B']. cbn zeta in *. rewrite A', B', A, B. auto.
Qed.

Lemma runs_timers cfg rs : forall s,
  (fx_timer cfg = true \/ no_interval rs = true) ->
  timers (exec_runs cfg s rs) = timers s.
Proof.
  induction rs as [|[o p] t IH]; intros s H; [reflexivity|].
  cbn [exec_runs]. rewrite IH.
  - apply run_timers. destruct H as [H|H]; [left; exact H|right].
    cbn [no_interval forallb fst] in H. apply andb_prop in H as [H _]. apply Z.eqb_eq in H. exact H.
  - destruct H as [H|H]; [left; exact H|right].
    cbn [no_interval forallb] in H. apply andb_prop in H as [_ H]. exact H.
Qed.

(* no run of the sequence executes auto-profiling registration statements *)
Definition no_leak (cfg : Fixes) (rs : list run) : bool := forallb (fun r => negb (leaks cfg (fst r) (snd r))) rs.

Lemma no_leak_fixed cfg rs :
  fx_autoprof cfg = true -> fx_direct_enable cfg = true -> fx_untraced cfg = true -> fx_cprofile_off cfg = true ->
  no_leak cfg rs = true.
Proof.
  intros A D U C. unfold no_leak. rewrite forallb_forall. intros r _. rewrite leaks_fixed by assumption. reflexivity.
Qed.

Lemma runs_tracing cfg rs : forall s,
  no_leak cfg rs = true ->
  tracing (exec_runs cfg s rs) = tracing s.
Proof.
  induction rs as [|[o p] t IH]; intros s H; [reflexivity|].
  cbn [no_leak forallb fst snd] in H. apply andb_prop in H as [H1 H2]. apply negb_true_iff in H1.
  cbn [exec_runs]. rewrite IH by exact H2. apply run_tracing. exact H1.
Qed.

(* ---- the clauses of C19 -------------------------------------------------------------------- *)
Theorem tracing_clause cfg s rs :
  no_leak cfg rs = true ->
  tracing_ok s (exec_runs cfg s rs) = true.
Proof. intros H. unfold tracing_ok. rewrite runs_tracing by exact H. apply oprof_eqb_refl. Qed.

Theorem path_clause cfg s rs :
  fx_at_call cfg = true ->
  (fx_finally cfg = true \/ no_exception cfg s rs = true) ->
  path_ok s (exec_runs cfg s rs) = true.
Proof.
  intros H1 H2. unfold path_ok.
  assert (Hr : all_restoring cfg s rs = true)
    by (destruct H2; [apply finally_restoring|apply no_exception_restoring]; assumption).
  destruct (runs_path cfg rs s Hr H1) as (A & _). cbn zeta in A. rewrite A. apply strs_eqb_refl.
Qed.

Theorem argv_clause cfg s rs :
  fx_at_call cfg = true ->
  (fx_finally cfg = true \/ no_exception cfg s rs = true) ->
  argv_ok s (exec_runs cfg s rs) = true.
Proof.
  intros H1 H2. unfold argv_ok.
  assert (Hr : all_restoring cfg s rs = true)
    by (destruct H2; [apply finally_restoring|apply no_exception_restoring]; assumption).
  destruct (runs_argv cfg rs s Hr H1) as (A & _). cbn zeta in A. rewrite A. apply strs_eqb_refl.
Qed.

Theorem profile_clause cfg s rs :
  fx_profile cfg = true -> all_handed cfg rs = true -> usable (gp s) = true -> setup_silent rs = true ->
  profile_ok s (exec_runs cfg s rs) = true.
Proof.
  intros H K U Q. destruct (runs_profile_fixed cfg rs s H K Q) as [A B]. cbn zeta in *.
  unfold profile_ok, same_decision. rewrite usable_spec in *. rewrite A, B, U.
  rewrite obool_eqb_refl, oprof_eqb_refl. reflexivity.
Qed.

Theorem timers_clause cfg s rs :
  (fx_timer cfg = true \/ no_interval rs = true) ->
  timers_ok s (exec_runs cfg s rs) = true.
Proof. intros H. unfold timers_ok. rewrite runs_timers by exact H. apply Z.eqb_refl. Qed.

(* ---- the repaired main satisfies all of C19 ------------------------------------------------ *)
Theorem restores_if_fixed cfg : all_repaired cfg = true -> C19_statement cfg.
Proof.
  intros R s rs U Q. destruct (all_repaired_spec cfg R) as (A & F & P & T & G & D & PF & M & UT & CO).
  unfold restored.
  rewrite argv_clause, path_clause, profile_clause, tracing_clause, timers_clause;
    auto using no_leak_fixed, all_handed_fixed.
Qed.

(* ---- in-process runs are invisible to everything that happens around them ------------------------ *)
Lemma run_gp_fixed cfg o p s :
  fx_profile cfg = true -> handback_ok cfg o = true -> gp (snd (main cfg o p s)) = gp_setup o (gp s).
Proof. intros H K. rewrite main_eq. cbn [snd gp]. unfold gp_after. rewrite H, K. destruct (gp_setup o (gp s)). reflexivity. Qed.

(* one run: nothing observable changes except what its setup file did to the decorator *)
Lemma run_veq cfg o p s :
  fx_at_call cfg = true -> fx_finally cfg = true -> fx_profile cfg = true -> fx_timer cfg = true ->
  leaks cfg o p = false -> handback_ok cfg o = true ->
  veq (snd (main cfg o p s)) (set_gp (gp_setup o (gp s)) s).
Proof.
  intros A F P T G K. unfold veq.
  assert (Hr : restoring cfg (fst (main cfg o p s)) = true)
    by (unfold restoring; rewrite F; destruct (fst (main cfg o p s)); reflexivity).
  destruct (run_argv cfg o p s Hr (or_introl A)) as (A1 & _).
  destruct (run_path cfg o p s Hr (or_introl A)) as (P1 & _).
  cbn zeta in *. rewrite A1, P1, run_gp_fixed, run_tracing, run_timers; auto.
Qed.

(* a run that leaves its profiler on, or does not hand the decorator back *)
Definition act_leaks (cfg : Fixes) (a : act) : bool :=
  match a with ARun o p => leaks cfg o p || negb (handback_ok cfg o) | _ => false end.
Definition no_leaking_act (cfg : Fixes) (acts : list act) : bool := forallb (fun a => negb (act_leaks cfg a)) acts.

(* Interleave kernprof.main runs with ordinary use of the decorator in any way: argv, path, trace
   slot and threads end as they started, and the decorator object ends exactly as the ordinary
   uses alone - the host's and those made by the runs' setup files - would have left it. *)
Lemma exec_acts_cons cfg s a t : exec_acts cfg s (a :: t) = exec_acts cfg (do_act cfg s a) t.
Proof. reflexivity. Qed.

Lemma veq_step (s s1 sf : St) (g1 gf : GP) :
  veq s1 (set_gp g1 s) -> veq sf (set_gp gf s1) -> veq sf (set_gp gf s).
Proof.
  unfold veq. destruct s, s1. cbn. intros (a1 & a2 & a3 & a4 & a5) (i1 & i2 & i3 & i4 & i5).
  rewrite i1, i2, i3, i4, i5, a1, a2, a4, a5. auto.
Qed.

Theorem runs_invisible cfg :
  fx_at_call cfg = true -> fx_finally cfg = true -> fx_profile cfg = true -> fx_timer cfg = true ->
  forall acts s, no_leaking_act cfg acts = true ->
                 veq (exec_acts cfg s acts) (set_gp (user_gp acts (cur (argv s)) (gp s)) s).
Proof.
  intros A F P T. induction acts as [|a acts IH]; intros s G.
  - unfold veq. destruct s; cbn; auto.
  - cbn [no_leaking_act forallb] in G. apply andb_prop in G as [G0 G']. apply negb_true_iff in G0.
    rewrite exec_acts_cons. destruct a as [o p|u].
    + cbn [act_leaks] in G0. apply orb_false_iff in G0 as [Gr Gk]. apply negb_false_iff in Gk.
      pose proof (run_veq cfg o p s A F P T Gr Gk) as R.
      change (do_act cfg s (ARun o p)) with (snd (main cfg o p s)).
      remember (snd (main cfg o p s)) as s1 eqn:E. clear E.
      pose proof (IH s1 G') as I.
      assert (Eav : cur (argv s1) = cur (argv s)) by (destruct R as (r1 & _); destruct s; exact r1).
      assert (Eg : gp s1 = gp_setup o (gp s)) by (destruct R as (_ & _ & r3 & _); destruct s; exact r3).
      rewrite Eav, Eg in I. cbn [user_gp]. unfold gp_setup in *.
      exact (veq_step s s1 _ _ _ R I).
    + change (do_act cfg s (AUse u)) with (do_uop u s).
      pose proof (IH (do_uop u s) G') as I. cbn [user_gp].
      assert (R : veq (do_uop u s) (set_gp (uop_gp u (cur (argv s)) (gp s)) s)) by (unfold veq, do_uop; auto).
      assert (Eav : cur (argv (do_uop u s)) = cur (argv s)) by (destruct s; reflexivity).
      assert (Eg : gp (do_uop u s) = uop_gp u (cur (argv s)) (gp s)) by (destruct s; reflexivity).
      rewrite Eav, Eg in I.
      exact (veq_step s (do_uop u s) _ _ _ R I).
Qed.

Corollary runs_invisible_current acts s :
  no_leaking_act current acts = true ->
  veq (exec_acts current s acts) (set_gp (user_gp acts (cur (argv s)) (gp s)) s).
Proof. intros G. apply runs_invisible; try reflexivity. exact G. Qed.



(* ---- the tree as it is (after seven repairs; three defects left) ---------------------------------- *)
Lemma handback_current o : handback_ok current o = ran o.
Proof. unfold handback_ok, current. cbn. destruct (ran o); reflexivity. Qed.

(* no run names a script / module that does not exist *)
Definition scripts_found (rs : list run) : bool := forallb (fun r => ran (fst r)) rs.

Lemma all_handed_current rs : scripts_found rs = true -> all_handed current rs = true.
Proof.
  unfold scripts_found, all_handed. rewrite !forallb_forall. intros H r Hr. rewrite handback_current. apply H, Hr.
Qed.

Theorem restores_current_partial s rs :
  usable (gp s) = true -> setup_silent rs = true ->
  argv_ok s (exec_runs current s rs) = true /\ path_ok s (exec_runs current s rs) = true
  /\ timers_ok s (exec_runs current s rs) = true
  /\ (scripts_found rs = true -> profile_ok s (exec_runs current s rs) = true)
  /\ (scripts_found rs = true -> no_leak current rs = true -> restored s (exec_runs current s rs) = true).
Proof.
  intros U Q.
  assert (A : argv_ok s (exec_runs current s rs) = true) by (apply argv_clause; [reflexivity|left; reflexivity]).
  assert (P : path_ok s (exec_runs current s rs) = true) by (apply path_clause; [reflexivity|left; reflexivity]).
  assert (T : timers_ok s (exec_runs current s rs) = true) by (apply timers_clause; left; reflexivity).
  assert (G : scripts_found rs = true -> profile_ok s (exec_runs current s rs) = true).
  { intros F. apply profile_clause; [reflexivity|apply all_handed_current; exact F|exact U|exact Q]. }
  repeat split; try assumption.
  intros F N. unfold restored. rewrite A, P, (G F), T, tracing_clause; [reflexivity|exact N].
Qed.

Definition opts_timed : Opts := mkOpts true false false None [] 1 false false false ["prog.py"] "" "/T".

(* ---- every one of the four repairs is necessary: a main lacking it violates its clause ---------- *)
Lemma argv_needs_repair cfg :
  fx_at_call cfg = false -> fx_argv_inplace cfg = false ->
  exists s o p, usable (gp s) = true /\ fst (main cfg o p s) = Returned
                /\ argv_ok s (snd (main cfg o p s)) = false
                /\ cur (argv (snd (main cfg o p s))) = o_new_argv o.
Proof.
  destruct cfg as [a b c d e f g h i j k l]. cbn. intros -> ->. exists st0, opts0, returns.
  destruct c, d; vm_compute; repeat split; reflexivity.
Qed.

Lemma path_needs_finally cfg :
  fx_finally cfg = false ->
  exists s o p, usable (gp s) = true /\ ref (path s) = cap (path s) /\ p_outcome p = Exc
                /\ fst (main cfg o p s) = Raised
                /\ path_ok s (snd (main cfg o p s)) = false
                /\ cur (path (snd (main cfg o p s))) = o_script_dir o :: cur (path s).
Proof.
  destruct cfg as [a b c d e f g h i j k l]. cbn. intros ->. exists st0, opts0, raises.
  destruct a, b; vm_compute; repeat split; reflexivity.
Qed.

Lemma profile_needs_repair cfg :
  fx_profile cfg = false ->
  exists s o p, usable (gp s) = true /\ undecided (gp s) = true
                /\ profile_ok s (snd (main cfg o p s)) = false
                /\ decorate (gp (snd (main cfg o p s))) (fun _ => None) [] (Fn 0) = Err TypeError.
Proof.
  destruct cfg as [a b c d e f g h i j k l]. cbn. intros ->. exists st0, opts0, returns.
  destruct h; vm_compute; repeat split; reflexivity.
Qed.

Lemma timer_needs_repair cfg :
  fx_timer cfg = false ->
  exists s o p, usable (gp s) = true /\ 0 < o_interval o
                /\ timers_ok s (snd (main cfg o p s)) = false
                /\ timers (snd (main cfg o p s)) = timers s + 1.
Proof.
  destruct cfg as [a b c d e f g h i j k l]. cbn. intros ->. exists st0, opts_timed, returns.
  vm_compute; repeat split; reflexivity.
Qed.

(* auto-profiling: the registration statements enable the LineProfiler and nothing disables it.
   One import matched by -p is enough; the program may end any way it likes. *)
Definition registering : Prog := mkProg Return false false false false true LNone 1 [].
Lemma autoprof_needs_balance cfg :
  fx_autoprof cfg = false ->
  exists s o p, usable (gp s) = true /\ tracing s = None /\ registers o p = true
                /\ fst (main cfg o p s) = Returned
                /\ tracing_ok s (snd (main cfg o p s)) = false
                /\ tracing (snd (main cfg o p s)) = Some (Ext (next_prof s)).
Proof.
  destruct cfg as [a b c d e f g h i j k l]. cbn. intros ->. exists st0, opts0, registering.
  vm_compute; repeat split; reflexivity.
Qed.

(* a program that calls profile.enable() under -l and just ends: unless main switches the
   LineProfiler off unconditionally it stays on (the by-count loop of a77d816 does not see it) *)
Definition enabling : Prog := mkProg Return false false false false true LEnable 0 [].
Lemma direct_enable_needs_disable cfg :
  fx_direct_enable cfg = false ->
  exists s o p, usable (gp s) = true /\ tracing s = None /\ p_leaves p = LEnable /\ o_line o = true
                /\ fst (main cfg o p s) = Returned
                /\ tracing_ok s (snd (main cfg o p s)) = false
                /\ tracing (snd (main cfg o p s)) = Some (Ext (next_prof s)).
Proof.
  destruct cfg as [a b c d e f g h i j k l]. cbn. intros ->. exists st0, opts0, enabling.
  vm_compute; repeat split; reflexivity.
Qed.

(* ... and the next in-process run then fails: its own profiler cannot be enabled *)
Lemma leak_breaks_next_run_unrepaired :
  fst (main unrepaired opts0 returns (snd (main unrepaired opts0 registering st0))) = Raised
  /\ fst (main unrepaired opts0 returns st0) = Returned.
Proof. vm_compute. split; reflexivity. Qed.

(* the decorator must be handed back BEFORE the results are written / shown: these can fail *)
Definition opts_bad_outfile : Opts := mkOpts true false false None [] 0 true false false ["prog.py"; "a"] "" "/T".
Lemma profile_needs_early_handback cfg :
  fx_profile_first cfg = false -> fx_profile cfg = true ->
  exists s o p, usable (gp s) = true /\ undecided (gp s) = true /\ o_dump_fails o = true
                /\ fst (main cfg o p s) = Raised
                /\ profile_ok s (snd (main cfg o p s)) = false
                /\ gp (snd (main cfg o p s)) = mkGP (Some true) (Some (Ext (next_prof s))) "profile_output" 0 0.
Proof.
  destruct cfg as [a b c d e f g h i j k l]. cbn. intros -> ->. exists st0, opts_bad_outfile, returns.
  destruct c; vm_compute; repeat split; reflexivity.
Qed.

(* a script that does not exist: SystemExit leaves main after the decorator was taken over *)
Definition opts_missing : Opts := mkOpts true false false None [] 0 false false true ["missing.py"] "" "/T".
Lemma missing_script_needs_handback cfg :
  fx_missing cfg = false ->
  exists s o p, usable (gp s) = true /\ undecided (gp s) = true /\ o_script_missing o = true
                /\ fst (main cfg o p s) = Raised
                /\ profile_ok s (snd (main cfg o p s)) = false
                /\ gp (snd (main cfg o p s)) = mkGP (Some true) (Some (Ext (next_prof s))) "profile_output" 0 0.
Proof.
  destruct cfg as [a b c d e f g h i j k l]. cbn. intros ->. exists st0, opts_missing, returns.
  destruct c; vm_compute; repeat split; reflexivity.
Qed.

(* -l, program: profile.enable(); sys.settrace(None) - the trace function is gone, the monitoring id is not *)
Definition untracing : Prog := mkProg Return false false false false true LEnableUntraced 0 [].
Lemma untraced_enable_needs_release cfg :
  fx_untraced cfg = false ->
  exists s o p, usable (gp s) = true /\ tracing s = None /\ p_leaves p = LEnableUntraced /\ o_line o = true
                /\ fst (main cfg o p s) = Returned
                /\ tracing_ok s (snd (main cfg o p s)) = false.
Proof.
  destruct cfg as [a b c d e f g h i j k l]. cbn. intros ->. exists st0, opts0, untracing.
  vm_compute; repeat split; reflexivity.
Qed.

(* cProfile flavour, program leaves profile.enable() open, output file cannot be opened: dump_stats()
   fails before create_stats() has switched the profiler off *)
Definition opts_b_bad_outfile : Opts := mkOpts false true false None [] 0 true false false ["prog.py"] "" "/T".
Lemma cprofile_needs_explicit_off cfg :
  fx_cprofile_off cfg = false ->
  exists s o p, usable (gp s) = true /\ tracing s = None /\ p_leaves p = LEnable /\ o_line o = false
                /\ o_builtin o = true /\ o_dump_fails o = true
                /\ tracing_ok s (snd (main cfg o p s)) = false.
Proof.
  destruct cfg as [a b c d e f g h i j k l]. cbn. intros ->. exists st0, opts_b_bad_outfile, enabling.
  destruct c; vm_compute; repeat split; reflexivity.
Qed.

Lemma current_refuted : ~ C19_statement current.
Proof.
  intros H. specialize (H st0 [(opts_missing, returns)] eq_refl eq_refl). vm_compute in H. discriminate.
Qed.

(* which runs of the tree as it is do not come back clean *)
Lemma current_leaks_iff o p :
  leaks current o p
  = ran o && (if o_line o then match p_leaves p with LEnableUntraced => true | _ => false end
              else o_builtin o && match p_leaves p with LNone => false | _ => o_dump_fails o end).
Proof.
  unfold leaks, current, cprofile_dump_disables, ran. cbn.
  destruct (o_script_missing o), (o_line o), (o_builtin o), (p_leaves p), (registers o p), (o_dump_fails o); reflexivity.
Qed.

(* ... and a direct enable() left on made the next in-process run raise (before fcd15c8) *)
Lemma direct_enable_broke_next_run :
  fst (main unrepaired opts0 returns (snd (main unrepaired opts0 enabling st0))) = Raised.
Proof. vm_compute. reflexivity. Qed.

(* in particular the tree before the repairs violated C19 *)
Lemma unrepaired_refuted : ~ C19_statement unrepaired.
Proof.
  intros H. specialize (H st0 [(opts0, returns)] eq_refl eq_refl). vm_compute in H. discriminate.
Qed.

(* -i takes any integer: a negative one still creates the timer (clamped to 1 s) - and stops it *)
Definition opts_negative : Opts := mkOpts true false false None [] (-2) false false false ["prog.py"] "" "/T".
Lemma negative_interval_timer :
  timed opts_negative = true
  /\ timers (snd (main current opts_negative returns st0)) = timers st0
  /\ timers (snd (main unrepaired opts_negative returns st0)) = timers st0 + 1.
Proof. vm_compute. repeat split; reflexivity. Qed.

(* ---- non-vacuity ---------------------------------------------------------------------------- *)
Definition opts_module : Opts := mkOpts true false true (Some "/T/setupd") [] 1 false false false ["mod"; "x"] "" "/T".
(* a setup file that enables the explicit profiler and decorates something *)
Definition opts_setup_uses : Opts := mkOpts true false false (Some "setupd") [UEnable; UDecorate] 0 false false false ["prog.py"] "" "/T".

Example nonvacuous :
  (* the hypothesis of the statement holds of a real-looking interpreter *)
  usable (gp st0) = true
  (* the present behaviour restores everything on the runs that refuted the unrepaired one *)
  /\ restored st0 (exec_runs current st0 [(opts0, returns); (opts0, raises); (opts_timed, returns);
                                           (opts_module, mkProg Exc true true true true true LByCount 0 [Fire; Fire; DumpDone])]) = true
  /\ restored st0 (exec_runs unrepaired st0 [(opts0, returns)]) = false
  /\ fst (main current opts0 raises st0) = Raised
  (* during the run the pieces really are changed (the model is not the identity) *)
  /\ cur (path (snd (main_body current opts_module (mkProg Return true false true false true LNone 0 []) st0)))
     = ["/T/setupd"; "/T"; "/lib"; "/prog-added"; "/prog-rebound"]
  /\ cur (argv (snd (main_body current opts_module (mkProg Return false true false true true LNone 0 []) st0))) = ["mod"; "x"; "prog-added"; "prog-rebound"].
Proof. vm_compute. repeat split; reflexivity. Qed.

(* ---- executable comparison used by the case shards ---------------------------------------------- *)
Record seen := mkSeen {
  sn_raised : bool;             (* main raised *)
  sn_argv : list string;
  sn_argv_same : bool;          (* sys.argv is the object it was before this run *)
  sn_argv_cap : bool;           (* sys.argv is the object kernprof saw at import *)
  sn_path : list string;
  sn_path_same : bool;
  sn_enabled : option bool;     (* line_profiler.profile.enabled *)
  sn_profile : option prof;     (* line_profiler.profile._profile *)
  sn_builtin : option prof;     (* builtins.profile *)
  sn_timers : Z;                (* timer threads still alive *)
  sn_tracing : bool             (* sys.gettrace() / sys.getprofile() / sys.monitoring tool set *)
}.

Definition run_matches (before : St) (r : result) (after : St) (o : seen) : bool :=
  Bool.eqb (match r with Raised => true | Returned => false end) (sn_raised o)
  && strs_eqb (cur (argv after)) (sn_argv o)
  && Bool.eqb (Z.eqb (ref (argv after)) (ref (argv before))) (sn_argv_same o)
  && Bool.eqb (Z.eqb (ref (argv after)) (cap (argv after))) (sn_argv_cap o)
  && strs_eqb (cur (path after)) (sn_path o)
  && Bool.eqb (Z.eqb (ref (path after)) (ref (path before))) (sn_path_same o)
  && opt_eqb Bool.eqb (f_enabled (gp after)) (sn_enabled o)
  && opt_eqb prof_eqb (f_profile (gp after)) (sn_profile o)
  && opt_eqb prof_eqb (builtin after) (sn_builtin o)
  && Z.eqb (timers after) (sn_timers o)
  && Bool.eqb (match tracing after with Some _ => true | None => false end) (sn_tracing o).

(* the RepeatedTimer driven directly through a schedule: which scheduled expiries really happened,
   and how many helper threads are alive after the schedule and the dumps in progress are over *)
Fixpoint rt_fires (r : bool) (t : RT) (es : list tevent) : list bool :=
  match es with
  | [] => []
  | Fire :: es' => (match rt_cur t with Armed => true | _ => false end) :: rt_fires r (rt_step r t Fire) es'
  | e :: es' => rt_fires r (rt_step r t e) es'
  end.
Definition rt_final_threads (r : bool) (es : list tevent) : Z :=
  let t := rt_exec r rt_init es in
  Z.of_nat (rt_threads (rt_exec r t (repeat DumpDone (rt_dumping t)))).
Definition has_stop (es : list tevent) : bool := existsb (fun e => match e with Stop => true | _ => false end) es.
Definition rt_case (es : list tevent) (fires : list bool) (threads : Z) : bool * bool :=
  (list_eqb Bool.eqb (rt_fires rearm_before_dump rt_init es) fires
   && Z.eqb (rt_final_threads rearm_before_dump es) threads,
   (* the property: once stop() was called, nothing is left when the dumps in progress are over *)
   if has_stop es then Z.eqb threads 0 else true).

(* ordinary use afterwards: 0 = returned its argument, 1 = wrapped, 2 = TypeError, 3 = other *)
Definition use_code (g : GP) (av : list string) : Z :=
  match decorate g (fun _ => None) av (Fn 0) with
  | Ok (Fn _, _) => 0
  | Ok (Wrapped _ _, _) => 1
  | Err TypeError => 2
  | Err _ => 3
  end.

(* model vs implementation along a sequence of steps (runs and ordinary uses); every step comes
   with the observation made after it and, for a decoration, the code of its answer *)
Definition act_result (cfg : Fixes) (s : St) (a : act) : result :=
  match a with ARun o p => fst (main cfg o p s) | _ => Returned end.
Fixpoint acts_match (cfg : Fixes) (s : St) (acts : list act) (os : list (seen * Z)) : bool :=
  match acts, os with
  | [], [] => true
  | a :: t, (ob, code) :: ot =>
      run_matches s (act_result cfg s a) (do_act cfg s a) ob
      && match a with AUse UDecorate => Z.eqb (use_code (gp s) (cur (argv s))) code | _ => true end
      && acts_match cfg (do_act cfg s a) t ot
  | _, _ => false
  end.

Definition case_model_ok (s : St) (acts : list act) (os : list (seen * Z)) : bool := acts_match current s acts os.

(* the property on the implementation's own observations: for every kernprof run, the observation
   before it against the one after it; which clauses fail (bit 1 argv, 2 path, 4 profile,
   8 tracing, 16 timers), or-ed over the runs; a decoration that raises counts for bit 4 *)
Definition step_bits (b a : seen) : Z :=
  (if strs_eqb (sn_argv b) (sn_argv a) then 0 else 1)
  + (if strs_eqb (sn_path b) (sn_path a) then 0 else 2)
  + (if opt_eqb Bool.eqb (sn_enabled b) (sn_enabled a) && opt_eqb prof_eqb (sn_profile b) (sn_profile a)
        && negb (match sn_enabled a, sn_profile a with Some true, None => true | _, _ => false end)
     then 0 else 4)
  + (if Bool.eqb (sn_tracing b) (sn_tracing a) then 0 else 8)
  + (if Z.eqb (sn_timers b) (sn_timers a) then 0 else 16).

Fixpoint spec_bits (prev : seen) (acts : list act) (os : list (seen * Z)) : Z :=
  match acts, os with
  | a :: t, (ob, code) :: ot =>
      Z.lor (match a with
             | ARun _ _ => step_bits prev ob
             | AUse UDecorate => if Z.eqb code 2 || Z.eqb code 3 then 4 else 0
             | _ => 0
             end) (spec_bits ob t ot)
  | _, _ => 0
  end.

(* what C14 needs of all this: the decorator object after runs interleaved with ordinary use *)
Definition act_found (a : act) : bool := match a with ARun o _ => ran o | _ => true end.
Definition acts_found (acts : list act) : bool := forallb act_found acts.

Lemma decorator_under_kernprof acts : forall s,
  acts_found acts = true ->
  gp (exec_acts current s acts) = user_gp acts (cur (argv s)) (gp s)
  /\ cur (argv (exec_acts current s acts)) = cur (argv s).
Proof.
  induction acts as [|a acts IH]; intros s Fd; [split; reflexivity|].
  cbn [acts_found forallb] in Fd. apply andb_prop in Fd as [Fa Fd].
  rewrite exec_acts_cons. destruct a as [o p|u].
  - change (do_act current s (ARun o p)) with (snd (main current o p s)). cbn [act_found] in Fa.
    assert (Hr : restoring current (fst (main current o p s)) = true) by (destruct (fst (main current o p s)); reflexivity).
    destruct (run_argv current o p s Hr (or_introl eq_refl)) as (A1 & _).
    assert (K : handback_ok current o = true) by (rewrite handback_current; exact Fa).
    pose proof (run_gp_fixed current o p s eq_refl K) as G1. cbn zeta in A1.
    destruct (IH (snd (main current o p s)) Fd) as (I1 & I2).
    cbn [user_gp]. rewrite I1, I2, A1, G1. unfold gp_setup. split; reflexivity.
  - change (do_act current s (AUse u)) with (do_uop u s).
    destruct (IH (do_uop u s) Fd) as (I1 & I2). cbn [user_gp]. rewrite I1, I2.
    destruct s; split; reflexivity.
Qed.

Corollary decorator_under_kernprof_gp acts s :
  acts_found acts = true ->
  gp (exec_acts current s acts) = user_gp acts (cur (argv s)) (gp s).
Proof. intros F. exact (proj1 (decorator_under_kernprof acts s F)). Qed.

Example decorator_under_kernprof_example :
  gp (exec_acts current st0 [ARun opts_setup_uses raises; AUse UDecorate])
  = mkGP (Some true) (Some (Own 1)) "profile_output" 1 1
  /\ gp (exec_acts current st0 [ARun opts0 raises; AUse UDecorate]) = mkGP (Some false) None "profile_output" 0 0.
Proof. vm_compute. split; reflexivity. Qed.

(* C14 under kernprof, on the implementation's own observations: after every step (a kernprof run,
   or an ordinary use by the host) the decorator's decision and profiler are what the stand-alone
   rules give for the ordinary uses alone, and every decoration answers by those rules *)
Fixpoint decorator_spec_ok (acts : list act) (av : list string) (g : GP) (os : list (seen * Z)) : bool :=
  match acts, os with
  | [], [] => true
  | a :: t, (ob, code) :: ot =>
      let g' := user_gp [a] av g in
      opt_eqb Bool.eqb (f_enabled g') (sn_enabled ob) && opt_eqb prof_eqb (f_profile g') (sn_profile ob)
      && match a with AUse UDecorate => Z.eqb (use_code g av) code | _ => true end
      && decorator_spec_ok t av g' ot
  | _, _ => false
  end.
