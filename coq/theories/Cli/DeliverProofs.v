(* C06 - proofs about Cli/DeliverModel.v *)
From LP Require Import Prelude.Py Cli.DeliverModel.
From LP Require Import Explicit.Base Gen.GlobalProfiler Explicit.GlobalProfiler Explicit.C14Proofs.

(* ---- the by-line counter is exact ------------------------------------------------ *)
Definition pend_is (st : pst) (f l : Z) : Z :=
  match p_pend st f with Some l' => if l' =? l then 1 else 0 | None => 0 end.
Definition measure (st : pst) (f l : Z) : Z := p_hits st f l + pend_is st f l.

Lemma count_line_cons reg e t f l :
  count_line reg (e :: t) f l = count_line reg [e] f l + count_line reg t f l.
Proof. destruct e; cbn [count_line]; lia. Qed.

Lemma count_call_cons reg e t f :
  count_call reg (e :: t) f = count_call reg [e] f + count_call reg t f.
Proof. destruct e; cbn [count_call]; lia. Qed.

Lemma count_line_app reg a b f l :
  count_line reg (a ++ b) f l = count_line reg a f l + count_line reg b f l.
Proof.
  induction a as [|e t IH]; [reflexivity|]. cbn [app].
  rewrite count_line_cons, (count_line_cons reg e t), IH. lia.
Qed.

Lemma count_call_app reg a b f :
  count_call reg (a ++ b) f = count_call reg a f + count_call reg b f.
Proof.
  induction a as [|e t IH]; [reflexivity|]. cbn [app].
  rewrite count_call_cons, (count_call_cons reg e t), IH. lia.
Qed.

Lemma step_measure reg st e f l :
  measure (prof_step reg st e) f l = measure st f l + count_line reg [e] f l.
Proof.
  unfold prof_step. destruct (reg (fn_of e)) eqn:R.
  - destruct e as [g|g m|g]; cbn [fn_of] in R; cbn [count_line].
    + unfold measure, pend_is. cbn [p_hits p_pend]. lia.
    + rewrite R. cbn [andb]. unfold close_pending.
      destruct (p_pend st g) as [l0|] eqn:P; unfold measure, pend_is; cbn [p_hits p_pend]; unfold setp, bump2.
      * destruct (Z.eqb_spec g f) as [->|N].
        -- rewrite P. cbn [andb]. destruct (l0 =? l), (m =? l); lia.
        -- cbn [andb]. destruct (p_pend st f) as [l1|]; [destruct (l1 =? l)|]; lia.
      * destruct (Z.eqb_spec g f) as [->|N].
        -- rewrite P. cbn [andb]. destruct (m =? l); lia.
        -- cbn [andb]. destruct (p_pend st f) as [l1|]; [destruct (l1 =? l)|]; lia.
    + unfold close_pending.
      destruct (p_pend st g) as [l0|] eqn:P; unfold measure, pend_is; cbn [p_hits p_pend]; unfold setp, bump2.
      * destruct (Z.eqb_spec g f) as [->|N].
        -- rewrite P. cbn [andb]. destruct (l0 =? l); lia.
        -- cbn [andb]. destruct (p_pend st f) as [l1|]; [destruct (l1 =? l)|]; lia.
      * lia.
  - destruct e as [g|g m|g]; cbn [fn_of] in R; cbn [count_line]; try lia.
    rewrite R. cbn [andb]. lia.
Qed.

Lemma run_measure reg evs : forall st f l,
  measure (prof_run reg st evs) f l = measure st f l + count_line reg evs f l.
Proof.
  induction evs as [|e t IH]; intros st f l; [cbn; lia|].
  unfold prof_run in *. cbn [fold_left]. rewrite IH, step_measure, (count_line_cons reg e t). lia.
Qed.

Lemma close_calls st f : p_calls (close_pending st f) = p_calls st.
Proof. unfold close_pending. destruct (p_pend st f); reflexivity. Qed.

Lemma step_calls reg st e f :
  p_calls (prof_step reg st e) f = p_calls st f + count_call reg [e] f.
Proof.
  unfold prof_step. destruct (reg (fn_of e)) eqn:R.
  - destruct e as [g|g m|g]; cbn [fn_of] in R; cbn [count_call p_calls]; rewrite ?close_calls; try lia.
    rewrite R. cbn [andb]. unfold bump1. destruct (g =? f); lia.
  - destruct e as [g|g m|g]; cbn [fn_of] in R; cbn [count_call]; try lia.
    rewrite R. cbn [andb]. lia.
Qed.

Lemma run_calls reg evs : forall st f,
  p_calls (prof_run reg st evs) f = p_calls st f + count_call reg evs f.
Proof.
  induction evs as [|e t IH]; intros st f; [cbn; lia|].
  unfold prof_run in *. cbn [fold_left]. rewrite IH, step_calls, (count_call_cons reg e t). lia.
Qed.

(* ---- unwinding closes every pending line ------------------------------------------- *)
Lemma stack_from_none evs : stack_from None evs = None.
Proof. induction evs as [|e t IH]; [reflexivity|]. exact IH. Qed.

Lemma stack_from_app s a b : stack_from s (a ++ b) = stack_from (stack_from s a) b.
Proof. unfold stack_from. apply fold_left_app. Qed.

Definition pend_inv (reg : Z -> bool) (s : list Z) (st : pst) : Prop :=
  forall f, p_pend st f <> None -> reg f = true /\ In f s.

Lemma close_pend st g f : p_pend (close_pending st g) f = if g =? f then None else p_pend st f.
Proof.
  unfold close_pending. destruct (p_pend st g) as [l0|] eqn:P; cbn [p_pend]; unfold setp.
  - reflexivity.
  - destruct (Z.eqb_spec g f) as [->|]; [exact P|reflexivity].
Qed.

Lemma step_inv reg s s' st e :
  stack_step (Some s) e = Some s' -> pend_inv reg s st -> pend_inv reg s' (prof_step reg st e).
Proof.
  intros Hs Hi f Hp. unfold prof_step in Hp.
  destruct e as [g|g m|g]; cbn [stack_step fn_of] in *.
  - injection Hs as <-.
    assert (p_pend st f <> None) as H by (destruct (reg g); exact Hp).
    destruct (Hi f H) as [A B]. split; [exact A|right; exact B].
  - destruct s as [|h r]; [discriminate|]. destruct (Z.eqb_spec g h) as [E|]; [subst h|discriminate].
    injection Hs as <-.
    destruct (reg g) eqn:R; [|exact (Hi f Hp)].
    cbn [p_pend] in Hp. unfold setp in Hp.
    destruct (Z.eqb_spec g f) as [E|N].
    + subst f. split; [exact R|left; reflexivity].
    + rewrite close_pend in Hp. destruct (Z.eqb_spec g f); [contradiction|]. exact (Hi f Hp).
  - destruct s as [|h r]; [discriminate|]. destruct (Z.eqb_spec g h) as [E|]; [subst h|discriminate].
    injection Hs as <-.
    destruct (reg g) eqn:R.
    + rewrite close_pend in Hp. destruct (Z.eqb_spec g f) as [E|N]; [congruence|].
      destruct (Hi f Hp) as [A [B|B]]; [congruence|]. split; assumption.
    + destruct (Hi f Hp) as [A [B|B]]; [subst; congruence|]. split; assumption.
Qed.

Lemma run_inv reg evs : forall s s' st,
  stack_from (Some s) evs = Some s' -> pend_inv reg s st -> pend_inv reg s' (prof_run reg st evs).
Proof.
  induction evs as [|e t IH]; intros s s' st Hs Hi.
  - cbn in Hs. injection Hs as <-. exact Hi.
  - unfold stack_from in Hs. cbn [fold_left] in Hs.
    destruct (stack_step (Some s) e) as [s1|] eqn:E.
    + unfold prof_run. cbn [fold_left]. eapply IH; [exact Hs|]. eapply step_inv; eassumption.
    + fold (stack_from None t) in Hs. rewrite stack_from_none in Hs. discriminate.
Qed.

(* THE CONTENT THEOREM: after any well-nested stream in which every activation has
   ended (returned or been unwound), the profiler holds exactly the counts of the
   stream: hits per line, calls per function, nothing pending. *)
Theorem content reg evs :
  closed evs = true ->
  let st := prof_run reg pst0 evs in
  (forall f l, p_hits st f l = count_line reg evs f l)
  /\ (forall f, p_calls st f = count_call reg evs f)
  /\ (forall f, p_pend st f = None).
Proof.
  intros Hc st.
  assert (Hp : forall f, p_pend st f = None).
  { unfold closed, stack_after in Hc.
    destruct (stack_from (Some []) evs) as [[|x r]|] eqn:E; try discriminate.
    assert (pend_inv reg [] st) as Hi.
    { eapply run_inv; [exact E|]. intros f H. cbn in H. congruence. }
    intros f. destruct (p_pend st f) eqn:P; [|reflexivity].
    destruct (Hi f) as [_ []]. congruence. }
  split; [|split; [|exact Hp]].
  - intros f l. pose proof (run_measure reg evs pst0 f l) as H. fold st in H.
    unfold measure, pend_is in H. rewrite Hp in H. cbn in H. lia.
  - intros f. pose proof (run_calls reg evs pst0 f) as H. fold st in H. cbn in H. lia.
Qed.

(* ---- termination at any step ----------------------------------------------------------- *)
Lemma wf_firstn prog k : wf prog = true -> wf (firstn k prog) = true.
Proof.
  unfold wf, stack_after. intros H. rewrite <- (firstn_skipn k prog) in H.
  rewrite stack_from_app in H.
  destruct (stack_from (Some []) (firstn k prog)); [reflexivity|].
  rewrite stack_from_none in H. discriminate.
Qed.

Lemma unwind_stack s : stack_from (Some s) (map PRet s) = Some [].
Proof.
  induction s as [|g r IH]; [reflexivity|].
  unfold stack_from in *. cbn [map fold_left stack_step]. rewrite Z.eqb_refl. exact IH.
Qed.

Lemma closed_unwind evs : wf evs = true -> closed (evs ++ unwind evs) = true.
Proof.
  unfold wf, closed, unwind, stack_after. intros H.
  destruct (stack_from (Some []) evs) as [s|] eqn:E; [|discriminate].
  rewrite stack_from_app, E, unwind_stack. reflexivity.
Qed.

Lemma count_line_rets reg s f l : count_line reg (map PRet s) f l = 0.
Proof. induction s as [|g r IH]; [reflexivity|exact IH]. Qed.
Lemma count_call_rets reg s f : count_call reg (map PRet s) f = 0.
Proof. induction s as [|g r IH]; [reflexivity|exact IH]. Qed.

Lemma count_line_unwind reg evs f l : count_line reg (evs ++ unwind evs) f l = count_line reg evs f l.
Proof.
  rewrite count_line_app. unfold unwind. destruct (stack_after evs); [rewrite count_line_rets|cbn]; lia.
Qed.
Lemma count_call_unwind reg evs f : count_call reg (evs ++ unwind evs) f = count_call reg evs f.
Proof.
  rewrite count_call_app. unfold unwind. destruct (stack_after evs); [rewrite count_call_rets|cbn]; lia.
Qed.

Theorem executed_closed prog kd k :
  wf prog = true -> (kd = KReturn -> closed prog = true) -> closed (executed prog kd k) = true.
Proof.
  intros Hw Hr. destruct kd; cbn [executed]; try (apply closed_unwind, wf_firstn, Hw).
  apply Hr. reflexivity.
Qed.

(* for EVERY termination point k and kind: what the profiler holds when the
   program has ended is the statistics of exactly the executed prefix *)
Theorem content_every_k reg prog kd k :
  wf prog = true -> (kd = KReturn -> closed prog = true) ->
  let st := prof_run reg pst0 (executed prog kd k) in
  let prefix := match kd with KReturn => prog | _ => firstn k prog end in
  (forall f l, p_hits st f l = count_line reg prefix f l)
  /\ (forall f, p_calls st f = count_call reg prefix f)
  /\ (forall f, p_pend st f = None).
Proof.
  intros Hw Hr st prefix.
  destruct (content reg (executed prog kd k) (executed_closed prog kd k Hw Hr)) as (A & B & C).
  fold st in A, B, C. split; [|split; [|exact C]].
  - intros f l. rewrite A. unfold prefix. destruct kd; cbn [executed]; try apply count_line_unwind. reflexivity.
  - intros f. rewrite B. unfold prefix. destruct kd; cbn [executed]; try apply count_call_unwind. reflexivity.
Qed.

(* ---- main's skeleton: one dump, after the program, on every outcome -------------------- *)
Definition nodump (tr : list eff) : bool := forallb (fun e => negb (is_dump e)) tr.

Lemma nodump_prog s : nodump (map FProg s) = true.
Proof. induction s as [|e t IH]; [reflexivity|exact IH]. Qed.

Lemma one_dump_skip pre t : nodump pre = true -> one_dump_after_program (pre ++ t) = one_dump_after_program t.
Proof.
  induction pre as [|e r IH]; [reflexivity|]. cbn [nodump forallb app one_dump_after_program].
  intros H. apply andb_prop in H as [H1 H2]. destruct (is_dump e); [discriminate|]. apply IH, H2.
Qed.

Lemma dumped_skip pre t : nodump pre = true -> dumped_state (pre ++ t) = dumped_state t.
Proof.
  induction pre as [|e r IH]; [reflexivity|]. cbn [nodump forallb app].
  intros H. apply andb_prop in H as [H1 H2]. destruct e; try discriminate; cbn [dumped_state]; apply IH, H2.
Qed.

Lemma count_dump_skip pre t : nodump pre = true -> count_eff is_dump (pre ++ t) = count_eff is_dump t.
Proof.
  unfold count_eff. intros H. f_equal. f_equal. rewrite filter_app.
  replace (filter is_dump pre) with (@nil eff); [reflexivity|].
  induction pre as [|e r IH]; [reflexivity|]. cbn [nodump forallb] in H.
  apply andb_prop in H as [H1 H2]. cbn [filter]. destruct (is_dump e); [discriminate|]. apply IH, H2.
Qed.

Lemma program_events_prog s t : program_events (map FProg s ++ t) = s ++ program_events t.
Proof.
  unfold program_events. rewrite flat_map_app. f_equal.
  induction s as [|e r IH]; [reflexivity|]. cbn [map flat_map app]. f_equal. exact IH.
Qed.

(* the trace of main in closed form *)
Definition main_pre (ctx : bool) : list eff := FInstall :: (if ctx then [FEnable] else []).
Definition main_post (kd : kind) (ctx timed : bool) : list eff :=
  raise_eff kd ++ (if ctx then [FDisable] else [])
  ++ (match kd with KReturn => [] | k => if absorbed k then [FCaught k] else [] end)
  ++ [FUninstall] ++ (if timed then [FTimerStop] else []).
Definition main_rest (out : ostate) (outfile : string) : list eff :=
  match out with
  | OutOk => [FWrote outfile; FInspect]
  | OutNone | OutRebound => []
  | OutBroken => [FIOFails]
  end.
Definition main_outcome (kd : kind) (out : ostate) : outcome :=
  match out with
  | OutBroken => OIOError
  | _ => match kd with KExc => ORaised KExc | _ => ONormal end
  end.

Lemma kern_run_closed_form stream kd reg out ctx timed outfile :
  kern_run stream kd reg out ctx timed outfile
  = (main_pre ctx ++ map FProg stream ++ main_post kd ctx timed
     ++ FDump outfile (prof_run reg pst0 stream) :: main_rest out outfile,
     main_outcome kd out, prof_run reg pst0 stream).
Proof.
  unfold kern_run, kern_main, kern_main_gen, main_pre, main_post, main_outcome, main_rest.
  destruct out, ctx, timed, kd; cbn [exec absorbed raise_eff program_outcome app];
    rewrite <- ?app_assoc; reflexivity.
Qed.

Definition is_iofail (e : eff) : bool := match e with FIOFails => true | _ => false end.
Definition nofail (tr : list eff) : bool := forallb (fun e => negb (is_iofail e)) tr.

Lemma nofail_prog s : nofail (map FProg s) = true.
Proof. induction s as [|e t IH]; [reflexivity|exact IH]. Qed.

Lemma no_failure_skip pre t :
  nodump pre = true -> nofail pre = true -> no_failure_before_dump (pre ++ t) = no_failure_before_dump t.
Proof.
  induction pre as [|e r IH]; [reflexivity|]. cbn [nodump nofail forallb app].
  intros H1 H2. apply andb_prop in H1 as [A1 A2]. apply andb_prop in H2 as [B1 B2].
  destruct e; try discriminate; cbn [no_failure_before_dump]; apply IH; assumption.
Qed.

Lemma nodump_pre ctx : nodump (main_pre ctx) = true.
Proof. destruct ctx; reflexivity. Qed.
Lemma nodump_post kd ctx timed : nodump (main_post kd ctx timed) = true.
Proof. destruct kd, ctx, timed; reflexivity. Qed.
Lemma nofail_pre ctx : nofail (main_pre ctx) = true.
Proof. destruct ctx; reflexivity. Qed.
Lemma nofail_post kd ctx timed : nofail (main_post kd ctx timed) = true.
Proof. destruct kd, ctx, timed; reflexivity. Qed.
Lemma program_events_app a b : program_events (a ++ b) = program_events a ++ program_events b.
Proof. unfold program_events. apply flat_map_app. Qed.

Theorem dump_on_every_outcome stream kd reg out ctx timed outfile :
  let '(tr, oc, st) := kern_run stream kd reg out ctx timed outfile in
  one_dump_after_program tr = true
  /\ count_eff is_dump tr = 1
  /\ no_failure_before_dump tr = true
  /\ dumped_state tr = Some (outfile, prof_run reg pst0 stream)
  /\ program_events tr = stream
  /\ oc = (match out with
           | OutBroken => OIOError
           | _ => match kd with KExc => ORaised KExc | _ => ONormal end
           end)
  /\ st = prof_run reg pst0 stream.
Proof.
  rewrite kern_run_closed_form.
  pose proof (nodump_pre ctx) as H1. pose proof (nodump_prog stream) as H2.
  pose proof (nodump_post kd ctx timed) as H3.
  pose proof (nofail_pre ctx) as G1. pose proof (nofail_prog stream) as G2.
  pose proof (nofail_post kd ctx timed) as G3.
  repeat split.
  - rewrite !one_dump_skip by assumption. destruct out; reflexivity.
  - rewrite !count_dump_skip by assumption. destruct out; reflexivity.
  - rewrite !no_failure_skip by assumption. reflexivity.
  - rewrite !dumped_skip by assumption. reflexivity.
  - rewrite program_events_app, program_events_prog, program_events_app.
    replace (program_events (main_pre ctx)) with (@nil pev) by (destruct ctx; reflexivity).
    replace (program_events (main_post kd ctx timed)) with (@nil pev) by (destruct kd, ctx, timed; reflexivity).
    destruct out; cbn; apply app_nil_r.
Qed.

(* what the order of the real finally block buys: were the block to start with a
   flush of the program's stdout, then with a stdout that is None or cannot be
   written to NO dump would happen at all, whatever the program did *)
Lemma filter_dump_prog s : filter is_dump (map FProg s) = [].
Proof. induction s as [|e t IH]; [reflexivity|exact IH]. Qed.

Theorem flush_first_loses_results stream kd reg out ctx timed outfile :
  out = OutNone \/ out = OutBroken ->
  let '(tr, oc, _) := exec stream kd reg out (kern_main_flush_first ctx timed outfile) pst0 in
  count_eff is_dump tr = 0 /\ oc = OIOError.
Proof.
  intros Hout. unfold kern_main_flush_first, count_eff.
  destruct Hout as [-> | ->];
    destruct ctx, timed, kd; cbn [exec absorbed raise_eff program_outcome app];
    rewrite ?filter_app, ?filter_dump_prog; cbn [app filter is_dump length];
    rewrite ?filter_app, ?filter_dump_prog; cbn [app filter is_dump length]; split; reflexivity.
Qed.

(* ---- -i: periodic dumps while the program runs ------------------------------------------ *)
Lemma prof_run_app reg st a b : prof_run reg st (a ++ b) = prof_run reg (prof_run reg st a) b.
Proof. unfold prof_run. apply fold_left_app. Qed.

Lemma prog_trace_state tfile reg ticks : forall st stream,
  snd (prog_trace tfile reg st stream ticks) = prof_run reg st stream.
Proof.
  induction ticks as [|n t IH]; intros st stream; [reflexivity|].
  cbn [prog_trace].
  destruct (prog_trace tfile reg (prof_run reg st (firstn n stream)) (skipn n stream) t) as [tr st2] eqn:E.
  cbn [snd]. pose proof (IH (prof_run reg st (firstn n stream)) (skipn n stream)) as H. rewrite E in H. cbn [snd] in H.
  rewrite H, <- prof_run_app, firstn_skipn. reflexivity.
Qed.

Lemma prog_trace_events tfile reg ticks : forall st stream,
  program_events (fst (prog_trace tfile reg st stream ticks)) = stream.
Proof.
  induction ticks as [|n t IH]; intros st stream.
  - cbn [prog_trace fst]. rewrite <- (app_nil_r (map FProg stream)), program_events_prog. apply app_nil_r.
  - cbn [prog_trace].
    destruct (prog_trace tfile reg (prof_run reg st (firstn n stream)) (skipn n stream) t) as [tr st2] eqn:E.
    cbn [fst]. rewrite program_events_prog.
    change (program_events (FDump tfile (prof_run reg st (firstn n stream)) :: tr)) with (program_events tr).
    pose proof (IH (prof_run reg st (firstn n stream)) (skipn n stream)) as H. rewrite E in H. cbn [fst] in H.
    rewrite H. apply firstn_skipn.
Qed.

Lemma last_dump_app A o st rest :
  nodump (rev rest) = true -> last_dump (A ++ FDump o st :: rest) = Some (o, st).
Proof.
  intros H. unfold last_dump. rewrite rev_app_distr. cbn [rev]. rewrite <- app_assoc.
  rewrite dumped_skip by exact H. reflexivity.
Qed.

Lemma kern_run_ticks_closed_form stream kd reg out ticks ctx outfile :
  kern_run_ticks stream kd reg out ticks ctx outfile
  = (main_pre ctx ++ fst (prog_trace outfile reg pst0 stream ticks) ++ main_post kd ctx true
     ++ FDump outfile (snd (prog_trace outfile reg pst0 stream ticks)) :: main_rest out outfile,
     main_outcome kd out, snd (prog_trace outfile reg pst0 stream ticks)).
Proof.
  unfold kern_run_ticks, kern_main_ticks, kern_main_gen, main_pre, main_post, main_outcome, main_rest.
  destruct out, ctx, kd; cbn [exec absorbed raise_eff program_outcome app];
    destruct (prog_trace outfile reg pst0 stream ticks) as [pt st'];
    cbn [fst snd app absorbed]; rewrite <- ?app_assoc; cbn [app]; reflexivity.
Qed.

(* With -i a timer thread writes snapshots into the same file while the program
   runs (after any numbers of events): whatever they were, the LAST write is main's
   own dump, made after every program event, and it holds the state of the whole
   executed stream - a periodic dump never stands in for the final one. *)
Theorem final_dump_with_periodic_dumps stream kd reg out ticks ctx outfile :
  let '(tr, oc, st) := kern_run_ticks stream kd reg out ticks ctx outfile in
  last_dump tr = Some (outfile, prof_run reg pst0 stream)
  /\ program_events tr = stream
  /\ (exists A rest, tr = A ++ FDump outfile (prof_run reg pst0 stream) :: rest
                     /\ nodump rest = true /\ existsb is_prog rest = false)
  /\ oc = main_outcome kd out
  /\ st = prof_run reg pst0 stream.
Proof.
  rewrite kern_run_ticks_closed_form, prog_trace_state.
  repeat split.
  - rewrite !app_assoc. apply last_dump_app. destruct out; reflexivity.
  - rewrite !program_events_app, prog_trace_events.
    replace (program_events (main_pre ctx)) with (@nil pev) by (destruct ctx; reflexivity).
    replace (program_events (main_post kd ctx true)) with (@nil pev) by (destruct kd, ctx; reflexivity).
    destruct out; cbn; apply app_nil_r.
  - eexists. exists (main_rest out outfile). split; [rewrite !app_assoc; reflexivity|].
    destruct out; split; reflexivity.
Qed.

(* FINDING: without -l the profiler is cProfile, whose dump_stats() = create_stats() +
   marshal begins with self.disable(): the first periodic dump of the -i timer thread ends
   the profiling.  Witness: a program that calls f0 ("early"), is caught by the periodic
   dump after 3 events and then calls f1 ("late") and returns: the program ran to its end
   (all 6 events), the file's last write is main's own dump, and it holds 1 call of f0 and
   NO call of f1 although f1 executed once - under the line profiler (-l) the same run
   with the same periodic dump delivers both (C06_final_dump_with_periodic_dumps). *)
Definition cpi_stream : list pev := [PCall 0; PLine 0 2; PRet 0; PCall 1; PLine 1 5; PRet 1].
Definition dumped_calls (r : list eff * outcome * pst) (outfile : string) (f : Z) : option Z :=
  match last_dump (fst (fst r)) with
  | Some (o, s) => if String.eqb o outfile then Some (p_calls s f) else None
  | None => None
  end.

Theorem cprofile_periodic_dump_refuted :
  exists (stream : list pev) (kd : kind) (reg : Z -> bool) (out : ostate) (tick : nat) (ctx : bool)
         (outfile : string) (late : Z),
    closed stream = true
    /\ program_events (fst (fst (kern_run_ticks_c stream kd reg out [tick] ctx outfile))) = stream
    /\ count_eff is_dump (fst (fst (kern_run_ticks_c stream kd reg out [tick] ctx outfile))) = 2
    /\ count_call reg stream late = 1
    /\ dumped_calls (kern_run_ticks_c stream kd reg out [tick] ctx outfile) outfile late = Some 0
    /\ dumped_calls (kern_run_ticks stream kd reg out [tick] ctx outfile) outfile late = Some 1.
Proof.
  exists cpi_stream, KReturn, (fun _ => true), OutOk, 3%nat, true, "prog.py.prof", 1.
  vm_compute. repeat split; reflexivity.
Qed.

(* ---- the wrappers' windows are transparent --------------------------------------------------- *)
Lemma prof_step_unreg reg st e : reg (fn_of e) = false -> prof_step reg st e = st.
Proof. unfold prof_step. intros ->. reflexivity. Qed.

Lemma wrap_transparent reg evs : forall s s' st,
  stack_from (Some s) evs = Some s' ->
  wprof_run reg (nreg reg s, st) (wrap reg evs) = (nreg reg s', prof_run reg st evs).
Proof.
  induction evs as [|e t IH]; intros s s' st Hs.
  - cbn in Hs. injection Hs as <-. reflexivity.
  - unfold stack_from in Hs. cbn [fold_left] in Hs.
    destruct (stack_step (Some s) e) as [s1|] eqn:E;
      [|fold (stack_from None t) in Hs; rewrite stack_from_none in Hs; discriminate].
    fold (stack_from (Some s1) t) in Hs.
    unfold wrap. cbn [flat_map]. fold (wrap reg t).
    unfold wprof_run. rewrite fold_left_app. fold (wprof_run reg).
    unfold prof_run. cbn [fold_left]. fold (prof_run reg (prof_step reg st e) t).
    rewrite <- (IH s1 s' (prof_step reg st e) Hs). f_equal.
    destruct e as [f|f l|f]; cbn [stack_step] in E.
    + injection E as <-. unfold nreg. cbn [filter]. destruct (reg f) eqn:R; cbn [fold_left wstep fst snd length].
      * reflexivity.
      * rewrite prof_step_unreg by exact R. destruct (length (filter reg s)); reflexivity.
    + destruct s as [|g r]; [discriminate|]. destruct (Z.eqb_spec f g) as [->|]; [|discriminate].
      injection E as <-. cbn [fold_left wstep fst snd]. unfold nreg. cbn [filter].
      destruct (reg g) eqn:R; cbn [length].
      * reflexivity.
      * rewrite prof_step_unreg by exact R. destruct (length (filter reg r)); reflexivity.
    + destruct s as [|g r]; [discriminate|]. destruct (Z.eqb_spec f g) as [->|]; [|discriminate].
      injection E as <-. unfold nreg. cbn [filter].
      destruct (reg g) eqn:R; cbn [fold_left wstep fst snd length pred].
      * reflexivity.
      * rewrite prof_step_unreg by exact R. destruct (length (filter reg r)); reflexivity.
Qed.

(* the profiler that is only switched on inside the wrappers' windows records exactly
   what an always-on profiler would record for the registered functions: every
   activation segment of a registered function - a call, a generator resumption, the
   resumption that delivers close() or throw() - lies inside a window *)
Theorem windows_transparent reg evs :
  wf evs = true ->
  snd (wprof_run reg (0%nat, pst0) (wrap reg evs)) = prof_run reg pst0 evs.
Proof.
  unfold wf, stack_after. intros H.
  destruct (stack_from (Some []) evs) as [s'|] eqn:E; [|discriminate].
  change 0%nat with (nreg reg []). rewrite (wrap_transparent reg evs [] s' pst0 E). reflexivity.
Qed.

(* with separate sets: `dec` opens the windows, `reg` is what the profiler records while
   it is on (kernprof -b: cProfile records every function inside the decorated
   functions' windows): the windowed run is the plain run over the windowed events *)
Lemma windowed_run reg dec evs : forall d st,
  snd (wprof_run reg (d, st) (wrap dec evs)) = prof_run reg st (windowed_from dec d evs).
Proof.
  induction evs as [|e t IH]; intros d st; [reflexivity|].
  unfold wrap. cbn [flat_map]. fold (wrap dec t).
  unfold wprof_run. rewrite fold_left_app.
  destruct e as [f|f l|f]; cbn [windowed_from].
  - destruct (dec f); cbn [fold_left wstep fst snd].
    + unfold prof_run. cbn [fold_left]. apply IH.
    + destruct d; cbn [fst snd]; unfold prof_run; cbn [fold_left]; apply IH.
  - cbn [fold_left wstep fst snd]. destruct d; cbn [fst snd]; unfold prof_run; cbn [fold_left]; apply IH.
  - destruct (dec f); cbn [fold_left wstep fst snd]; destruct d; cbn [fst snd pred];
      unfold prof_run; cbn [fold_left]; apply IH.
Qed.

Theorem builtin_mode_records_profiled_sections reg dec evs :
  snd (wprof_run reg (0%nat, pst0) (wrap dec evs)) = prof_run reg pst0 (windowed_events dec evs).
Proof. apply windowed_run. Qed.

(* ... and a segment that is run outside a window is lost: a generator finalised by
   close() with the profiler switched off (its clean-up line 5 executed, 0 hits) *)
Example unwindowed_segment_is_lost :
  let ws := [WEnable; WE (PCall 0); WE (PLine 0 2); WE (PRet 0); WDisable;
             WE (PCall 0); WE (PLine 0 5); WE (PRet 0)] in
  p_hits (snd (wprof_run (fun _ => true) (0%nat, pst0) ws)) 0 5 = 0
  /\ p_hits (snd (wprof_run (fun _ => true) (0%nat, pst0)
                    (wrap (fun _ => true) [PCall 0; PLine 0 2; PRet 0; PCall 0; PLine 0 5; PRet 0]))) 0 5 = 1.
Proof. split; reflexivity. Qed.

(* ---- -v: the report reaches the saved stdout and shows what the file holds ---------------- *)
Definition view_rest (out : ostate) (final : pst) (outfile : string) : list eff :=
  match out with
  | OutOk => [FWrote outfile; FView final]
  | OutNone | OutRebound => [FView final]
  | OutBroken => [FIOFails]
  end.

Lemma view_closed_form stream kd reg out ctx outfile :
  exec stream kd reg out (kern_main_view ctx outfile) pst0
  = (main_pre ctx ++ map FProg stream ++ main_post kd ctx false
     ++ FDump outfile (prof_run reg pst0 stream) :: view_rest out (prof_run reg pst0 stream) outfile,
     main_outcome kd out, prof_run reg pst0 stream).
Proof.
  unfold kern_main_view, main_pre, main_post, main_outcome, view_rest.
  destruct out, ctx, kd; cbn [exec absorbed raise_eff program_outcome app];
    rewrite <- ?app_assoc; reflexivity.
Qed.

Definition noview (tr : list eff) : bool := forallb (fun e => negb (is_view e)) tr.
Lemma noview_prog s : noview (map FProg s) = true.
Proof. induction s as [|e t IH]; [reflexivity|exact IH]. Qed.
Lemma count_view_skip pre t : noview pre = true -> count_eff is_view (pre ++ t) = count_eff is_view t.
Proof.
  unfold count_eff. intros H. f_equal. f_equal. rewrite filter_app.
  replace (filter is_view pre) with (@nil eff); [reflexivity|].
  induction pre as [|e r IH]; [reflexivity|]. cbn [noview forallb] in H.
  apply andb_prop in H as [H1 H2]. cbn [filter]. destruct (is_view e); [discriminate|]. apply IH, H2.
Qed.
Lemma viewed_skip pre t : noview pre = true -> viewed_state (pre ++ t) = viewed_state t.
Proof.
  induction pre as [|e r IH]; [reflexivity|]. cbn [noview forallb app].
  intros H. apply andb_prop in H as [H1 H2]. destruct e; try discriminate; cbn [viewed_state]; apply IH, H2.
Qed.

(* kernprof -l -v, for ALL programs, outcomes and every state of the program's stdout on
   which print() does not raise - untouched, None, or REBOUND to another stream: exactly
   one report is written, to the stdout saved before the program ran, and it shows the
   very state that the dump put into the file. *)
Theorem view_agrees_with_file stream kd reg out ctx outfile :
  out <> OutBroken ->
  let '(tr, oc, st) := exec stream kd reg out (kern_main_view ctx outfile) pst0 in
  count_eff is_view tr = 1
  /\ viewed_state tr = Some (prof_run reg pst0 stream)
  /\ last_dump tr = Some (outfile, prof_run reg pst0 stream)
  /\ count_eff is_dump tr = 1.
Proof.
  intros Hout. rewrite view_closed_form.
  assert (V1 : noview (main_pre ctx) = true) by (destruct ctx; reflexivity).
  assert (V3 : noview (main_post kd ctx false) = true) by (destruct kd, ctx; reflexivity).
  pose proof (noview_prog stream) as V2.
  pose proof (nodump_pre ctx) as H1. pose proof (nodump_prog stream) as H2.
  pose proof (nodump_post kd ctx false) as H3.
  repeat split.
  - rewrite !count_view_skip by assumption. destruct out; try reflexivity. congruence.
  - rewrite !viewed_skip by assumption. destruct out; try reflexivity. congruence.
  - rewrite !app_assoc. apply last_dump_app. destruct out; reflexivity.
  - rewrite !count_dump_skip by assumption. destruct out; reflexivity.
Qed.

(* ---- the explicit mode ------------------------------------------------------------------- *)
Definition hook_outputs (r : res emitted) : list (Z * option string) :=
  match r with Ok e => emitted_codes e | Err _ => [] end.

Lemma no_stdout_output wc prefix ts :
  w_stdout wc = false -> wants_stdout (emitted_codes (expected_outputs wc prefix ts)) = false.
Proof.
  destruct wc as [l t m o]. cbn [w_stdout]. intros ->.
  unfold expected_outputs, all_kinds, emitted_codes, wants_stdout.
  cbn [filter switched_on w_lprof w_text w_timestamped w_stdout].
  destruct l, t, m; reflexivity.
Qed.

Theorem explicit_atexit (environ : string -> option string) (argv : list string) (ops : list op)
        (wc : write_config) (ts : string) stream kd reg out :
  user_history ops = true ->
  spec_active (requestedb (environ "LINE_PROFILE") argv) None ops = true ->     (* profiling was switched on *)
  out = OutOk \/ w_stdout wc = false ->          (* stdout can be written to, or the stdout report is switched off *)
  let s' := snd (run environ argv gp_init ops) in
  let prefix := spec_prefix init_output_prefix ops in
  let st := prof_run reg pst0 stream in
  f_atexit s' = 1
  /\ explicit_run stream kd reg out (map hook_outputs (at_exit s' wc ts))
     = (map FProg stream ++ raise_eff kd ++ [FShow (emitted_codes (expected_outputs wc prefix ts)) st],
        program_outcome kd, st).
Proof.
  intros Hu Ha Hout s' prefix st.
  destruct (single environ argv ops Hu) as (_ & B & _). cbn zeta in B. rewrite Ha in B.
  split; [exact B|].
  pose proof (outputs_exact environ argv ops wc ts Hu) as H. cbn zeta in H. rewrite Ha in H.
  unfold explicit_run. cbn [exec]. subst s'. rewrite H. cbn [map hook_outputs].
  rewrite <- app_assoc. f_equal. f_equal. f_equal. f_equal.
  unfold show_eff. destruct Hout as [-> | Hw]; [reflexivity|].
  rewrite (no_stdout_output wc _ ts Hw). destruct out; reflexivity.
Qed.

(* FINDING: with the default outputs (stdout report on) and a program that leaves
   sys.stdout unusable, the single exit hook raises in its first step: no output is
   written at all *)
Theorem explicit_stdout_broken_refuted :
  exists environ argv ops wc ts stream kd reg out,
    user_history ops = true
    /\ spec_active (requestedb (environ "LINE_PROFILE") argv) None ops = true
    /\ out <> OutOk /\ w_stdout wc = true /\ w_lprof wc = true
    /\ count_eff is_show (fst (fst (explicit_run stream kd reg out
                                      (map hook_outputs (at_exit (snd (run environ argv gp_init ops)) wc ts))))) = 0.
Proof.
  exists (environ_of (Some "1")), ["prog"], [OpDecorate (Fn 1)], (mkWC true true true true), "T",
         [PCall 0; PLine 0 2; PRet 0], KReturn, (fun _ => true), OutNone.
  repeat split; try discriminate.
Qed.

(* ---- witnesses ----------------------------------------------------------------------------- *)
Definition prog_ex : list pev :=
  [PCall 0; PLine 0 2; PLine 0 3; PCall 1; PLine 1 7; PLine 1 8; PRet 1; PLine 0 3; PLine 0 4; PRet 0].

Example content_nonvacuous :
  wf prog_ex = true /\ closed prog_ex = true
  /\ executed prog_ex KExc 5 = [PCall 0; PLine 0 2; PLine 0 3; PCall 1; PLine 1 7; PRet 1; PRet 0]
  /\ (let st := prof_run (fun _ => true) pst0 (executed prog_ex KExc 5) in
      p_hits st 0 3 = 1 /\ p_hits st 1 7 = 1 /\ p_hits st 1 8 = 0 /\ p_calls st 1 = 1)
  /\ (let st := prof_run (fun _ => true) pst0 (firstn 5 prog_ex) in p_hits st 1 7 = 0 /\ p_pend st 1 = Some 7).
Proof. vm_compute. repeat split; reflexivity. Qed.

Example explicit_nonvacuous :
  user_history [OpDecorate (Fn 1); OpDecorate (Fn 2)] = true
  /\ spec_active (requestedb (environ_of (Some "1") "LINE_PROFILE") ["prog"]) None [OpDecorate (Fn 1); OpDecorate (Fn 2)] = true.
Proof. vm_compute. split; reflexivity. Qed.
