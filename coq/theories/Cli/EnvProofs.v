(* C07 - proofs about Cli/EnvModel.v *)
From LP Require Import Prelude.Py Cli.EnvModel.

(* ---- equality tests -------------------------------------------------------- *)
Lemma slist_eqb_refl l : slist_eqb l l = true.
Proof.
  induction l as [|x t IH]; [reflexivity|].
  unfold slist_eqb in *. cbn [list_eqb]. rewrite String.eqb_refl, IH. reflexivity.
Qed.

Lemma slist_eqb_eq a b : slist_eqb a b = true -> a = b.
Proof.
  revert b. induction a as [|x t IH]; intros [|y u] H; try reflexivity; try discriminate.
  unfold slist_eqb in *. cbn [list_eqb] in H. apply andb_prop in H as [H1 H2].
  apply String.eqb_eq in H1. subst. f_equal. apply IH. exact H2.
Qed.

Lemma path_eqb_refl p : path_eqb p p = true.
Proof. unfold path_eqb. rewrite slist_eqb_refl. destruct (p_abs p); reflexivity. Qed.

Lemma path_eqb_eq a b : path_eqb a b = true -> a = b.
Proof.
  unfold path_eqb. intros H. apply andb_prop in H as [H1 H2].
  apply slist_eqb_eq in H2. apply Bool.eqb_prop in H1.
  destruct a, b. cbn in *. subst. reflexivity.
Qed.

(* ---- normpath --------------------------------------------------------------- *)
Lemma regular_step abs st x : regular x = true -> norm_step abs st x = x :: st.
Proof.
  unfold regular, norm_step. intros H.
  destruct (str_empty x); [discriminate|].
  destruct (String.eqb x "."); [discriminate|].
  destruct (String.eqb x ".."); [discriminate|]. reflexivity.
Qed.

Lemma normcomps_snoc abs l x :
  regular x = true -> normcomps abs (l ++ [x]) = normcomps abs l ++ [x].
Proof.
  intros H. unfold normcomps. rewrite fold_left_app. cbn [fold_left].
  rewrite regular_step by exact H. reflexivity.
Qed.

Lemma normcomps_dot_mid abs a b : normcomps abs (a ++ "." :: b) = normcomps abs (a ++ b).
Proof. unfold normcomps. rewrite !fold_left_app. reflexivity. Qed.

Lemma normcomps_dot_end abs a : normcomps abs (a ++ ["."]) = normcomps abs a.
Proof. rewrite normcomps_dot_mid, app_nil_r. reflexivity. Qed.

Lemma last_regular l : regular (last l "") = true -> exists l' x, l = l' ++ [x] /\ regular x = true.
Proof.
  intros H. destruct l as [|a t]; [discriminate|].
  exists (removelast (a :: t)), (last (a :: t) ""). split; [|exact H].
  apply app_removelast_last. discriminate.
Qed.

Lemma last_app_ne {A} (a b : list A) d : b <> [] -> last (a ++ b) d = last b d.
Proof.
  intros Hb. induction a as [|x t IH]; [reflexivity|].
  cbn [app]. destruct (t ++ b) eqn:E.
  - destruct t; [cbn in E; congruence|discriminate].
  - cbn [last]. exact IH.
Qed.

(* ---- absolutize -------------------------------------------------------------- *)
Lemma absolutize_join_cwd cwd f :
  p_abs cwd = true -> absolutize cwd (pjoin cwd f) = absolutize cwd f.
Proof.
  intros Hc. unfold absolutize. f_equal. f_equal.
  unfold pjoin. destruct (p_abs f) eqn:E.
  - rewrite E. reflexivity.
  - cbn [p_abs p_comps]. rewrite Hc. reflexivity.
Qed.

Lemma absolutize_dirname cwd f :
  regular (basename f) = true ->
  absolutize cwd (dirname f) = dirname (absolutize cwd f).
Proof.
  intros H. unfold basename in H. apply last_regular in H as (l & x & Hl & Hx).
  destruct f as [fa fc]. cbn [p_comps] in Hl. subst fc.
  unfold absolutize, dirname, pjoin. cbn [p_abs p_comps]. f_equal.
  rewrite removelast_last.
  destruct fa; cbn [p_comps].
  - rewrite normcomps_snoc by exact Hx. rewrite removelast_last. reflexivity.
  - rewrite app_assoc. rewrite normcomps_snoc by exact Hx. rewrite removelast_last. reflexivity.
Qed.

Lemma absolutize_empty cwd :
  normcomps true (p_comps cwd) = p_comps cwd ->
  absolutize cwd empty_path = mkpath true (p_comps cwd).
Proof. intros H. unfold absolutize, pjoin, empty_path, rel. cbn [p_abs p_comps]. rewrite app_nil_r, H. reflexivity. Qed.

Lemma absolutize_curdir cwd :
  p_abs cwd = true -> normcomps true (p_comps cwd) = p_comps cwd ->
  absolutize cwd (rel ["."]) = cwd.
Proof.
  intros Ha H. unfold absolutize, pjoin, rel. cbn [p_abs p_comps].
  rewrite normcomps_dot_end, H. destruct cwd. cbn in *. subst. reflexivity.
Qed.

(* ---- find_script -------------------------------------------------------------- *)
Lemma search_path_some w s dirs f :
  search_path w s dirs = Some f -> exists d, f = pjoin d s /\ isfile w f = true.
Proof.
  induction dirs as [|d t IH]; [discriminate|]. cbn [search_path].
  destruct (is_empty_path d); [exact IH|].
  destruct (isfile w (pjoin d s)) eqn:E; [|exact IH].
  intros H. injection H as <-. eauto.
Qed.

Lemma find_script_basename w s f :
  find_script w s = Some f -> regular (basename s) = true -> regular (basename f) = true.
Proof.
  unfold find_script. destruct (isfile w s).
  - intros H. injection H as <-. trivial.
  - intros H Hr. apply search_path_some in H as (d & -> & _).
    unfold basename, pjoin in *. destruct (p_abs s); [exact Hr|]. cbn [p_comps].
    rewrite last_app_ne; [exact Hr|]. destruct (p_comps s); [discriminate|discriminate].
Qed.

Lemma find_script_isfile w s f : find_script w s = Some f -> isfile w f = true.
Proof.
  unfold find_script. destruct (isfile w s) eqn:E.
  - intros H. injection H as <-. exact E.
  - intros H. apply search_path_some in H as (d & _ & H). exact H.
Qed.

(* ---- script mode: the observed environment equals python's -------------------- *)
Definition setup_found (w : world) (o : opts) : Prop :=
  match o.(o_setup) with None => True | Some s => find_script w s <> None end.

Theorem env_equal_script w o s args f :
  p_abs (w_cwd w) = true ->
  find_script w s = Some f ->
  setup_found w o ->
  regular (basename s) = true ->
  exists tr po,
    kern_run w o (TScript s) args = Some tr /\ program_obs tr = Some po /\
    let py := py_script_obs w f args in
    ob_args po = ob_args py /\ ob_name po = ob_name py /\ ob_cwd po = ob_cwd py
    /\ absolutize (w_cwd w) (ob_file po) = absolutize (w_cwd w) (ob_file py)
    /\ absolutize (w_cwd w) (ob_path0 po) = ob_path0 py
    /\ ob_argv0 po = s
    /\ find_script w (ob_argv0 po) = Some (ob_argv0 py)
    /\ (isfile w s = true -> ob_argv0 po = ob_argv0 py).
Proof.
  intros Hcwd Hf Hs Hr.
  assert (Hbf : regular (basename f) = true) by (eapply find_script_basename; eassumption).
  assert (Hargv : isfile w s = true -> s = f).
  { intros E. unfold find_script in Hf. rewrite E in Hf. congruence. }
  unfold kern_run. cbn [is_module argv0_of].
  unfold setup_found in Hs.
  destruct (o_setup o) as [s'|].
  - destruct (find_script w s') as [f'|] eqn:Es; [|congruence].
    rewrite Hf. eexists. eexists. split; [reflexivity|].
    destruct (builtin_eff o), (0 <? o_interval o); cbn [app program_obs];
      (split; [reflexivity|]); cbn [py_script_obs ob_args ob_name ob_cwd ob_file ob_path0 ob_argv0 hd];
      repeat split; try assumption;
      try (rewrite absolutize_join_cwd by assumption; reflexivity);
      try (apply absolutize_dirname; assumption).
  - rewrite Hf. eexists. eexists. split; [reflexivity|].
    destruct (builtin_eff o), (0 <? o_interval o); cbn [app program_obs];
      (split; [reflexivity|]); cbn [py_script_obs ob_args ob_name ob_cwd ob_file ob_path0 ob_argv0 hd];
      repeat split; try assumption;
      try (rewrite absolutize_join_cwd by assumption; reflexivity);
      try (apply absolutize_dirname; assumption).
Qed.

(* the boolean comparison the case shards evaluate follows from the theorem *)
Corollary env_equal_script_equiv w o s args f tr po :
  p_abs (w_cwd w) = true ->
  find_script w s = Some f -> setup_found w o -> regular (basename s) = true ->
  kern_run w o (TScript s) args = Some tr -> program_obs tr = Some po ->
  argv0_equiv w po (py_script_obs w f args) = true
  /\ slist_eqb (ob_args po) args = true /\ String.eqb (ob_name po) "__main__" = true
  /\ path_eqb (ob_cwd po) (w_cwd w) = true
  /\ path_eqb (absolutize (w_cwd w) (ob_file po)) (absolutize (w_cwd w) (pjoin (w_cwd w) f)) = true
  /\ path_eqb (absolutize (w_cwd w) (ob_path0 po)) (dirname (absolutize (w_cwd w) f)) = true.
Proof.
  intros Hc Hf Hs Hr Hk Hp.
  destruct (env_equal_script w o s args f Hc Hf Hs Hr) as (tr' & po' & Hk' & Hp' & H).
  rewrite Hk in Hk'. injection Hk' as <-. rewrite Hp in Hp'. injection Hp' as <-.
  cbn zeta in H. destruct H as (Ha & Hn & Hw & Hfile & Hp0 & Hargv0 & Hfs & Hex).
  cbn [py_script_obs ob_args ob_name ob_cwd ob_file ob_path0 ob_argv0] in *.
  repeat split.
  - unfold argv0_equiv. cbn [py_script_obs ob_argv0].
    destruct (isfile w s) eqn:E.
    + rewrite (Hex eq_refl). rewrite path_eqb_refl. reflexivity.
    + rewrite Hfs. rewrite Hargv0, E. rewrite path_eqb_refl. apply orb_true_r.
  - rewrite Ha. apply slist_eqb_refl.
  - rewrite Hn. reflexivity.
  - rewrite Hw. apply path_eqb_refl.
  - rewrite Hfile. apply path_eqb_refl.
  - rewrite Hp0. apply path_eqb_refl.
Qed.

(* ---- module mode ---------------------------------------------------------------- *)
Lemma isfile_dot_root w r :
  p_abs (w_cwd w) = true ->
  isfile w (pjoin (rel ["."]) (rel r)) = isfile w (pjoin (w_cwd w) (rel r)).
Proof.
  intros Hc. unfold isfile. f_equal. f_equal.
  unfold absolutize, pjoin, rel. cbn [p_abs p_comps]. rewrite Hc. cbn [p_comps].
  f_equal. change ("." :: r) with (["."] ++ r). rewrite app_assoc.
  rewrite <- (app_nil_r (p_comps (w_cwd w) ++ ["."])) at 1.
  replace (((p_comps (w_cwd w) ++ ["."]) ++ []) ++ r) with (p_comps (w_cwd w) ++ "." :: r).
  2:{ rewrite app_nil_r, <- app_assoc. reflexivity. }
  apply normcomps_dot_mid.
Qed.

Lemma pkgs_ok_dot_root w pre rest :
  p_abs (w_cwd w) = true ->
  pkgs_ok w (rel ["."]) pre rest = pkgs_ok w (w_cwd w) pre rest.
Proof.
  intros Hc. revert pre. induction rest as [|c t IH]; intros pre; [reflexivity|].
  cbn [pkgs_ok]. destruct t as [|c' t']; [reflexivity|].
  rewrite isfile_dot_root by exact Hc. rewrite IH. reflexivity.
Qed.

Lemma absolutize_dot_root w r :
  p_abs (w_cwd w) = true ->
  absolutize (w_cwd w) (pjoin (rel ["."]) (rel r)) = absolutize (w_cwd w) (pjoin (w_cwd w) (rel r)).
Proof.
  intros Hc. unfold absolutize, pjoin, rel. cbn [p_abs p_comps]. rewrite Hc. cbn [p_comps].
  f_equal. apply normcomps_dot_mid.
Qed.

(* two module files denote the same file *)
Definition same_file (w : world) (a b : option path) : Prop :=
  match a, b with
  | Some x, Some y => absolutize (w_cwd w) x = absolutize (w_cwd w) y
  | None, None => True
  | _, _ => False
  end.

Lemma mod_file_empty_root w nm :
  p_abs (w_cwd w) = true ->
  is_empty_path (w_cwd w) = false ->
  same_file w (mod_file w empty_path nm) (mod_file w (w_cwd w) nm).
Proof.
  intros Hc He. unfold mod_file, dpath. rewrite He. cbn [is_empty_path empty_path rel p_abs p_comps negb list_empty andb].
  fold (rel ["."]). fold (rel (add_ext nm)).
  rewrite isfile_dot_root, pkgs_ok_dot_root by exact Hc.
  destruct (isfile w (pjoin (w_cwd w) (rel (add_ext nm))) && pkgs_ok w (w_cwd w) [] nm); cbn [same_file]; [|trivial].
  apply absolutize_dot_root. exact Hc.
Qed.

Lemma abs_not_empty p : p_abs p = true -> is_empty_path p = false.
Proof. unfold is_empty_path. intros ->. reflexivity. Qed.

Lemma origin_root_cwd cwd : p_abs cwd = true -> origin_root cwd cwd = cwd.
Proof.
  intros Hc. unfold origin_root. rewrite (abs_not_empty _ Hc).
  unfold path_eqb. rewrite Hc. cbn [rel p_abs Bool.eqb andb orb]. reflexivity.
Qed.

Lemma origin_root_empty cwd : origin_root cwd empty_path = cwd.
Proof. reflexivity. Qed.

Lemma mod_file_cwd_origin w nm f :
  p_abs (w_cwd w) = true -> mod_file w (w_cwd w) nm = Some f -> f = import_origin w (w_cwd w) nm.
Proof.
  intros Hc. unfold mod_file, import_origin, dpath. rewrite (abs_not_empty _ Hc), (origin_root_cwd _ Hc).
  destruct (_ && _); [|discriminate]. intros H. injection H as <-. reflexivity.
Qed.

(* the module located through `roots` is the one python locates from the launch
   directory: same file, and the import system spells it the same way *)
Definition same_mod (w : world) (nm : list string) (a b : option (path * path)) : Prop :=
  match a, b with
  | Some (r1, f1), Some (r2, f2) =>
      absolutize (w_cwd w) f1 = absolutize (w_cwd w) f2 /\ import_origin w r1 nm = f2
  | None, None => True
  | _, _ => False
  end.

Lemma first_root_cwd_cwd w nm :
  p_abs (w_cwd w) = true ->
  same_mod w nm (first_root w [w_cwd w; w_cwd w] nm) (first_root w [w_cwd w] nm).
Proof.
  intros Hc. cbn [first_root]. destruct (mod_file w (w_cwd w) nm) as [f|] eqn:E; cbn [same_mod]; [|trivial].
  split; [reflexivity|]. symmetry. apply mod_file_cwd_origin; assumption.
Qed.

Lemma first_root_empty_then_cwd w nm :
  p_abs (w_cwd w) = true ->
  same_mod w nm (first_root w [empty_path; w_cwd w; w_cwd w] nm) (first_root w [w_cwd w] nm).
Proof.
  intros Hc. pose proof (abs_not_empty _ Hc) as He.
  pose proof (mod_file_empty_root w nm Hc He) as H.
  cbn [first_root].
  destruct (mod_file w empty_path nm) as [f1|], (mod_file w (w_cwd w) nm) as [f2|] eqn:E2;
    cbn [same_file same_mod] in *; try tauto.
  split; [exact H|].
  unfold import_origin. rewrite origin_root_empty. rewrite <- (origin_root_cwd _ Hc) at 1.
  symmetry. apply mod_file_cwd_origin; assumption.
Qed.

Lemma find_module_rel w roots m fp :
  (forall nm, same_mod w nm (first_root w roots nm) (first_root w [w_cwd w] nm)) ->
  find_module_script w [w_cwd w] m = Some fp ->
  exists r f nm, find_module w roots m = Some (r, f, nm)
                 /\ absolutize (w_cwd w) f = absolutize (w_cwd w) fp /\ import_origin w r nm = fp.
Proof.
  intros Hs. unfold find_module_script, find_module.
  pose proof (Hs (m ++ ["__main__"])) as H1. pose proof (Hs m) as H2.
  destruct (first_root w roots (m ++ ["__main__"])) as [[r1 f1]|],
           (first_root w [w_cwd w] (m ++ ["__main__"])) as [[r2 f2]|]; cbn [same_mod] in H1; try contradiction.
  - intros H. injection H as <-. destruct H1 as [Ha Hb]. eauto 6.
  - destruct (first_root w roots m) as [[r1 f1]|], (first_root w [w_cwd w] m) as [[r2 f2]|];
      cbn [same_mod] in H2; try contradiction; [|discriminate].
    intros H. injection H as <-. destruct H2 as [Ha Hb]. eauto 6.
Qed.

(* the hypothesis under which module mode can agree with `python -m`: no setup
   file, or one that find_script locates in the launch directory itself (so the
   directory kernprof puts in front of sys.path is "") *)
Definition setup_in_cwd (w : world) (o : opts) : Prop :=
  match o.(o_setup) with
  | None => True
  | Some s => exists f, find_script w s = Some f /\ dirname f = empty_path
  end.

Theorem env_module_but_argv0 w o m args pp :
  p_abs (w_cwd w) = true ->
  normcomps true (p_comps (w_cwd w)) = p_comps (w_cwd w) ->
  setup_in_cwd w o ->
  py_module_obs w m args = Some pp ->
  exists tr po,
    kern_run w o (TModule m) args = Some tr /\ program_obs tr = Some po /\
    ob_args po = ob_args pp /\ ob_name po = ob_name pp /\ ob_cwd po = ob_cwd pp
    /\ absolutize (w_cwd w) (ob_file po) = absolutize (w_cwd w) (ob_file pp)
    /\ absolutize (w_cwd w) (ob_path0 po) = ob_path0 pp
    /\ ob_argv0 po = rel [join "." m]          (* the module NAME ... *)
    /\ ob_argv0 pp = ob_file pp.               (* ... where python puts the module's file *)
Proof.
  intros Hc Hn Hs Hpy.
  assert (Hcur : absolutize (w_cwd w) (rel ["."]) = w_cwd w) by (apply absolutize_curdir; assumption).
  assert (Hcwdabs : absolutize (w_cwd w) (w_cwd w) = w_cwd w).
  { unfold absolutize, pjoin. rewrite Hc. rewrite Hn. destruct (w_cwd w). cbn in *. subst. reflexivity. }
  assert (Hemp : absolutize (w_cwd w) empty_path = w_cwd w).
  { rewrite absolutize_empty by exact Hn. destruct (w_cwd w). cbn in *. subst. reflexivity. }
  unfold py_module_obs in Hpy.
  destruct (find_module_script w [w_cwd w] m) as [fp|] eqn:Efp; [|discriminate].
  injection Hpy as <-.
  unfold kern_run, initial_syspath. cbn [is_module argv0_of]. rewrite Hcur.
  unfold setup_in_cwd in Hs.
  destruct (o_setup o) as [s'|].
  - destruct Hs as (f' & Hf' & Hd). rewrite Hf', Hd.
    destruct (find_module_rel w [empty_path; w_cwd w; w_cwd w] m fp
                (fun nm => first_root_empty_then_cwd w nm Hc) Efp) as (r & f & nm & Hfm & Hfa & Hor).
    rewrite Hfm.
    eexists. eexists. split; [reflexivity|].
    destruct (builtin_eff o), (0 <? o_interval o); cbn [app program_obs];
      (split; [reflexivity|]); cbn [ob_args ob_name ob_cwd ob_file ob_path0 ob_argv0 hd];
      (repeat split; try assumption; try reflexivity);
      destruct (via_runpy _); try assumption; rewrite Hor; reflexivity.
  - destruct (find_module_rel w [w_cwd w; w_cwd w] m fp
                (fun nm => first_root_cwd_cwd w nm Hc) Efp) as (r & f & nm & Hfm & Hfa & Hor).
    rewrite Hfm.
    eexists. eexists. split; [reflexivity|].
    destruct (builtin_eff o), (0 <? o_interval o); cbn [app program_obs];
      (split; [reflexivity|]); cbn [ob_args ob_name ob_cwd ob_file ob_path0 ob_argv0 hd];
      (repeat split; try assumption; try reflexivity);
      destruct (via_runpy _); try assumption; rewrite Hor; reflexivity.
Qed.

(* witnesses *)
Definition w_ex : world :=
  mkworld (mkpath true ["p"])
          [mkpath true ["p"; "prog.py"]; mkpath true ["p"; "s.py"]; mkpath true ["p"; "sub"; "s2.py"];
           mkpath true ["p"; "bin"; "tool"]]
          [empty_path; mkpath true ["usr"; "bin"]; rel ["bin"]].
Definition o_plain : opts := mkopts false false false false false false None None 0 [].
Definition o_setup_here : opts := mkopts true false false false false false None (Some (rel ["s.py"])) 0 [].
Definition o_setup_sub : opts := mkopts true false false false false false None (Some (rel ["sub"; "s2.py"])) 0 [].
Definition o_interval1 : opts := mkopts true false false false false false None None 1 [].

Definition kern_obs w o t args := match kern_run w o t args with Some tr => program_obs tr | None => None end.

(* -m: sys.argv[0] is the module name under kernprof, the module's file under python,
   and no normalisation identifies them; everything else agrees *)
Theorem argv0_module_refuted :
  exists w o m args po pp,
    kern_obs w o (TModule m) args = Some po /\ py_module_obs w m args = Some pp /\
    obs_equiv_but_argv0 w po pp = true /\
    argv0_equiv w po pp = false /\
    absolutize (w_cwd w) (ob_argv0 po) <> absolutize (w_cwd w) (ob_argv0 pp).
Proof.
  exists w_ex, o_plain, ["prog"], ["a"]. eexists. eexists.
  split; [vm_compute; reflexivity|]. split; [vm_compute; reflexivity|].
  split; [vm_compute; reflexivity|]. split; [vm_compute; reflexivity|].
  vm_compute. discriminate.
Qed.

(* -s <file in another directory> -m mod: the program's sys.path[0] is the setup
   file's directory, not the launch directory *)
Theorem path0_module_setup_elsewhere_refuted :
  exists w o m args po pp,
    kern_obs w o (TModule m) args = Some po /\ py_module_obs w m args = Some pp /\
    absolutize (w_cwd w) (ob_path0 po) <> ob_path0 pp.
Proof.
  exists w_ex, o_setup_sub, ["prog"], ["a"]. eexists. eexists.
  split; [vm_compute; reflexivity|]. split; [vm_compute; reflexivity|].
  vm_compute. discriminate.
Qed.

Example env_script_nonvacuous :
  p_abs (w_cwd w_ex) = true
  /\ find_script w_ex (rel ["tool"]) = Some (rel ["bin"; "tool"])
  /\ isfile w_ex (rel ["tool"]) = false
  /\ setup_found w_ex o_setup_sub
  /\ regular (basename (rel ["tool"])) = true
  /\ find_script w_ex (rel ["sub"; ".."; "prog.py"]) = Some (rel ["sub"; ".."; "prog.py"])
  /\ kern_obs w_ex o_setup_sub (TScript (rel ["tool"])) ["x"]
     = Some (mkobs (rel ["tool"]) ["x"] "__main__" (rel ["bin"; "tool"]) (rel ["bin"]) (mkpath true ["p"])).
Proof. repeat split; try (vm_compute; reflexivity). vm_compute. discriminate. Qed.

Example env_module_nonvacuous :
  normcomps true (p_comps (w_cwd w_ex)) = p_comps (w_cwd w_ex)
  /\ setup_in_cwd w_ex o_setup_here
  /\ py_module_obs w_ex ["prog"] ["a"]
     = Some (mkobs (mkpath true ["p"; "prog.py"]) ["a"] "__main__" (mkpath true ["p"; "prog.py"])
                   (mkpath true ["p"]) (mkpath true ["p"])).
Proof.
  split; [reflexivity|]. split; [|vm_compute; reflexivity].
  cbn. exists (rel ["s.py"]). split; vm_compute; reflexivity.
Qed.

(* ---- the setup file -------------------------------------------------------------- *)
Theorem setup_once_first_unprofiled w o t args tr :
  kern_run w o t args = Some tr ->
  match o.(o_setup) with
  | None => count_ev is_setup tr = 0
  | Some s =>
      count_ev is_setup tr = 1 /\ setup_first tr = true /\
      exists f, find_script w s = Some f /\
        setup_obs tr = Some (mkobs (argv0_of t) args "__main__" f (dirname f) (w_cwd w))
  end.
Proof.
  unfold kern_run. intros H.
  destruct (o_setup o) as [s|].
  - destruct (find_script w s) as [f|] eqn:Ef; [|discriminate].
    destruct t as [sc|m]; cbn [is_module] in H.
    + destruct (find_script w sc) as [g|]; [|discriminate].
      injection H as <-.
      destruct (builtin_eff o), (0 <? o_interval o);
        (split; [reflexivity|split; [reflexivity|exists f; split; reflexivity]]).
    + destruct (find_module _ _ m) as [[[rt g] nm]|]; [|discriminate].
      injection H as <-.
      destruct (builtin_eff o), (0 <? o_interval o);
        (split; [reflexivity|split; [reflexivity|exists f; split; reflexivity]]).
  - destruct t as [sc|m]; cbn [is_module] in H.
    + destruct (find_script w sc) as [g|]; [|discriminate].
      injection H as <-. destruct (builtin_eff o), (0 <? o_interval o); reflexivity.
    + destruct (find_module _ _ m) as [[[rt g] nm]|]; [|discriminate].
      injection H as <-. destruct (builtin_eff o), (0 <? o_interval o); reflexivity.
Qed.

Example setup_nonvacuous :
  exists tr, kern_run w_ex o_setup_sub (TScript (rel ["prog.py"])) [] = Some tr
             /\ setup_first tr = true /\ count_ev is_setup tr = 1.
Proof. eexists. split; [vm_compute; reflexivity|]. split; reflexivity. Qed.

(* ---- RepeatedTimer ---------------------------------------------------------------- *)
Lemma timer_ops_run w o t args tr during :
  kern_run w o t args = Some tr ->
  timer_ops during tr =
  if 0 <? o_interval o then [TCreate] ++ map TThread during ++ [TStopRt] else map TThread during.
Proof.
  unfold kern_run. intros H.
  destruct (o_setup o) as [s|].
  - destruct (find_script w s) as [f|]; [|discriminate].
    destruct t as [sc|m]; cbn [is_module] in H.
    + destruct (find_script w sc) as [g|]; [|discriminate]. injection H as <-.
      destruct (builtin_eff o), (0 <? o_interval o); cbn; rewrite ?app_nil_r; reflexivity.
    + destruct (find_module _ _ m) as [[[rt g] nm]|]; [|discriminate]. injection H as <-.
      destruct (builtin_eff o), (0 <? o_interval o); cbn; rewrite ?app_nil_r; reflexivity.
  - destruct t as [sc|m]; cbn [is_module] in H.
    + destruct (find_script w sc) as [g|]; [|discriminate]. injection H as <-.
      destruct (builtin_eff o), (0 <? o_interval o); cbn; rewrite ?app_nil_r; reflexivity.
    + destruct (find_module _ _ m) as [[[rt g] nm]|]; [|discriminate]. injection H as <-.
      destruct (builtin_eff o), (0 <? o_interval o); cbn; rewrite ?app_nil_r; reflexivity.
Qed.

(* re-arm first: while the timer is armed, whatever the timer threads do, exactly
   the latest Timer is pending (and it is the one stop() cancels) ... *)
Lemma armed_inv (hs : list thop) : forall d,
  exists d', fold_left (tstep RearmFirst) (map TThread hs) (mkts [mkrt true 1 d] (Some 0%nat))
             = mkts [mkrt true 1 d'] (Some 0%nat).
Proof.
  induction hs as [|h t IH]; intros d; [exists d; reflexivity|].
  cbn [map fold_left].
  destruct h as [[|i]|[|i]|[|i]]; cbn [tstep upd ts_objs ts_rt];
    unfold rt_fire, rt_fire_start, rt_dump_end, rt_start; cbn;
    first [apply IH | destruct d; apply IH].
Qed.

(* ... and once stopped nothing is pending and nothing re-arms *)
Lemma stopped_inv (hs : list thop) : forall d,
  exists d', fold_left (tstep RearmFirst) (map TThread hs) (mkts [mkrt false 0 d] (Some 0%nat))
             = mkts [mkrt false 0 d'] (Some 0%nat).
Proof.
  induction hs as [|h t IH]; intros d; [exists d; reflexivity|].
  cbn [map fold_left].
  destruct h as [[|i]|[|i]|[|i]]; cbn [tstep upd ts_objs ts_rt];
    unfold rt_fire, rt_fire_start, rt_dump_end, rt_start; cbn;
    first [apply IH | destruct d; apply IH].
Qed.

Lemma settle_stopped d : settle RearmFirst (mkrt false 0 d) = mkrt false 0 0.
Proof.
  unfold settle. cbn [rt_dumping].
  assert (forall n d, Nat.iter n (rt_dump_end RearmFirst) (mkrt false 0 d) = mkrt false 0 (d - n)) as H.
  { induction n as [|n IH]; intros d0.
    - cbn. f_equal. lia.
    - change (Nat.iter (S n) (rt_dump_end RearmFirst) (mkrt false 0 d0))
        with (rt_dump_end RearmFirst (Nat.iter n (rt_dump_end RearmFirst) (mkrt false 0 d0))).
      rewrite IH. unfold rt_dump_end. cbn [rt_dumping rt_running rt_pending].
      destruct (d0 - n)%nat eqn:E; f_equal; lia. }
  rewrite H. f_equal. lia.
Qed.

Lemma none_inv ord (hs : list thop) :
  fold_left (tstep ord) (map TThread hs) (mkts [] None) = mkts [] None.
Proof.
  induction hs as [|h t IH]; [reflexivity|]. cbn [map fold_left].
  destruct h as [i|i|i]; cbn [tstep upd ts_objs ts_rt]; destruct i; exact IH.
Qed.

(* one construction, one stop: whatever the timer threads do before and after the
   stop - including a dump that is still in flight when main stops the timer - no
   Timer is pending once the dumps in flight have returned *)
Theorem single_timer_stops (during after : list thop) :
  live_threads RearmFirst (trun RearmFirst ([TCreate] ++ map TThread during ++ [TStopRt] ++ map TThread after)) = 0%nat.
Proof.
  unfold trun. rewrite !fold_left_app. cbn [fold_left tstep app length ts_objs].
  change rt_new with (mkrt true 1 0).
  destruct (armed_inv during 0) as [d Hd]. rewrite Hd.
  cbn [fold_left tstep ts_rt ts_objs upd]. unfold rt_stop. cbn [rt_pending rt_dumping pred].
  destruct (stopped_inv after d) as [d' Hd']. rewrite Hd'.
  unfold live_threads. cbn [ts_objs fold_right]. rewrite settle_stopped. reflexivity.
Qed.

(* with the other order the same interleaving leaves a Timer behind: the dump in
   flight re-arms the chain after stop() cancelled a Timer that had already fired *)
Theorem dump_first_leaks :
  live_threads DumpFirst (trun DumpFirst [TCreate; TThread (HFireStart 0); TStopRt; TThread (HDumpEnd 0)]) = 1%nat
  /\ live_threads DumpFirst (trun DumpFirst [TCreate; TThread (HFireStart 0); TStopRt]) = 1%nat
  /\ live_threads DumpFirst (trun DumpFirst [TCreate; TThread (HFire 0); TThread (HFire 0); TStopRt]) = 0%nat.
Proof. repeat split. Qed.

(* what the code did before fix 204c2e5 (two constructions, the local `rt` rebound,
   one stop): one Timer is left - kept so that a regression is explained *)
Theorem double_creation_leaks :
  live_threads RearmFirst (trun RearmFirst [TCreate; TCreate; TThread (HFire 0); TThread (HFire 1); TStopRt]) = 1%nat
  /\ live_threads RearmFirst (trun RearmFirst [TCreate; TCreate; TStopRt]) = 1%nat.
Proof. split; reflexivity. Qed.

(* "kernprof terminates promptly": for EVERY option record (with or without -i),
   target, argument list and EVERY behaviour of the timer threads during the
   program and after the stop, no Timer thread is pending when main has returned
   and the dumps in flight have finished *)
Theorem no_helper_thread_after_run w o t args tr during after :
  kern_run w o t args = Some tr -> live_after_main order_in_code during after tr = 0%nat.
Proof.
  intros H. unfold live_after_main, order_in_code. rewrite (timer_ops_run _ _ _ _ _ during H).
  destruct (0 <? o_interval o).
  - rewrite <- !app_assoc. apply single_timer_stops.
  - unfold trun. rewrite fold_left_app, !none_inv. reflexivity.
Qed.

Example timer_nonvacuous :
  exists tr, kern_run w_ex o_interval1 (TScript (rel ["prog.py"])) [] = Some tr
             /\ timer_ops [HFire 0; HFireStart 0] tr = [TCreate; TThread (HFire 0); TThread (HFireStart 0); TStopRt]
             /\ live_threads RearmFirst (trun RearmFirst [TCreate; TThread (HFire 0); TThread (HFireStart 0)]) = 1%nat
             /\ live_after_main order_in_code [HFire 0; HFireStart 0] [HDumpEnd 0] tr = 0%nat.
Proof. eexists. split; [vm_compute; reflexivity|]. repeat split. Qed.

(* ---- executable comparison used by the case shards --------------------------------- *)
Definition oobs_eqb (a b : option obs) : bool := opt_eqb obs_eqb a b.

(* one differential case: the model of kernprof vs what the program printed under
   kernprof, the specification vs what it printed under python, and the property
   predicate on the two printed tuples themselves *)
Definition case_ok (w : world) (o : opts) (t : target) (args : list string)
           (impl_setup impl_prog python_obs : option obs) (impl_outfile : option string)
           (impl_mode : Z) : bool * bool * bool :=
  let tr := kern_run w o t args in
  let m_prog := match tr with Some tr => program_obs tr | None => None end in
  let m_setup := match tr with Some tr => setup_obs tr | None => None end in
  let m_out := match tr with Some tr => dump_name tr | None => None end in
  let m_mode := match tr with Some tr => match program_mode tr with Some m => runmode_code m | None => -1 end | None => -1 end in
  let spec := match t with
              | TScript s => match find_script w s with Some f => Some (py_script_obs w f args) | None => None end
              | TModule m => py_module_obs w m args
              end in
  ((oobs_eqb m_prog impl_prog && oobs_eqb m_setup impl_setup && opt_eqb String.eqb m_out impl_outfile
    && (m_mode =? impl_mode),                                         (* model of kernprof = kernprof *)
    oobs_eqb spec python_obs),                                        (* specification = python *)
   match impl_prog, python_obs with                                   (* the property on the observations *)
   | Some k, Some p => obs_equiv w k p
   | _, _ => false
   end).

(* in-process observation of the RepeatedTimer bookkeeping: how many were created
   and stopped, how many firings completed during the program, how many dumps were
   in flight when main stopped the timer, and how many non-daemon threads are alive
   once those dumps have returned *)
Definition is_tcreate (e : event) : bool := match e with ETimerCreate => true | _ => false end.
Definition is_tstop (e : event) : bool := match e with ETimerStop => true | _ => false end.
Definition timer_case_ok (w : world) (o : opts) (t : target) (args : list string)
           (created stopped live fired inflight : Z) : bool * bool :=
  match kern_run w o t args with
  | None => (false, false)
  | Some tr =>
      let during := repeat (HFire 0) (Z.to_nat fired) ++ repeat (HFireStart 0) (Z.to_nat inflight) in
      let after := repeat (HDumpEnd 0) (Z.to_nat inflight) in
      ((count_ev is_tcreate tr =? created) && (count_ev is_tstop tr =? stopped)
       && (Z.of_nat (live_after_main order_in_code during after tr) =? live),
       live =? 0)
  end.
