(* Theorems about the translated pre-parser (Gen/PreParse.v), as main() calls it:
   flag "-m", separator "--". *)
From LP Require Import Prelude.Py Prelude.PyLemmas Gen.PreParse.

(* what the function does when the separator is absent *)
Definition flag_part (args : list string) (flag : string) : res (list string * option string * list string) :=
  match py_index String.eqb args flag with
  | None => Ok (args, None, [])
  | Some i_flag =>
      if Z.eqb i_flag (py_len args - 1) then Err ValueError
      else match py_get args (i_flag + 1) with
           | Some item => Ok (py_slice args None (Some i_flag), Some item, py_slice args (Some (i_flag + 2)) None)
           | None => Err IndexError
           end
  end.

Lemma pre_parse_unfold fuel args flag sep :
  pre_parse (S fuel) args flag sep =
  match py_index String.eqb args sep with
  | None => flag_part args flag
  | Some i_sep =>
      match pre_parse fuel (py_slice args None (Some i_sep)) flag "--" with
      | Err e => Err e
      | Ok (pre_pre, arg, pre_post) =>
          match arg with
          | None => if negb (negb (list_empty pre_post)) then Ok (pre_pre ++ [sep], arg, py_slice args (Some (i_sep + 1)) None)
                    else Err AssertionError
          | Some a => Ok (pre_pre, Some a, pre_post ++ [sep] ++ py_slice args (Some (i_sep + 1)) None)
          end
      end
  end.
Proof. reflexivity. Qed.

Lemma pre_parse_nosep fuel args flag sep :
  ~ In sep args -> pre_parse (S fuel) args flag sep = flag_part args flag.
Proof. intros H. rewrite pre_parse_unfold, py_index_notin by exact H. reflexivity. Qed.

Lemma flag_part_none args flag : ~ In flag args -> flag_part args flag = Ok (args, None, []).
Proof. intros H. unfold flag_part. rewrite py_index_notin by exact H. reflexivity. Qed.

Lemma flag_part_found (opts rest : list string) flag m :
  ~ In flag opts -> flag_part (opts ++ flag :: m :: rest) flag = Ok (opts, Some m, rest).
Proof.
  intros H. unfold flag_part. rewrite py_index_app_here by exact H.
  unfold py_len. rewrite app_length. cbn [length].
  destruct (Z.of_nat (length opts) =? Z.of_nat (length opts + S (S (length rest))) - 1) eqn:E; [lia|].
  replace (opts ++ flag :: m :: rest) with ((opts ++ [flag]) ++ m :: rest) by (rewrite <- app_assoc; reflexivity).
  rewrite (py_get_app_here (opts ++ [flag]) rest m) by (rewrite app_length; cbn [length]; lia).
  rewrite <- app_assoc. cbn [app].
  rewrite py_slice_prefix.
  replace (opts ++ flag :: m :: rest) with ((opts ++ [flag; m]) ++ rest) by (rewrite <- app_assoc; reflexivity).
  rewrite py_slice_suffix by (rewrite app_length; cbn [length]; lia).
  reflexivity.
Qed.

Lemma py_slice_after {A} (l r : list A) x :
  py_slice (l ++ x :: r) (Some (Z.of_nat (length l) + 1)) None = r.
Proof.
  replace (l ++ x :: r) with ((l ++ [x]) ++ r) by (rewrite <- app_assoc; reflexivity).
  apply py_slice_suffix. rewrite app_length. cbn [length]. lia.
Qed.

Lemma in_split_first (x : string) (l : list string) :
  In x l -> exists l1 l2, l = l1 ++ x :: l2 /\ ~ In x l1.
Proof.
  induction l as [|a l IH]; [contradiction|]. intros H.
  destruct (string_dec a x) as [->|Hne].
  - exists [], l. split; [reflexivity|intros []].
  - destruct H as [->|H]; [congruence|]. destruct (IH H) as [l1 [l2 [-> Hn]]].
    exists (a :: l1), l2. split; [reflexivity|]. intros [Ha|Hb]; [congruence|contradiction].
Qed.

(* -m mode: everything after `-m module` is handed over verbatim - for ALL rest *)
Theorem module_mode (fuel : nat) (opts rest : list string) (flag m : string) :
  ~ In flag opts -> ~ In "--" opts -> flag <> "--" -> m <> "--" ->
  pre_parse (S (S fuel)) (opts ++ flag :: m :: rest) flag "--" = Ok (opts, Some m, rest).
Proof.
  intros Hf Hs Hfs Hm.
  destruct (in_dec string_dec "--" rest) as [Hin|Hnot].
  - destruct (in_split_first "--" rest Hin) as [r1 [r2 [-> Hr1]]].
    rewrite pre_parse_unfold.
    replace (opts ++ flag :: m :: r1 ++ "--" :: r2) with ((opts ++ flag :: m :: r1) ++ "--" :: r2)
      by (rewrite <- app_assoc; reflexivity).
    assert (Hpre : ~ In "--" (opts ++ flag :: m :: r1)).
    { rewrite in_app_iff. cbn [In]. intros [H|[H|[H|H]]]; congruence || contradiction. }
    rewrite py_index_app_here by exact Hpre.
    rewrite py_slice_prefix.
    rewrite pre_parse_nosep by exact Hpre. rewrite flag_part_found by exact Hf.
    rewrite py_slice_after. reflexivity.
  - rewrite pre_parse_nosep.
    + apply flag_part_found; exact Hf.
    + rewrite in_app_iff. cbn [In]. intros [H|[H|[H|H]]]; congruence || contradiction.
Qed.

(* script mode, shielded: everything after the first `--` is handed over verbatim - for ALL rest *)
Theorem script_shield (fuel : nat) (opts rest : list string) (flag : string) :
  ~ In flag opts -> ~ In "--" opts ->
  pre_parse (S (S fuel)) (opts ++ "--" :: rest) flag "--" = Ok (opts ++ ["--"], None, rest).
Proof.
  intros Hf Hs. rewrite pre_parse_unfold, py_index_app_here by exact Hs.
  rewrite py_slice_prefix, pre_parse_nosep by exact Hs. rewrite flag_part_none by exact Hf.
  cbn [list_empty negb]. rewrite py_slice_after. reflexivity.
Qed.

Theorem no_directive (fuel : nat) (args : list string) (flag : string) :
  ~ In flag args -> ~ In "--" args -> pre_parse (S fuel) args flag "--" = Ok (args, None, []).
Proof. intros Hf Hs. rewrite pre_parse_nosep by exact Hs. apply flag_part_none; exact Hf. Qed.

(* two units of fuel always suffice: the recursive call's argument contains no separator *)
Lemma flag_part_fuel args flag : flag_part args flag <> Err OutOfFuel.
Proof.
  unfold flag_part. destruct (py_index String.eqb args flag); [|discriminate].
  destruct (Z.eqb _ _); [discriminate|]. destruct (py_get _ _); discriminate.
Qed.

Lemma index_nat_split (l : list string) x n :
  index_nat String.eqb l x = Some n -> exists l1 l2, l = l1 ++ x :: l2 /\ length l1 = n /\ ~ In x l1.
Proof.
  revert n. induction l as [|a l IH]; intros n; cbn [index_nat]; [discriminate|].
  destruct (String.eqb_spec a x) as [->|Hne].
  - intros H; injection H as <-. exists [], l. repeat split. intros [].
  - destruct (index_nat String.eqb l x) as [k|] eqn:E; [|discriminate]. cbn [option_map].
    intros H; injection H as <-. destruct (IH k eq_refl) as [l1 [l2 [-> [Hl Hn]]]].
    exists (a :: l1), l2. repeat split; [cbn [length]; lia|]. intros [Ha|Hb]; [congruence|contradiction].
Qed.

Theorem fuel_irrelevant (fuel : nat) (args : list string) (flag : string) :
  pre_parse (S (S fuel)) args flag "--" <> Err OutOfFuel.
Proof.
  rewrite pre_parse_unfold. destruct (py_index String.eqb args "--") as [i|] eqn:E; [|apply flag_part_fuel].
  unfold py_index in E. destruct (index_nat String.eqb args "--") as [n|] eqn:En; [|discriminate].
  injection E as <-. destruct (index_nat_split _ _ _ En) as [l1 [l2 [-> [Hl Hn]]]]. subst n.
  rewrite py_slice_prefix, pre_parse_nosep by exact Hn.
  pose proof (flag_part_fuel l1 flag) as Hfp.
  destruct (flag_part l1 flag) as [[[a b] c]|e].
  - destruct b; [discriminate|]. destruct (negb (negb (list_empty c))); discriminate.
  - intros H; injection H as ->. apply Hfp; reflexivity.
Qed.
