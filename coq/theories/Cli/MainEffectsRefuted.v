(* Refutations of C19 for the tree AS IT IS ([current] in Cli/MainEffects.v).
   Each lemma stops compiling when the corresponding boolean of [current] is switched on
   (that is the point: a repaired clause must not keep a stale refutation) - delete the
   lemma and its theorem in Props/C19.v then. *)
From LP Require Import Prelude.Py Explicit.Base Gen.GlobalProfiler Cli.MainEffects Cli.MainEffectsProofs.

(* ---- refutations for the tree as it is (fail to compile once [current] is repaired) ------------ *)
Lemma argv_refuted :
  exists s o p, usable (gp s) = true /\ fst (main current o p s) = Returned
                /\ argv_ok s (snd (main current o p s)) = false
                /\ cur (argv (snd (main current o p s))) = o_new_argv o.
Proof. exists st0, opts0, returns. vm_compute. repeat split; reflexivity. Qed.

Lemma path_on_exception_refuted :
  exists s o p, usable (gp s) = true /\ ref (path s) = cap (path s) /\ p_outcome p = Exc
                /\ fst (main current o p s) = Raised
                /\ path_ok s (snd (main current o p s)) = false
                /\ cur (path (snd (main current o p s))) = o_script_dir o :: cur (path s).
Proof. exists st0, opts0, raises. vm_compute. repeat split; reflexivity. Qed.

Lemma profile_unusable_refuted :
  exists s o p, usable (gp s) = true /\ undecided (gp s) = true
                /\ profile_ok s (snd (main current o p s)) = false
                /\ f_enabled (gp (snd (main current o p s))) = Some true
                /\ f_profile (gp (snd (main current o p s))) = None
                /\ decorate (gp (snd (main current o p s))) (fun _ => None) [] (Fn 0) = Err TypeError.
Proof. exists st0, opts0, returns. vm_compute. repeat split; reflexivity. Qed.

Lemma timer_leak_refuted :
  exists s o p, usable (gp s) = true /\ 0 < o_interval o
                /\ timers_ok s (snd (main current o p s)) = false
                /\ timers (snd (main current o p s)) = timers s + 1.
Proof. exists st0, opts_timed, returns. vm_compute. repeat split; reflexivity. Qed.

Lemma statement_refuted : ~ C19_statement current.
Proof.
  intros H. specialize (H st0 [(opts0, returns)] eq_refl). vm_compute in H. discriminate.
Qed.

(* and these failures are not accidents of the witnesses: for the tree as it is EVERY run
   leaves the decorator unusable and every -i N run leaks a timer *)
Lemma every_run_breaks_profile s rs :
  fx_profile current = false -> rs <> [] -> usable (gp (exec_runs current s rs)) = false.
Proof. intros H. apply runs_profile_unfixed. exact H. Qed.

Lemma every_timed_run_leaks s o p :
  fx_timer current = false -> 0 < o_interval o -> timers (snd (main current o p s)) = timers s + 1.
Proof. intros H. apply run_timers_leak. exact H. Qed.

