(* executable comparison used by the C15 case shards *)
From LP Require Import Prelude.Py Cli.ArgparseModel Cli.KernprofCmdline.

Definition one (o : option string) : option (list string) := option_map (fun s => [s]) o.

Definition run_ok (args argv : list string) (flags : list bool) (outfile setup unit : option string)
           (prof_mod : list string) : bool :=
  match kernprof_cmdline args with
  | Run ev argv' _ =>
      list_eqb String.eqb argv' argv
      && list_eqb Bool.eqb (map (ns_flag ev) ["line_by_line"; "builtin"; "view"; "rich"; "skip_zero"; "prof_imports"]) flags
      && olist_eqb (ns_last ev "outfile") (one outfile)
      && olist_eqb (ns_last ev "setup") (one setup)
      && olist_eqb (ns_last ev "unit") (one unit)
      && list_eqb String.eqb (ns_all ev "prof_mod") prof_mod
  | _ => false
  end.
