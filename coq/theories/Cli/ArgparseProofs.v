(* The key fact about the argparse model for C15: once the script positional has been
   met, nothing after it can influence the parse (except through the up-front
   classification, which can fail on an ambiguous abbreviation). *)
From LP Require Import Prelude.Py Cli.ArgparseModel.

Definition absorb (crest : list (string * cls)) : list string :=
  match crest with (_, CSep) :: tl => strings tl | _ => strings crest end.

Lemma match_pos_script (s : string) (crest : list (string * cls)) :
  match_positionals true ((s, CA) :: crest) = Some (Some s, absorb crest).
Proof. destruct crest as [|[s2 [| |o os e]] tl]; reflexivity. Qed.

Lemma loop_eq tbl ws toks st skip :
  loop tbl ws toks st skip =
  if negb (existsb (fun t => is_CO (snd t)) toks) then final ws toks st
  else
    match toks with
    | [] => final ws toks st
    | (s, CO None _ _) :: tl => loop tbl ws tl (add_extra st s) false
    | (s, CO (Some o) ostr expl) :: tl =>
        match consume tbl o ostr expl tl with
        | inr e => PErr e
        | inl (tuples, used_next) =>
            match apply_tuples st tuples with
            | inr k => PExit k
            | inl st' =>
                match used_next, tl with
                | true, _ :: tl2 => loop tbl ws tl2 st' false
                | true, [] => PErr EExpectedOne
                | false, _ => loop tbl ws tl st' false
                end
            end
        end
    | (s, _) :: tl =>
        if st_pos_left st && negb skip then
          match match_positionals ws toks with
          | Some (scr, args) => final ws [] (mkst (st_ev st) (st_extras st) scr args false)
          | None => loop tbl ws tl (add_extra st s) true
          end
        else loop tbl ws tl (add_extra st s) true
    end.
Proof. destruct toks as [|[s c] tl]; reflexivity. Qed.

Lemma apply_tuples_keeps st tu st' :
  apply_tuples st tu = inl st' ->
  st_extras st' = st_extras st /\ st_pos_left st' = st_pos_left st
  /\ st_script st' = st_script st /\ st_args st' = st_args st.
Proof.
  revert st. induction tu as [|[o a] t IH]; intros st; cbn [apply_tuples].
  - intros H; injection H as <-. repeat split.
  - destruct (o_act o); try discriminate; intros H; apply IH in H; cbn in H; exact H.
Qed.

Lemma final_extras ws toks st : st_extras st <> [] -> forall ev s a, final ws toks st <> Parsed ev s a.
Proof.
  intros H ev s a. unfold final.
  destruct (st_pos_left st).
  - destruct (match_positionals ws toks) as [[scr args]|]; cbn.
    + destruct (st_extras st); [congruence|]. discriminate.
    + discriminate.
  - cbn. destruct (st_extras st ++ strings toks) eqn:E; [|discriminate].
    apply app_eq_nil in E as [E _]. congruence.
Qed.

Lemma add_extra_nonempty st s : st_extras (add_extra st s) <> [].
Proof. cbn. destruct (st_extras st); discriminate. Qed.

Lemma loop_extras tbl ws : forall n toks st skip, (length toks <= n)%nat -> st_extras st <> [] ->
  forall ev s a, loop tbl ws toks st skip <> Parsed ev s a.
Proof.
  induction n as [|n IH]; intros toks st skip Hn Hx ev s a.
  - destruct toks; [|cbn in Hn; lia]. rewrite loop_eq. cbn. apply final_extras; exact Hx.
  - rewrite loop_eq. destruct (negb (existsb _ toks)); [apply final_extras; exact Hx|].
    destruct toks as [|[s0 c] tl]; [apply final_extras; exact Hx|]. cbn [length] in Hn.
    destruct c as [| |oo ostr expl].
    + destruct (st_pos_left st && negb skip).
      * destruct (match_positionals ws ((s0, CA) :: tl)) as [[scr args]|].
        -- apply final_extras. exact Hx.
        -- apply IH; [lia|apply add_extra_nonempty].
      * apply IH; [lia|apply add_extra_nonempty].
    + destruct (st_pos_left st && negb skip).
      * destruct (match_positionals ws ((s0, CSep) :: tl)) as [[scr args]|].
        -- apply final_extras. exact Hx.
        -- apply IH; [lia|apply add_extra_nonempty].
      * apply IH; [lia|apply add_extra_nonempty].
    + destruct oo as [o|]; [|apply IH; [lia|apply add_extra_nonempty]].
      destruct (consume tbl o ostr expl tl) as [[tuples used]|e]; [|discriminate].
      destruct (apply_tuples st tuples) as [st'|k] eqn:Ea; [|discriminate].
      apply apply_tuples_keeps in Ea as [Ex _].
      destruct used.
      * destruct tl as [|t2 tl2]; [discriminate|]. apply IH; [cbn [length] in Hn; lia|congruence].
      * apply IH; [lia|congruence].
Qed.

Lemma consume_head tbl o ostr expl tl1 tl2 :
  hd_error tl1 = hd_error tl2 -> consume tbl o ostr expl tl1 = consume tbl o ostr expl tl2.
Proof.
  intros H. unfold consume.
  destruct (match expl with Some e => cluster tbl o ostr e | None => inl ([], o, None) end) as [[[zs ol] x]|e]; [|reflexivity].
  destruct x; [reflexivity|]. destruct (nargs0 (o_act ol)); [reflexivity|].
  destruct tl1 as [|[a1 c1] t1], tl2 as [|[a2 c2] t2]; cbn in H; try discriminate; [reflexivity|].
  injection H as -> ->. reflexivity.
Qed.

Lemma hd_app_cons {A} (l : list A) x r1 r2 : hd_error (l ++ x :: r1) = hd_error (l ++ x :: r2).
Proof. destruct l; reflexivity. Qed.

Theorem loop_suffix tbl (script : string) (crest : list (string * cls)) (ev : list event) :
  forall n cp st, (length cp <= n)%nat ->
    (forall t, In t cp -> snd t <> CSep) ->
    st_pos_left st = true ->
    loop tbl true (cp ++ [(script, CA)]) st false = Parsed ev (Some script) [] ->
    loop tbl true (cp ++ (script, CA) :: crest) st false = Parsed ev (Some script) (absorb crest).
Proof.
  induction n as [|n IH]; intros cp st Hn Hsep Hpos H.
  - destruct cp; [|cbn in Hn; lia]. cbn [app] in *.
    rewrite loop_eq in H. cbn [existsb snd is_CO negb orb] in H. unfold final in H.
    rewrite Hpos, match_pos_script in H. cbn in H.
    destruct (st_extras st) eqn:Ex; cbn in H; [|discriminate]. injection H as <-.
    rewrite loop_eq. cbn [existsb snd is_CO orb].
    destruct (negb (existsb (fun t => is_CO (snd t)) crest)).
    + unfold final. rewrite Hpos, match_pos_script. cbn. rewrite Ex. reflexivity.
    + rewrite Hpos. cbn [negb andb]. rewrite match_pos_script. unfold final. cbn. rewrite Ex. reflexivity.
  - destruct cp as [|[s c] cp']; [apply (IH [] st); [cbn; lia|exact Hsep|exact Hpos|exact H]|].
    cbn [length] in Hn. cbn [app] in *.
    assert (Hsep' : forall t, In t cp' -> snd t <> CSep) by (intros t Ht; apply Hsep; right; exact Ht).
    destruct c as [| |oo ostr expl].
    + (* a positional before the script: the model would take s as the script, with a non-empty remainder *)
      exfalso. rewrite loop_eq in H.
      assert (Hm : match_positionals true ((s, CA) :: cp' ++ [(script, CA)]) = Some (Some s, absorb (cp' ++ [(script, CA)])))
        by apply match_pos_script.
      assert (Hne : absorb (cp' ++ [(script, CA)]) <> []).
      { destruct cp' as [|[s2 c2] t2]; [discriminate|]. cbn [app absorb].
        destruct c2; try discriminate. exfalso. apply (Hsep (s2, CSep)); [right; left; reflexivity|reflexivity]. }
      destruct (negb (existsb _ _)).
      * unfold final in H. rewrite Hpos, Hm in H. cbn in H.
        destruct (st_extras st); cbn in H; [|discriminate]. injection H as _ _ Ha. congruence.
      * rewrite Hpos in H. cbn [negb andb] in H. rewrite Hm in H. unfold final in H. cbn in H.
        destruct (st_extras st); cbn in H; [|discriminate]. injection H as _ _ Ha. congruence.
    + exfalso. apply (Hsep (s, CSep)); [left; reflexivity|reflexivity].
    + rewrite loop_eq in H. rewrite loop_eq. cbn [existsb snd is_CO orb negb] in *.
      destruct oo as [o|].
      * rewrite (consume_head tbl o ostr expl (cp' ++ (script, CA) :: crest) (cp' ++ [(script, CA)]))
          by apply hd_app_cons.
        destruct (consume tbl o ostr expl (cp' ++ [(script, CA)])) as [[tuples used]|e]; [|discriminate].
        destruct (apply_tuples st tuples) as [st'|k] eqn:Ea; [|discriminate].
        apply apply_tuples_keeps in Ea as [Ex [Hp _]].
        destruct used.
        -- destruct cp' as [|t2 cp'']; cbn [app] in *.
           ++ exfalso. rewrite loop_eq in H. cbn in H. unfold final in H. rewrite Hp, Hpos in H. cbn in H. discriminate.
           ++ apply IH; [cbn [length] in Hn; lia|intros t Ht; apply Hsep'; right; exact Ht|congruence|exact H].
        -- apply IH; [lia|exact Hsep'|congruence|exact H].
      * exfalso. revert H. apply (loop_extras tbl true (length (cp' ++ [(script, CA)]))); [lia|apply add_extra_nonempty].
Qed.

(* classification facts *)
Lemma parse_optional_not_sep tbl s c : parse_optional tbl s = inl c -> c <> CSep.
Proof.
  unfold parse_optional. destruct s as [|a s']; [intros H; injection H as <-; discriminate|].
  destruct (negb (Ascii.eqb a "-"%char)); [intros H; injection H as <-; discriminate|].
  destruct (find_opt tbl (String a s')); [intros H; injection H as <-; discriminate|].
  destruct (Nat.eqb _ 1); [intros H; injection H as <-; discriminate|].
  destruct (match split_eq (String a s') with Some (l, r) => match find_opt tbl l with Some o => Some (CO (Some o) l (Some r)) | None => None end | None => None end) as [c0|] eqn:E.
  - intros H; injection H as <-. destruct (split_eq (String a s')) as [[l r]|]; [|discriminate].
    destruct (find_opt tbl l); [|discriminate]. injection E as <-. discriminate.
  - destruct (option_tuples tbl (String a s')) as [|t [|t2 ts]] eqn:Eo.
    + destruct (is_neg_number _); [intros H; injection H as <-; discriminate|].
      destruct (has_space _); intros H; injection H as <-; discriminate.
    + intros H; injection H as <-.
      unfold option_tuples in Eo.
      assert (Hin : In t (t :: nil)) by (left; reflexivity). rewrite <- Eo in Hin.
      destruct (second_is_dash (String a s')).
      * destruct (match split_eq (String a s') with Some (l, r) => (l, Some r) | None => (String a s', None) end) as [pfx ex].
        apply in_flat_map in Hin as [o [_ Hin]]. apply in_flat_map in Hin as [os [_ Hin]].
        destruct (String.prefix pfx os); [destruct Hin as [<-|[]]; discriminate|destruct Hin].
      * apply in_flat_map in Hin as [o [_ Hin]]. apply in_flat_map in Hin as [os [_ Hin]].
        destruct (String.eqb os _); [destruct Hin as [<-|[]]; discriminate|].
        destruct (String.prefix _ os); [destruct Hin as [<-|[]]; discriminate|destruct Hin].
    + discriminate.
Qed.

Lemma classify_app tbl (p : list string) : forall cp, ~ In "--" p -> classify_all tbl p = inl cp ->
  (forall t, In t cp -> snd t <> CSep) /\ strings cp = p /\
  forall q cq, classify_all tbl q = inl cq -> classify_all tbl (p ++ q) = inl (cp ++ cq).
Proof.
  induction p as [|t p IH]; intros cp Hn H.
  - injection H as <-. repeat split; [intros t []|]. intros q cq Hq. exact Hq.
  - cbn [classify_all] in H. destruct (String.eqb_spec t "--") as [->|Hne]; [exfalso; apply Hn; left; reflexivity|].
    destruct (parse_optional tbl t) as [c|e] eqn:Ec; [|discriminate].
    destruct (classify_all tbl p) as [r|e] eqn:Er; [|discriminate]. injection H as <-.
    destruct (IH r) as [H1 [H2 H3]]; [intros Hi; apply Hn; right; exact Hi|reflexivity|].
    repeat split.
    + intros x [<-|Hx]; [cbn; eapply parse_optional_not_sep; exact Ec|apply H1; exact Hx].
    + cbn. f_equal. exact H2.
    + intros q cq Hq. cbn [app classify_all]. destruct (String.eqb_spec t "--"); [congruence|].
      rewrite Ec, (H3 q cq Hq). reflexivity.
Qed.

Lemma classify_all_strings tbl (q : list string) cq : classify_all tbl q = inl cq -> strings cq = q.
Proof.
  revert cq. induction q as [|t q IH]; intros cq H; cbn [classify_all] in H.
  - injection H as <-. reflexivity.
  - destruct (String.eqb t "--").
    + injection H as <-. cbn. f_equal. unfold strings. rewrite map_map. cbn. apply map_id.
    + destruct (parse_optional tbl t); [|discriminate]. destruct (classify_all tbl q) as [r|]; [|discriminate].
      injection H as <-. cbn. f_equal. apply IH. reflexivity.
Qed.
