(* C07 - what a program observes of its environment
     (a) when python itself runs it (`python script args`, `python -m mod args`):
         the SPECIFICATION, validated against the real interpreter on every run;
     (b) when /repo/kernprof.py runs it: a statement-by-statement reading of
         kernprof.main's set-up code (argv rewrite, sys.path insertions,
         find_script, find_module_script, the setup file, the exec namespace).
   Executable definitions only; proofs are in EnvProofs.v.

   Paths are lists of components with an absolute flag:
     "/a/b" = (true,[a;b])   "sub/x.py" = (false,[sub;x.py])   "" = (false,[])
     "." = (false,["."])     "/" = (true,[])
   so os.path.dirname / join / normpath are list functions and every
   normalisation used by a theorem is written out. *)
From LP Require Import Prelude.Py.

Definition slist_eqb := list_eqb String.eqb.

Record path := mkpath { p_abs : bool; p_comps : list string }.

Definition path_eqb (a b : path) : bool :=
  Bool.eqb a.(p_abs) b.(p_abs) && slist_eqb a.(p_comps) b.(p_comps).
Definition rel (l : list string) : path := mkpath false l.
Definition empty_path : path := rel [].
Definition is_empty_path (p : path) : bool := negb p.(p_abs) && list_empty p.(p_comps).

(* os.path.dirname, os.path.join (two arguments), os.path.basename *)
Definition dirname (p : path) : path := mkpath p.(p_abs) (removelast p.(p_comps)).
Definition pjoin (a b : path) : path :=
  if b.(p_abs) then b else mkpath a.(p_abs) (a.(p_comps) ++ b.(p_comps)).
Definition basename (p : path) : string := last p.(p_comps) "".

(* os.path.normpath on components: "" and "." vanish, ".." removes the
   component before it (lexically); the stack is kept reversed. *)
Definition norm_step (abs : bool) (st : list string) (c : string) : list string :=
  if str_empty c || String.eqb c "." then st
  else if String.eqb c ".." then
    match st with
    | [] => if abs then [] else [".."]
    | t :: r => if String.eqb t ".." then ".." :: st else r
    end
  else c :: st.
Definition normcomps (abs : bool) (l : list string) : list string :=
  rev (fold_left (norm_step abs) l []).

(* a component that names something: not "", "." or ".." *)
Definition regular (c : string) : bool :=
  negb (str_empty c || String.eqb c "." || String.eqb c "..").

(* THE normalisation of the theorems: os.path.abspath relative to the launch
   directory, i.e. normpath(join(cwd, p)). *)
Definition absolutize (cwd p : path) : path :=
  mkpath true (normcomps true (pjoin cwd p).(p_comps)).

(* ---- the file system and process environment the launch happens in -------- *)
Record world := mkworld {
  w_cwd : path;               (* os.getcwd(): absolute, normalised *)
  w_files : list path;        (* the regular files, as absolute normalised paths *)
  w_pathdirs : list path      (* os.getenv('PATH').split(':'), "" = empty_path *)
}.

Definition isfile (w : world) (p : path) : bool :=
  existsb (path_eqb (absolutize w.(w_cwd) p)) w.(w_files).

(* kernprof.find_script *)
Fixpoint search_path (w : world) (name : path) (dirs : list path) : option path :=
  match dirs with
  | [] => None
  | d :: t =>
      if is_empty_path d then search_path w name t
      else let fn := pjoin d name in
           if isfile w fn then Some fn else search_path w name t
  end.
Definition find_script (w : world) (name : path) : option path :=
  if isfile w name then Some name else search_path w name w.(w_pathdirs).

(* kernprof.find_module_script through util_static._syspath_modname_to_modpath,
   for runnable targets (M.py, or package M with __main__.py): the roots are the
   entries of sys.path in order ("" is searched as "."), every package directory
   on the way must hold an __init__.py, `M.__main__` is tried before `M`. *)
Definition add_ext (l : list string) : list string :=
  match rev l with [] => [] | x :: r => rev r ++ [(x ++ ".py")%string] end.
Definition dpath (root : path) : path := if is_empty_path root then rel ["."] else root.
Fixpoint pkgs_ok (w : world) (root : path) (pre rest : list string) : bool :=
  match rest with
  | [] => true
  | c :: t =>
      match t with
      | [] => true
      | _ => isfile w (pjoin root (rel (pre ++ [c; "__init__.py"]))) && pkgs_ok w root (pre ++ [c]) t
      end
  end.
Definition mod_file (w : world) (root : path) (nm : list string) : option path :=
  let f := pjoin (dpath root) (rel (add_ext nm)) in
  if isfile w f && pkgs_ok w (dpath root) [] nm then Some f else None.
Fixpoint first_root (w : world) (roots : list path) (nm : list string) : option (path * path) :=
  match roots with
  | [] => None
  | r :: t => match mod_file w r nm with Some f => Some (r, f) | None => first_root w t nm end
  end.
(* (sys.path entry, file as find_module_script spells it, dotted name of the file's module) *)
Definition find_module (w : world) (roots : list path) (m : list string) : option (path * path * list string) :=
  match first_root w roots (m ++ ["__main__"]) with
  | Some (r, f) => Some (r, f, m ++ ["__main__"])
  | None => match first_root w roots m with
            | Some (r, f) => Some (r, f, m)
            | None => None
            end
  end.
Definition find_module_script (w : world) (roots : list path) (m : list string) : option path :=
  match find_module w roots m with Some (_, f, _) => Some f | None => None end.

(* runpy.run_module does not use kernprof's __file__: importlib locates the module
   again and names the file from the absolute form of the sys.path entry
   (FileFinder: "" and "." are the working directory, a relative entry is joined
   to it). *)
Definition origin_root (cwd root : path) : path :=
  if is_empty_path root || path_eqb root (rel ["."]) then cwd
  else if root.(p_abs) then root else pjoin cwd root.
Definition import_origin (w : world) (root : path) (nm : list string) : path :=
  pjoin (origin_root w.(w_cwd) root) (rel (add_ext nm)).

(* ---- what the program sees ------------------------------------------------ *)
Record obs := mkobs {
  ob_argv0 : path;          (* sys.argv[0], parsed as a path (a module name is one component) *)
  ob_args : list string;    (* sys.argv[1:] *)
  ob_name : string;         (* __name__ *)
  ob_file : path;           (* __file__ *)
  ob_path0 : path;          (* sys.path[0] *)
  ob_cwd : path             (* os.getcwd() *)
}.

Definition obs_eqb (a b : obs) : bool :=
  path_eqb a.(ob_argv0) b.(ob_argv0) && slist_eqb a.(ob_args) b.(ob_args)
  && String.eqb a.(ob_name) b.(ob_name) && path_eqb a.(ob_file) b.(ob_file)
  && path_eqb a.(ob_path0) b.(ob_path0) && path_eqb a.(ob_cwd) b.(ob_cwd).

(* SPECIFICATION (CPython 3.12): `python f args` for an existing file f *)
Definition py_script_obs (w : world) (f : path) (args : list string) : obs :=
  {| ob_argv0 := f; ob_args := args; ob_name := "__main__";
     ob_file := pjoin w.(w_cwd) f;                         (* made absolute, not normalised *)
     ob_path0 := dirname (absolutize w.(w_cwd) f);         (* directory of the resolved script *)
     ob_cwd := w.(w_cwd) |}.

(* SPECIFICATION: `python -m M args`: sys.path[0] is the launch directory, the
   module is located from there, argv[0] is the module's file *)
Definition py_module_obs (w : world) (m : list string) (args : list string) : option obs :=
  match find_module_script w [w.(w_cwd)] m with
  | None => None
  | Some f => Some {| ob_argv0 := f; ob_args := args; ob_name := "__main__"; ob_file := f;
                      ob_path0 := w.(w_cwd); ob_cwd := w.(w_cwd) |}
  end.

(* ---- kernprof --------------------------------------------------------------- *)
Record opts := mkopts {
  o_line : bool;             (* -l *)
  o_builtin : bool;          (* -b *)
  o_view : bool;             (* -v *)
  o_skipzero : bool;         (* -z *)
  o_profimports : bool;      (* --prof-imports *)
  o_unit : bool;             (* -u given *)
  o_outfile : option string; (* -o *)
  o_setup : option path;     (* -s *)
  o_interval : Z;            (* -i *)
  o_profmod : list string    (* -p, already split *)
}.

Inductive target := TScript (s : path) | TModule (m : list string).
Definition is_module (t : target) : bool := match t with TModule _ => true | TScript _ => false end.
Definition target_name (t : target) : string :=
  match t with TScript s => basename s | TModule m => join "." m end.
Definition argv0_of (t : target) : path :=
  match t with TScript s => s | TModule m => rel [join "." m] end.

Inductive runmode := RAutoprofile | RModuleBuiltin | RExecBuiltin | RModuleCtx | RExecCtx.
Definition runmode_code (r : runmode) : Z :=
  match r with RAutoprofile => 0 | RModuleBuiltin => 1 | RExecBuiltin => 2 | RModuleCtx => 3 | RExecCtx => 4 end.

Inductive event :=
| ESetArgv
| EPathInsert (p : path)
| ESetup (f : path) (o : obs)        (* execfile(setup_file, ns, ns) *)
| EMakeProfiler (line : bool)
| EInstallGlobal
| EInstallBuiltin
| ETimerCreate
| EProgram (m : runmode) (o : obs)   (* the profiled program runs *)
| ETimerStop
| EDump (outfile : string)
| EReport (view : bool)
| EUninstallGlobal.

Definition builtin_eff (o : opts) : bool := o.(o_builtin) || o.(o_line).
Definition run_mode (o : opts) (t : target) : runmode :=
  if negb (list_empty o.(o_profmod)) && o.(o_line) then RAutoprofile
  else if is_module t && builtin_eff o then RModuleBuiltin
  else if builtin_eff o then RExecBuiltin
  else if is_module t then RModuleCtx
  else RExecCtx.
Definition via_runpy (r : runmode) : bool :=
  match r with RModuleBuiltin | RModuleCtx => true | _ => false end.
Definition outfile_of (o : opts) (t : target) : string :=
  match o.(o_outfile) with
  | Some f => f
  | None => (target_name t ++ (if o.(o_line) then ".lprof" else ".prof"))%string
  end.

(* sys.path of the process `python -m kernprof ...` before main touches it: the
   launch directory, then entries (stdlib, site-packages, the implementation)
   that hold none of the program's files and are left out. *)
Definition initial_syspath (w : world) : list path := [w.(w_cwd)].

Definition kern_run (w : world) (o : opts) (t : target) (args : list string) : option (list event) :=
  let argv0 := argv0_of t in
  let cwd := w.(w_cwd) in
  let sp0 := initial_syspath w in
  (* sys.argv = [options.script] + options.args *)
  let curdir := absolutize cwd (rel ["."]) in
  let sp1 := if is_module t then curdir :: sp0 else sp0 in
  let ev1 := if is_module t then [EPathInsert curdir] else [] in
  (* if options.setup is not None: ... *)
  let setup :=
    match o.(o_setup) with
    | None => Some (sp1, [])
    | Some s =>
        match find_script w s with
        | None => None            (* 'Could not find script', SystemExit(1) *)
        | Some f =>
            Some (dirname f :: sp1,
                  [EPathInsert (dirname f);
                   ESetup f {| ob_argv0 := argv0; ob_args := args; ob_name := "__main__";
                               ob_file := f; ob_path0 := dirname f; ob_cwd := cwd |}])
        end
    end in
  match setup with
  | None => None
  | Some (sp2, ev2) =>
      let ev3 := [EMakeProfiler o.(o_line); EInstallGlobal]
                 ++ (if builtin_eff o then [EInstallBuiltin] else []) in
      let located :=
        match t with
        | TModule m =>
            match find_module w sp2 m with
            | None => None
            | Some (root, f, nm) =>
                (* __file__ = script_file is what autoprofile.run execs with;
                   run_module overrides it with the import system's spelling *)
                Some (if via_runpy (run_mode o t) then import_origin w root nm else f, sp2, [])
            end
        | TScript s =>
            match find_script w s with
            | None => None
            | Some f => Some (f, dirname f :: sp2, [EPathInsert (dirname f)])
            end
        end in
      match located with
      | None => None
      | Some (f, sp3, ev4) =>
          let timed := 0 <? o.(o_interval) in
          let ob := {| ob_argv0 := argv0; ob_args := args; ob_name := "__main__";
                       ob_file := f; ob_path0 := hd empty_path sp3; ob_cwd := cwd |} in
          Some ([ESetArgv] ++ ev1 ++ ev2 ++ ev3 ++ ev4
                ++ (if timed then [ETimerCreate] else [])     (* one RepeatedTimer (since fix 204c2e5) *)
                ++ [EProgram (run_mode o t) ob]
                ++ [EUninstallGlobal]        (* first statement of main's finally (since 5d3505e) *)
                ++ (if timed then [ETimerStop] else [])
                ++ [EDump (outfile_of o t); EReport o.(o_view)])
      end
  end.

(* projections of a trace *)
Fixpoint program_obs (tr : list event) : option obs :=
  match tr with
  | [] => None
  | EProgram _ o :: _ => Some o
  | _ :: t => program_obs t
  end.
Fixpoint setup_obs (tr : list event) : option obs :=
  match tr with
  | [] => None
  | ESetup _ o :: _ => Some o
  | _ :: t => setup_obs t
  end.
Fixpoint program_mode (tr : list event) : option runmode :=
  match tr with
  | [] => None
  | EProgram m _ :: _ => Some m
  | _ :: t => program_mode t
  end.
Fixpoint dump_name (tr : list event) : option string :=
  match tr with
  | [] => None
  | EDump f :: _ => Some f
  | _ :: t => dump_name t
  end.
Definition is_setup (e : event) : bool := match e with ESetup _ _ => true | _ => false end.
(* anything that creates, installs or runs under a profiler *)
Definition is_profiling (e : event) : bool :=
  match e with
  | EMakeProfiler _ | EInstallGlobal | EInstallBuiltin | ETimerCreate | EProgram _ _ => true
  | _ => false
  end.
Definition count_ev (f : event -> bool) (tr : list event) : Z := Z.of_nat (length (filter f tr)).

(* "exactly once, first, unprofiled": one ESetup, nothing profiling before it,
   and the program after it *)
Fixpoint setup_first (tr : list event) : bool :=
  match tr with
  | [] => false
  | e :: t =>
      if is_setup e then negb (existsb is_setup t) && existsb (fun e => match e with EProgram _ _ => true | _ => false end) t
      else negb (is_profiling e) && setup_first t
  end.

(* ---- comparison used by theorems and case shards ---------------------------- *)
(* everything but argv[0] agrees after absolutising __file__ and sys.path[0] *)
Definition obs_equiv_but_argv0 (w : world) (k p : obs) : bool :=
  slist_eqb k.(ob_args) p.(ob_args) && String.eqb k.(ob_name) p.(ob_name)
  && path_eqb k.(ob_cwd) p.(ob_cwd)
  && path_eqb (absolutize w.(w_cwd) k.(ob_file)) (absolutize w.(w_cwd) p.(ob_file))
  && path_eqb (absolutize w.(w_cwd) k.(ob_path0)) (absolutize w.(w_cwd) p.(ob_path0)).
(* argv[0]: the same spelling, or (script looked up on PATH) the name kernprof's
   own lookup resolves to python's argv[0] *)
Definition argv0_equiv (w : world) (k p : obs) : bool :=
  path_eqb k.(ob_argv0) p.(ob_argv0)
  || match find_script w k.(ob_argv0) with
     | Some f => negb (isfile w k.(ob_argv0)) && path_eqb f p.(ob_argv0)
     | None => false
     end.
Definition obs_equiv (w : world) (k p : obs) : bool :=
  argv0_equiv w k p && obs_equiv_but_argv0 w k p.

(* ---- RepeatedTimer bookkeeping ----------------------------------------------- *)
(* RepeatedTimer._run is   is_running = False; start(); dump_func(outfile)   - the
   timer is RE-ARMED BEFORE the dump (order RearmFirst).  The dump can take long (big
   profile, slow or blocking output file), so main's rt.stop() can arrive while a
   dump is in flight; the model therefore splits a firing into its start (up to
   and including what precedes the dump) and the end of the dump.  The alternative
   order (dump, then re-arm) is kept as DumpFirst so that the difference is a
   theorem.  Granularity assumption: the statements before the dump are atomic with
   respect to stop() (a window of two bytecodes, against the duration of a dump). *)
Inductive rorder := RearmFirst | DumpFirst.
Definition order_in_code : rorder := RearmFirst.

(* one RepeatedTimer object: is_running, the number of its threading.Timer threads
   that are started and neither fired nor cancelled, and the number of its dumps in
   flight (timer threads inside _run) *)
Record rtimer := mkrt { rt_running : bool; rt_pending : nat; rt_dumping : nat }.
Definition rt_start (r : rtimer) : rtimer :=
  if r.(rt_running) then r else mkrt true (S r.(rt_pending)) r.(rt_dumping).
Definition rt_new : rtimer := rt_start (mkrt false 0 0).         (* __init__ ends in self.start() *)
Definition rt_fire_start (ord : rorder) (r : rtimer) : rtimer :=  (* a pending Timer fires: _run up to the dump *)
  match r.(rt_pending) with
  | O => r
  | S n => let r1 := mkrt false n (S r.(rt_dumping)) in
           match ord with RearmFirst => rt_start r1 | DumpFirst => r1 end
  end.
Definition rt_dump_end (ord : rorder) (r : rtimer) : rtimer :=    (* a dump in flight returns: the rest of _run *)
  match r.(rt_dumping) with
  | O => r
  | S d => let r1 := mkrt r.(rt_running) r.(rt_pending) d in
           match ord with RearmFirst => r1 | DumpFirst => rt_start r1 end
  end.
Definition rt_fire (ord : rorder) (r : rtimer) : rtimer := rt_dump_end ord (rt_fire_start ord r).
(* stop(): self._timer.cancel() - the latest Timer, a no-op if it has fired *)
Definition rt_stop (r : rtimer) : rtimer := mkrt false (pred r.(rt_pending)) r.(rt_dumping).

(* main's frame: the objects ever created and which one the local `rt` names *)
Record tstate := mkts { ts_objs : list rtimer; ts_rt : option nat }.
(* what timer threads do (scheduled by the environment) / what main does *)
Inductive thop := HFire (i : nat) | HFireStart (i : nat) | HDumpEnd (i : nat).
Inductive top := TCreate | TStopRt | TThread (h : thop).
Fixpoint upd {A} (l : list A) (i : nat) (f : A -> A) : list A :=
  match l, i with
  | [], _ => []
  | x :: t, O => f x :: t
  | x :: t, S j => x :: upd t j f
  end.
Definition tstep (ord : rorder) (s : tstate) (op : top) : tstate :=
  match op with
  | TCreate => mkts (s.(ts_objs) ++ [rt_new]) (Some (length s.(ts_objs)))
  | TThread (HFire i) => mkts (upd s.(ts_objs) i (rt_fire ord)) s.(ts_rt)
  | TThread (HFireStart i) => mkts (upd s.(ts_objs) i (rt_fire_start ord)) s.(ts_rt)
  | TThread (HDumpEnd i) => mkts (upd s.(ts_objs) i (rt_dump_end ord)) s.(ts_rt)
  | TStopRt => match s.(ts_rt) with
               | Some i => mkts (upd s.(ts_objs) i rt_stop) s.(ts_rt)
               | None => s
               end
  end.
Definition trun (ord : rorder) (ops : list top) : tstate := fold_left (tstep ord) ops (mkts [] None).
(* the dumps in flight return (each re-arming or not, by the order), then: how
   many Timer threads are still pending? *)
Definition settle (ord : rorder) (r : rtimer) : rtimer := Nat.iter r.(rt_dumping) (rt_dump_end ord) r.
Definition live_threads (ord : rorder) (s : tstate) : nat :=
  fold_right (fun r n => (settle ord r).(rt_pending) + n)%nat O s.(ts_objs).

(* the timer operations of a trace: `during` is what the timer threads do while the
   program runs, `after` what they do once main has stopped the timer *)
Fixpoint timer_ops (during : list thop) (tr : list event) : list top :=
  match tr with
  | [] => []
  | ETimerCreate :: t => TCreate :: timer_ops during t
  | EProgram _ _ :: t => map TThread during ++ timer_ops during t
  | ETimerStop :: t => TStopRt :: timer_ops during t
  | _ :: t => timer_ops during t
  end.
Definition live_after_main (ord : rorder) (during after : list thop) (tr : list event) : nat :=
  live_threads ord (trun ord (timer_ops during tr ++ map TThread after)).
