(* C15 at the level of kernprof's whole command-line handling. *)
From LP Require Import Prelude.Py Prelude.PyLemmas Gen.PreParse Cli.PreParseProofs
     Cli.ArgparseModel Cli.ArgparseProofs Gen.KernprofArgs Cli.KernprofCmdline.

Lemma main_flag_eq : main_flag = "-m". Proof. reflexivity. Qed.
Lemma main_sep_eq : main_sep = "--". Proof. reflexivity. Qed.

Lemma classify_prefix_ok tbl (p q : list string) c :
  ~ In "--" p -> classify_all tbl (p ++ q) = inl c -> exists cp, classify_all tbl p = inl cp.
Proof.
  revert c. induction p as [|t p IH]; intros c Hn H; [exists []; reflexivity|].
  cbn [app classify_all] in *. destruct (String.eqb_spec t "--") as [->|Hne]; [exfalso; apply Hn; left; reflexivity|].
  destruct (parse_optional tbl t) as [ct|e]; [|discriminate].
  destruct (classify_all tbl (p ++ q)) as [r|e] eqn:Er; [|discriminate].
  destruct (IH r) as [cp Hcp]; [intros Hi; apply Hn; right; exact Hi|reflexivity|].
  rewrite Hcp. eexists; reflexivity.
Qed.

Lemma classify_script tbl script crest rest :
  script <> "--" -> parse_optional tbl script = inl CA -> classify_all tbl rest = inl crest ->
  classify_all tbl (script :: rest) = inl ((script, CA) :: crest).
Proof.
  intros Hne Hc Hr. cbn [classify_all]. destruct (String.eqb_spec script "--"); [congruence|].
  rewrite Hc, Hr. reflexivity.
Qed.

(* the argparse part shared by the three script-mode theorems *)
Lemma parse_script_suffix tbl (prefix : list string) (script : string) (rest : list string) crest ev :
  ~ In "--" prefix -> script <> "--" ->
  parse_optional tbl script = inl CA ->
  classify_all tbl rest = inl crest ->
  parse tbl true (prefix ++ [script]) = Parsed ev (Some script) [] ->
  parse tbl true (prefix ++ script :: rest) = Parsed ev (Some script) (absorb crest).
Proof.
  intros Hsep Hne Hc Hr H. unfold parse in *.
  destruct (classify_all tbl (prefix ++ [script])) as [c0|e] eqn:E0; [|discriminate].
  destruct (classify_prefix_ok tbl prefix [script] c0 Hsep E0) as [cp Hcp].
  destruct (classify_app tbl prefix cp Hsep Hcp) as [Hnosep [_ Happ]].
  rewrite (Happ [script] [(script, CA)]) in E0 by (apply classify_script; [exact Hne|exact Hc|reflexivity]).
  injection E0 as <-.
  rewrite (Happ (script :: rest) ((script, CA) :: crest)) by (apply classify_script; assumption).
  apply (loop_suffix tbl script crest ev (length cp)); [lia|exact Hnosep|reflexivity|exact H].
Qed.

Lemma absorb_nosep tbl rest crest :
  ~ In "--" rest -> classify_all tbl rest = inl crest -> absorb crest = rest.
Proof.
  intros Hn H. destruct (classify_app tbl rest crest Hn H) as [Hns [Hs _]].
  unfold absorb. destruct crest as [|[s c] tl]; [exact Hs|].
  destruct c; try exact Hs. exfalso. apply (Hns (s, CSep)); [left; reflexivity|reflexivity].
Qed.

Lemma notin_app {A} (x : A) l r : ~ In x (l ++ r) -> ~ In x l /\ ~ In x r.
Proof. rewrite in_app_iff. tauto. Qed.

(* script mode: arguments without -m / -- reach the program verbatim; configuration from the prefix *)
Theorem script_mode (prefix : list string) (script : string) (rest : list string) crest ev :
  ~ In "-m" (prefix ++ script :: rest) -> ~ In "--" (prefix ++ script :: rest) ->
  parse_optional tbl_script script = inl CA ->
  classify_all tbl_script rest = inl crest ->                       (* no ambiguous abbreviation among rest *)
  parse tbl_script true (prefix ++ [script]) = Parsed ev (Some script) [] ->  (* `kernprof prefix script` is valid *)
  kernprof_cmdline (prefix ++ script :: rest) = Run ev (script :: rest) false.
Proof.
  intros Hm Hs Hc Hr H. unfold kernprof_cmdline. rewrite main_flag_eq, main_sep_eq.
  rewrite (no_directive 1) by assumption.
  apply notin_app in Hs as [Hs1 Hs2]. cbn [In] in Hs2.
  rewrite (parse_script_suffix tbl_script prefix script rest crest ev); try assumption; [|intros ->; tauto].
  rewrite (absorb_nosep tbl_script rest crest); [rewrite app_nil_r; reflexivity|tauto|exact Hr].
Qed.

(* script mode with the documented shield right after the script: ALL argument lists *)
Theorem script_shield_mode (prefix : list string) (script : string) (rest : list string) ev :
  ~ In "-m" (prefix ++ [script]) -> ~ In "--" (prefix ++ [script]) ->
  parse_optional tbl_script script = inl CA ->
  parse tbl_script true (prefix ++ [script]) = Parsed ev (Some script) [] ->
  kernprof_cmdline (prefix ++ script :: "--" :: rest) = Run ev (script :: rest) false.
Proof.
  intros Hm Hs Hc H. unfold kernprof_cmdline. rewrite main_flag_eq, main_sep_eq.
  replace (prefix ++ script :: "--" :: rest) with ((prefix ++ [script]) ++ "--" :: rest)
    by (rewrite <- app_assoc; reflexivity).
  rewrite (script_shield 0) by assumption.
  rewrite <- app_assoc. cbn [app].
  apply notin_app in Hs as [Hs1 Hs2]. cbn [In] in Hs2.
  rewrite (parse_script_suffix tbl_script prefix script ["--"] [("--", CSep)] ev); try assumption;
    [reflexivity|intros ->; tauto|reflexivity].
Qed.

(* script mode with a shield further right: what precedes it must itself be free of -m / -- *)
Theorem script_shield_later_mode (prefix : list string) (script : string) (r1 r2 : list string) cr1 ev :
  r1 <> [] ->
  ~ In "-m" (prefix ++ script :: r1) -> ~ In "--" (prefix ++ script :: r1) ->
  parse_optional tbl_script script = inl CA ->
  classify_all tbl_script r1 = inl cr1 ->
  parse tbl_script true (prefix ++ [script]) = Parsed ev (Some script) [] ->
  kernprof_cmdline (prefix ++ script :: r1 ++ "--" :: r2) = Run ev (script :: r1 ++ "--" :: r2) false.
Proof.
  intros Hne Hm Hs Hc Hr H. unfold kernprof_cmdline. rewrite main_flag_eq, main_sep_eq.
  replace (prefix ++ script :: r1 ++ "--" :: r2) with ((prefix ++ script :: r1) ++ "--" :: r2)
    by (rewrite <- app_assoc; reflexivity).
  rewrite (script_shield 0) by assumption.
  rewrite <- app_assoc. cbn [app].
  apply notin_app in Hs as [Hs1 Hs2]. cbn [In] in Hs2.
  assert (Hs3 : ~ In "--" r1) by tauto.
  destruct (classify_app tbl_script r1 cr1 Hs3 Hr) as [Hns [Hstr Happ]].
  rewrite (parse_script_suffix tbl_script prefix script (r1 ++ ["--"]) (cr1 ++ [("--", CSep)]) ev); try assumption;
    [|intros ->; tauto|apply Happ; reflexivity].
  assert (Ha : absorb (cr1 ++ [("--", CSep)]) = r1 ++ ["--"]).
  { unfold absorb. destruct cr1 as [|[s c] tl]; [cbn in Hstr; congruence|].
    cbn [app]. destruct c.
    - unfold strings in *. rewrite <- Hstr. cbn [map fst]. rewrite map_app. reflexivity.
    - exfalso. apply (Hns (s, CSep)); [left; reflexivity|reflexivity].
    - unfold strings in *. rewrite <- Hstr. cbn [map fst]. rewrite map_app. reflexivity. }
  rewrite Ha, <- app_assoc. reflexivity.
Qed.

(* -m mode: the outcome is a function of the options before -m; the rest is appended verbatim, for ALL rest *)
Theorem module_mode_cmdline (opts : list string) (m : string) (rest : list string) :
  ~ In "-m" opts -> ~ In "--" opts -> m <> "--" ->
  kernprof_cmdline (opts ++ "-m" :: m :: rest) =
  match parse tbl_module false opts with
  | Parsed ev _ r => if has_help ev then CmdExit else Run ev (m :: r ++ rest) true
  | PErr e => CmdErr (perr_code e)
  | PExit _ => CmdExit
  end.
Proof.
  intros Hm Hs Hne. unfold kernprof_cmdline. rewrite main_flag_eq, main_sep_eq.
  rewrite (module_mode 0) by (assumption || discriminate). reflexivity.
Qed.

(* The full statement without the "no ambiguous abbreviation" hypothesis is false of the model
   (and of the code): an option-like program argument aborts kernprof. *)
Theorem ambiguous_abbreviation_refuted :
  exists prefix script rest ev,
    parse tbl_script true (prefix ++ [script]) = Parsed ev (Some script) []
    /\ ~ In "-m" rest /\ ~ In "--" rest
    /\ kernprof_cmdline (prefix ++ script :: rest) = CmdErr (perr_code EAmbiguous).
Proof.
  exists ["-l"], "s.py", ["--prof"], [("line_by_line", [])].
  split; [vm_compute; reflexivity|]. split; [intros [H|[]]; discriminate|].
  split; [intros [H|[]]; discriminate|]. vm_compute. reflexivity.
Qed.

Example script_mode_nonvacuous :
  let prefix := ["-lv"; "-o"; "x.lprof"; "--unit=1e-3"] in
  let rest := ["-v"; "--outfile=zzz"; "-h"; "a b"; "-x"] in
  parse tbl_script true (prefix ++ ["s.py"]) =
    Parsed [("line_by_line", []); ("view", []); ("outfile", ["x.lprof"]); ("unit", ["1e-3"])] (Some "s.py") []
  /\ parse_optional tbl_script "s.py" = inl CA
  /\ (exists crest, classify_all tbl_script rest = inl crest)
  /\ kernprof_cmdline (prefix ++ "s.py" :: rest) =
       Run [("line_by_line", []); ("view", []); ("outfile", ["x.lprof"]); ("unit", ["1e-3"])] ("s.py" :: rest) false
  /\ parse tbl_module false ["-l"; "-p"; "foo"] = Parsed [("line_by_line", []); ("prof_mod", ["foo"])] None [].
Proof. vm_compute. repeat split. eexists; reflexivity. Qed.
