(* C06 - results are delivered however the profiled program ends.
   Executable definitions; proofs in DeliverProofs.v.

   * the program is the stream of tracing events it produces (call / line /
     return-or-unwind per function activation);
   * the profilers are folds over that stream: the line profiler with its
     pending-line slot per code object (a line is counted when the NEXT event of
     that code object arrives - another line, or the return/unwind event), and
     cProfile's call counter;
   * kernprof.main's try / except (KeyboardInterrupt, SystemExit) / finally
     skeleton is a statement of a four-construct language (sequence, try-except,
     try-finally, effects) whose interpreter yields the effect trace, the
     outcome and the profiler state;
   * the explicit mode (LINE_PROFILE=1) is the program followed by the atexit
     hooks that the translated GlobalProfiler registered. *)
From LP Require Import Prelude.Py.

(* ---- the program as a stream of events ---------------------------------------- *)
Inductive pev := PCall (f : Z) | PLine (f l : Z) | PRet (f : Z).
Definition fn_of (e : pev) : Z := match e with PCall f | PLine f _ | PRet f => f end.

(* well-formed streams: events of a function only while its activation is on top *)
Definition stack_step (st : option (list Z)) (e : pev) : option (list Z) :=
  match st with
  | None => None
  | Some s =>
      match e with
      | PCall f => Some (f :: s)
      | PLine f _ => match s with g :: _ => if f =? g then Some s else None | [] => None end
      | PRet f => match s with g :: r => if f =? g then Some r else None | [] => None end
      end
  end.
Definition stack_from (s : option (list Z)) (evs : list pev) : option (list Z) := fold_left stack_step evs s.
Definition stack_after (evs : list pev) : option (list Z) := stack_from (Some []) evs.
Definition wf (evs : list pev) : bool := match stack_after evs with Some _ => true | None => false end.
Definition closed (evs : list pev) : bool := match stack_after evs with Some [] => true | _ => false end.
(* what termination adds: every live activation is unwound, innermost first *)
Definition unwind (evs : list pev) : list pev :=
  match stack_after evs with Some s => map PRet s | None => [] end.

Inductive kind := KReturn | KSysExit | KKbdInt | KExc.
Definition kind_code (k : kind) : Z := match k with KReturn => 0 | KSysExit => 1 | KKbdInt => 2 | KExc => 3 end.

(* the events executed when termination of kind kd is triggered after the k-th
   event of the full run `prog` *)
Definition executed (prog : list pev) (kd : kind) (k : nat) : list pev :=
  match kd with
  | KReturn => prog
  | _ => firstn k prog ++ unwind (firstn k prog)
  end.

(* ---- the profilers -------------------------------------------------------------- *)
Record pst := mkpst {
  p_hits : Z -> Z -> Z;          (* by-line hit counters: function, line *)
  p_pend : Z -> option Z;        (* the pending line of each code object *)
  p_calls : Z -> Z               (* cProfile: calls per function *)
}.
Definition pst0 : pst := mkpst (fun _ _ => 0) (fun _ => None) (fun _ => 0).

Definition bump2 (h : Z -> Z -> Z) (f l : Z) : Z -> Z -> Z :=
  fun f' l' => if (f =? f') && (l =? l') then h f' l' + 1 else h f' l'.
Definition bump1 (c : Z -> Z) (f : Z) : Z -> Z := fun f' => if f =? f' then c f' + 1 else c f'.
Definition setp (p : Z -> option Z) (f : Z) (v : option Z) : Z -> option Z :=
  fun f' => if f =? f' then v else p f'.

(* the pending line of f is counted and the slot emptied *)
Definition close_pending (st : pst) (f : Z) : pst :=
  match p_pend st f with
  | Some l => mkpst (bump2 (p_hits st) f l) (setp (p_pend st) f None) (p_calls st)
  | None => st
  end.

(* reg: the functions the profiler has registered (decorated / auto-profiled /
   everything under runctx) *)
Definition prof_step (reg : Z -> bool) (st : pst) (e : pev) : pst :=
  if reg (fn_of e) then
    match e with
    | PCall f => mkpst (p_hits st) (p_pend st) (bump1 (p_calls st) f)
    | PLine f l => let st' := close_pending st f in
                   mkpst (p_hits st') (setp (p_pend st') f (Some l)) (p_calls st')
    | PRet f => close_pending st f
    end
  else st.
Definition prof_run (reg : Z -> bool) (st : pst) (evs : list pev) : pst := fold_left (prof_step reg) evs st.

(* the specification of "the data for everything that executed": plain counts *)
Fixpoint count_line (reg : Z -> bool) (evs : list pev) (f l : Z) : Z :=
  match evs with
  | [] => 0
  | PLine g m :: t => (if reg g && (g =? f) && (m =? l) then 1 else 0) + count_line reg t f l
  | _ :: t => count_line reg t f l
  end.
Fixpoint count_call (reg : Z -> bool) (evs : list pev) (f : Z) : Z :=
  match evs with
  | [] => 0
  | PCall g :: t => (if reg g && (g =? f) then 1 else 0) + count_call reg t f
  | _ :: t => count_call reg t f
  end.

(* ---- the wrappers' enable/disable windows --------------------------------------------- *)
(* A decorated function is not traced all the time: its wrapper switches the profiler
   on (enable_by_count) before every activation segment - the call of a function, every
   resumption of a generator including the one that delivers close()/throw() - and off
   after it.  `wrap` is that glue; the windowed profiler only sees events while the
   count is positive. *)
Inductive wev := WE (e : pev) | WEnable | WDisable.
Definition wrap (dec : Z -> bool) (evs : list pev) : list wev :=
  flat_map (fun e => match e with
                     | PCall f => if dec f then [WEnable; WE e] else [WE e]
                     | PRet f => if dec f then [WE e; WDisable] else [WE e]
                     | PLine _ _ => [WE e]
                     end) evs.
Definition wstep (reg : Z -> bool) (s : nat * pst) (w : wev) : nat * pst :=
  match w with
  | WEnable => (S (fst s), snd s)
  | WDisable => (pred (fst s), snd s)
  | WE e => match fst s with O => s | S _ => (fst s, prof_step reg (snd s) e) end
  end.
Definition wprof_run (reg : Z -> bool) (s : nat * pst) (ws : list wev) : nat * pst := fold_left (wstep reg) ws s.
(* the events that happen inside a window (the profiled sections): with `kernprof -b`
   cProfile is the profiler, it records every function while it is on, and it is on
   only inside the decorated functions' windows - what runs before the first / between
   / after the last profiled section is by design not part of the data *)
Fixpoint windowed_from (dec : Z -> bool) (depth : nat) (evs : list pev) : list pev :=
  match evs with
  | [] => []
  | PCall f :: t => if dec f then PCall f :: windowed_from dec (S depth) t
                    else match depth with O => windowed_from dec depth t | S _ => PCall f :: windowed_from dec depth t end
  | PRet f :: t => match depth with
                   | O => windowed_from dec depth t
                   | S d' => PRet f :: windowed_from dec (if dec f then d' else depth) t
                   end
  | PLine f l :: t => match depth with O => windowed_from dec depth t | S _ => PLine f l :: windowed_from dec depth t end
  end.
Definition windowed_events (dec : Z -> bool) (evs : list pev) : list pev := windowed_from dec 0 evs.
(* registered activations on the stack *)
Definition nreg (reg : Z -> bool) (s : list Z) : nat := length (filter reg s).

(* ---- effects, statements, interpreter --------------------------------------------- *)
Inductive outcome := ONormal | ORaised (k : kind) | OIOError.

(* what sys.stdout is when the program has ended: an ordinary stream, None
   (print() is then silent, .flush() raises AttributeError), or a stream whose
   write raises (a closed file, a file opened for reading, ...) *)
Inductive ostate := OutOk | OutNone | OutBroken | OutRebound.
(* OutRebound: the program rebound sys.stdout to another working stream (a log file, a
   StringIO, a tee object) and ended without restoring it: print() succeeds but what it
   writes does not arrive on the process's standard output *)
Definition ostate_of (c : Z) : ostate :=
  match c with 0 => OutOk | 1 => OutNone | 2 => OutBroken | _ => OutRebound end.

Inductive eff :=
| FInstall | FUninstall | FEnable | FDisable
| FProg (e : pev)
| FRaise (k : kind)
| FCaught (k : kind)
| FTimerStop
| FDump (outfile : string) (s : pst)        (* prof.dump_stats(outfile): a snapshot of the state *)
| FWrote (outfile : string)
| FInspect
| FIOFails                                  (* a print / flush on the program's stdout raises *)
| FView (s : pst)                           (* -v: the report, written to the stdout saved BEFORE the program ran *)
| FShowFails                                (* GlobalProfiler.show raises in its first step *)
| FShow (outs : list (Z * option string)) (s : pst).   (* GlobalProfiler.show at interpreter exit *)

Inductive stmt :=
| SSkip
| SEff (e : eff)
| SDump (outfile : string)
| SPrint (e : eff)        (* print(...) to sys.stdout *)
| SFlush                  (* sys.stdout.flush() *)
| SView                   (* prof.print_stats(stream=original_stdout) *)
| SProgram
| SProgramT (ticks : list nat) (tfile : string)   (* the program, with the -i timer thread dumping to tfile
                                                     after each of the given numbers of further events *)
| SProgramTC (ticks : list nat) (tfile : string)  (* the same under cProfile (no -l): the dump switches the profiler off *)
| SSeq (a b : stmt)
| STry (body : stmt) (catch : kind -> bool) (handler : stmt)
| SFinally (body fin : stmt).

(* the program's events with periodic dumps in between: each dump writes a snapshot
   of the profiler state at that moment *)
Fixpoint prog_trace (tfile : string) (reg : Z -> bool) (st : pst) (stream : list pev) (ticks : list nat)
  : list eff * pst :=
  match ticks with
  | [] => (map FProg stream, prof_run reg st stream)
  | n :: t =>
      let st1 := prof_run reg st (firstn n stream) in
      let '(tr, st2) := prog_trace tfile reg st1 (skipn n stream) t in
      (map FProg (firstn n stream) ++ FDump tfile st1 :: tr, st2)
  end.

(* cProfile (kernprof -i N without -l): the timer thread's prof.dump_stats() goes through
   cProfile.Profile.create_stats(), which begins with self.disable(): from the first
   periodic dump on NOTHING is recorded any more (the empty registered set), every later
   dump - main's own included - writes the state that was reached at that moment *)
Definition prog_trace_c (tfile : string) (reg : Z -> bool) (st : pst) (stream : list pev) (ticks : list nat)
  : list eff * pst :=
  match ticks with
  | [] => (map FProg stream, prof_run reg st stream)
  | n :: t =>
      let st1 := prof_run reg st (firstn n stream) in
      let '(tr, st2) := prog_trace tfile (fun _ => false) st1 (skipn n stream) t in
      (map FProg (firstn n stream) ++ FDump tfile st1 :: tr, st2)
  end.

Section Exec.
  Variable stream : list pev.     (* the events the program executes before it ends *)
  Variable kd : kind.             (* how it ends *)
  Variable reg : Z -> bool.
  Variable out : ostate.          (* sys.stdout as the program leaves it *)

  Definition raise_eff : list eff := match kd with KReturn => [] | k => [FRaise k] end.
  Definition program_outcome : outcome := match kd with KReturn => ONormal | k => ORaised k end.

  Fixpoint exec (s : stmt) (st : pst) : list eff * outcome * pst :=
    match s with
    | SSkip => ([], ONormal, st)
    | SEff e => ([e], ONormal, st)
    | SDump o => ([FDump o st], ONormal, st)
    | SPrint e => match out with
                  | OutOk => ([e], ONormal, st)
                  | OutNone | OutRebound => ([], ONormal, st)
                  | OutBroken => ([FIOFails], OIOError, st)
                  end
    | SView => ([FView st], ONormal, st)
    | SFlush => match out with
                | OutOk | OutRebound => ([], ONormal, st)
                | _ => ([FIOFails], OIOError, st)
                end
    | SProgram => (map FProg stream ++ raise_eff, program_outcome, prof_run reg st stream)
    | SProgramT ticks tfile =>
        let '(t, s') := prog_trace tfile reg st stream ticks in (t ++ raise_eff, program_outcome, s')
    | SProgramTC ticks tfile =>
        let '(t, s') := prog_trace_c tfile reg st stream ticks in (t ++ raise_eff, program_outcome, s')
    | SSeq a b =>
        let '(t1, o1, s1) := exec a st in
        match o1 with
        | ONormal => let '(t2, o2, s2) := exec b s1 in (t1 ++ t2, o2, s2)
        | _ => (t1, o1, s1)
        end
    | STry body catch h =>
        let '(t1, o1, s1) := exec body st in
        match o1 with
        | ORaised k => if catch k
                       then let '(t2, o2, s2) := exec h s1 in (t1 ++ FCaught k :: t2, o2, s2)
                       else (t1, o1, s1)
        | _ => (t1, o1, s1)
        end
    | SFinally body fin =>
        let '(t1, o1, s1) := exec body st in
        let '(t2, o2, s2) := exec fin s1 in
        (t1 ++ t2, match o2 with ONormal => o1 | _ => o2 end, s2)
    end.
End Exec.

(* kernprof.main from `install_profiler(prof)` to the end (kernprof.py:449-523):
     try:
         try:   <run the program: execfile / run_module / autoprofile.run, or
                 prof.runctx(...) = enable_by_count(); try: exec finally: disable_by_count()>
         except (KeyboardInterrupt, SystemExit): pass
     finally:
         if options.output_interval: rt.stop()
         <the global @profile is handed back: FUninstall - first, since 5d3505e>
         <-l: the profiler is switched off if imports / the program left it on>
         if options.output_interval: rt.stop()
         prof.dump_stats(options.outfile); print('Wrote ...'); <inspect hint> *)
Definition absorbed (k : kind) : bool := match k with KKbdInt | KSysExit => true | _ => false end.
Definition kern_main_gen (prog : stmt) (ctx timed : bool) (outfile : string) : stmt :=
  SSeq (SEff FInstall)
       (SFinally
          (STry (if ctx then SFinally (SSeq (SEff FEnable) prog) (SEff FDisable) else prog)
                absorbed SSkip)
          (SSeq (SEff FUninstall)
          (SSeq (if timed then SEff FTimerStop else SSkip)
                (SSeq (SDump outfile)
                      (SSeq (SPrint (FWrote outfile)) (SPrint FInspect)))))).

Definition kern_main (ctx timed : bool) (outfile : string) : stmt := kern_main_gen SProgram ctx timed outfile.
(* with -i: a RepeatedTimer thread dumps to the same outfile while the program runs *)
Definition kern_main_ticks (ticks : list nat) (ctx : bool) (outfile : string) : stmt :=
  kern_main_gen (SProgramT ticks outfile) ctx true outfile.

(* with -i and without -l (cProfile, also -b): the periodic dump switches the profiler off *)
Definition kern_main_ticks_c (ticks : list nat) (ctx : bool) (outfile : string) : stmt :=
  kern_main_gen (SProgramTC ticks outfile) ctx true outfile.

(* kernprof -l -v: after the dump and its closing line the report is printed from the
   same profiler object to the stream that was sys.stdout before the program ran; the
   profiler was switched off before the dump, so nothing is recorded in between *)
Definition kern_main_view (ctx : bool) (outfile : string) : stmt :=
  SSeq (SEff FInstall)
       (SFinally
          (STry (if ctx then SFinally (SSeq (SEff FEnable) SProgram) (SEff FDisable) else SProgram)
                absorbed SSkip)
          (SSeq (SEff FUninstall) (SSeq (SDump outfile) (SSeq (SPrint (FWrote outfile)) SView)))).
Definition is_view (e : eff) : bool := match e with FView _ => true | _ => false end.
Fixpoint viewed_state (tr : list eff) : option pst :=
  match tr with [] => None | FView s :: _ => Some s | _ :: t => viewed_state t end.

(* a variant that is NOT the code: the finally block starts by flushing the
   program's stdout (used to state what the order of the real block buys) *)
Definition kern_main_flush_first (ctx timed : bool) (outfile : string) : stmt :=
  SSeq (SEff FInstall)
       (SFinally
          (STry (if ctx then SFinally (SSeq (SEff FEnable) SProgram) (SEff FDisable) else SProgram)
                absorbed SSkip)
          (SSeq (SEff FUninstall)
          (SSeq SFlush
          (SSeq (if timed then SEff FTimerStop else SSkip)
                (SSeq (SDump outfile)
                      (SSeq (SPrint (FWrote outfile)) (SPrint FInspect))))))).

Definition kern_run (stream : list pev) (kd : kind) (reg : Z -> bool) (out : ostate)
           (ctx timed : bool) (outfile : string) :=
  exec stream kd reg out (kern_main ctx timed outfile) pst0.
Definition kern_run_ticks (stream : list pev) (kd : kind) (reg : Z -> bool) (out : ostate)
           (ticks : list nat) (ctx : bool) (outfile : string) :=
  exec stream kd reg out (kern_main_ticks ticks ctx outfile) pst0.

Definition kern_run_ticks_c (stream : list pev) (kd : kind) (reg : Z -> bool) (out : ostate)
           (ticks : list nat) (ctx : bool) (outfile : string) :=
  exec stream kd reg out (kern_main_ticks_c ticks ctx outfile) pst0.

(* -b -i: create_stats() switches the C profiler off but leaves the wrappers' enable_count
   alone; the next enable_by_count() that finds the count at 0 (a new outermost profiled
   section) switches it on again.  `off` = switched off by a periodic dump. *)
Definition wstep_off (reg : Z -> bool) (s : bool * (nat * pst)) (w : wev) : bool * (nat * pst) :=
  match w with
  | WEnable => (match fst (snd s) with O => false | S _ => fst s end, wstep reg (snd s) w)
  | WDisable => (fst s, wstep reg (snd s) w)
  | WE _ => if fst s then s else (false, wstep reg (snd s) w)
  end.
(* tick < 0: no periodic dump; otherwise one after that many events *)
Definition wprof_run_cut (reg dec : Z -> bool) (tick : Z) (evs : list pev) : nat * pst :=
  if tick <? 0 then wprof_run reg (0%nat, pst0) (wrap dec evs)
  else snd (fold_left (wstep_off reg) (wrap dec (skipn (Z.to_nat tick) evs))
                      (true, wprof_run reg (0%nat, pst0) (wrap dec (firstn (Z.to_nat tick) evs)))).

(* exit status of the kernprof process.  A CPython artifact is part of it: runctx
   runs the program through exec() of a STRING, and the interpreter marks a
   KeyboardInterrupt that escapes such an exec as unhandled; although main then
   absorbs it and finishes normally (results written, interpreter finalised), the
   process ends by re-raising SIGINT on itself (status -2). *)
Definition kern_exit (ctx : bool) (kd : kind) (o : outcome) : Z :=
  if ctx && (kind_code kd =? 2) then -2
  else match o with ONormal => 0 | _ => 1 end.

(* observers of a trace *)
Definition is_dump (e : eff) : bool := match e with FDump _ _ => true | _ => false end.
Definition is_prog (e : eff) : bool := match e with FProg _ | FRaise _ => true | _ => false end.
Definition count_eff (p : eff -> bool) (tr : list eff) : Z := Z.of_nat (length (filter p tr)).
(* exactly one dump, and no program event after it *)
Fixpoint one_dump_after_program (tr : list eff) : bool :=
  match tr with
  | [] => false
  | e :: t => if is_dump e then negb (existsb is_dump t) && negb (existsb is_prog t)
              else one_dump_after_program t
  end.
Fixpoint dumped_state (tr : list eff) : option (string * pst) :=
  match tr with
  | [] => None
  | FDump o s :: _ => Some (o, s)
  | _ :: t => dumped_state t
  end.
(* what the file holds in the end: the state written by the LAST dump *)
Definition last_dump (tr : list eff) : option (string * pst) := dumped_state (rev tr).
Definition program_events (tr : list eff) : list pev :=
  flat_map (fun e => match e with FProg p => [p] | _ => [] end) tr.

(* ---- the explicit mode: program, then the interpreter's exit hooks --------------- *)
(* `hooks` is what GlobalProfiler's atexit registrations produce (Explicit engine:
   at_exit of the state reached by the decorations), each an emitted-outputs list *)
(* show() first prints the report to sys.stdout when that output (code 0) is
   switched on, and only then writes the files: with a stdout that cannot be written
   to it raises at once and nothing is written *)
Definition wants_stdout (outs : list (Z * option string)) : bool := existsb (fun x => fst x =? 0) outs.
Definition show_eff (out : ostate) (s : pst) (outs : list (Z * option string)) : eff :=
  match out with
  | OutOk => FShow outs s
  | _ => if wants_stdout outs then FShowFails else FShow outs s
  end.
Definition explicit_run (stream : list pev) (kd : kind) (reg : Z -> bool) (out : ostate)
           (hooks : list (list (Z * option string))) : list eff * outcome * pst :=
  let '(t, o, s) := exec stream kd reg out SProgram pst0 in
  (t ++ map (show_eff out s) hooks, o, s).
Definition is_show (e : eff) : bool := match e with FShow _ _ => true | _ => false end.
(* nothing that can raise on the program's stdout precedes the dump *)
Fixpoint no_failure_before_dump (tr : list eff) : bool :=
  match tr with
  | [] => true
  | FDump _ _ :: _ => true
  | FIOFails :: _ => false
  | _ :: t => no_failure_before_dump t
  end.

(* ---- executable comparison for the case shards ------------------------------------ *)
Definition zz_eqb (a b : Z * Z) : bool := (fst a =? fst b) && (snd a =? snd b).
Fixpoint lookup2 (k : Z * Z) (l : list (Z * Z * Z)) : Z :=
  match l with [] => 0 | (a, b, n) :: t => if zz_eqb k (a, b) then n else lookup2 k t end.
Fixpoint lookup1 (k : Z) (l : list (Z * Z)) : Z :=
  match l with [] => 0 | (a, n) :: t => if k =? a then n else lookup1 k t end.
Definition line_keys (evs : list pev) : list (Z * Z) :=
  flat_map (fun e => match e with PLine f l => [(f, l)] | _ => [] end) evs.
Definition call_keys (evs : list pev) : list Z :=
  flat_map (fun e => match e with PCall f => [f] | _ => [] end) evs.

(* does a written file's content (hits as (f,l,n) with n > 0, or calls as (f,n))
   equal the model's snapshot on every key either side knows? *)
Definition hits_agree (h : Z -> Z -> Z) (evs : list pev) (impl : list (Z * Z * Z)) : bool :=
  forallb (fun k => h (fst k) (snd k) =? lookup2 k impl) (line_keys evs ++ map fst impl).
Definition calls_agree (c : Z -> Z) (evs : list pev) (impl : list (Z * Z)) : bool :=
  forallb (fun k => c k =? lookup1 k impl) (call_keys evs ++ map fst impl).
Definition hits_are_counts (reg : Z -> bool) (evs : list pev) (impl : list (Z * Z * Z)) : bool :=
  forallb (fun k => count_line reg evs (fst k) (snd k) =? lookup2 k impl) (line_keys evs ++ map fst impl).
Definition calls_are_counts (reg : Z -> bool) (evs : list pev) (impl : list (Z * Z)) : bool :=
  forallb (fun k => count_call reg evs k =? lookup1 k impl) (call_keys evs ++ map fst impl).

Definition reg_of (l : list Z) : Z -> bool := fun f => existsb (Z.eqb f) l.
Definition pev_eqb (a b : pev) : bool :=
  match a, b with
  | PCall f, PCall g => f =? g
  | PLine f l, PLine g m => (f =? g) && (l =? m)
  | PRet f, PRet g => f =? g
  | _, _ => false
  end.

(* the trigger function's own lines differ between the full and the interrupted run
   (only the interrupted run reaches its raise statement): the prefix comparison is
   made on the streams without the LINE events of that one function *)
Definition strip_lines (trig : Z) (evs : list pev) : list pev :=
  filter (fun e => match e with PLine f _ => negb (f =? trig) | _ => true end) evs.
Definition prefix_unwind_ok (trig : Z) (full ex : list pev) (k : kind) (m : Z) : bool :=
  wf ex && closed ex
  && ((m <? 0) || list_eqb pev_eqb (strip_lines trig ex) (executed (strip_lines trig full) k (Z.to_nat m))).

(* one kernprof case.  full = the oracle's stream of the run that is not
   interrupted, ex = the oracle's stream of the interrupted run, m = the length of
   their common prefix after strip_lines (m < 0: the program has finally blocks, whose lines run during
   the unwinding, so only well-nestedness and closedness are checked); cprofile selects which counter the written file holds. *)
Definition kern_case_ok (trig : Z) (full ex : list pev) (m : Z) (kd : Z) (outc : Z) (tick : Z) (regl decl : list Z)
           (ctx cprofile windowed : bool)
           (impl_hits : list (Z * Z * Z)) (impl_calls : list (Z * Z)) (impl_rc : Z) (impl_dumps : Z)
  : bool * bool * bool :=
  let k := match kd with 0 => KReturn | 1 => KSysExit | 2 => KKbdInt | _ => KExc end in
  let reg := reg_of regl in
  (* tick >= 0: run with -i, a periodic dump happened after that many events *)
  let '(tr, oc, _) := if tick <? 0 then kern_run ex k reg (ostate_of outc) ctx false "out"
                      else if cprofile then kern_run_ticks_c ex k reg (ostate_of outc) [Z.to_nat tick] ctx "out"
                      else kern_run_ticks ex k reg (ostate_of outc) [Z.to_nat tick] ctx "out" in
  let snap := match last_dump tr with Some (_, s) => s | None => pst0 end in
  let cmp_dumps := if tick <? 0 then impl_dumps else impl_dumps + 1 in   (* + the periodic dump *)
  ((* model = implementation *)
   (if cprofile
    then calls_agree (if windowed   (* -b: cProfile inside the decorated functions' windows only *)
                      then p_calls (snd (wprof_run_cut reg (reg_of decl) tick ex))
                      else p_calls snap) ex impl_calls
    else hits_agree (p_hits snap) ex impl_hits)
   && (kern_exit ctx k oc =? impl_rc) && (count_eff is_dump tr =? cmp_dumps),
   (* the environment assumption: the interrupted run is the prefix plus unwinding *)
   prefix_unwind_ok trig full ex k m,
   (* the property on the implementation's own output: one complete file holding
      exactly the counts of what executed *)
   (if cprofile
    then forallb (fun f => count_call reg (if windowed then windowed_events (reg_of decl) ex else ex) f =? lookup1 f impl_calls)
                 (call_keys ex ++ map fst impl_calls)
    else hits_are_counts reg ex impl_hits)
   && (impl_dumps =? 1)).

Definition explicit_case_ok (trig : Z) (full ex : list pev) (m : Z) (kd : Z) (outc : Z) (regl : list Z)
           (impl_hits : list (Z * Z * Z)) (impl_shows : Z) : bool * bool * bool :=
  let k := match kd with 0 => KReturn | 1 => KSysExit | 2 => KKbdInt | _ => KExc end in
  let reg := reg_of regl in
  let '(tr, _, s) := explicit_run ex k reg (ostate_of outc) [[(0, None); (3, Some "profile_output.lprof")]] in
  ((if count_eff is_show tr =? 0 then list_empty impl_hits else hits_agree (p_hits s) ex impl_hits)
   && (count_eff is_show tr =? impl_shows),
   prefix_unwind_ok trig full ex k m,
   hits_are_counts reg ex impl_hits && (impl_shows =? 1)).

(* one kernprof -l -v case: besides the file, was the report seen on the process's real
   stdout (view_seen) and do its numbers agree with the file's (view_agrees, computed on
   the two texts)? *)
Definition view_case_ok (ex : list pev) (kd : Z) (outc : Z) (regl : list Z) (impl_hits : list (Z * Z * Z))
           (impl_rc view_seen view_agrees : Z) : bool * bool * bool :=
  let k := match kd with 0 => KReturn | 1 => KSysExit | 2 => KKbdInt | _ => KExc end in
  let reg := reg_of regl in
  let '(tr, oc, _) := exec ex k reg (ostate_of outc) (kern_main_view false "out") pst0 in
  let snap := match last_dump tr with Some (_, s) => s | None => pst0 end in
  (hits_agree (p_hits snap) ex impl_hits && (kern_exit false k oc =? impl_rc) && (count_eff is_view tr =? view_seen),
   wf ex && closed ex,
   hits_are_counts reg ex impl_hits && (view_seen =? 1) && (view_agrees =? 1)).
