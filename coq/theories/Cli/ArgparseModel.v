(* A model of argparse.ArgumentParser.parse_args (CPython 3.12.1) for parsers of the
   shape kernprof builds: optionals with nargs 0 / None / '?', at most the two
   positionals  script (nargs None)  and  args (nargs REMAINDER), prefix chars "-",
   allow_abbrev on.  This file models the *environment* (argparse); the harness
   validates it against the real argparse on generated token lists on every run.
   Type conversion of option values is not modelled (values are raw strings). *)
From LP Require Import Prelude.Py.

Inductive act := AStoreTrue | AStore | AStoreOpt | AAppend | AVersion | AHelp.
Record optspec := mkopt { o_dest : string; o_short : string; o_long : string; o_act : act }.

Definition nargs0 (a : act) : bool :=
  match a with AStoreTrue | AVersion | AHelp => true | _ => false end.

Definition opt_strings (o : optspec) : list string :=
  (if str_empty (o_short o) then [] else [o_short o]) ++ [o_long o].

Fixpoint find_opt (tbl : list optspec) (s : string) : option optspec :=
  match tbl with
  | [] => None
  | o :: t => if py_in String.eqb s (opt_strings o) then Some o else find_opt t s
  end.

(* ---- string helpers -------------------------------------------------------- *)
Fixpoint split_eq (s : string) : option (string * string) :=
  match s with
  | EmptyString => None
  | String a t =>
      if Ascii.eqb a "="%char then Some (EmptyString, t)
      else match split_eq t with Some (l, r) => Some (String a l, r) | None => None end
  end.

Definition is_digit (a : ascii) : bool :=
  let n := nat_of_ascii a in Nat.leb 48 n && Nat.leb n 57.
Fixpoint all_digits (s : string) : bool :=
  match s with EmptyString => true | String a t => is_digit a && all_digits t end.
Fixpoint digits_dot_digits (s : string) : bool :=
  match s with
  | EmptyString => false
  | String a t => if Ascii.eqb a "."%char then negb (str_empty t) && all_digits t
                  else is_digit a && digits_dot_digits t
  end.
(* '^-\d+$|^-\d*\.\d+$' *)
Definition is_neg_number (s : string) : bool :=
  match s with
  | String a t => Ascii.eqb a "-"%char && ((negb (str_empty t) && all_digits t) || digits_dot_digits t)
  | EmptyString => false
  end.
Fixpoint has_space (s : string) : bool :=
  match s with EmptyString => false | String a t => Ascii.eqb a " "%char || has_space t end.

Definition second_is_dash (s : string) : bool :=
  match s with String _ (String b _) => Ascii.eqb b "-"%char | _ => false end.

(* ---- classification of one token (ArgumentParser._parse_optional) ------------ *)
Inductive cls :=
| CA                                               (* 'A' *)
| CSep                                             (* '-'  (the token "--") *)
| CO (o : option optspec) (ostr : string) (expl : option string).   (* 'O' *)

Inductive perr := EAmbiguous | EIgnoredExplicit | EExpectedOne | ERequired | EUnrecognized.
Definition perr_code (e : perr) : Z :=
  match e with EAmbiguous => 1 | EIgnoredExplicit => 2 | EExpectedOne => 3 | ERequired => 4 | EUnrecognized => 5 end.

Definition option_tuples (tbl : list optspec) (s : string) : list cls :=
  if second_is_dash s then
    let '(pfx, expl) := match split_eq s with Some (l, r) => (l, Some r) | None => (s, None) end in
    flat_map (fun o => flat_map (fun os => if String.prefix pfx os then [CO (Some o) os expl] else [])
                                (opt_strings o)) tbl
  else
    let sp := String.substring 0 2 s in
    let se := String.substring 2 (String.length s - 2) s in
    flat_map (fun o => flat_map (fun os => if String.eqb os sp then [CO (Some o) os (Some se)]
                                           else if String.prefix s os then [CO (Some o) os None] else [])
                                (opt_strings o)) tbl.

Definition parse_optional (tbl : list optspec) (s : string) : cls + perr :=
  match s with
  | EmptyString => inl CA
  | String c _ =>
      if negb (Ascii.eqb c "-"%char) then inl CA else
      match find_opt tbl s with
      | Some o => inl (CO (Some o) s None)
      | None =>
          if Nat.eqb (String.length s) 1 then inl CA else
          let viaeq := match split_eq s with
                       | Some (l, r) => match find_opt tbl l with Some o => Some (CO (Some o) l (Some r)) | None => None end
                       | None => None
                       end in
          match viaeq with
          | Some c => inl c
          | None =>
              match option_tuples tbl s with
              | _ :: _ :: _ => inr EAmbiguous
              | [t] => inl t
              | [] => if is_neg_number s then inl CA else if has_space s then inl CA else inl (CO None s None)
              end
          end
      end
  end.

(* the up-front scan: after "--" every token is 'A' *)
Fixpoint classify_all (tbl : list optspec) (toks : list string) : list (string * cls) + perr :=
  match toks with
  | [] => inl []
  | t :: ts =>
      if String.eqb t "--" then inl ((t, CSep) :: map (fun s => (s, CA)) ts)
      else match parse_optional tbl t with
           | inr e => inr e
           | inl c => match classify_all tbl ts with inr e => inr e | inl r => inl ((t, c) :: r) end
           end
  end.

(* ---- consume_optional --------------------------------------------------------- *)
Definition event := (string * list string)%type.     (* (dest, argument strings) *)

(* the `while True` loop over a clustered single-dash token with an explicit argument e:
   returns the zero-argument options met, the last option, and its explicit value if any *)
Fixpoint cluster (tbl : list optspec) (o : optspec) (ostr : string) (e : string)
  : (list optspec * optspec * option string) + perr :=
  if nargs0 (o_act o) then
    if second_is_dash ostr then inr EIgnoredExplicit
    else match e with
         | EmptyString => inr EIgnoredExplicit
         | String c e' =>
             let ostr' := String "-"%char (String c EmptyString) in
             match find_opt tbl ostr' with
             | None => inr EIgnoredExplicit
             | Some o' =>
                 match e' with
                 | EmptyString => inl ([o], o', None)
                 | _ => match cluster tbl o' ostr' e' with
                        | inl (zs, ol, x) => inl (o :: zs, ol, x)
                        | inr er => inr er
                        end
                 end
             end
         end
  else inl ([], o, Some e).

Definition is_CA (c : cls) : bool := match c with CA => true | _ => false end.
Definition is_CO (c : cls) : bool := match c with CO _ _ _ => true | _ => false end.

(* returns the (option, args) tuples in order and whether the next token was used *)
Definition consume (tbl : list optspec) (o : optspec) (ostr : string) (expl : option string)
           (tl : list (string * cls)) : (list (optspec * list string) * bool) + perr :=
  let r := match expl with
           | Some e => cluster tbl o ostr e
           | None => inl ([], o, None)
           end in
  match r with
  | inr e => inr e
  | inl (zs, ol, x) =>
      let ztup := map (fun z => (z, @nil string)) zs in
      match x with
      | Some v => inl (ztup ++ [(ol, [v])], false)
      | None =>
          if nargs0 (o_act ol) then inl (ztup ++ [(ol, [])], false)
          else match tl with
               | (s2, CA) :: _ => inl (ztup ++ [(ol, [s2])], true)
               | _ => match o_act ol with
                      | AStoreOpt => inl (ztup ++ [(ol, [])], false)
                      | _ => inr EExpectedOne
                      end
               end
      end
  end.

Inductive exitkind := XVersion | XHelp.
Record pstate := mkst { st_ev : list event; st_extras : list string;
                        st_script : option string; st_args : list string; st_pos_left : bool }.

Fixpoint apply_tuples (st : pstate) (tu : list (optspec * list string)) : pstate + exitkind :=
  match tu with
  | [] => inl st
  | (o, a) :: t =>
      match o_act o with
      | AVersion => inr XVersion
      | AHelp => inr XHelp
      | _ => apply_tuples (mkst (st_ev st ++ [(o_dest o, a)]) (st_extras st) (st_script st) (st_args st) (st_pos_left st)) t
      end
  end.

Inductive outcome :=
| Parsed (ev : list event) (script : option string) (args : list string)
| PErr (e : perr)
| PExit (k : exitkind).

(* consume_positionals: with [script; args] the nargs pattern is "optional sep, A, optional sep"
   followed by "anything"; with [args] alone it is "anything".
   A match always swallows everything that is left. *)
Definition strings (toks : list (string * cls)) : list string := map fst toks.

Definition match_positionals (want_script : bool) (toks : list (string * cls)) : option (option string * list string) :=
  if want_script then
    match toks with
    | (s, CA) :: (_, CSep) :: tl => Some (Some s, strings tl)
    | (s, CA) :: tl => Some (Some s, strings tl)
    | (_, CSep) :: (s, CA) :: tl => Some (Some s, strings tl)
    | _ => None
    end
  else Some (None, strings toks).

Definition final (want_script : bool) (toks : list (string * cls)) (st : pstate) : outcome :=
  let st' :=
    if st_pos_left st then
      match match_positionals want_script toks with
      | Some (scr, args) => mkst (st_ev st) (st_extras st) scr args false
      | None => mkst (st_ev st) (st_extras st ++ strings toks) (st_script st) (st_args st) true
      end
    else mkst (st_ev st) (st_extras st ++ strings toks) (st_script st) (st_args st) false in
  if st_pos_left st' then PErr ERequired
  else if negb (list_empty (st_extras st')) then PErr EUnrecognized
  else Parsed (st_ev st') (st_script st') (st_args st').

Definition add_extra (st : pstate) (s : string) : pstate :=
  mkst (st_ev st) (st_extras st ++ [s]) (st_script st) (st_args st) (st_pos_left st).

Fixpoint loop (tbl : list optspec) (want_script : bool) (toks : list (string * cls)) (st : pstate) (skip : bool)
         {struct toks} : outcome :=
  if negb (existsb (fun t => is_CO (snd t)) toks) then final want_script toks st
  else
    match toks with
    | [] => final want_script toks st
    | (s, CO None _ _) :: tl => loop tbl want_script tl (add_extra st s) false
    | (s, CO (Some o) ostr expl) :: tl =>
        match consume tbl o ostr expl tl with
        | inr e => PErr e
        | inl (tuples, used_next) =>
            match apply_tuples st tuples with
            | inr k => PExit k
            | inl st' =>
                match used_next, tl with
                | true, _ :: tl2 => loop tbl want_script tl2 st' false
                | true, [] => PErr EExpectedOne
                | false, _ => loop tbl want_script tl st' false
                end
            end
        end
    | (s, _) :: tl =>
        if st_pos_left st && negb skip then
          match match_positionals want_script toks with
          | Some (scr, args) => final want_script [] (mkst (st_ev st) (st_extras st) scr args false)
          | None => loop tbl want_script tl (add_extra st s) true
          end
        else loop tbl want_script tl (add_extra st s) true
    end.

Definition init_state : pstate := mkst [] [] None [] true.

Definition parse (tbl : list optspec) (want_script : bool) (toks : list string) : outcome :=
  match classify_all tbl toks with
  | inr e => PErr e
  | inl c => loop tbl want_script c init_state false
  end.
