(* kernprof.main's command-line handling: translated pre-parser (Gen/PreParse.v),
   option table read off the source (Gen/KernprofArgs.v), argparse model, and the
   glue  options.args += post_args ; sys.argv = [options.script] + options.args. *)
From LP Require Import Prelude.Py Gen.PreParse Cli.ArgparseModel Gen.KernprofArgs.

(* script mode: ArgumentParser() adds -h/--help itself (action help);
   module mode: add_help=False plus an explicit store_true -h/--help *)
Definition tbl_script : list optspec := mkopt "help" "-h" "--help" AHelp :: kernprof_options.
Definition tbl_module : list optspec := mkopt "help" "-h" "--help" AStoreTrue :: kernprof_options.

Inductive cmd_result :=
| Run (ev : list event) (argv : list string) (is_module : bool)   (* config events, sys.argv, mode *)
| CmdErr (code : Z)                                                 (* usage error / traceback *)
| CmdExit.                                                          (* --help / --version *)

Definition has_help (ev : list event) : bool := existsb (fun e => String.eqb (fst e) "help") ev.

Definition kernprof_cmdline (args : list string) : cmd_result :=
  match pre_parse 2 args main_flag main_sep with
  | Err e => CmdErr (100 + exn_code e)
  | Ok (a, None, post) =>
      match parse tbl_script true a with
      | Parsed ev (Some s) r => Run ev (s :: r ++ post) false
      | Parsed _ None _ => CmdErr 99
      | PErr e => CmdErr (perr_code e)
      | PExit _ => CmdExit
      end
  | Ok (a, Some m, post) =>
      match parse tbl_module false a with
      | Parsed ev _ r => if has_help ev then CmdExit else Run ev (m :: r ++ post) true
      | PErr e => CmdErr (perr_code e)
      | PExit _ => CmdExit
      end
  end.

(* ---- executable comparison for the case shards -------------------------------- *)
Definition ev_eqb (a b : event) : bool :=
  String.eqb (fst a) (fst b) && list_eqb String.eqb (snd a) (snd b).

(* kind: 0 = ran, 1 = usage error (argparse), 2 = exit (help/version), 3 = traceback from the pre-parser *)
Definition result_kind (r : cmd_result) : Z :=
  match r with Run _ _ _ => 0 | CmdErr c => if 100 <=? c then 3 else 1 | CmdExit => 2 end.

Definition case_ok (args : list string) (kind : Z) (ev : list event) (argv : list string) (is_module : bool) : bool :=
  let r := kernprof_cmdline args in
  Z.eqb (result_kind r) kind &&
  match r with
  | Run ev' argv' m' => list_eqb ev_eqb ev' ev && list_eqb String.eqb argv' argv && Bool.eqb m' is_module
  | _ => true
  end.

(* the namespace argparse's actions build from the event list (store_true / store / append / nargs '?') *)
Definition ns_flag (ev : list event) (d : string) : bool := existsb (fun e => String.eqb (fst e) d) ev.
Definition ns_last (ev : list event) (d : string) : option (list string) :=
  fold_left (fun acc e => if String.eqb (fst e) d then Some (snd e) else acc) ev None.
Definition ns_all (ev : list event) (d : string) : list string :=
  flat_map (fun e => if String.eqb (fst e) d then snd e else []) ev.

Definition olist_eqb := opt_eqb (list_eqb String.eqb).

(* flags: line_by_line builtin view rich skip_zero prof_imports; values: outfile setup unit output_interval *)
Definition ns_ok (ev : list event) (flags : list bool) (vals : list (option (list string))) (prof_mod : list string) : bool :=
  list_eqb Bool.eqb (map (ns_flag ev) ["line_by_line"; "builtin"; "view"; "rich"; "skip_zero"; "prof_imports"]) flags
  && list_eqb olist_eqb (map (ns_last ev) ["outfile"; "setup"; "unit"; "output_interval"]) vals
  && list_eqb String.eqb (ns_all ev "prof_mod") prof_mod.

Definition case_ns_ok (args : list string) (flags : list bool) (vals : list (option (list string))) (prof_mod : list string) : bool :=
  match kernprof_cmdline args with
  | Run ev _ _ => ns_ok ev flags vals prof_mod
  | _ => true
  end.
