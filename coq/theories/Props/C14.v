(* C14 - @profile is inert unless profiling was requested.
   Nothing but the statements; the proofs are in Explicit/C14Proofs.v.  The methods
   enable / disable / implicit_setup / decorate (= __call__) / kernprof_overwrite, the
   constants FALSY_STRINGS, cfg_*, gp_init are regenerated from
   line_profiler/explicit_profiler.py on every run (Gen/GlobalProfiler.v); show() is a
   hand model (Explicit/GlobalProfiler.v) tied by correspondence.

   Vocabulary: [requested v argv] is the property's own wording:
     ~ In (lower (env_text v)) [""; "0"; "off"; "false"; "no"]
     \/ In "--line-profile" argv \/ In "--line_profile" argv
   where v is the value of LINE_PROFILE (None = unset).  A history is a list of
   OpEnable prefix | OpDisable | OpDecorate f (user_history excludes the kernprof-only
   _kernprof_overwrite).  [run] executes a history on the translated methods and returns
   every call's answer and the final object; f_created / f_atexit count the
   LineProfiler() constructions and atexit.register(self.show) calls. *)
From LP Require Import Prelude.Py Explicit.Base Gen.GlobalProfiler Explicit.GlobalProfiler Explicit.C14Proofs.
From LP Require Cli.MainEffects Cli.MainEffectsProofs.

(* The first decoration decides, and decides "enabled" exactly when profiling was requested:
   for every environment, every argument list, every decorated object. *)
Theorem C14_decision :
  forall (environ : string -> option string) (argv : list string) (f : callable),
  exists c s',
    decorate gp_init environ argv f = Ok (c, s')
    /\ (f_enabled s' = Some true <-> requested (environ "LINE_PROFILE") argv)
    /\ (f_enabled s' = Some true \/ f_enabled s' = Some false).
Proof. exact decision. Qed.

(* Not requested: any number of decorations return their arguments, no profiler is
   created, no exit hook is registered, nothing is written at exit. *)
Theorem C14_inert :
  forall (environ : string -> option string) (argv : list string) (fs : list callable)
         (wc : write_config) (ts : string),
    ~ requested (environ "LINE_PROFILE") argv ->
    let r := run environ argv gp_init (map OpDecorate fs) in
    fst r = map ObsRet fs
    /\ f_created (snd r) = 0 /\ f_atexit (snd r) = 0 /\ f_profile (snd r) = None
    /\ at_exit (snd r) wc ts = [].
Proof. exact inert. Qed.

(* Every history of enable / disable / decorate calls answers as the specification
   automaton does: a function is wrapped (by the one profiler Own 1) iff the state is
   enabled at its decoration, an undecided state deciding by [requested]. *)
Theorem C14_history :
  forall (environ : string -> option string) (argv : list string) (ops : list op),
    user_history ops = true ->
    fst (run environ argv gp_init ops)
    = spec_obs (requestedb (environ "LINE_PROFILE") argv) (Own 1) None ops.
Proof. exact history. Qed.

(* ... and a later disable() makes it inert again for subsequently decorated functions *)
Theorem C14_disable_inert :
  forall (environ : string -> option string) (argv : list string) (ops : list op) (fs : list callable),
    user_history ops = true ->
    let before := run environ argv gp_init ops in
    let after := run environ argv gp_init (ops ++ OpDisable :: map OpDecorate fs) in
    fst after = fst before ++ ObsUnit :: map ObsRet fs
    /\ f_created (snd after) = f_created (snd before)
    /\ f_atexit (snd after) = f_atexit (snd before)
    /\ f_profile (snd after) = f_profile (snd before).
Proof. exact disable_inert. Qed.

(* Over any history at most one profiler is created and at most one exit hook registered
   (exactly one of each iff the history ever switched profiling on). *)
Theorem C14_single_profiler_single_atexit :
  forall (environ : string -> option string) (argv : list string) (ops : list op),
    user_history ops = true ->
    let s' := snd (run environ argv gp_init ops) in
    let act := spec_active (requestedb (environ "LINE_PROFILE") argv) None ops in
    f_created s' = (if act then 1 else 0)
    /\ f_atexit s' = (if act then 1 else 0)
    /\ f_profile s' = (if act then Some (Own 1) else None)
    /\ 0 <= f_created s' <= 1 /\ 0 <= f_atexit s' <= 1.
Proof. exact single. Qed.

(* At exit: nothing if profiling was never switched on; otherwise show() runs once and
   emits exactly [expected_outputs] under the configured prefix ... *)
Theorem C14_outputs_exact :
  forall (environ : string -> option string) (argv : list string) (ops : list op)
         (wc : write_config) (ts : string),
    user_history ops = true ->
    let s' := snd (run environ argv gp_init ops) in
    let prefix := spec_prefix init_output_prefix ops in
    at_exit s' wc ts
    = (if spec_active (requestedb (environ "LINE_PROFILE") argv) None ops
       then [Ok (expected_outputs wc prefix ts)] else []).
Proof. exact outputs_exact. Qed.

(* ... where expected_outputs is: the switched-on kinds, each once, stdout or the file
   <prefix>.txt / <prefix>_<ts>.txt / <prefix>.lprof, the file names pairwise different
   and all starting with the prefix. *)
Theorem C14_expected_outputs_meaning :
  forall (wc : write_config) (prefix ts : string),
  (forall k, In k (map fst (expected_outputs wc prefix ts)) <-> switched_on wc k = true)
  /\ NoDup (map fst (expected_outputs wc prefix ts))
  /\ (forall k t, In (k, t) (expected_outputs wc prefix ts) -> t = target prefix ts k)
  /\ (forall k1 k2 n, target prefix ts k1 = Some n -> target prefix ts k2 = Some n -> k1 = k2)
  /\ (forall k n, target prefix ts k = Some n -> String.prefix prefix n = true).
Proof. exact expected_outputs_exact. Qed.

(* Under kernprof: after _kernprof_overwrite(p), from ANY state, functions go to p,
   no profiler is created and no exit hook registered, whatever the user history. *)
Theorem C14_kernprof_handoff :
  forall (environ : string -> option string) (argv : list string) (s : GP) (p : Z) (ops : list op),
    user_history ops = true ->
    let s0 := snd (step environ argv s (OpOverwrite (Some (Ext p)))) in
    let r := run environ argv s0 ops in
    fst r = spec_obs (requestedb (environ "LINE_PROFILE") argv) (Ext p) (Some true) ops
    /\ f_profile (snd r) = Some (Ext p)
    /\ f_created (snd r) = f_created s
    /\ f_atexit (snd r) = f_atexit s.
Proof. exact handoff. Qed.

(* ... and only UNDER kernprof.  kernprof.main (the effect model of Cli/MainEffects.v, tied to
   kernprof.py by C19's in-process runs) takes the decorator over after the -s setup file has
   run and hands it back in its finally: interleave in-process kernprof runs - any options (also an output file that cannot be written), any
   outcome of the program, main returning or raising - with ordinary use of the decorator; the
   decorator object (decision, profiler, prefix, profilers created, exit hooks registered) ends
   exactly as the ordinary uses alone leave it by the stand-alone rules: the host's uses in the
   host's sys.argv, the setup files' uses in [script] + args.  So a run neither switches the
   decorator on for later decorations, nor loses an enable() made before it or in its setup file
   (whose outputs are then written at exit as C14_outputs_exact says). *)
Theorem C14_kernprof_run_leaves_decorator_to_its_own_rules :
  forall (acts : list MainEffects.act) (s : MainEffects.St),
    MainEffectsProofs.acts_found acts = true ->        (* every run names a script / module that exists *)
    MainEffects.gp (MainEffects.exec_acts MainEffects.current s acts)
    = MainEffects.user_gp acts (MainEffects.cur (MainEffects.argv s)) (MainEffects.gp s).
Proof. exact MainEffectsProofs.decorator_under_kernprof_gp. Qed.

(* a run whose setup file enables the decorator and decorates, the program raising, then a host
   decoration: the decorator is on, with its own single profiler and one exit hook *)
Theorem C14_kernprof_nonvacuous :
  MainEffects.gp (MainEffects.exec_acts MainEffects.current MainEffects.st0
                    [MainEffects.ARun MainEffectsProofs.opts_setup_uses MainEffects.raises;
                     MainEffects.AUse MainEffects.UDecorate])
  = mkGP (Some true) (Some (Own 1)) "profile_output" 1 1
  /\ MainEffects.gp (MainEffects.exec_acts MainEffects.current MainEffects.st0
                       [MainEffects.ARun MainEffects.opts0 MainEffects.raises; MainEffects.AUse MainEffects.UDecorate])
     = mkGP (Some false) None "profile_output" 0 0.
Proof. exact MainEffectsProofs.decorator_under_kernprof_example. Qed.

(* concrete inputs meeting the hypotheses, with their results *)
Theorem C14_nonvacuous :
  requestedb (Some "OFF") ["prog"] = false
  /\ requestedb (Some "No") ["prog"] = false
  /\ requestedb (Some "1") ["prog"] = true
  /\ requestedb (Some "false ") ["prog"] = true
  /\ requestedb None ["prog"; "--line_profile"] = true
  /\ requestedb None ["prog"; "--line-profile=1"] = false
  /\ ~ requested (Some "FALSE") ["prog"; "x"]
  /\ run (environ_of (Some "yes")) ["prog"] gp_init
         [OpDecorate (Fn 1); OpDisable; OpDecorate (Fn 2); OpEnable (Some "p"); OpDecorate (Fn 3)]
     = ([ObsRet (Wrapped (Own 1) (Fn 1)); ObsUnit; ObsRet (Fn 2); ObsUnit; ObsRet (Wrapped (Own 1) (Fn 3))],
        mkGP (Some true) (Some (Own 1)) "p" 1 1)
  /\ user_history [OpDecorate (Fn 1); OpDisable; OpDecorate (Fn 2); OpEnable (Some "p"); OpDecorate (Fn 3)] = true
  /\ at_exit (mkGP (Some true) (Some (Own 1)) "p" 1 1) (mkWC true false true false) "T"
     = [Ok [(KTimestamped, Some "p_T.txt"); (KLprof, Some "p.lprof")]].
Proof. exact nonvacuous. Qed.
