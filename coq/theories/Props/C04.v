(* C04 - Statistics belong only to the function that actually ran.  Statements only. *)
From Coq Require Import List ZArith Bool.
From LP Require Import Gen.PyLayer Trace.PyLayerFacts Trace.GenRun Trace.ZMap Trace.Concrete Trace.Abstract Trace.AbstractFacts Trace.Main Trace.Witness.
Import ListNotations.
Open Scope Z_scope.

(* code that was never registered contributes nothing and reports nothing *)
Theorem C04_unregistered_reports_nothing :
  forall codes tick ops c l,
    no_collision codes ops = true -> ~ In c (reg_codes ops) ->
    reported_hits (run codes tick 0 ops) c l = 0 /\ reported_time (run codes tick 0 ops) c l = 0.
Proof. exact unregistered_reports_nothing. Qed.

(* every hit reported for a code object comes from a line event of THAT code object
   (`executed` counts only events whose code is c): no cross-talk between registered functions *)
Theorem C04_no_crosstalk :
  forall codes tick ops c l,
    no_collision codes ops = true ->
    reported_hits (run codes tick 0 ops) c l
    = executed codes tick ops c l - in_flight codes tick ops c l - dropped codes tick ops c l.
Proof. exact hits_exact. Qed.

(* registered twins stay separate: functions registered from the same unpadded bytecode get
   pairwise different NOP padding (0, 3, 4, 5, ...) - as long as none is registered again *)
Theorem C04_fresh_twins_distinct_partial :
  forall b n, NoDup (reg_fresh [] b n).
Proof. exact fresh_twins_distinct. Qed.

(* REFUTED: an unregistered byte-identical twin at the same line numbers (same hash, same line
   hashes) is charged to the registered function; no_collision fails for such a history *)
Theorem C04_unregistered_twin_refuted :
  ~ In 1 (reg_codes twin_ops)
  /\ executed twin_codes 0 twin_ops 0 2 = 0
  /\ reported_hits (run twin_codes 0 0 twin_ops) 0 2 = 1
  /\ no_collision twin_codes twin_ops = false.
Proof. exact twin_crosstalk. Qed.

(* REFUTED: with re-registration the padding rule can give two different registered functions the
   same bytecode; the later one gets no entry and its executions are reported for the other *)
Theorem C04_padding_collision_refuted :
  pad_ok (run pad_codes 0 0 pad_ops) = true
  /\ c_k (nth_code pad_codes 5) = c_k (nth_code pad_codes 9)
  /\ get (chm (run pad_codes 0 0 pad_ops)) 9 = None
  /\ reported_hits (run pad_codes 0 0 pad_ops) 5 2 = 1
  /\ executed pad_codes 0 pad_ops 5 2 = 0.
Proof. exact padding_collision. Qed.

(* The tie to the source: the machine regenerated from line_profiler/_line_profiler.pyx on this run (Gen/TraceCore.v:
   the trace callback translated statement by statement, compute_line_hash, enable/disable, the registration loop and
   get_stats read off the source) computes exactly `run`, the model the theorems above are about. *)
Theorem C04_model_is_generated_core :
  forall codes tick start ops, gen_run codes tick start ops = run codes tick start ops.
Proof. exact gen_run_eq. Qed.

(* The registration entry points of the Python layer (Gen/PyLayer.v, regenerated from line_profiler.py and
   autoprofile/line_profiler_utils.py on this run) hand to add_function exactly the functions they are given: those
   of the module dict and of the classes in it; for the auto-profiling hook the function, the class's own functions,
   or the module's - nothing is skipped or de-duplicated at this layer, so every function gets its own registration
   (and, when byte-identical to another, its own padded code). *)
Theorem C04_entry_points_register_exactly_what_they_are_handed :
  (forall members c, In c (gen_add_module_targets members) <->
     In (IFunc c) members \/ exists ms, In (IClass ms) members /\ In (IFunc c) ms)
  /\ (forall it c, In c (fst (gen_imported_targets it)) <->
       match it with
       | IFunc c0 => c = c0
       | IClass ms => In (IFunc c) ms
       | IModule ms => In (IFunc c) ms \/ exists cs, In (IClass cs) ms /\ In (IFunc c) cs
       | IOther => False
       end)
  /\ (forall a b, gen_add_module_targets (a ++ b) = gen_add_module_targets a ++ gen_add_module_targets b).
Proof. exact (conj add_module_targets_exact (conj imported_targets_exact add_module_targets_multiplicity)). Qed.

(* ... and in the core such a registration gives the function its OWN entry as soon as its (padded) code brings one
   line hash the profiler has not seen (partial: when NOP paddings collide after re-registrations no hash is new -
   the known finding C04-padding-collision-after-reregistration) *)
Theorem C04_registration_creates_entry_partial :
  forall codes st cb ca,
    (exists l, In l (c_lines (nth_code codes ca)) /\ mem (cmap st) (LH (c_hash (nth_code codes ca)) l) = false) ->
    mem (chm (add_function codes st cb ca)) ca = true.
Proof. exact registration_creates_entry. Qed.
