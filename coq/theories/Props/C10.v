(* C10 - The text report shows every recorded number at the right source line.
   Nothing but the statements; proofs live in Report/LayoutProofs.v, Report/CellsProofs.v,
   Report/CellsWitness.v.  The model is Report/Layout.v (show_text / show_func, rich=False)
   and Report/Cells.v (binary64 arithmetic and %d / %f / %g as exact rational computations).

   Everything below holds for EVERY stats list (any number of functions and lines, any
   magnitudes), every environment (source found with any block of lines, or missing), every
   formatter F (in particular `py_formatter unit output_unit` for every pair of units) and all
   sixteen option combinations. *)
From Coq Require Import QArith Qabs Sorting.Permutation Sorting.Sorted.
From LP Require Import Prelude.Py Report.LayoutStr Report.Layout Report.LayoutProofs
                       Report.Cells Report.CellsProofs Report.CellsWitness.
Open Scope Z_scope.

(* --- every function once ------------------------------------------------------------------ *)
(* With details on, the function blocks have distinct keys; a stats key has a block iff
   stripzeros is off or its total hits are non-zero; and every block is show_func of its own
   key's timings (so the numbers of one function never appear under another, and a block does
   not depend on what was reported before it). *)
Theorem C10_every_function_once :
  forall (F : formatter) (E : env) (o : options) (st : stats),
    NoDup (map fst st) -> o_details o = true ->
    let blocks := rp_blocks (show_text F E o st) in
    NoDup (map b_key blocks)
    /\ (forall k tm, In (k, tm) st ->
          (In k (map b_key blocks) <-> (o_stripzeros o = false \/ total_hits tm <> 0)))
    /\ (forall b, In b blocks ->
          exists tm, In (b_key b, tm) st /\ show_func F E (o_stripzeros o) (b_key b) tm = Some b).
Proof. exact every_function_once. Qed.

(* skip-zero hides exactly the functions with no hits (hit counts are never negative) *)
Theorem C10_skip_zero_hides_exactly_no_hits :
  forall (F : formatter) (E : env) (o : options) (st : stats),
    NoDup (map fst st) -> o_details o = true -> o_stripzeros o = true ->
    forall k tm, In (k, tm) st -> (forall t, In t tm -> 0 <= t_hits t) ->
      (~ In k (map b_key (rp_blocks (show_text F E o st))) <-> forall t, In t tm -> t_hits t = 0).
Proof. exact skip_zero_exact. Qed.

(* --- every line once, on its own row ----------------------------------------------------------- *)
(* Row i of a block carries line number start+i, the text of the i-th line of the source block
   (line terminator removed; `shown_text`: when the stream's strict encoding cannot encode that
   text - an ascii or latin-1 stdout and a non-ASCII source line - the fixed placeholder
   "UnicodeEncodeError - help wanted for a fix" instead, still on a row of its own) and the display entry of line start+i: the cells of the last timing
   recorded for that line, or four empty cells when nothing was recorded.  The block has one row
   per line of the source block (for a missing file: per fake empty line). *)
Theorem C10_every_line_once_on_its_row :
  forall (F : formatter) (E : env) (strip : bool) fn start name (tm : list timing) (b : block),
    show_func F E strip (fn, start, name) tm = Some b ->
    let sub := block_lines (E fn start) start tm in
    length (b_rows b) = length sub
    /\ forall i r, nth_error (b_rows b) i = Some r ->
         r_lineno r = start + Z.of_nat i
         /\ (exists line, nth_error sub i = Some line /\ r_text r = shown_text F line)
         /\ r_cells r = display_entry F (total_time tm) tm (start + Z.of_nat i).
Proof. exact row_i_is_line_start_plus_i. Qed.

(* With distinct line numbers (C12's guarantee) every recorded line inside the block range is on
   exactly one row - row number (line - start) - with its own cells; a recorded line OUTSIDE the
   range start .. start+len(block)-1 is on no row: show_func drops it silently.  (Whether the
   lines of a code object always lie inside what inspect.getblock returns is a fact about the
   environment; the tie checks it on every generated source shape.) *)
Theorem C10_every_line_once :
  forall (F : formatter) (E : env) (strip : bool) fn start name (tm : list timing) (b : block),
    show_func F E strip (fn, start, name) tm = Some b ->
    NoDup (map t_line tm) ->
    let n := Z.of_nat (length (block_lines (E fn start) start tm)) in
    forall t, In t tm ->
      (start <= t_line t < start + n ->
         exists i r, nth_error (b_rows b) i = Some r
                     /\ i = Z.to_nat (t_line t - start)
                     /\ r_lineno r = t_line t
                     /\ r_cells r = f_cells F (total_time tm) t
                     /\ forall j r', nth_error (b_rows b) j = Some r' -> r_lineno r' = t_line t -> j = i)
      /\ (~ (start <= t_line t < start + n) -> forall r, In r (b_rows b) -> r_lineno r <> t_line t).
Proof. exact every_line_once. Qed.

(* missing file: the fake block covers every line of valid stats (lines at or after the first) *)
Theorem C10_missing_file_keeps_every_line :
  forall start (tm : list timing),
    (forall t, In t tm -> start <= t_line t) ->
    forall t, In t tm ->
      start <= t_line t < start + Z.of_nat (length (block_lines Missing start tm)).
Proof. exact missing_file_covers_all_lines. Qed.

(* A function defined in an IPython cell (no file; the source lives only in linecache.cache):
   wherever its block stands in the report it has one row per line of the cell's block and every
   recorded line in that range is on exactly one row with its own numbers.  (The former
   C10_ipython_cell_rows_refuted: until /repo commit 6c987c9 show_func called
   linecache.clearcache() for every on-disk function, and a cell function printed after one got
   a header and no rows.) *)
Theorem C10_ipython_cell_rows_shown :
  forall (F : formatter) (E : env) (o : options) (st : stats) (b : block) fn start name sub,
    o_details o = true ->
    In b (rp_blocks (show_text F E o st)) -> b_key b = (fn, start, name) -> E fn start = Cell sub ->
    exists tm, In ((fn, start, name), tm) st
      /\ length (b_rows b) = length sub
      /\ (NoDup (map t_line tm) ->
          forall t, In t tm -> start <= t_line t < start + Z.of_nat (length sub) ->
            exists i r, nth_error (b_rows b) i = Some r /\ i = Z.to_nat (t_line t - start)
                        /\ r_lineno r = t_line t /\ r_cells r = f_cells F (total_time tm) t
                        /\ forall j r', nth_error (b_rows b) j = Some r' -> r_lineno r' = t_line t -> j = i).
Proof. exact cell_rows_shown. Qed.

(* the concrete two-function report: the cell function after the on-disk function keeps its rows *)
Theorem C10_ipython_cell_example :
  map (fun b => (b_key b, map (fun r => (r_lineno r, c_hits (r_cells r), r_text r)) (b_rows b)))
      (rp_blocks (show_text_py 1 None ip_env (mkOpts false false false true) ip_st))
  = [(("/src/a.py", 1, "f"), [(1, "", "def f(x):"); (2, "1", "    return x")]);
     ((ip_cell, 1, "c0"), [(1, "", "def c0(y):"); (2, "1", "    y += 1"); (3, "1", "    return y")])].
Proof. exact ipython_cell_example. Qed.

(* REFUTED for cell names whose source is cached nowhere: "every recorded line is on a row" is
   false of the faithful model when a function's file name is an IPython cell name but neither a
   file nor a linecache entry provides its source (statistics viewed outside the notebook
   process): the block is a header and no rows.  The same statistics under any other unknown
   name keep one row per line (the "Could not find file" branch). *)
Theorem C10_ipython_cell_without_source_refuted :
  exists (st : stats) (k : key) (tm : list timing) (E : env) (o : options),
    NoDup (map fst st) /\ In (k, tm) st /\ NoDup (map t_line tm) /\ tm <> []
    /\ (forall t, In t tm -> snd (fst k) <= t_line t /\ 1 <= t_hits t)
    /\ E (fst (fst k)) (snd (fst k)) = Cell []
    /\ o_details o = true
    /\ (exists b, In b (rp_blocks (show_text_py 1 None E o st)) /\ b_key b = k /\ b_rows b = [])
    /\ (exists b, In b (rp_blocks (show_text_py 1 None (fun _ _ => Missing) o st)) /\ b_key b = k
                  /\ map r_lineno (b_rows b) = [1; 2; 3]).
Proof. exact uncached_cell_witness. Qed.

(* a stream that cannot encode a source line: the placeholder, still one row per line *)
Theorem C10_encoding_placeholder_example :
  option_map (fun b => map (fun r => (r_lineno r, r_text r)) (b_rows b))
    (show_func (with_encoding (py_formatter 1 None) Ascii)
               (fun _ _ => Found ["def e(x):"; bs [32;32;97;32;61;32;39;195;169;39]; "  return x"])
               false ("e.py", 1, "e") [(2, 1, 5); (3, 1, 5)])
  = Some [(1, "def e(x):"); (2, encode_fallback); (3, "  return x")].
Proof. exact encoding_example. Qed.

(* without C12's uniqueness: of several timings for one line only the LAST is displayed *)
Theorem C10_duplicate_lineno_last_wins :
  (forall pre t post,
     (forall t', In t' post -> t_line t' <> t_line t) ->
     last_for (pre ++ t :: post) (t_line t) = Some t)
  /\ (let F := py_formatter 1 None in
      option_map (fun b => map r_cells (b_rows b))
                 (show_func F (fun _ _ => Missing) false ("f.py", 1, "f") [(1, 5, 10); (1, 7, 30)])
      = Some [("7", " 30.0", "  4.3", " 75.0")]).
Proof. exact (conj duplicate_lineno_last_wins duplicate_example). Qed.

(* --- the numbers ---------------------------------------------------------------------------------- *)
(* '%d': reading the printed hits back gives the count, for every n >= 0 *)
Theorem C10_hits_roundtrip : forall n, 0 <= n -> parse_nat (fmt_d n) = Some n.
Proof. exact parse_fmt_d. Qed.

(* up to nine digits the Hits cell IS that exact text *)
Theorem C10_hits_nine_digits_exact : forall n, 0 <= n < 10 ^ 9 -> hits_cell n = fmt_d n.
Proof. exact hits_cell_exact. Qed.

(* from ten digits on the cell is '%g' of float(n): six significant digits D at decimal
   exponent X with |D * 10^(X-5) - x| <= 10^(X-5) / 2  (x = float(n) > 0) *)
Theorem C10_hits_fallback_six_digits :
  (forall n, 10 ^ 9 <= n -> hits_cell n = fmt_g 0 6 (f_of_int n))
  /\ (forall x : Q, (0 < x)%Q ->
        let '(D, X) := sig_digits 6 x in
        (Qabs (inject_Z D * pow10Q (X - 6 + 1) - x) <= (1 # 2) * pow10Q (X - 6 + 1))%Q).
Proof. exact hits_fallback_six_digits. Qed.

(* '%5.1f' (time, per hit, percent): the printed text reads back as a number with one decimal
   within 1/20 of the value, for every non-negative rational - hence every binary64 *)
Theorem C10_f1_precision :
  forall x : Q, (0 <= x)%Q ->
    exists p, parse_dec (fmt_f 5 1 x) = Some p /\ snd (fst p) = -1
              /\ (Qabs (dec_value p - x) <= 1 # 20)%Q.
Proof. exact fmt_f1_precision. Qed.

(* '%6.2f' (summary totals): within 1/200 *)
Theorem C10_f2_precision :
  forall x : Q, (0 <= x)%Q ->
    exists p, parse_dec (fmt_f 6 2 x) = Some p /\ snd (fst p) = -2
              /\ (Qabs (dec_value p - x) <= 1 # 200)%Q.
Proof. exact fmt_f2_precision. Qed.

(* '%.Pg' ('%5.3g' fallback of time / per hit, '%g' of totals and units): the P significant
   digits are within half a unit of the P-th place.  PARTIAL: this is the digit generation;
   that the rendered string (point placement, stripped zeros, exponent) reads back as D*10^(X-P+1)
   is not proved, it is checked by the tie (CellsSpec.g_close on every printed cell). *)
Theorem C10_g_precision_partial :
  forall (P : Z) (x : Q), 1 <= P -> (0 < x)%Q ->
    let '(D, X) := sig_digits P x in
    (Qabs (inject_Z D * pow10Q (X - P + 1) - x) <= (1 # 2) * pow10Q (X - P + 1))%Q.
Proof. exact sig_digits_precision. Qed.

(* --- options only select and order ------------------------------------------------------------- *)
(* sort: the functions are taken in ascending total time, ties in dict order (stable); the
   blocks are the shown ones among them, in that order *)
Theorem C10_sort :
  forall (F : formatter) (E : env) (o : options) (st : stats),
    o_details o = true -> o_sort o = true ->
    exists order,
      Permutation order st
      /\ Sorted (fun a b => total_time (snd a) <= total_time (snd b)) order
      /\ (forall x, filter (eqv entry_le_time x) order = filter (eqv entry_le_time x) st)
      /\ map b_key (rp_blocks (show_text F E o st)) = map fst (filter (shown (o_stripzeros o)) order)
      /\ Sorted (fun a b => total_time (snd a) <= total_time (snd b)) (filter (shown (o_stripzeros o)) order).
Proof. exact sort_by_time. Qed.

(* default: ascending (filename, first line, name), compared as Python compares tuples *)
Theorem C10_sort_default_by_key :
  forall (F : formatter) (E : env) (o : options) (st : stats),
    o_details o = true -> o_sort o = false ->
    exists order,
      Permutation order st
      /\ Sorted (fun a b => key_le (fst a) (fst b) = true) order
      /\ map b_key (rp_blocks (show_text F E o st)) = map fst (filter (shown (o_stripzeros o)) order).
Proof. exact sort_by_key. Qed.

(* summarize adds one total per function to be shown - every function when stripzeros is off,
   with it those with total hits <> 0 - in the order of the blocks, and nothing when off *)
Theorem C10_summarize :
  forall (F : formatter) (E : env) (o : options) (st : stats),
    NoDup (map fst st) ->
    (o_summarize o = false -> rp_summary (show_text F E o st) = [])
    /\ (o_summarize o = true ->
        NoDup (map fst (rp_summary (show_text F E o st)))
        /\ (forall k tm, In (k, tm) st ->
              (In (k, f_summary F (total_time tm)) (rp_summary (show_text F E o st))
               <-> (o_stripzeros o = false \/ total_hits tm <> 0)))
        /\ (o_stripzeros o = false ->
              map fst (rp_summary (show_text F E o st)) = map fst (stats_order (o_sort o) st))).
Proof. exact summarize_one_per_function. Qed.

(* under every option combination - stripzeros included - the summary lists exactly the
   functions whose details are shown, in the same order (the former C10_skipzero_summary_refuted:
   until /repo commit 49eff24 the summary was filtered on total time, the details on total hits) *)
Theorem C10_skipzero_summary_matches_details :
  forall (F : formatter) (E : env) (o : options) (st : stats),
    o_details o = true -> o_summarize o = true ->
    map fst (rp_summary (show_text F E o st)) = map b_key (rp_blocks (show_text F E o st)).
Proof. exact summary_matches_details. Qed.

(* --- the command lines ---------------------------------------------------------------------------- *)
(* `python -m line_profiler [-u U] [-z] [-t] [-m] X.lprof` (main = load_stats + show_text on the
   loaded timings): every key of the pickled statistics has exactly one block (under -z those
   with hits) made from its own timings, and with -m one summary line per block, same order. *)
Theorem C10_viewer_cli_every_function_once :
  forall (unit u : Q) (z t m : bool) (E : env) (st : stats),
    NoDup (map fst st) ->
    let r := viewer_cli_report unit u z t m E st in
    NoDup (map b_key (rp_blocks r))
    /\ (forall k tm, In (k, tm) st -> (In k (map b_key (rp_blocks r)) <-> (z = false \/ total_hits tm <> 0)))
    /\ (forall b, In b (rp_blocks r) ->
          exists tm, In (b_key b, tm) st /\ show_func (py_formatter unit (Some u)) E z (b_key b) tm = Some b)
    /\ (m = true -> map fst (rp_summary r) = map b_key (rp_blocks r)).
Proof. exact viewer_cli_every_function_once. Qed.

(* `kernprof -l -v [-u U] [-z]`: the same for the report printed by the kernprof process *)
Theorem C10_kernprof_view_every_function_once :
  forall (unit u : Q) (z : bool) (E : env) (st : stats),
    NoDup (map fst st) ->
    let r := kernprof_view_report unit u z E st in
    NoDup (map b_key (rp_blocks r))
    /\ (forall k tm, In (k, tm) st -> (In k (map b_key (rp_blocks r)) <-> (z = false \/ total_hits tm <> 0)))
    /\ (forall b, In b (rp_blocks r) ->
          exists tm, In (b_key b, tm) st /\ show_func (py_formatter unit (Some u)) E z (b_key b) tm = Some b).
Proof. exact kernprof_view_every_function_once. Qed.

(* `LineProfiler.print_stats(...)`: the report of the LineStats that get_stats() returns, scaled
   with THAT object's unit; every key once, blocks made from the key's own timings with the
   formatter of (statistics' unit, output unit), summary lines matching the blocks *)
Theorem C10_print_stats_every_function_once :
  forall (ls : linestats) (ou : option Q) (o : options) (E : env),
    NoDup (map fst (ls_timings ls)) -> o_details o = true ->
    let r := print_stats_report ls ou o E in
    NoDup (map b_key (rp_blocks r))
    /\ (forall k tm, In (k, tm) (ls_timings ls) ->
          (In k (map b_key (rp_blocks r)) <-> (o_stripzeros o = false \/ total_hits tm <> 0)))
    /\ (forall b, In b (rp_blocks r) ->
          exists tm, In (b_key b, tm) (ls_timings ls)
                     /\ show_func (py_formatter (ls_unit ls) ou) E (o_stripzeros o) (b_key b) tm = Some b)
    /\ (o_summarize o = true -> map fst (rp_summary r) = map b_key (rp_blocks r)).
Proof. exact print_stats_every_function_once. Qed.

(* the hypotheses are satisfiable, and this is what the model prints for a two-function report *)
Theorem C10_nonvacuous :
  NoDup (map fst ex_st)
  /\ Forall (fun e => NoDup (map t_line (snd e)) /\ Forall (fun t => 1 <= t_hits t) (snd e)) ex_st
  /\ render_report (show_text_py u6 None ex_env ex_opts ex_st) =
     ["Timer unit: 1e-06 s"; "";
      "Total time: 0 s"; "";
      "Could not find file zero.py";
      "Are you sure you are running this program from the same directory";
      "that you ran the profiler from?";
      "Continuing without the function's contents."; "";
      "Line #        Hits         Time  Per Hit   % Time  Line Contents";
      "================================================================";
      "     1                                             ";
      "     2 1.23457e+09          0.0      0.0           "; "";
      "Total time: 0.007 s"; "File: zero.py"; "Function: slow at line 4"; "";
      "Line #      Hits         Time  Per Hit   % Time  Line Contents";
      "==============================================================";
      "     4                                           def slow(x):";
      "     5         3       7000.0   2333.3    100.0      return x + 1"; "";
      "  0.00 seconds - zero.py:1 - fast";
      "  0.01 seconds - zero.py:4 - slow"].
Proof. exact example_report. Qed.
