(* C01 - Per-line hit counts are exact.   Statements only; proofs in Trace/.
   run        : the concrete tracer (mirror of _line_profiler.pyx) on a history of operations
   reported_hits cs c l : what the profiler reports for line l of code object c (sum over c's buckets)
   executed   : number of line events of code c at line l that happened in a thread whose profiler was
                enabled while c was registered (and l belongs to c's line table)
   in_flight  : such lines still being executed at the end of the history
   dropped    : such lines that were being executed when their thread disabled the profiler
   no_collision : executable hypothesis - line hashes are injective over everything registered or
                executing, registered code objects have distinct bytecode hashes *)
From Coq Require Import List ZArith Bool.
From LP Require Import Trace.GenRun Trace.ZMap Trace.Concrete Trace.Abstract Trace.AbstractFacts Trace.Main Trace.Witness Trace.Stats Trace.Report.
Import ListNotations.
Open Scope Z_scope.

(* For EVERY history - any nesting, recursion, suspension, unwinding, any number of threads - *)
Theorem C01_hits_exact :
  forall codes tick ops c l,
    no_collision codes ops = true ->
    reported_hits (run codes tick 0 ops) c l
    = executed codes tick ops c l - in_flight codes tick ops c l - dropped codes tick ops c l.
Proof. exact hits_exact. Qed.

(* the property as stated: when no line is in flight and none was cut off by a disable *)
Theorem C01_hits_exact_quiescent :
  forall codes tick ops c l,
    no_collision codes ops = true ->
    in_flight codes tick ops c l = 0 -> dropped codes tick ops c l = 0 ->
    reported_hits (run codes tick 0 ops) c l = executed codes tick ops c l.
Proof. exact hits_exact_quiescent. Qed.

(* never more hits than executions, and lines that were not executed report nothing *)
Theorem C01_hits_le_executed :
  forall codes tick ops c l,
    no_collision codes ops = true ->
    reported_hits (run codes tick 0 ops) c l <= executed codes tick ops c l.
Proof. exact hits_le_executed. Qed.

(* non-vacuity: a directly recursive function (two live activations sharing one pending slot) *)
Theorem C01_nonvacuous :
  no_collision rec_codes rec_ops = true
  /\ in_flight rec_codes 0 rec_ops 0 3 = 0 /\ dropped rec_codes 0 rec_ops 0 3 = 0
  /\ reported_hits (run rec_codes 0 0 rec_ops) 0 2 = 2
  /\ reported_hits (run rec_codes 0 0 rec_ops) 0 3 = 1
  /\ reported_hits (run rec_codes 0 0 rec_ops) 0 4 = 2
  /\ executed rec_codes 0 rec_ops 0 2 = 2.
Proof. exact rec_hits. Qed.

(* outside the quantifier (observation, not a finding): code that switches its own profiler off
   loses the line in flight - exactly what C01_hits_exact predicts *)
Theorem C01_selfdisable_drops_line :
  executed selfdis_codes 0 selfdis_ops 0 2 = 1 /\ dropped selfdis_codes 0 selfdis_ops 0 2 = 1
  /\ reported_hits (run selfdis_codes 0 0 selfdis_ops) 0 2 = 0.
Proof. exact selfdisable_drops. Qed.

(* the link to what the user sees: an entry (l, h, t) shown by get_stats under the label of a code
   object c (when no other registered code object carries that label) is reported_hits / reported_time
   of c - so C01_hits_exact speaks about the numbers in the report, for every run *)
Theorem C01_report_shows_reported :
  forall codes tick ops c ents l h t,
    (forall ch, In ch (chm (run codes tick 0 ops)) ->
                c_lbl (nth_code codes (fst ch)) = c_lbl (nth_code codes c) -> fst ch = c) ->
    In (c_lbl (nth_code codes c), ents) (get_stats codes (run codes tick 0 ops)) -> In (l, h, t) ents ->
    h = reported_hits (run codes tick 0 ops) c l /\ t = reported_time (run codes tick 0 ops) c l.
Proof. exact snapshot_shows_reported. Qed.

(* The tie to the source: the machine regenerated from line_profiler/_line_profiler.pyx on this run (Gen/TraceCore.v:
   the trace callback translated statement by statement, compute_line_hash, enable/disable, the registration loop and
   get_stats read off the source) computes exactly `run`, the model the theorems above are about. *)
Theorem C01_model_is_generated_core :
  forall codes tick start ops, gen_run codes tick start ops = run codes tick start ops.
Proof. exact gen_run_eq. Qed.
