(* C18 - Module names and paths are mapped the way the import system maps them.
   Nothing but the statements; the model is Resolve/ModPath.v (util_static.py read on a
   tree-shaped file system), the specification Resolve/ModPathSpec.v (PathFinder's
   parent-first resolution of source modules and regular packages), proofs in
   Resolve/ModPathLookup.v, ModPathFlags.v, ModPathRound.v, ModPathWalk.v.

   Reading guide: fs is any finite directory tree; roots any list of search roots
   (paths in fs); comps the components of a dotted name (names_ok: non-empty,
   dot-free); no_dir_named INIT fs: no DIRECTORY is called "__init__.py".
   Found p k: the import system loads the module file p (k = false) or the package
   whose directory is p (k = true). *)
From LP Require Import Prelude.Py Resolve.FsModel Resolve.ModPath Resolve.ModPathSpec
     Resolve.ModPathLookup Resolve.ModPathFlags Resolve.ModPathRound Resolve.ModPathWalk
     Resolve.ModPathSelect Resolve.ModPathListPkg Resolve.ModPathSelectProofs Resolve.ModPathHist.

(* Whenever importing the name loads a regular module or package, the lookup yields that
   very file / package directory (hide_init) or its __init__.py (hide_init=False).
   No hypothesis on shadowing: holds for every tree, every list of roots, every depth. *)
Theorem C18_import_found_is_looked_up :
  forall fs roots comps hide_init p k,
    no_dir_named INIT fs = true -> names_ok comps = true ->
    String.eqb (hd EmptyString comps) "__init__" = false ->
    import_name fs roots comps = Found p k ->
    syspath_lookup fs roots comps = Some p
    /\ modname_to_modpath fs roots comps hide_init false = Some (spec_path hide_init p k).
Proof. exact import_found_modpath. Qed.

(* Full agreement (including "missing names yield nothing") where the first root that has
   the top-level name as a regular package or module also has the whole chain (no_shadow,
   an executable predicate).  PARTIAL: without no_shadow the statement is false of the
   faithful model, see C18_shadow_refuted. *)
Theorem C18_lookup_agrees_partial :
  forall fs roots comps hide_init,
    no_dir_named INIT fs = true -> names_ok comps = true ->
    String.eqb (hd EmptyString comps) "__init__" = false ->
    no_shadow fs roots comps = true ->
    syspath_lookup fs roots comps = found_path (import_name fs roots comps)
    /\ modname_to_modpath fs roots comps hide_init false
       = spec_answer hide_init (import_name fs roots comps).
Proof. exact lookup_agrees_flags. Qed.

(* the same for the flags every caller in /repo uses (hide_init=True, hide_main=False) *)
Theorem C18_lookup_default_flags_partial :
  forall fs roots comps,
    no_dir_named INIT fs = true -> names_ok comps = true ->
    String.eqb (hd EmptyString comps) "__init__" = false ->
    no_shadow fs roots comps = true ->
    modname_to_modpath fs roots comps true false = spec_answer true (import_name fs roots comps).
Proof. exact lookup_default_flags. Qed.

(* REFUTED full statement "lookup = import for all trees": root r1 has package a/ without b,
   root r2 has a/b.py.  Importing a.b fails (a is r1/a, which has no b); the helper answers
   r2/a/b.py.  Replayed on the implementation: findings/C18-shadowed-chain.json. *)
Theorem C18_shadow_refuted :
  exists fs roots comps p,
    wf_node fs = true /\ no_dir_named INIT fs = true /\ names_ok comps = true
    /\ modname_to_modpath fs roots comps true false = Some p
    /\ import_name fs roots comps = NoModule.
Proof. exact shadow_refuted. Qed.

(* a name that no root holds as a complete regular chain is not found *)
Theorem C18_missing_is_none :
  forall fs roots comps,
    no_dir_named INIT fs = true -> names_ok comps = true ->
    forallb (fun r => negb (is_found (import_chain fs [r] comps false))) roots = true ->
    syspath_lookup fs roots comps = None
    /\ forall hi hm, modname_to_modpath fs roots comps hi hm = None.
Proof. exact missing_is_none. Qed.

(* whatever the helper answers exists: a package directory with an __init__.py file, or a
   module file, below one of the roots at the position the name spells, and every package
   on the way down has an __init__.py *)
Theorem C18_lookup_is_real :
  forall fs roots comps p,
    syspath_lookup fs roots comps = Some p ->
    exists r, In r roots /\
      ((p = r ++ comps /\ isfile fs (p ++ [INIT]) = true /\ pkgs_down fs r (removelast comps) = true)
       \/ (p = r ++ with_last_py comps /\ isfile fs p = true /\ pkgs_down fs r (removelast comps) = true)).
Proof. exact lookup_is_real. Qed.

(* Round trip, any flags (the same on both calls): modpath_to_modname (modname_to_modpath n)
   is n up to the documented hiding of __init__/__main__ (expected_name).
   PARTIAL: needs roots_plain (no search root is itself a package directory); without it
   the statement is false, see C18_roundtrip_root_package_refuted. *)
Theorem C18_roundtrip_partial :
  forall fs roots comps hide_init hide_main p,
    no_dir_named INIT fs = true -> roots_plain fs roots = true -> names_ok comps = true ->
    syspath_lookup fs roots comps = Some p ->
    modname_to_modpath fs roots comps hide_init hide_main = Some (normalize fs p hide_init hide_main)
    /\ modpath_to_modname fs (normalize fs p hide_init hide_main) hide_init hide_main
       = Ok (expected_name hide_init hide_main comps (isdir fs p)).
Proof. exact roundtrip_full. Qed.

(* default flags: every name whose last component is not __init__ comes back unchanged
   (a.__init__ comes back as a, by design of hide_init) *)
Theorem C18_roundtrip_default_partial :
  forall fs roots comps p,
    no_dir_named INIT fs = true -> roots_plain fs roots = true -> names_ok comps = true ->
    String.eqb (last comps EmptyString) "__init__" = false ->
    modname_to_modpath fs roots comps true false = Some p ->
    modpath_to_modname fs p true false = Ok comps.
Proof. exact roundtrip_default. Qed.

(* REFUTED without roots_plain: the search root r0 has an __init__.py (the script's own
   directory inside a package, which profmod_extractor puts first).  sib is importable as
   "sib" from r0/sib.py; the helper finds the file but names it "r0.sib".
   Replayed on the implementation: findings/C18-root-inside-package.json. *)
Theorem C18_roundtrip_root_package_refuted :
  exists fs roots comps p,
    wf_node fs = true /\ no_dir_named INIT fs = true /\ names_ok comps = true
    /\ import_name fs roots comps = Found p false
    /\ modname_to_modpath fs roots comps true false = Some p
    /\ modpath_to_modname fs p true false = Ok ("r0" :: comps).
Proof. exact rootpkg_refuted. Qed.

(* Listing a package directory yields exactly the files p below it that have extension .py,
   are not __init__.py, and whose every directory from the package down to their own has
   an __init__.py (listed_paths): the modules of the package and of its sub-packages, and
   nothing from sub-directories that are not packages. *)
Theorem C18_package_listing :
  forall fs pkg,
    wf_node fs = true -> isdir fs pkg = true ->
    forall p, In p (package_modpaths fs pkg) <-> listed_paths fs pkg p = true.
Proof. exact package_listing. Qed.

(* no file twice; a module file lists as itself *)
Theorem C18_package_listing_no_duplicates :
  forall fs pkg,
    wf_node fs = true ->
    NoDup (package_modpaths fs pkg)
    /\ (isfile fs pkg = true -> package_modpaths fs pkg = [pkg]).
Proof. exact package_listing_once. Qed.

(* the hypotheses are satisfiable with non-trivial answers: two roots, nested packages,
   look-alike names foo / foobar / foo_bar, a non-package sub-directory *)
Theorem C18_nonvacuous :
  wf_node demo_fs = true /\ no_dir_named INIT demo_fs = true /\ roots_plain demo_fs demo_roots = true
  /\ names_ok ["foo"; "foo_bar"; "x"] = true
  /\ no_shadow demo_fs demo_roots ["foo"; "foo_bar"; "x"] = true
  /\ import_name demo_fs demo_roots ["foo"; "foo_bar"; "x"] = Found ["r0"; "foo"; "foo_bar"; "x.py"] false
  /\ modname_to_modpath demo_fs demo_roots ["foo"; "foo_bar"; "x"] true false = Some ["r0"; "foo"; "foo_bar"; "x.py"]
  /\ modpath_to_modname demo_fs ["r0"; "foo"; "foo_bar"; "x.py"] true false = Ok ["foo"; "foo_bar"; "x"]
  /\ modname_to_modpath demo_fs demo_roots ["foo"] true false = Some ["r0"; "foo"]
  /\ modname_to_modpath demo_fs demo_roots ["pk"; "m"] true false = Some ["r1"; "pk"; "m.py"]
  /\ modname_to_modpath demo_fs demo_roots ["foo"; "nons"; "y"] true false = None
  /\ isdir demo_fs ["r0"; "foo"] = true
  /\ package_modpaths demo_fs ["r0"; "foo"]
     = [["r0"; "foo"; MAIN]; ["r0"; "foo"; "foobar.py"]; ["r0"; "foo"; "foo_bar"; "x.py"]].
Proof. exact demo. Qed.

(* ---- the listing the -p selection uses, and the names it gives (nested depth) ------------- *)

(* package_modpaths(pkg, with_pkg=True) yields exactly the .py files - the __init__.py of the
   package and of its sub-packages included - whose every directory from the package down
   to their own has an __init__.py (listed_paths_pkg). *)
Theorem C18_listing_with_packages :
  forall fs pkg,
    wf_node fs = true -> no_dir_named INIT fs = true -> isdir fs pkg = true ->
    forall q, In q (package_modpaths_pkg fs pkg) <-> listed_paths_pkg fs pkg q = true.
Proof. exact listing_with_packages. Qed.

(* Every file listed for the package r/comps (comps any depth) is turned back into
   comps ++ (its place inside the package): sub/m.py -> comps.sub.m, sub/__init__.py ->
   comps.sub.  The parents' prefix is never lost.  (r: a root that is not itself a package;
   nice_rel: directory names dot-free, file name <identifier>.py.) *)
Theorem C18_listed_names_keep_prefix :
  forall fs r comps q,
    exists_ fs (r ++ [INIT]) = false -> comps <> [] -> forallb name_ok comps = true ->
    pkgs_down fs r comps = true ->
    listed_paths_pkg fs (r ++ comps) q = true ->
    nice_rel (skipn (length (r ++ comps)) q) = true ->
    modpath_to_modname fs q true false = Ok (comps ++ relname (skipn (length (r ++ comps)) q)).
Proof. exact listed_name. Qed.

(* The model of ProfmodExtractor._get_modnames_to_profile_from_prof_mod for a regular package
   selected by dotted name: the selection is the name itself plus exactly the names
   comps ++ relname(..) of the listed files.  PARTIAL: roots_plain (the script directory and the
   search roots are not package directories; otherwise C18_roundtrip_root_package_refuted
   applies) and regular file names inside the package. *)
Theorem C18_selection_names_partial :
  forall fs sp script (comps : list name) p,
    wf_node fs = true -> no_dir_named INIT fs = true ->
    roots_plain fs (dirname script :: sp) = true -> names_ok comps = true ->
    syspath_lookup fs (dirname script :: sp) comps = Some p -> isdir fs p = true ->
    forallb (fun q => nice_rel (skipn (length p) q)) (package_modpaths_pkg fs p) = true ->
    exists l, modnames_to_profile fs sp script [PName comps] = Ok l
      /\ forall s, In s l <->
           s = join "." comps
           \/ exists q, listed_paths_pkg fs p q = true
                        /\ s = join "." (comps ++ relname (skipn (length p) q)).
Proof. exact selection_names. Qed.

Theorem C18_selection_nonvacuous :
  modnames_to_profile nested_fs [["r0"]] ["r0"; "script.py"] [PName ["pkg"; "sub"]]
  = Ok ["pkg.sub"; "pkg.sub.b"; "pkg.sub.deep"; "pkg.sub.deep.c"]
  /\ modnames_to_profile nested_fs [["r0"]] ["r0"; "script.py"] [PPath ["r0"; "pkg"; "sub"; "deep"]]
     = Ok ["pkg.sub.deep"; "pkg.sub.deep.c"]
  /\ package_modpaths_pkg nested_fs ["r0"; "pkg"; "sub"]
     = [["r0"; "pkg"; "sub"; INIT]; ["r0"; "pkg"; "sub"; "b.py"]; ["r0"; "pkg"; "sub"; "deep"; INIT];
        ["r0"; "pkg"; "sub"; "deep"; "c.py"]]
  /\ forallb (fun q => nice_rel (skipn 3 q)) (package_modpaths_pkg nested_fs ["r0"; "pkg"; "sub"]) = true
  /\ roots_plain nested_fs [["r0"]; ["r0"]] = true.
Proof. exact nested_demo. Qed.

(* ---- histories: file-system operations interleaved with queries ------------------------------ *)

(* The resolver of the model has no state but the directory tree: in any history (creating and
   removing files and directories, replacing the whole tree, asking lookups, path-to-name,
   listings and selections in between) the answer to a question is `ask` on the tree of that
   moment; two histories that end in the same tree get the same answer; asking does not
   change later answers.  The implementation is driven with such histories inside one process
   and compared with `ask` at every moment (harness/props/c18.py, scenarios tagged "history"). *)
Theorem C18_answers_depend_on_current_tree_only :
  (forall fs h q d, last (run fs (h ++ [Ask q])) d = ask (fs_after fs h) q)
  /\ (forall fs1 h1 fs2 h2 q d,
        fs_after fs1 h1 = fs_after fs2 h2 ->
        last (run fs1 (h1 ++ [Ask q])) d = last (run fs2 (h2 ++ [Ask q])) d)
  /\ (forall fs qs q, run fs (map Ask qs ++ [Ask q]) = run fs (map Ask qs) ++ [ask fs q]).
Proof. exact history_answer. Qed.

(* a plain directory below a package becomes a package and stops being one again: the name of
   the file in it, the lookup of that name and the listing of the package follow the tree *)
Theorem C18_history_nonvacuous :
  run hist_fs [Ask (QName hist_helper true false);
               Ask (QLookup [["r0"]] ["pkg"; "tools"; "helper"] true false);
               Do (MkFile hist_init);
               Ask (QName hist_helper true false);
               Ask (QLookup [["r0"]] ["pkg"; "tools"; "helper"] true false);
               Ask (QList ["r0"; "pkg"]);
               Do (Remove hist_init);
               Ask (QName hist_helper true false);
               Ask (QList ["r0"; "pkg"])]
  = [AName (Ok ["helper"]); APath None;
     AName (Ok ["pkg"; "tools"; "helper"]); APath (Some hist_helper); APaths [hist_helper];
     AName (Ok ["helper"]); APaths []].
Proof. exact history_demo. Qed.
