(* C18 - Module names and paths are mapped the way the import system maps them.
   Nothing but the statements; the model is Resolve/ModPath.v (util_static.py read on a
   tree-shaped file system), the specification Resolve/ModPathSpec.v (PathFinder's
   parent-first resolution of source modules and regular packages), proofs in
   Resolve/ModPathLookup.v, ModPathFlags.v, ModPathRound.v, ModPathWalk.v.

   Reading guide: fs is any finite directory tree; roots any list of search roots
   (paths in fs); comps the components of a dotted name (names_ok: non-empty,
   dot-free); no_dir_named INIT fs: no DIRECTORY is called "__init__.py".
   Found p k: the import system loads the module file p (k = false) or the package
   whose directory is p (k = true). *)
From LP Require Import Prelude.Py Resolve.FsModel Resolve.ModPath Resolve.ModPathSpec
     Resolve.ModPathLookup Resolve.ModPathFlags Resolve.ModPathRound Resolve.ModPathWalk.

(* Whenever importing the name loads a regular module or package, the lookup yields that
   very file / package directory (hide_init) or its __init__.py (hide_init=False).
   No hypothesis on shadowing: holds for every tree, every list of roots, every depth. *)
Theorem C18_import_found_is_looked_up :
  forall fs roots comps hide_init p k,
    no_dir_named INIT fs = true -> names_ok comps = true ->
    String.eqb (hd EmptyString comps) "__init__" = false ->
    import_name fs roots comps = Found p k ->
    syspath_lookup fs roots comps = Some p
    /\ modname_to_modpath fs roots comps hide_init false = Some (spec_path hide_init p k).
Proof. exact import_found_modpath. Qed.

(* Full agreement (including "missing names yield nothing") where the first root that has
   the top-level name as a regular package or module also has the whole chain (no_shadow,
   an executable predicate).  PARTIAL: without no_shadow the statement is false of the
   faithful model, see C18_shadow_refuted. *)
Theorem C18_lookup_agrees_partial :
  forall fs roots comps hide_init,
    no_dir_named INIT fs = true -> names_ok comps = true ->
    String.eqb (hd EmptyString comps) "__init__" = false ->
    no_shadow fs roots comps = true ->
    syspath_lookup fs roots comps = found_path (import_name fs roots comps)
    /\ modname_to_modpath fs roots comps hide_init false
       = spec_answer hide_init (import_name fs roots comps).
Proof. exact lookup_agrees_flags. Qed.

(* the same for the flags every caller in /repo uses (hide_init=True, hide_main=False) *)
Theorem C18_lookup_default_flags_partial :
  forall fs roots comps,
    no_dir_named INIT fs = true -> names_ok comps = true ->
    String.eqb (hd EmptyString comps) "__init__" = false ->
    no_shadow fs roots comps = true ->
    modname_to_modpath fs roots comps true false = spec_answer true (import_name fs roots comps).
Proof. exact lookup_default_flags. Qed.

(* REFUTED full statement "lookup = import for all trees": root r1 has package a/ without b,
   root r2 has a/b.py.  Importing a.b fails (a is r1/a, which has no b); the helper answers
   r2/a/b.py.  Replayed on the implementation: findings/C18-shadowed-chain.json. *)
Theorem C18_shadow_refuted :
  exists fs roots comps p,
    wf_node fs = true /\ no_dir_named INIT fs = true /\ names_ok comps = true
    /\ modname_to_modpath fs roots comps true false = Some p
    /\ import_name fs roots comps = NoModule.
Proof. exact shadow_refuted. Qed.

(* a name that no root holds as a complete regular chain is not found *)
Theorem C18_missing_is_none :
  forall fs roots comps,
    no_dir_named INIT fs = true -> names_ok comps = true ->
    forallb (fun r => negb (is_found (import_chain fs [r] comps false))) roots = true ->
    syspath_lookup fs roots comps = None
    /\ forall hi hm, modname_to_modpath fs roots comps hi hm = None.
Proof. exact missing_is_none. Qed.

(* whatever the helper answers exists: a package directory with an __init__.py file, or a
   module file, below one of the roots at the position the name spells, and every package
   on the way down has an __init__.py *)
Theorem C18_lookup_is_real :
  forall fs roots comps p,
    syspath_lookup fs roots comps = Some p ->
    exists r, In r roots /\
      ((p = r ++ comps /\ isfile fs (p ++ [INIT]) = true /\ pkgs_down fs r (removelast comps) = true)
       \/ (p = r ++ with_last_py comps /\ isfile fs p = true /\ pkgs_down fs r (removelast comps) = true)).
Proof. exact lookup_is_real. Qed.

(* Round trip, any flags (the same on both calls): modpath_to_modname (modname_to_modpath n)
   is n up to the documented hiding of __init__/__main__ (expected_name).
   PARTIAL: needs roots_plain (no search root is itself a package directory); without it
   the statement is false, see C18_roundtrip_root_package_refuted. *)
Theorem C18_roundtrip_partial :
  forall fs roots comps hide_init hide_main p,
    no_dir_named INIT fs = true -> roots_plain fs roots = true -> names_ok comps = true ->
    syspath_lookup fs roots comps = Some p ->
    modname_to_modpath fs roots comps hide_init hide_main = Some (normalize fs p hide_init hide_main)
    /\ modpath_to_modname fs (normalize fs p hide_init hide_main) hide_init hide_main
       = Ok (expected_name hide_init hide_main comps (isdir fs p)).
Proof. exact roundtrip_full. Qed.

(* default flags: every name whose last component is not __init__ comes back unchanged
   (a.__init__ comes back as a, by design of hide_init) *)
Theorem C18_roundtrip_default_partial :
  forall fs roots comps p,
    no_dir_named INIT fs = true -> roots_plain fs roots = true -> names_ok comps = true ->
    String.eqb (last comps EmptyString) "__init__" = false ->
    modname_to_modpath fs roots comps true false = Some p ->
    modpath_to_modname fs p true false = Ok comps.
Proof. exact roundtrip_default. Qed.

(* REFUTED without roots_plain: the search root r0 has an __init__.py (the script's own
   directory inside a package, which profmod_extractor puts first).  sib is importable as
   "sib" from r0/sib.py; the helper finds the file but names it "r0.sib".
   Replayed on the implementation: findings/C18-root-inside-package.json. *)
Theorem C18_roundtrip_root_package_refuted :
  exists fs roots comps p,
    wf_node fs = true /\ no_dir_named INIT fs = true /\ names_ok comps = true
    /\ import_name fs roots comps = Found p false
    /\ modname_to_modpath fs roots comps true false = Some p
    /\ modpath_to_modname fs p true false = Ok ("r0" :: comps).
Proof. exact rootpkg_refuted. Qed.

(* Listing a package directory yields exactly the files p below it that have extension .py,
   are not __init__.py, and whose every directory from the package down to their own has
   an __init__.py (listed_paths): the modules of the package and of its sub-packages, and
   nothing from sub-directories that are not packages. *)
Theorem C18_package_listing :
  forall fs pkg,
    wf_node fs = true -> isdir fs pkg = true ->
    forall p, In p (package_modpaths fs pkg) <-> listed_paths fs pkg p = true.
Proof. exact package_listing. Qed.

(* no file twice; a module file lists as itself *)
Theorem C18_package_listing_no_duplicates :
  forall fs pkg,
    wf_node fs = true ->
    NoDup (package_modpaths fs pkg)
    /\ (isfile fs pkg = true -> package_modpaths fs pkg = [pkg]).
Proof. exact package_listing_once. Qed.

(* the hypotheses are satisfiable with non-trivial answers: two roots, nested packages,
   look-alike names foo / foobar / foo_bar, a non-package sub-directory *)
Theorem C18_nonvacuous :
  wf_node demo_fs = true /\ no_dir_named INIT demo_fs = true /\ roots_plain demo_fs demo_roots = true
  /\ names_ok ["foo"; "foo_bar"; "x"] = true
  /\ no_shadow demo_fs demo_roots ["foo"; "foo_bar"; "x"] = true
  /\ import_name demo_fs demo_roots ["foo"; "foo_bar"; "x"] = Found ["r0"; "foo"; "foo_bar"; "x.py"] false
  /\ modname_to_modpath demo_fs demo_roots ["foo"; "foo_bar"; "x"] true false = Some ["r0"; "foo"; "foo_bar"; "x.py"]
  /\ modpath_to_modname demo_fs ["r0"; "foo"; "foo_bar"; "x.py"] true false = Ok ["foo"; "foo_bar"; "x"]
  /\ modname_to_modpath demo_fs demo_roots ["foo"] true false = Some ["r0"; "foo"]
  /\ modname_to_modpath demo_fs demo_roots ["pk"; "m"] true false = Some ["r1"; "pk"; "m.py"]
  /\ modname_to_modpath demo_fs demo_roots ["foo"; "nons"; "y"] true false = None
  /\ isdir demo_fs ["r0"; "foo"] = true
  /\ package_modpaths demo_fs ["r0"; "foo"]
     = [["r0"; "foo"; MAIN]; ["r0"; "foo"; "foobar.py"]; ["r0"; "foo"; "foo_bar"; "x.py"]].
Proof. exact demo. Qed.
