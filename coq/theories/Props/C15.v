(* C15 - kernprof never takes the program's arguments for its own.
   Statements only; proofs in Cli/PreParseProofs.v, Cli/ArgparseProofs.v, Cli/C15Proofs.v.
   kernprof_cmdline = translated pre-parser ; argparse model over the option table read off
   main() ; the glue building sys.argv.   Run ev argv is_module: kernprof runs the program with
   sys.argv = argv and the configuration given by the option events ev. *)
From LP Require Import Prelude.Py Gen.PreParse Cli.PreParseProofs Cli.ArgparseModel Cli.ArgparseProofs
     Gen.KernprofArgs Cli.KernprofCmdline Cli.C15Proofs.

(* -m mode: for ALL argument lists `rest`, the program gets them verbatim and the outcome is a
   function of the options before -m only. *)
Theorem C15_module_mode :
  forall (opts : list string) (m : string) (rest : list string),
    ~ In "-m" opts -> ~ In "--" opts -> m <> "--" ->
    kernprof_cmdline (opts ++ "-m" :: m :: rest) =
    match parse tbl_module false opts with
    | Parsed ev _ r => if has_help ev then CmdExit else Run ev (m :: r ++ rest) true
    | PErr e => CmdErr (perr_code e)
    | PExit _ => CmdExit
    end.
Proof. exact module_mode_cmdline. Qed.

(* script mode: for every prefix for which `kernprof prefix script` is valid and every argument
   list without -m / -- (and, see the refutation below, without an ambiguous abbreviation of two
   kernprof long options), the program gets the list verbatim and the configuration is the prefix's. *)
Theorem C15_script_mode :
  forall (prefix : list string) (script : string) (rest : list string) crest ev,
    ~ In "-m" (prefix ++ script :: rest) -> ~ In "--" (prefix ++ script :: rest) ->
    parse_optional tbl_script script = inl CA ->
    classify_all tbl_script rest = inl crest ->
    parse tbl_script true (prefix ++ [script]) = Parsed ev (Some script) [] ->
    kernprof_cmdline (prefix ++ script :: rest) = Run ev (script :: rest) false.
Proof. exact script_mode. Qed.

(* the documented shield: after `script --` ALL argument lists (with -m, --, anything) pass verbatim *)
Theorem C15_script_shield :
  forall (prefix : list string) (script : string) (rest : list string) ev,
    ~ In "-m" (prefix ++ [script]) -> ~ In "--" (prefix ++ [script]) ->
    parse_optional tbl_script script = inl CA ->
    parse tbl_script true (prefix ++ [script]) = Parsed ev (Some script) [] ->
    kernprof_cmdline (prefix ++ script :: "--" :: rest) = Run ev (script :: rest) false.
Proof. exact script_shield_mode. Qed.

Theorem C15_script_shield_later :
  forall (prefix : list string) (script : string) (r1 r2 : list string) cr1 ev,
    r1 <> [] ->
    ~ In "-m" (prefix ++ script :: r1) -> ~ In "--" (prefix ++ script :: r1) ->
    parse_optional tbl_script script = inl CA ->
    classify_all tbl_script r1 = inl cr1 ->
    parse tbl_script true (prefix ++ [script]) = Parsed ev (Some script) [] ->
    kernprof_cmdline (prefix ++ script :: r1 ++ "--" :: r2) = Run ev (script :: r1 ++ "--" :: r2) false.
Proof. exact script_shield_later_mode. Qed.

Theorem C15_preparse_no_directive :
  forall (fuel : nat) (args : list string) (flag : string),
    ~ In flag args -> ~ In "--" args -> pre_parse (S fuel) args flag "--" = Ok (args, None, []).
Proof. exact no_directive. Qed.

(* the fuel the translation adds to the recursive pre-parser never runs out *)
Theorem C15_fuel_irrelevant :
  forall (fuel : nat) (args : list string) (flag : string),
    pre_parse (S (S fuel)) args flag "--" <> Err OutOfFuel.
Proof. exact fuel_irrelevant. Qed.

(* C15_script_mode without its classification hypothesis is FALSE: a program argument that is an
   ambiguous abbreviation of two kernprof long options aborts kernprof (known finding). *)
Theorem C15_ambiguous_abbreviation_refuted :
  exists prefix script rest ev,
    parse tbl_script true (prefix ++ [script]) = Parsed ev (Some script) []
    /\ ~ In "-m" rest /\ ~ In "--" rest
    /\ kernprof_cmdline (prefix ++ script :: rest) = CmdErr (perr_code EAmbiguous).
Proof. exact ambiguous_abbreviation_refuted. Qed.

Theorem C15_nonvacuous :
  let prefix := ["-lv"; "-o"; "x.lprof"; "--unit=1e-3"] in
  let rest := ["-v"; "--outfile=zzz"; "-h"; "a b"; "-x"] in
  parse tbl_script true (prefix ++ ["s.py"]) =
    Parsed [("line_by_line", []); ("view", []); ("outfile", ["x.lprof"]); ("unit", ["1e-3"])] (Some "s.py") []
  /\ parse_optional tbl_script "s.py" = inl CA
  /\ (exists crest, classify_all tbl_script rest = inl crest)
  /\ kernprof_cmdline (prefix ++ "s.py" :: rest) =
       Run [("line_by_line", []); ("view", []); ("outfile", ["x.lprof"]); ("unit", ["1e-3"])] ("s.py" :: rest) false
  /\ parse tbl_module false ["-l"; "-p"; "foo"] = Parsed [("line_by_line", []); ("prof_mod", ["foo"])] None [].
Proof. exact script_mode_nonvacuous. Qed.
