(* C16 - Decorating any supported callable really profiles its code.
   Nothing but the statements; model in Wrap/CallableBase.v, Wrap/Callable.v, proofs in
   Wrap/CallableProofs.v.  `callable` is the algebra of supported objects (functions of the
   four kinds, wrappers this profiler already made, classmethod / staticmethod / bound
   method / functools.partial / partialmethod / property with any of fget,fset,fdel /
   cached_property, nested to ANY depth).  `wrap_callable` and `get_underlying_functions`
   are REGENERATED FROM /repo (Gen/Dispatch.v).  decorate (regs, c) = profiler(c):
   (regs ++ register c, wrap c).  invoke d a c = the (function, enable depth) pairs that run
   when c is used through access a by a caller at enable depth d. *)
From LP Require Import Prelude.Py Wrap.CallableBase Gen.Dispatch Wrap.Callable Wrap.CallableProofs.

(* Every underlying function reached through the decorated object - whatever the access
   path - runs exactly one enable level above its caller, hence with the profiler enabled
   (depth >= 1 for a caller at depth >= 0) and never under two wrapper layers. *)
Theorem C16_runs_under_profiler :
  forall c d a f e, In (f, e) (invoke d a (wrap c)) -> e = d + 1.
Proof. exact runs_one_level_up. Qed.

(* The decorated object runs the same underlying functions as the original. *)
Theorem C16_same_functions_run :
  forall c d a, map fst (invoke d a (wrap c)) = map fst (invoke d a c).
Proof. exact same_functions_run. Qed.

(* ... and each of them is registered with the profiler exactly once: the registration list
   after decorating has no duplicates and contains every function that can run.  Hypotheses:
   the object's not-yet-profiled functions are pairwise distinct and were not decorated
   before; the wrappers it already contains were made (and registered) by this profiler. *)
Theorem C16_registered_exactly_once :
  forall c regs,
    NoDup regs -> NoDup (fresh_ids c) ->
    (forall f, In f (fresh_ids c) -> ~ In f regs) ->
    (forall f, In f (wrapped_ids c) -> In f regs) ->
    NoDup (fst (decorate (regs, c)))
    /\ forall d a f e, In (f, e) (invoke d a (snd (decorate (regs, c)))) -> In f (fst (decorate (regs, c))).
Proof. exact registered_exactly_once. Qed.

(* Objects decorated one after the other (the originals may be temporaries that die at once):
   what each becomes and runs is independent of the others; registrations accumulate. *)
Theorem C16_sequence_independent :
  forall cs regs, decorate_all regs cs = (regs ++ flat_map register cs, map wrap cs).
Proof. exact decorate_all_independent. Qed.

Theorem C16_each_result_runs_its_own_functions :
  forall cs regs n c d a, nth_error cs n = Some c ->
    exists w, nth_error (snd (decorate_all regs cs)) n = Some w
              /\ map fst (invoke d a w) = map fst (invoke d a c)
              /\ forall f e, In (f, e) (invoke d a w) -> e = d + 1.
Proof. exact each_result_runs_its_own_functions. Qed.

(* Decorating the returned object again adds no wrapper layer and registers nothing. *)
Theorem C16_idempotent :
  forall regs c, decorate (decorate (regs, c)) = decorate (regs, c).
Proof. exact decorate_idempotent. Qed.

Theorem C16_no_second_layer :
  forall c, wrap (wrap c) = wrap c /\ register (wrap c) = []
            /\ forall d a, invoke d a (wrap (wrap c)) = invoke d a (wrap c).
Proof. exact no_second_layer. Qed.

(* The translated _get_underlying_functions finds exactly the leaves the model registers,
   for every term (enough fuel: the nesting depth), and never raises on a supported object. *)
Theorem C16_underlying_functions :
  forall c fuel, (height c <= fuel)%nat -> get_underlying_functions fuel c = Ok (leaves c).
Proof. exact underlying_ok. Qed.

(* The translated dispatch chain sends every constructor to the wrap_* method `wrap` models,
   and those methods rebuild exactly the attributes `wrap` recurses into. *)
Theorem C16_dispatch :
  forall c, wrap_callable c = Ok (expected_wkind c).
Proof. exact dispatch_table. Qed.

Theorem C16_rebuilt_attributes :
  wrapper_impl_attrs WClassmethod = ["__func__"] /\ wrapper_impl_attrs WStaticmethod = ["__func__"]
  /\ wrapper_impl_attrs WBoundmethod = ["__func__"] /\ wrapper_impl_attrs WPartialmethod = ["func"]
  /\ wrapper_impl_attrs WPartial = ["func"] /\ wrapper_impl_attrs WProperty = ["fget"; "fset"; "fdel"]
  /\ wrapper_impl_attrs WCachedProperty = ["func"]
  /\ leaf_wrappers_guarded = true /\ add_callable_skips_marked = true.
Proof. exact impl_attrs_table. Qed.

(* Outside the NoDup hypothesis: one function object used as getter and setter of one property
   is handed to add_function twice by a single decoration (the marker is on the wrapper). *)
Theorem C16_shared_function_registered_twice :
  register (PropOf (Some (Fn KPlain 1)) (Some (Fn KPlain 1)) None) = [1; 1].
Proof. exact shared_function_registered_twice. Qed.

Theorem C16_nonvacuous :
  decorate ([3], ex_prop) = ([3; 4], PropOf (Some (Partial (Wrapped KPlain 3))) (Some (Wrapped KCoro 4)) None)
  /\ invoke 0 ASet (snd (decorate ([3], ex_prop))) = [(4, 1)]
  /\ invoke 0 AGet (snd (decorate ([3], ex_prop))) = [(3, 1)]
  /\ invoke 0 ASet ex_prop = [(4, 0)]
  /\ NoDup [3] /\ NoDup (fresh_ids ex_prop)
  /\ (forall f, In f (fresh_ids ex_prop) -> ~ In f [3]) /\ (forall f, In f (wrapped_ids ex_prop) -> In f [3])
  /\ invoke 0 ACall (wrap ex_callable) = [(7, 1)]
  /\ get_underlying_functions 6 ex_callable = Ok [Fn KGen 7].
Proof. exact c16_nonvacuous. Qed.
