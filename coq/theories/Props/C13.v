(* C13 - Counts stay exact under concurrent threads and interleaved tasks.  Statements only. *)
From Coq Require Import List ZArith Bool.
From LP Require Import Trace.GenRun Trace.ZMap Trace.Concrete Trace.Abstract Trace.AbstractFacts Trace.Main Trace.Threads Trace.ThreadsMain Trace.ThreadLocal.
Import ListNotations.
Open Scope Z_scope.

(* the global number of executed (accepted) line events is the sum of what each thread executed,
   each summand computed from that thread's own operations only *)
Theorem C13_sum_of_threads :
  forall codes tick threads c l, NoDup threads ->
  forall ops st, threads_cover threads ops -> forallb (fun o => negb (is_G o)) ops = true ->
    count_lines codes tick st ops c l
    = tsum (fun t => count_thread codes (areg st) t (inb t (aen st)) ops c l) threads.
Proof. exact count_is_sum_of_threads. Qed.

(* hence any two interleavings of the same per-thread sequences execute - and, by C01_hits_exact,
   report - the same counts, whatever the schedule *)
Theorem C13_interleave_invariant :
  forall codes tick threads c l body body' st,
    NoDup threads -> threads_cover threads body -> threads_cover threads body' ->
    forallb (fun o => negb (is_G o)) body = true -> forallb (fun o => negb (is_G o)) body' = true ->
    same_projections body body' ->
    count_lines codes tick st body c l = count_lines codes tick st body' c l.
Proof. exact interleave_invariant. Qed.

(* a thread that never enabled the profiler contributes nothing *)
Theorem C13_unenabled_thread_silent :
  forall codes regs t ops c l,
    (forall o, In o ops -> o <> E t) -> count_thread codes regs t false ops c l = 0.
Proof. exact unenabled_thread_silent. Qed.

(* the link to what is reported, for every history (tasks on one thread are just histories whose
   activation segments interleave: suspension is a return event) *)
Theorem C13_hits_exact :
  forall codes tick ops c l,
    no_collision codes ops = true ->
    reported_hits (run codes tick 0 ops) c l
    = executed codes tick ops c l - in_flight codes tick ops c l - dropped codes tick ops c l.
Proof. exact hits_exact. Qed.

(* THE PROPERTY: registrations first, then the threads' / tasks' work; for any two interleavings of the same
   per-thread operation sequences that leave nothing in flight and drop nothing, the profiler REPORTS the
   same hit count for every line - whatever the schedule *)
Theorem C13_reported_interleave_invariant :
  forall codes tick regs body body' c l,
    forallb (fun o => negb (is_G o)) body = true -> forallb (fun o => negb (is_G o)) body' = true ->
    same_projections body body' ->
    no_collision codes (regs ++ body) = true -> no_collision codes (regs ++ body') = true ->
    in_flight codes tick (regs ++ body) c l = 0 -> dropped codes tick (regs ++ body) c l = 0 ->
    in_flight codes tick (regs ++ body') c l = 0 -> dropped codes tick (regs ++ body') c l = 0 ->
    reported_hits (run codes tick 0 (regs ++ body)) c l = reported_hits (run codes tick 0 (regs ++ body')) c l.
Proof. exact reported_interleave_invariant. Qed.

Theorem C13_nonvacuous :
  reported_hits (run thr_codes 0 0 (thr_regs ++ thr_body1)) 0 2 = 2
  /\ reported_hits (run thr_codes 0 0 (thr_regs ++ thr_body2)) 0 2 = 2
  /\ no_collision thr_codes (thr_regs ++ thr_body1) = true
  /\ in_flight thr_codes 0 (thr_regs ++ thr_body1) 0 2 = 0.
Proof. exact threads_example_short. Qed.

(* The tie to the source: the machine regenerated from line_profiler/_line_profiler.pyx on this run (Gen/TraceCore.v:
   the trace callback translated statement by statement, compute_line_hash, enable/disable, the registration loop and
   get_stats read off the source) computes exactly `run`, the model the theorems above are about. *)
Theorem C13_model_is_generated_core :
  forall codes tick start ops, gen_run codes tick start ops = run codes tick start ops.
Proof. exact gen_run_eq. Qed.

(* THREAD LOCALITY of the tracer's pending-line tables (hash-bucket machine = the core regenerated from the source):
   whatever thread t does - a line or return event, enable(), disable() - leaves every other thread's table of
   pending line starts exactly as it was *)
Theorem C13_operations_are_thread_local :
  forall codes tick st o t u,
    op_thread o = Some t -> u <> t -> get (last (step codes tick st o)) u = get (last st) u.
Proof. exact step_last_other. Qed.

(* ... so a thread that performs nothing during a history finds its pending lines as it left them *)
Theorem C13_idle_thread_untouched :
  forall codes tick u ops st,
    (forall o, In o ops -> op_thread o <> Some u) -> (forall o cb ca, In o ops -> o <> G cb ca) ->
    get (last (fold_left (step codes tick) ops st)) u = get (last st) u.
Proof. exact run_last_untouched. Qed.

(* disable() in thread t records nothing, costs no clock read and forgets exactly the caller's pending lines *)
Theorem C13_disable_effect :
  forall codes tick st t,
    cmap (step codes tick st (D t)) = cmap st
    /\ getd [] (last (step codes tick st (D t))) t = []
    /\ now (step codes tick st (D t)) = now st.
Proof. exact disable_effect. Qed.
