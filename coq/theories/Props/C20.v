(* C20 - %lprun profiles exactly the named functions for exactly one statement.
   Nothing but statements; proofs are in Report/LprunProofs.v.

   Reading: an invocation is (args, stmt): `args` is the option string after
   IPython's parser and after evaluating -f/-m/-u (environment: a failed
   evaluation is None / UBad); `stmt` is the effect of the statement: the calls it
   makes, how it ends (Return | SysExit | KbdInt | ExcOther), the names it binds
   itself.  `render` is show_text (Channels / C10), `rstrip` str.rstrip, `dump`
   pickle.dump, `get_stats` the snapshot of a profiler object.  `lprun_gen fixed`
   is the magic; `lprun` = the current tree (`fixed` = true since /repo 350dbfa, see
   Lprun.tree_deletes_inserted_profile). *)
From Coq Require Import QArith.
From LP Require Import Prelude.Py Report.Channels Report.Lprun Report.LprunProofs.

Section C20.
  Variable text : Type.
  Variable render : snapshot -> opts -> text.
  Variable rstrip : text -> text.
  Variable bytes : Type.
  Variable dump : snapshot -> bytes.
  Variable get_stats : profiler -> snapshot.
  Notation session := (session text bytes).
  Notation lprun_gen := (lprun_gen text render rstrip bytes dump get_stats).
  Notation lprun := (lprun text render rstrip bytes dump get_stats).
  Notation run_seq := (run_seq text render rstrip bytes dump get_stats).
  Notation output_of := (output_of text render rstrip get_stats).

  (* The profiler is created with exactly the functions named by -f plus those of the
     modules named by -m; it is enabled only around the statement (count back to 0
     whatever the outcome); a function's recorded calls are exactly the calls the
     statement made to it if it is named and none otherwise; nothing that runs after
     the magic is recorded. *)
  Theorem C20_only_named :
    forall fixed a st (s : session),
      reaches a = true ->
      exists p, r_prof (snd (lprun_gen fixed a st s)) = Some p
        /\ p_funcs p = named a
        /\ p_count p = 0
        /\ (forall f, calls_of p f =
                      if existsb (Z.eqb f) (named a)
                      then rev (map snd (filter (fun c => fst c =? f) (s_calls st))) else [])
        /\ (forall cs, exec_calls p cs = p).
  Proof. exact (only_named text render rstrip bytes dump get_stats). Qed.

  (* Pager text, -T file and what -r's profiler prints render the same snapshot with
     the -s / -u options (the pager and the file get the rstripped text); the -D file
     is the pickle of that snapshot; the snapshot no longer moves. *)
  Theorem C20_outputs_agree :
    forall fixed a st (s : session),
      reaches a = true -> s_outcome st <> ExcOther ->
      let s' := fst (lprun_gen fixed a st s) in
      let r := snd (lprun_gen fixed a st s) in
      exists p, r_prof r = Some p /\ r_kind r = KDone /\ r_ret r = a_r a
        /\ pager s' = rstrip (render (get_stats p) (opts_of (ChLprun (unit_of (a_u a)) (a_s a)))) :: pager s
        /\ (forall f, a_T a = Some f ->
              Channels.lookup text bytes f (files s')
              = Some (Txt (rstrip (render (get_stats p) (opts_of (ChLprun (unit_of (a_u a)) (a_s a)))))))
        /\ (forall f, a_D a = Some f -> a_T a <> Some f ->
              Channels.lookup text bytes f (files s') = Some (Pkl (dump (get_stats p))))
        /\ (forall cs, get_stats (exec_calls p cs) = get_stats p).
  Proof. exact (outputs_agree text render rstrip bytes dump get_stats). Qed.

  (* SystemExit / KeyboardInterrupt in the statement: same outputs, plus the message. *)
  Theorem C20_output_on_exit_or_interrupt :
    forall fixed a st (s : session),
      reaches a = true -> s_outcome st = SysExit \/ s_outcome st = KbdInt ->
      let s' := fst (lprun_gen fixed a st s) in
      let r := snd (lprun_gen fixed a st s) in
      exists p, r_prof r = Some p /\ r_kind r = KDone /\ r_ret r = a_r a
        /\ pager s' = output_of a p :: pager s
        /\ In (0, if match s_outcome st with SysExit => true | _ => false end then 1 else 2) (msgs s')
        /\ (forall f, a_T a = Some f ->
              Channels.lookup text bytes f (files s') = Some (Txt (output_of a p)))
        /\ (forall f, a_D a = Some f -> a_T a <> Some f ->
              Channels.lookup text bytes f (files s') = Some (Pkl (dump (get_stats p)))).
  Proof. exact (output_on_exit_or_interrupt text render rstrip bytes dump get_stats). Qed.

  (* Any other exception propagates: no page, no file, no message; the profiler is
     disabled; builtins are restored exactly when a `profile` existed before. *)
  Theorem C20_other_exception :
    forall fixed a st (s : session),
      reaches a = true -> s_outcome st = ExcOther ->
      let s' := fst (lprun_gen fixed a st s) in
      let r := snd (lprun_gen fixed a st s) in
      r_kind r = KPropagated /\ r_ret r = false
      /\ pager s' = pager s /\ files s' = files s /\ msgs s' = msgs s
      /\ b_profile s' = restore_builtins fixed (b_profile s) (Some (next_id s))
      /\ exists p, r_prof r = Some p /\ p_count p = 0.
  Proof. exact (other_exception text render rstrip bytes dump get_stats). Qed.

  (* UsageError (-f / -m) and TypeError (-u) happen before anything is touched. *)
  Theorem C20_errors_touch_nothing :
    forall fixed a st (s : session),
      reaches a = false ->
      let s' := fst (lprun_gen fixed a st s) in
      let r := snd (lprun_gen fixed a st s) in
      (r_kind r = KUsage \/ r_kind r = KType) /\ r_prof r = None /\ r_ret r = false
      /\ b_profile s' = b_profile s /\ pager s' = pager s /\ files s' = files s
      /\ msgs s' = msgs s /\ ns s' = ns s /\ next_id s' = next_id s + 1.
  Proof. exact (errors_touch_nothing text render rstrip bytes dump get_stats). Qed.

  (* The user's namespace gets the statement's own bindings and nothing from the magic. *)
  Theorem C20_namespace_as_found :
    forall fixed a st (s : session),
      ns (fst (lprun_gen fixed a st s)) = (if reaches a then s_binds st else []) ++ ns s.
  Proof. exact (namespace_as_found text render rstrip bytes dump get_stats). Qed.

  (* builtins as found: over ANY sequence of invocations (whatever their options,
     statements and outcomes, UsageError / TypeError / propagated exceptions included)
     builtins.__dict__.get("profile") is afterwards what it was before - absent if it
     was absent, the same object if there was one.  (Current tree, since 350dbfa.) *)
  Theorem C20_builtins_restored :
    forall xs (s : session),
      b_profile (fst (run_seq tree_deletes_inserted_profile xs s)) = b_profile s.
  Proof. exact (builtins_restored text render rstrip bytes dump get_stats). Qed.

  (* the half that never depended on the repair *)
  Theorem C20_builtins_restored_when_had :
    forall fixed xs (s : session) x,
      b_profile s = Some x -> b_profile (fst (run_seq fixed xs s)) = Some x.
  Proof. exact (builtins_restored_when_had text render rstrip bytes dump get_stats). Qed.
End C20.

(* A concrete session: `%lprun -r -f f f(3)` (the statement also calls an unnamed g)
   without a prior builtin `profile` ends without one; the same run on the machine
   without the else-branch (the tree before 350dbfa) leaves the magic's profiler there,
   i.e. the repair is necessary - this is what the check reports if it is reverted. *)
Theorem C20_builtins_witness :
  b_profile w_sess = None
  /\ reaches w_args = true
  /\ r_kind (snd w_run) = KDone
  /\ b_profile (fst w_run) = None
  /\ b_profile (fst w_run_unrepaired) = Some 100.
Proof. exact builtins_witness. Qed.

Theorem C20_nonvacuous :
  reaches e_args = true
  /\ named e_args = [7; 9; 20; 21]
  /\ r_kind (snd e_run) = KDone /\ r_ret (snd e_run) = true
  /\ option_map (fun p => (p_funcs p, p_count p, calls_of p 7, calls_of p 8, calls_of p 20)) (r_prof (snd e_run))
     = Some ([7; 9; 20; 21], 0, [1; 3], [], [0])
  /\ b_profile (fst e_run) = Some 1
  /\ length (pager (fst e_run)) = 1%nat /\ length (files (fst e_run)) = 2%nat
  /\ msgs (fst e_run) = [(2, 1); (1, 1); (0, 1)]
  /\ ns (fst e_run) = [5; 6].
Proof. exact lprun_nonvacuous. Qed.
