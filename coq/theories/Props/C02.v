(* C02 - Line time accounting is exact, inclusive of callees, and conserved.  Statements only. *)
From Coq Require Import List ZArith QArith Bool.
From LP Require Import Trace.GenRun Trace.ZMap Trace.Concrete Trace.ConcreteFacts Trace.Abstract Trace.Main Trace.Spec
     Trace.Witness Trace.TimeFacts Trace.TimeExact Trace.TimeMain.
Import ListNotations.
Open Scope Z_scope.

(* times are never negative and never decrease, for every history with a monotone clock *)
Theorem C02_nonneg :
  forall codes tick ops,
    clock_monotone tick ops ->
    forall key l, 0 <= btime (cmap (run codes tick 0 ops)) key l.
Proof. exact run_times_nonneg. Qed.

(* reported time is the abstract per-(code, line) accumulator: the sum, over closings of a pending
   line, of (clock at the closing event's first read) - (clock at the line event's second read) *)
Theorem C02_time_is_abstract :
  forall codes tick ops c l,
    no_collision codes ops = true ->
    reported_time (run codes tick 0 ops) c l = atm (a_run codes tick 0 ops) c l.
Proof. exact reported_time_is_abstract. Qed.

(* EXACTNESS.  g_run is the per-activation reference of the property text: one pending slot per
   activation segment (frame f, segment s); each accepted line event closes the pending line of ITS OWN
   segment with (clock at this event) - (clock when that line started) and opens a new one; a return event
   (return, yield, await-suspension, unwind) closes without opening, so callee time is included and
   suspended time excluded.  nonreentrant_hist: no thread ever has two activations of one code object with
   a line in flight (executable; false for recursion - see C02_recursion_refuted). *)
Theorem C02_time_exact :
  forall codes tick ops c l,
    no_collision codes ops = true -> nonreentrant_hist codes tick ops = true ->
    reported_time (run codes tick 0 ops) c l = g_time (g_run codes tick 0 ops) c l.
Proof. exact time_exact. Qed.

(* non-vacuity: two interleaved instances of one generator (suspended for 1000 ticks in between) *)
Theorem C02_time_exact_nonvacuous :
  no_collision gen_codes gen_ops = true /\ nonreentrant_hist gen_codes 0 gen_ops = true
  /\ reported_time (run gen_codes 0 0 gen_ops) 0 2 = 12
  /\ reported_time (run gen_codes 0 0 gen_ops) 0 3 = 24
  /\ g_time (g_run gen_codes 0 0 gen_ops) 0 2 = 12
  /\ nonreentrant_hist rec_codes 0 rec_ops = false.
Proof. exact gen_time_exact. Qed.

(* time multiplied by the unit is seconds: hpTimer = sec*10^9 + nsec, unit = 10^-9 *)
Theorem C02_unit :
  forall sec nsec : Z,
    (inject_Z (sec * 1000000000 + nsec) * (1 # 1000000000) == inject_Z sec + inject_Z nsec * (1 # 1000000000))%Q.
Proof. exact timer_unit. Qed.

(* conservation, one thread: the total charged to the lines of a code object (charged = the sum of
   all increments of its time accumulators) never exceeds the clock time elapsed since the start.
   _partial: stated for the abstract accumulators (tied to the report by C02_time_is_abstract) and
   against elapsed time, not against the narrower enabled time. *)
Theorem C02_conserved_partial :
  forall codes tick t0 ops c,
    clock_monotone tick ops -> single_thread t0 ops ->
    charged codes tick ops c <= anow (a_run codes tick 0 ops) - 0.
Proof. exact charged_le_elapsed. Qed.

(* REFUTED (inclusiveness under recursion): the recursive call line should be charged the callee's
   100 ticks (specification: per activation), the profiler charges it 0 because the callee's first
   line closes the shared pending slot *)
Theorem C02_recursion_refuted :
  rev (s_snaps (s_run rec_codes 0 0 rec_ops)) = [[(0, [(2, 2, 100); (3, 1, 100); (4, 2, 0)])]]
  /\ rev (snaps (run rec_codes 0 0 rec_ops)) = [[(0, [(2, 2, 100); (3, 1, 0); (4, 2, 0)])]].
Proof. exact rec_time. Qed.

(* The tie to the source: the machine regenerated from line_profiler/_line_profiler.pyx on this run (Gen/TraceCore.v:
   the trace callback translated statement by statement, compute_line_hash, enable/disable, the registration loop and
   get_stats read off the source) computes exactly `run`, the model the theorems above are about. *)
Theorem C02_model_is_generated_core :
  forall codes tick start ops, gen_run codes tick start ops = run codes tick start ops.
Proof. exact gen_run_eq. Qed.
