(* C02 - Line time accounting is exact, inclusive of callees, and conserved.  Statements only. *)
From Coq Require Import List ZArith QArith Bool.
From LP Require Import Trace.GenRun Trace.ZMap Trace.Concrete Trace.ConcreteFacts Trace.Abstract Trace.Main Trace.Spec
     Trace.Witness Trace.TimeFacts Trace.TimeExact Trace.TimeMain Trace.Conserved.
Import ListNotations.
Open Scope Z_scope.

(* times are never negative and never decrease, for every history with a monotone clock *)
Theorem C02_nonneg :
  forall codes tick ops,
    clock_monotone tick ops ->
    forall key l, 0 <= btime (cmap (run codes tick 0 ops)) key l.
Proof. exact run_times_nonneg. Qed.

(* reported time is the abstract per-(code, line) accumulator: the sum, over closings of a pending
   line, of (clock at the closing event's first read) - (clock at the line event's second read) *)
Theorem C02_time_is_abstract :
  forall codes tick ops c l,
    no_collision codes ops = true ->
    reported_time (run codes tick 0 ops) c l = atm (a_run codes tick 0 ops) c l.
Proof. exact reported_time_is_abstract. Qed.

(* EXACTNESS.  g_run is the per-activation reference of the property text: one pending slot per
   activation segment (frame f, segment s); each accepted line event closes the pending line of ITS OWN
   segment with (clock at this event) - (clock when that line started) and opens a new one; a return event
   (return, yield, await-suspension, unwind) closes without opening, so callee time is included and
   suspended time excluded.  nonreentrant_hist: no thread ever has two activations of one code object with
   a line in flight (executable; false for recursion - see C02_recursion_refuted). *)
Theorem C02_time_exact :
  forall codes tick ops c l,
    no_collision codes ops = true -> nonreentrant_hist codes tick ops = true ->
    reported_time (run codes tick 0 ops) c l = g_time (g_run codes tick 0 ops) c l.
Proof. exact time_exact. Qed.

(* non-vacuity: two interleaved instances of one generator (suspended for 1000 ticks in between) *)
Theorem C02_time_exact_nonvacuous :
  no_collision gen_codes gen_ops = true /\ nonreentrant_hist gen_codes 0 gen_ops = true
  /\ reported_time (run gen_codes 0 0 gen_ops) 0 2 = 12
  /\ reported_time (run gen_codes 0 0 gen_ops) 0 3 = 24
  /\ g_time (g_run gen_codes 0 0 gen_ops) 0 2 = 12
  /\ nonreentrant_hist rec_codes 0 rec_ops = false.
Proof. exact gen_time_exact. Qed.

(* time multiplied by the unit is seconds: hpTimer = sec*10^9 + nsec, unit = 10^-9 *)
Theorem C02_unit :
  forall sec nsec : Z,
    (inject_Z (sec * 1000000000 + nsec) * (1 # 1000000000) == inject_Z sec + inject_Z nsec * (1 # 1000000000))%Q.
Proof. exact timer_unit. Qed.

(* CONSERVATION, one thread, full clause: the times reported for the lines of a code object sum to at most
   enabled_time = the clock time that passed while that thread had the profiler switched on (Trace/Conserved.v:
   the sum over the steps of the history of the clock advance of the step, counted when the thread is enabled at
   the step's start).  Holds for every history (recursion, generators, self-disabling code included): a pending
   line exists only while the thread is enabled because disable() clears the thread's pending table, and there is
   one pending slot per (thread, code).  The shards evaluate the same inequality on the implementation's
   snapshots (Shard.conserved_ok). *)
Theorem C02_conserved :
  forall codes tick t0 ops c,
    no_collision codes ops = true -> clock_monotone tick ops -> single_thread t0 ops ->
    reported_total codes tick ops c <= enabled_time codes tick t0 ops.
Proof. exact reported_times_sum_le_enabled. Qed.

Theorem C02_conserved_nonvacuous :
  no_collision leaky_codes nv_ops = true /\ single_threadb 0 nv_ops = true
  /\ reported_total leaky_codes 1 nv_ops 0 = 10 /\ enabled_time leaky_codes 1 0 nv_ops = 22
  /\ anow (a_run leaky_codes 1 0 nv_ops) = 1022.
Proof. exact conserved_nonvacuous. Qed.

(* ... and enabled time is part of the elapsed time (the earlier, weaker bound follows) *)
Theorem C02_enabled_within_elapsed :
  forall codes tick t0 ops,
    clock_monotone tick ops -> 0 <= enabled_time codes tick t0 ops <= anow (a_run codes tick 0 ops) - 0.
Proof. exact enabled_le_elapsed. Qed.

(* necessity of the clearing in disable(): the same tracer without it charges line 1 for the 1000 ticks the
   profiler was off (1005 against 5 ticks of enabled time); the model charges the dropped line nothing *)
Theorem C02_disable_must_clear_pending :
  atm (fold_left (a_step_leaky leaky_codes 0) leaky_ops (a_init 0)) 0 1 = 1005
  /\ enabled_time leaky_codes 0 0 leaky_ops = 5
  /\ atm (a_run leaky_codes 0 0 leaky_ops) 0 1 = 0.
Proof. exact leaky_not_conserved. Qed.

(* REFUTED (inclusiveness under recursion): the recursive call line should be charged the callee's
   100 ticks (specification: per activation), the profiler charges it 0 because the callee's first
   line closes the shared pending slot *)
Theorem C02_recursion_refuted :
  rev (s_snaps (s_run rec_codes 0 0 rec_ops)) = [[(0, [(2, 2, 100); (3, 1, 100); (4, 2, 0)])]]
  /\ rev (snaps (run rec_codes 0 0 rec_ops)) = [[(0, [(2, 2, 100); (3, 1, 0); (4, 2, 0)])]].
Proof. exact rec_time. Qed.

(* The tie to the source: the machine regenerated from line_profiler/_line_profiler.pyx on this run (Gen/TraceCore.v:
   the trace callback translated statement by statement, compute_line_hash, enable/disable, the registration loop and
   get_stats read off the source) computes exactly `run`, the model the theorems above are about. *)
Theorem C02_model_is_generated_core :
  forall codes tick start ops, gen_run codes tick start ops = run codes tick start ops.
Proof. exact gen_run_eq. Qed.
