(* C05 - Enable/disable counting is balanced and decides whether tracing is on.
   Nothing but the statements; definitions in Wrap/Count.v, Wrap/CountInterp.v, proofs in
   Wrap/CountProofs.v, Wrap/CountInterpProofs.v.  `run k h w` executes the methods
   REGENERATED FROM /repo (Gen/ByCount.v: LineProfiler.enable_by_count / disable_by_count /
   enable / disable / __enter__ / __exit__ / _sys_monitoring_(de)register and
   ContextualProfile.enable_by_count / disable_by_count) on a thread-indexed world;
   a history `h` is any finite list of (thread, En | Dis).

   inv k w  :=  every count >= 0
             /\ tool registered  <->  count of the main thread's cell > 0
             /\ (LineProfiler) for every thread: trace slot holds the profiler <-> its count > 0 *)
From LP Require Import Prelude.Py Wrap.CountBase Gen.ByCount Wrap.Count Wrap.CountProofs
  Wrap.CountInterp Wrap.CountInterpProofs.

(* Every history runs without an exception (the tool id is never requested twice), keeps all
   counts non-negative and keeps "tracing installed in a thread exactly while its count is
   positive; tool registered exactly while the main thread's count is positive". *)
Theorem C05_invariant :
  forall k h w, inv k w -> exists w', run k h w = Ok w' /\ inv k w'.
Proof. exact run_inv. Qed.

Theorem C05_invariant_initially : forall k, inv k w0.
Proof. exact inv_w0. Qed.

(* LineProfiler: after any multi-thread history the count of every thread is the clamped
   fold (entries minus exits, surplus exits ignored) over that thread's OWN operations. *)
Theorem C05_count_fold :
  forall h w, inv LP w ->
    exists w', run LP h w = Ok w' /\ forall t, w_count w' t = ref_count (own t h) (w_count w t).
Proof. exact count_fold_lp. Qed.

(* ContextualProfile: the same fold, but over the operations of ALL threads together. *)
Theorem C05_count_fold_contextual :
  forall h w, inv CP w ->
    exists w', run CP h w = Ok w' /\
      forall t, w_count w' (key CP t) = ref_count (map snd h) (w_count w (key CP t)).
Proof. exact count_fold_cp. Qed.

(* Without surplus exits the fold is literally (#entries - #exits). *)
Theorem C05_entries_minus_exits :
  forall ps c, 0 <= c -> no_surplus ps c = true -> ref_count ps c = c + n_en ps - n_dis ps.
Proof. exact ref_count_exact. Qed.

Theorem C05_nonneg : forall ps c, 0 <= c -> 0 <= ref_count ps c.
Proof. exact ref_count_nonneg. Qed.

(* When the count returns to zero the trace slot and the tool registration are released;
   while it is positive they are held. *)
Theorem C05_released_at_zero :
  forall k h w w' t, inv k w -> run k h w = Ok w' -> w_count w' (key k t) = 0 ->
    (k = LP -> w_trace w' t = false) /\ ((t = main_thread \/ k = CP) -> w_tool w' = false).
Proof. exact released_at_zero. Qed.

Theorem C05_tracing_while_positive :
  forall k h w w' t, inv k w -> run k h w = Ok w' -> 0 < w_count w' (key k t) ->
    (k = LP -> w_trace w' t = true) /\ ((t = main_thread \/ k = CP) -> w_tool w' = true).
Proof. exact held_while_positive. Qed.

(* Every call of a decorated callable (wrap_function; one resume of wrap_generator, including the
   turn that forwards close()/throw() into the wrapped generator; a with-block; wrap_coroutine run to its end) = Block body, whose body uses the profiler only
   through further decorated calls / with-blocks, nested to any depth, returning or raising
   anywhere, caught or not: it leaves count, trace slot and tool as it found them - whatever
   other threads do in between. *)
Theorem C05_call_restores :
  forall o h w w' t,
    inv LP w -> disciplined o = true -> own t h = fst (exec (Block o)) -> run LP h w = Ok w' ->
    w_count w' t = w_count w t /\ w_trace w' t = w_trace w t /\ (t = main_thread -> w_tool w' = w_tool w).
Proof. exact call_restores_lp. Qed.

(* More generally any stretch in which the thread's entries and exits match up (interleaved
   suspended coroutines / async-generator steps that are eventually finished or closed). *)
Theorem C05_matched_restores :
  forall h w w' t,
    inv LP w -> run LP h w = Ok w' -> matched (own t h) = true ->
    w_count w' t = w_count w t /\ w_trace w' t = w_trace w t /\ (t = main_thread -> w_tool w' = w_tool w).
Proof. exact matched_restores_lp. Qed.

Theorem C05_matched_restores_contextual :
  forall h w w', inv CP w -> run CP h w = Ok w' -> matched (map snd h) = true ->
    w_count w' 0 = w_count w 0 /\ w_tool w' = w_tool w.
Proof. exact matched_restores_cp. Qed.

(* Every operation on a wrapped generator (resume, close(), throw(), dropping it - in any state
   of the object) is such a matched stretch: the turn that forwards close()/throw() into the
   wrapped generator runs between one enable/disable pair; likewise begin+end of a suspended
   coroutine / async-generator step. *)
Theorem C05_generator_ops_matched :
  forall t o st, is_gen_op o = true -> matched (map snd (prims_of (fst (obj_expand t o st)))) = true.
Proof. exact generator_ops_matched. Qed.

Theorem C05_suspended_steps_matched :
  forall t,
  matched (map snd (prims_of (fst (obj_expand t CoStart SEmpty) ++ fst (obj_expand t CoClose SCo)))) = true
  /\ matched (map snd (prims_of (fst (obj_expand t CoStart SEmpty) ++ fst (obj_expand t CoResume SCo)))) = true
  /\ matched (map snd (prims_of (fst (obj_expand t AgStart SEmpty) ++ fst (obj_expand t AgClose SAgMid)))) = true
  /\ matched (map snd (prims_of (fst (obj_expand t AgStart SEmpty) ++ fst (obj_expand t AgResume SAgMid)))) = true
  /\ matched (map snd (prims_of (fst (obj_expand t AgClose SAgYield)))) = true
  /\ matched (map snd (prims_of (fst (obj_expand t AgResume SAgYield)))) = true.
Proof. exact suspended_steps_matched. Qed.

(* Inside a decorated call the count is positive. *)
Theorem C05_inside_call_positive :
  forall ps c e, 0 <= c -> depth ps 0 = Some e -> 0 < ref_count (En :: ps) c.
Proof. exact inside_call_positive. Qed.

(* Threads (LineProfiler): what a thread observes is a function of its own operations, and
   adjacent operations of different threads commute. *)
Theorem C05_threads :
  forall h w w' t, inv LP w -> run LP h w = Ok w' ->
    w_count w' t = ref_count (own t h) (w_count w t)
    /\ w_trace w' t = (0 <? ref_count (own t h) (w_count w t))
    /\ w_tool w' = (0 <? ref_count (own main_thread h) (w_count w main_thread)).
Proof. exact thread_independent_lp. Qed.

Theorem C05_threads_commute :
  forall h1 h2 t1 p1 t2 p2 w, inv LP w -> t1 <> t2 ->
    exists a b, run LP (h1 ++ (t1, p1) :: (t2, p2) :: h2) w = Ok a
             /\ run LP (h1 ++ (t2, p2) :: (t1, p1) :: h2) w = Ok b /\ weq a b.
Proof. exact threads_commute_lp. Qed.

(* The observations of the translated LineProfiler on ANY event list (by-count operations
   and observation points of any threads) are those of the literal per-thread reading. *)
Theorem C05_lineprofiler_meets_spec :
  forall n evs w f, inv LP w -> (forall x, w_count w x = f x) ->
    play (model LP) n evs w = play (spec LP n) n evs f.
Proof. exact lp_meets_spec. Qed.

(* ContextualProfile meets it when only one thread uses it ... *)
Theorem C05_contextual_single_thread :
  forall evs w f, only_thread0 evs = true ->
    inv CP w -> (forall t, w_trace w t = false) -> w_count w 0 = f 0 ->
    play (model CP) 1 evs w = play (spec CP 1) 1 evs f.
Proof. exact cp_meets_spec_single_thread. Qed.

(* ... and NOT with two: thread 0 enters once, thread 1 issues a surplus disable; thread 0's
   count is 0 and the tool is released although thread 0 made one entry and no exit. *)
Theorem C05_contextual_per_thread_refuted :
  exists w', run CP cp_witness w0 = Ok w'
    /\ ref_count (own 0 cp_witness) 0 = 1
    /\ w_count w' (key CP 0) = 0 /\ w_tool w' = false.
Proof. exact cp_shared_counter_refutes_per_thread. Qed.

(* The public operations with no generator/coroutine objects expand to exactly the trees above. *)
Theorem C05_expand_abstract :
  forall t c sl, object_free c = true ->
    prims_of (fst (fst (expand t c sl))) = on_thread t (fst (exec (abstract c)))
    /\ snd (expand t c sl) = snd (exec (abstract c))
    /\ snd (fst (expand t c sl)) = sl.
Proof. exact expand_abstract. Qed.

(* the Cython class's context manager is the by-count pair *)
Theorem C05_context_manager :
  forall s a b c, lp_enter s = lp_enable_by_count s /\ lp_exit s a b c = lp_disable_by_count s.
Proof. exact context_manager_is_by_count. Qed.

Theorem C05_nonvacuous :
  disciplined ex_op = true
  /\ exec (Block ex_op) = ([En; En; Dis; Dis], true)
  /\ own 1 ex_hist = fst (exec (Block ex_op))
  /\ inv LP w0
  /\ exists w', run LP ex_hist w0 = Ok w' /\ w_count w' 1 = 0 /\ w_count w' 0 = 1 /\ w_trace w' 0 = true
                /\ w_trace w' 1 = false /\ w_tool w' = true.
Proof. exact call_restores_nonvacuous. Qed.
