(* C09 - Auto-profiling profiles exactly what was asked for.
   Nothing but the statements; proofs live in Ast/{Select,SelectGen,TransformFacts,Placement,PropFacts}.v.

   Model: Ast/AstLite.v (statements with line numbers), Ast/Transform.v
   (_profile_ast_tree, AstProfileTransformer, ImportFromTransformer,
   fix_missing_locations), Ast/Select.v = Gen/Select.v (translated
   _ast_get_imports_from_tree / _find_modnames_in_tree_imports).
   [c_sel c] is the resolved selection (modnames_to_profile), [c_full c] says
   the script itself is selected, [pre c body] is the parsed file (relative
   imports made absolute in -m mode), [transform c body] the rewritten tree. *)
From LP Require Import Prelude.Py Gen.Select
     Ast.AstLite Ast.AuxStr Ast.Select Ast.Transform Ast.TransformFacts Ast.PropFacts.

(* When the script itself is selected, EVERY function definition at ANY depth (nested
   functions, methods, inside compound statements, async, already decorated; [funcs]
   descends into every nested body) gets the `profile` decorator appended last unless it
   has one, in place; erasing the hooks gives back the program; every function ends up
   profiled.  For all trees, unbounded depth. *)
Theorem C09_whole_script :
  forall c body,
    c_full c = true ->
    funcs (transform c body) = map deco_once (funcs (pre c body))
    /\ erase (transform c body) = erase (pre c body)
    /\ (forall f, In f (funcs (transform c body)) -> has_profile (fh_decos f) = true).
Proof. exact whole_script. Qed.

(* ... and on a program that does not itself use `profile`, each function has exactly one
   `profile` decorator, in the innermost (last) position, and nothing else is touched *)
Theorem C09_whole_script_once_innermost :
  forall c body,
    c_full c = true -> clean (pre c body) = true ->
    erase (transform c body) = pre c body
    /\ (forall f, In f (funcs (transform c body)) -> once_innermost f = true).
Proof. exact whole_script_clean. Qed.

(* C09_selection_exact, the full two-sided statement (true since the repair of the
   multi-name import defect): the (statement index, name) pairs that get a registration are
   EXACTLY the aliases of the first top-level bindings whose real name, or the parent of
   whose real name, is in the selection - nothing missing, nothing extra; per import
   statement in source order; one dict key per statement. *)
Theorem C09_selection_exact :
  forall S body,
    (forall p, In p (dict_items (select S body)) <-> In p (wanted S body))
    /\ (forall k, dict_names (select S body) k
                  = map snd (filter (fun kv => Z.eqb (fst kv) k) (wanted S body)))
    /\ NoDup (map fst (select S body)).
Proof. exact selection_exact_order. Qed.

(* the names handed to registration calls anywhere in the rewritten tree are exactly the
   selected ones (unless --prof-imports together with the whole script asks for all imports):
   nothing from unselected modules is registered *)
Theorem C09_registered_names :
  forall c body,
    c_full c = false \/ c_imports c = false ->
    forall y, In y (regs (transform c body))
              <-> In y (map snd (wanted (c_sel c) (pre c body))) \/ In y (regs (pre c body)).
Proof. exact regs_transform. Qed.

(* each registration sits directly behind the import statement that binds its name, in
   order, carrying that statement's line: the descending list.insert() loop of
   _profile_ast_tree equals the interleaving [expand] *)
Theorem C09_registration_follows_import :
  forall c body,
    fst (insert_regs (select (c_sel c) (pre c body)) (pre c body))
    = expand (dict_names (select (c_sel c) (pre c body))) 0 (pre c body).
Proof. exact registrations_follow_import. Qed.

(* membership is on whole dotted names: a binding is registered only if its real name, or
   the parent of its real name, is literally an element of the selection *)
Theorem C09_no_prefix_confusion :
  forall S body k nm,
    In (k, nm) (dict_items (select S body)) ->
    exists m, In m (all_bindings body) /\ i_idx m = k /\ reg_name m = nm
              /\ (In (i_name m) S \/ In (parent (i_name m)) S).
Proof. exact no_prefix_confusion. Qed.

(* ... where the parent is everything before the last dot (a whole component is cut off) *)
Theorem C09_parent_is_whole_component :
  (forall a b, no_char dot b = true -> parent (a ++ "." ++ b) = a)
  /\ (forall s, no_char dot s = true -> parent s = s).
Proof. exact parent_whole_component. Qed.

(* the matching functions regenerated from profmod_extractor.py are the model's (and total) *)
Theorem C09_translated_matching_agrees :
  (forall body, gen_get_imports body = Ok (get_imports body))
  /\ (forall S mdl, gen_find_modnames S mdl = Ok (find_modnames S mdl))
  /\ (forall S body, gen_select S body = Ok (select S body)).
Proof. exact translated_agrees. Qed.

(* Non-vacuity: a clean three-level program whose first import statement binds TWO selected
   names (and a star), its demanded pairs, the dict, and its rewrite. *)
Theorem C09_nonvacuous :
  clean nv_body = true
  /\ wanted ["pkg"] nv_body = [(0, "mod_a"); (0, "b")]
  /\ select ["pkg"] nv_body = [(0, ["mod_a"; "b"])]
  /\ transform nv_cfg nv_body
     = [ImportFrom (Some "pkg") [("mod_a", None); ("*", None); ("mod_b", Some "b")] 0 1;
        ProfCall "mod_a" (Some 1); ProfCall "b" (Some 1);
        Import [("pkgx.mod_a", Some "z"); ("os", None)] 2;
        FuncDef false "f" [DOther 7; DName "profile"]
          [Compound 1 [(4, [FuncDef true "g" [DName "profile"] [Other 2 6] 5])] 4;
           ClassDef "K" 0 [FuncDef false "m" [DName "staticmethod"; DName "profile"] [Other 3 9] 8] 7] 3].
Proof. exact c09_nonvacuous. Qed.
