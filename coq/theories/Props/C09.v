(* C09 - Auto-profiling profiles exactly what was asked for.
   Nothing but the statements; proofs live in Ast/{Select,SelectGen,TransformFacts,PropFacts}.v.

   Model: Ast/AstLite.v (statements with line numbers), Ast/Transform.v
   (_profile_ast_tree, AstProfileTransformer, ImportFromTransformer,
   fix_missing_locations), Ast/Select.v = Gen/Select.v (translated
   _ast_get_imports_from_tree / _find_modnames_in_tree_imports).
   [c_sel c] is the resolved selection (modnames_to_profile), [c_full c] says
   the script itself is selected, [pre c body] is the parsed file (relative
   imports made absolute in -m mode). *)
From LP Require Import Prelude.Py Gen.Select
     Ast.AstLite Ast.AuxStr Ast.Select Ast.Transform Ast.PropFacts.

(* When the script itself is selected, EVERY function definition at ANY depth (nested
   functions, methods, inside compound statements, async, already decorated; [funcs]
   descends into every nested body) gets the `profile` decorator appended last unless it
   has one, in place; erasing the hooks gives back the program; every function ends up
   profiled.  For all trees, unbounded depth. *)
Theorem C09_whole_script :
  forall c body t',
    c_full c = true -> transform c body = Ok t' ->
    funcs t' = map deco_once (funcs (pre c body))
    /\ erase t' = erase (pre c body)
    /\ (forall f, In f (funcs t') -> has_profile (fh_decos f) = true).
Proof. exact whole_script. Qed.

(* ... and on a program that does not itself use `profile`, each function has exactly one
   `profile` decorator, in the innermost (last) position, and nothing else is touched *)
Theorem C09_whole_script_once_innermost :
  forall c body t',
    c_full c = true -> clean (pre c body) = true -> transform c body = Ok t' ->
    erase t' = pre c body /\ (forall f, In f (funcs t') -> once_innermost f = true).
Proof. exact whole_script_clean. Qed.

(* Unless --prof-imports together with the whole script asks for all imports, a name is
   handed to a registration call (at any depth) only if the selection demands it: nothing
   from unselected modules is registered. *)
Theorem C09_nothing_else_registered :
  forall c body t',
    transform c body = Ok t' -> c_full c = false \/ c_imports c = false ->
    forall y, In y (regs t') ->
              (exists k, In (k, y) (wanted (c_sel c) (pre c body))) \/ In y (regs (pre c body)).
Proof. exact nothing_else_registered. Qed.

(* exactly the names of the selection dict are handed to registration calls *)
Theorem C09_registered_names :
  forall c body t',
    transform c body = Ok t' -> c_full c = false \/ c_imports c = false ->
    exists d, select (c_sel c) (pre c body) = Ok d
              /\ forall y, In y (regs t') <-> In y (map snd d) \/ In y (regs (pre c body)).
Proof. exact registered_names. Qed.

(* Selection, one direction (always true): every (statement index, name) that gets a
   registration is the alias of a first top-level binding whose real name or parent is in S *)
Theorem C09_selection_sound :
  forall S body d, select S body = Ok d -> forall p, In p d -> In p (wanted S body).
Proof. exact selection_sound. Qed.

(* C09_selection_exact, the full two-sided statement
     forall S body d, select S body = Ok d -> forall p, In p d <-> In p (wanted S body)
   is FALSE of the faithful model: two selected names bound by ONE import statement share
   the statement index, which is the dict key, so the later overwrites the earlier.
   Witness: `from pkg import mod_a, mod_b` with pkg selected registers only mod_b.
   (Replayed on the implementation: findings/C09-multi-name-import-statement.json.) *)
Theorem C09_same_statement_refuted : ~ selection_exact_statement.
Proof. exact selection_exact_refuted. Qed.

(* what remains true: exactness whenever no import statement binds two selected names
   (missing for the full statement: the dict must be keyed per binding, not per statement) *)
Theorem C09_selection_exact_partial :
  forall S body,
    no_bare_relative body = true -> NoDup (map fst (wanted S body)) ->
    select S body = Ok (wanted S body).
Proof. exact selection_exact_partial. Qed.

(* membership is on whole dotted names: a binding is registered only if its real name, or
   the parent of its real name, is literally an element of the selection *)
Theorem C09_no_prefix_confusion :
  forall S body d k nm,
    select S body = Ok d -> In (k, nm) d ->
    exists m, In m (all_bindings body) /\ i_idx m = k /\ reg_name m = nm
              /\ (In (i_name m) S \/ In (parent (i_name m)) S).
Proof. exact no_prefix_confusion. Qed.

(* ... where the parent is everything before the last dot (a whole component is cut off) *)
Theorem C09_parent_is_whole_component :
  (forall a b, no_char dot b = true -> parent (a ++ "." ++ b) = a)
  /\ (forall s, no_char dot s = true -> parent s = s).
Proof. exact parent_whole_component. Qed.

(* the matching functions regenerated from profmod_extractor.py are the model's *)
Theorem C09_translated_matching_agrees :
  (forall body, gen_get_imports body = get_imports body)
  /\ (forall S mdl, gen_find_modnames S mdl = Ok (find_modnames S mdl))
  /\ (forall S body, gen_select S body = select S body).
Proof. exact translated_agrees. Qed.

(* Non-vacuity: a clean three-level program with a selection satisfying every hypothesis
   above, and its rewrite. *)
Theorem C09_nonvacuous :
  clean nv_body = true /\ no_bare_relative nv_body = true
  /\ NoDup (map fst (wanted ["pkg"] nv_body))
  /\ wanted ["pkg"] nv_body = [(0, "mod_a")]
  /\ transform nv_cfg nv_body
     = Ok [ImportFrom (Some "pkg") [("mod_a", None)] 0 1;
           ProfCall "mod_a" (Some 1);
           Import [("pkgx.mod_a", Some "z"); ("os", None)] 2;
           FuncDef false "f" [DOther 7; DName "profile"]
             [Compound 1 [(4, [FuncDef true "g" [DName "profile"] [Other 2 6] 5])] 4;
              ClassDef "K" 0 [FuncDef false "m" [DName "staticmethod"; DName "profile"] [Other 3 9] 8] 7] 3].
Proof. exact c09_nonvacuous. Qed.
