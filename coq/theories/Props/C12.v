(* C12 - Statistics only accumulate; taking a snapshot changes nothing.  Statements only. *)
From Coq Require Import List ZArith Bool.
From Coq Require Import Sorted.
From LP Require Import Gen.PyLayer Trace.PyLayerFacts Trace.GenRun Trace.ZMap Trace.Concrete Trace.ConcreteFacts Trace.RefineLemmas Trace.Main Trace.Witness Trace.Stats Trace.Report Trace.LabelMono.
Import ListNotations.
Open Scope Z_scope.

(* Snapshots - any number, anywhere in any history - leave every later result unchanged:
   the profiler's whole state except the list of snapshots equals that of the history with all
   snapshot operations removed. *)
Theorem C12_snapshot_pure :
  forall codes tick start ops,
    core (run codes tick start ops)
    = core (run codes tick start (filter (fun o => match o with S => false | _ => true end) ops)).
Proof. exact snapshots_are_pure. Qed.

Theorem C12_snapshot_is_get_stats :
  forall codes tick st, snaps (step codes tick st S) = get_stats codes st :: snaps st.
Proof. exact snapshot_is_get_stats. Qed.

(* the hit count of every (bucket, line) never decreases along any history *)
Theorem C12_hits_never_decrease :
  forall codes tick ops st key l,
    bhits (cmap st) key l <= bhits (cmap (fold_left (step codes tick) ops st)) key l.
Proof. exact hits_never_decrease. Qed.

(* with a monotone clock, times are never negative and never decrease *)
Theorem C12_times_nonneg_and_monotone :
  forall codes tick ops st,
    clock_monotone tick ops -> last_le_now st -> times_nonneg st ->
    let st' := fold_left (step codes tick) ops st in
    last_le_now st' /\ times_nonneg st' /\ forall key l, btime (cmap st) key l <= btime (cmap st') key l.
Proof. exact times_nonneg_and_monotone. Qed.

(* report level: registering a function again after it ran keeps its data - code objects sharing a
   label are accumulated (this was a defect of the pinned tree, repaired by a "fix:" commit; the
   witness history used to lose the first run's counts) *)
Theorem C12_reregister_keeps_data :
  rev (snaps (run rereg_codes 0 0 rereg_ops))
  = [[(0, [(2, 1, 0); (3, 1, 0)])]; [(0, [(2, 1, 0); (3, 1, 0)])]; [(0, [(2, 2, 0); (3, 2, 0)])]]
  /\ pad_ok (run rereg_codes 0 0 rereg_ops) = true.
Proof. exact rereg_keeps_data. Qed.

(* well-formedness of every snapshot of every run: each label's entries are sorted by line, carry the
   sums over the label's buckets (hence one value per line), at least one hit and - with a monotone
   clock, by C12_times_nonneg_and_monotone - non-negative time *)
Theorem C12_wellformed :
  forall codes tick start ops lbl ents,
    In (lbl, ents) (get_stats codes (run codes tick start ops)) ->
    Sorted le_line ents
    /\ (forall l h1 t1 h2 t2, In (l, h1, t1) ents -> In (l, h2, t2) ents -> h1 = h2 /\ t1 = t2)
    /\ (forall l h t, In (l, h, t) ents -> 1 <= h).
Proof. exact snapshot_wellformed. Qed.

(* REPORT LEVEL, every history: the hit count shown for (label, line) - label_hits, the value of the
   snapshot entry by snapshot_entry_values - never decreases from any state reached by a history to the
   state reached by any extension of it (registering again, enabling, running, disabling, snapshotting in
   any order), and a label that is reported stays reported.  (True of the pinned tree only after the
   "fix:" commit 1e1eb0e: before it, a later code object with the same label replaced the entry.) *)
Theorem C12_report_hits_monotone :
  forall codes tick start ops1 ops2 lbl l,
    label_hits codes (run codes tick start ops1) lbl l <= label_hits codes (run codes tick start (ops1 ++ ops2)) lbl l.
Proof. exact run_label_hits_monotone. Qed.

Theorem C12_label_stays_reported :
  forall codes tick ops st lbl,
    label_present codes st lbl -> label_present codes (fold_left (step codes tick) ops st) lbl.
Proof. exact label_stays_present. Qed.

(* label_hits is what the snapshot shows *)
Theorem C12_snapshot_entry_is_label_hits :
  forall codes tick start ops lbl ents l h t,
    In (lbl, ents) (get_stats codes (run codes tick start ops)) -> In (l, h, t) ents ->
    h = label_hits codes (run codes tick start ops) lbl l.
Proof. exact snapshot_entry_is_label_hits. Qed.

(* The tie to the source: the machine regenerated from line_profiler/_line_profiler.pyx on this run (Gen/TraceCore.v:
   the trace callback translated statement by statement, compute_line_hash, enable/disable, the registration loop and
   get_stats read off the source) computes exactly `run`, the model the theorems above are about. *)
Theorem C12_model_is_generated_core :
  forall codes tick start ops, gen_run codes tick start ops = run codes tick start ops.
Proof. exact gen_run_eq. Qed.

(* The reading methods of the Python layer (Gen/PyLayer.v, regenerated from line_profiler.py on this run: print_stats
   and dump_stats use the profiler object only through one get_stats() call, the Python class overrides no core
   method): a read by any method anywhere in a history leaves the tables, and every later report, as they are
   without it. *)
Theorem C12_reading_methods_are_snapshots :
  forall r codes tick start ops1 ops2,
    core (run codes tick start (ops1 ++ reader_ops r ++ ops2)) = core (run codes tick start (ops1 ++ ops2))
    /\ get_stats codes (run codes tick start (ops1 ++ reader_ops r ++ ops2)) = get_stats codes (run codes tick start (ops1 ++ ops2)).
Proof. exact readers_change_nothing. Qed.
