(* C03 - Decorating a callable never changes what it does.
   Nothing but the statements; models and proofs live in Wrap/{Protocol,GenWrap,CoroWrap,
   GenWrapFun,GenWrapRepaired}.v.

   Reading guide.  A decorated function's code is a body automaton
       body : S -> resume (SendV v | ThrowE e) -> BYield v S | BReturn v | BRaise e
   whose only own effect is that it sees how it is resumed (event EIn r: "values sent in,
   exceptions thrown in").  `observe k body ops` (Wrap/Protocol.v, the CPython environment
   model) is everything a client sees when it creates the generator (k = KGen), coroutine (KCoro)
   or async generator (KAsync), applies the operations ops (OpSend v: next/send/asend, OpThrow e:
   throw/athrow, OpClose: close/aclose) and drops it: per operation the body's events and the answer
   (OYield v | OStop v = StopIteration(v), the return value | OStopAsync | ORaise e | ONone), then
   the events of finalisation.  `wrapped_observe_with fwd` is the same for the object the profiler's wrapper
   returns; `erase_obs` removes the Enable/Disable events the wrapper adds on purpose. *)
From Coq Require Import List ZArith Bool String.
From LP Require Import Wrap.Protocol Wrap.GenWrap Wrap.CoroWrap Wrap.GenWrapFun Wrap.GenWrapRepaired Wrap.CoroWrapAwait.
Import ListNotations.
Open Scope Z_scope.

(* ---- plain functions -------------------------------------------------------------------- *)
(* For EVERY callee f (pure or not, returning or raising) and every profiler state in which the
   profiler can be switched on, the wrapper hands back exactly what the callee handed back. *)
Theorem C03_function :
  forall (p : Z) (f : fn) (a : Z) (m : mon),
    can_enable p m ->
    fst (wrap_function p f a m) = fst (f a (snd (enable_by_count p m))).
Proof. exact wrap_function_result. Qed.

Theorem C03_function_pure :
  forall (p : Z) (g : Z -> fres) (a : Z) (m : mon),
    can_enable p m -> fst (wrap_function p (pure g) a m) = g a.
Proof. exact wrap_function_pure. Qed.

Theorem C03_function_nonvacuous :
  fst (wrap_function 1 (wrap_function 2 (pure const7)) 0 mon0) = FRaise ValueErr
  /\ const7 0 = FRet 7
  /\ fst (wrap_function 1 (wrap_function 1 (pure const7)) 0 mon0) = FRet 7.
Proof. exact two_profilers_witness. Qed.

(* the same profiler instance nested in itself to any depth is harmless (by-count) *)
Theorem C03_same_profiler_nested :
  forall (n : nat) (p : Z) (g : Z -> fres) (a : Z) (m : mon),
    0 <= count m p -> can_enable p m -> fst (wrap_n n p (pure g) a m) = g a.
Proof. exact wrap_same_profiler_nested. Qed.

(* "one profiler being active never makes code decorated by another profiler fail" would be:
   C03_function_pure without the hypothesis can_enable.  It is FALSE on CPython 3.12: for ANY two
   distinct profiler instances (LineProfiler or ContextualProfile), a function decorated by q and
   called under p never runs - the call raises ValueError. *)
Theorem C03_two_profilers_refuted :
  forall (p q : Z) (g : Z -> fres) (a : Z),
    p <> q -> fst (wrap_function p (wrap_function q (pure g)) a mon0) = FRaise ValueErr.
Proof. exact two_profilers_raise. Qed.

(* ---- coroutines ----------------------------------------------------------------------------- *)
(* Full protocol (send, throw, close, return value, finalisation), all bodies, all histories -
   under the two conditions that `await` itself imposes (PEP 380 delegation): the body does not
   swallow GeneratorExit by awaiting again, and GeneratorExit is delivered by close(), not throw(). *)
Theorem C03_coroutine :
  forall (S : Type) (b : body S) (s0 : S) (ops : list op),
    honours_close b ->
    forallb no_ge_throw ops = true ->
    erase_obs (coro_wrapped_observe b s0 ops) = coro_plain_observe b s0 ops.
Proof. exact (fun S b s0 ops H => wrap_coro_transparent b s0 H ops). Qed.

Theorem C03_coroutine_nonvacuous :
  honours_close cwit_ok
  /\ forallb no_ge_throw [OpNext; OpSend 2; OpThrow ValueErr; OpSend 3] = true
  /\ coro_plain_observe cwit_ok 0 [OpNext; OpSend 2; OpThrow ValueErr; OpSend 3]
     = ([([EIn (SendV 0)], OYield 10); ([EIn (SendV 2)], OYield 12);
         ([EIn (ThrowE ValueErr)], OYield 5); ([EIn (SendV 3)], OStop 23)], [])
  /\ coro_wrapped_observe cwit_ok 0 [OpNext; OpSend 2; OpClose]
     = ([([EEnable; EIn (SendV 0)], OYield 10); ([EIn (SendV 2)], OYield 12);
         ([EIn (ThrowE GenExit); EDisable], ONone)], []).
Proof. exact coro_nonvacuous. Qed.

(* both hypotheses are needed; the differences are those of `await`, not of the profiler *)
Theorem C03_coroutine_hypotheses_needed :
  erase_obs (coro_wrapped_observe cwit_stubborn 0 [OpNext; OpClose; OpSend 4])
    <> coro_plain_observe cwit_stubborn 0 [OpNext; OpClose; OpSend 4]
  /\ (honours_close cwit_ge_return
      /\ erase_obs (coro_wrapped_observe cwit_ge_return 0 [OpNext; OpThrow GenExit])
         <> coro_plain_observe cwit_ge_return 0 [OpNext; OpThrow GenExit]).
Proof. exact (conj hyp_close_needed hyp_no_ge_throw_needed). Qed.

(* ---- generators and async generators ------------------------------------------------------- *)
(* `wrapped_observe k body s0 ops` is the object /repo's wrapper returns: the variant of the model
   named by `Definition repo_forwards` in Wrap/GenWrap.v - since /repo 767d84e the one that forwards
   what is thrown at its `yield` (throw()/close(), athrow()/aclose()) to the decorated generator and
   (since 44481f3) hands on its return value.  The correspondence check ties that line to the code;
   the statements below are about `wrapped_observe` and stop compiling if the line is flipped back. *)

(* EVERY body, EVERY history (next/send/throw/close in any order, any length): all answers - yielded
   values, StopIteration(value) i.e. the return value, raised exceptions, close()'s None / RuntimeError,
   behaviour after exhaustion - and everything the body sees while the operations run (values sent in,
   exceptions thrown in, GeneratorExit on close) are the original's. *)
Theorem C03_generator_operations :
  forall (S : Type) (b : body S) (s0 : S) (ops : list op),
    fst (erase_obs (wrapped_observe KGen b s0 ops)) = fst (plain_observe KGen b s0 ops).
Proof. exact (fun S b s0 ops => wrap_gen_fwd_ops KGen b s0 ops (fun E => match E with eq_refl => I end)). Qed.

(* ... and for every body that honours the close contract (does not yield when GeneratorExit is thrown
   in), what happens when the object is dropped as well: the full statement. *)
Theorem C03_generator_full :
  forall (S : Type) (b : body S) (s0 : S) (ops : list op),
    honours_close b ->
    erase_obs (wrapped_observe KGen b s0 ops) = plain_observe KGen b s0 ops.
Proof. exact (fun S b s0 ops Hc => wrap_gen_fwd_full KGen b s0 ops (fun E => match E with eq_refl => I end) Hc). Qed.

Theorem C03_generator_full_nonvacuous :
  honours_close wit_good
  /\ plain_observe KGen wit_good 0 [OpNext; OpSend 2; OpThrow ValueErr; OpNext; OpNext]
     = ([([EIn (SendV 0)], OYield 1); ([EIn (SendV 2)], OYield 12); ([EIn (ThrowE ValueErr)], OYield 5);
         ([EIn (SendV 0)], OStop 7); ([], OStop 0)], [])
  /\ repaired_observe KGen wit_good 0 [OpNext; OpThrow ValueErr; OpClose]
     = ([([EEnable; EIn (SendV 0); EDisable], OYield 1); ([EEnable; EIn (ThrowE ValueErr); EDisable], OYield 5);
         ([EEnable; EIn (ThrowE GenExit); EDisable], ONone)], []).
Proof. exact repaired_nonvacuous. Qed.

(* The hypothesis of C03_generator_full is needed, and this is all that is left: a body that yields
   while it is being finalised (CPython reports "generator ignored GeneratorExit" to sys.unraisablehook)
   is finalised once more when the wrapper's frame goes away.  No wrapper that holds the inner generator
   can hide that; the correspondence check does not judge finalisation of such bodies. *)
Theorem C03_generator_residual :
  snd (erase_obs (wrapped_observe KGen wit_stubborn 0 [OpNext])) = [EIn (ThrowE GenExit); EIn (ThrowE GenExit)]
  /\ snd (plain_observe KGen wit_stubborn 0 [OpNext]) = [EIn (ThrowE GenExit)]
  /\ ~ honours_close wit_stubborn.
Proof. exact repaired_residual. Qed.

(* the three former refutation witnesses, now answered like the original *)
Theorem C03_generator_former_witnesses :
  (erase_obs (wrapped_observe KGen wit_ret 0 [OpNext; OpNext])
   = ([([EIn (SendV 0)], OYield 1); ([EIn (SendV 0)], OStop 7)], [])
   /\ plain_observe KGen wit_ret 0 [OpNext; OpNext]
   = ([([EIn (SendV 0)], OYield 1); ([EIn (SendV 0)], OStop 7)], []))
  /\ (erase_obs (repaired_observe KGen wit_catch 0 [OpNext; OpThrow ValueErr; OpClose])
      = plain_observe KGen wit_catch 0 [OpNext; OpThrow ValueErr; OpClose]
      /\ plain_observe KGen wit_catch 0 [OpNext; OpThrow ValueErr; OpClose]
      = ([([EIn (SendV 0)], OYield 1); ([EIn (ThrowE ValueErr)], OYield 5); ([EIn (ThrowE GenExit)], ONone)], [])
      /\ fst (erase_obs (repaired_observe KGen wit_stubborn 0 [OpNext; OpClose; OpNext]))
      = fst (plain_observe KGen wit_stubborn 0 [OpNext; OpClose; OpNext])
      /\ fst (plain_observe KGen wit_stubborn 0 [OpNext; OpClose; OpNext])
      = [([EIn (SendV 0)], OYield 1); ([EIn (ThrowE GenExit)], ORaise RuntimeErr); ([EIn (SendV 0)], OStop 0)]
      /\ erase_obs (repaired_observe KAsync wit_catch 0 [OpNext; OpThrow ValueErr])
      = plain_observe KAsync wit_catch 0 [OpNext; OpThrow ValueErr]).
Proof. exact (conj return_value_kept_current repaired_on_witnesses). Qed.

(* async generators (bodies that never await a pending awaitable): asend/athrow/aclose *)
Theorem C03_async_generator_operations :
  forall (S : Type) (b : body S) (s0 : S) (ops : list op),
    fst (erase_obs (wrapped_observe KAsync b s0 ops)) = fst (plain_observe KAsync b s0 ops).
Proof. exact (fun S b s0 ops => wrap_gen_fwd_ops KAsync b s0 ops (fun E => match E with eq_refl => I end)). Qed.

Theorem C03_async_generator_full :
  forall (S : Type) (b : body S) (s0 : S) (ops : list op),
    honours_close b ->
    erase_obs (wrapped_observe KAsync b s0 ops) = plain_observe KAsync b s0 ops.
Proof. exact (fun S b s0 ops Hc => wrap_gen_fwd_full KAsync b s0 ops (fun E => match E with eq_refl => I end) Hc). Qed.

(* what the line `Definition repo_forwards` commits to (compiles for either value; today: the full
   theorem for both kinds) *)
Theorem C03_generator_current : current_claim repo_forwards.
Proof. exact current_claim_holds. Qed.

(* ---- why forwarding matters: the wrapper /repo had before 767d84e (fwd = false) ---------------- *)
(* kept as the regression statement: a wrapper that does not forward throw()/close() is refuted for
   generators and async generators; these are the witnesses the check replays first on every run *)
Theorem C03_nonforwarding_wrapper_refuted :
  ~ transparent_for false KGen /\ ~ transparent_for false KAsync.
Proof. exact (conj generator_full_false async_generator_full_false). Qed.

Theorem C03_nonforwarding_wrapper_witnesses :
  (erase_obs (wrapped_observe_with false KGen wit_catch 0 [OpNext; OpThrow ValueErr])
   = ([([EIn (SendV 0)], OYield 1); ([EIn (ThrowE GenExit)], ORaise ValueErr)], [])
   /\ plain_observe KGen wit_catch 0 [OpNext; OpThrow ValueErr]
   = ([([EIn (SendV 0)], OYield 1); ([EIn (ThrowE ValueErr)], OYield 5)], [EIn (ThrowE GenExit)]))
  /\ (erase_obs (wrapped_observe_with false KGen wit_stubborn 0 [OpNext; OpClose])
      = ([([EIn (SendV 0)], OYield 1); ([EIn (ThrowE GenExit)], ONone)], [])
      /\ plain_observe KGen wit_stubborn 0 [OpNext; OpClose]
      = ([([EIn (SendV 0)], OYield 1); ([EIn (ThrowE GenExit)], ORaise RuntimeErr)], [EIn (ThrowE GenExit)])).
Proof. exact (conj refuted_throw refuted_close). Qed.

(* what that former wrapper did preserve: next()/send()-only histories of every body *)
Theorem C03_nonforwarding_wrapper_partial :
  forall (k : kind) (S : Type) (b : body S) (s0 : S) (ops : list op),
    k <> KCoro ->
    forallb is_send ops = true ->
    erase_obs (wrapped_observe_with false k b s0 ops) = plain_observe k b s0 ops.
Proof. exact (fun k S b s0 ops Hk Hs => wrap_gen_send_only k b s0 ops Hk Hs). Qed.

(* ---- @types.coroutine generator functions, awaited ------------------------------------------- *)
(* Driven as generators they are covered by C03_generator_operations / C03_generator_full.  They may also be
   awaited: `async def outer(): return await f()`.  `awaited_observe KGen body kill s0 ops` is what a client
   of `outer` sees (operations on `outer`, then dropping it) when f's code is `body`.  With the decorated f -
   whose wrapper keeps the @types.coroutine mark since /repo f61df74, so it can be awaited at all - the
   client sees exactly what it sees with the original f: every body honouring the close contract, every
   history (send / throw, GeneratorExit included / close in any order). *)
Theorem C03_types_coroutine_awaited :
  forall (S : Type) (b : body S) (s0 : S) (ops : list op),
    honours_close b ->
    erase_obs (awaited_observe KGen (wrap_gen repo_forwards KGen (observed b) nokill s0)
                               (wkill (observed b) nokill) WInit ops)
    = awaited_observe KGen (observed b) nokill s0 ops.
Proof. exact (fun S b s0 ops Hc => await_wrapped_transparent b s0 Hc ops). Qed.

Theorem C03_types_coroutine_awaited_nonvacuous :
  honours_close awit
  /\ awaited_observe KGen (observed awit) nokill 0 [OpNext; OpSend 2; OpThrow KeyErr; OpSend 3]
     = ([([EIn (SendV 0)], OYield 1); ([EIn (SendV 2)], OYield 12); ([EIn (ThrowE KeyErr)], OYield 5);
         ([EIn (SendV 3)], OStop 23)], [])
  /\ awaited_observe KGen (wrap_gen true KGen (observed awit) nokill 0) (wkill (observed awit) nokill) WInit
       [OpNext; OpClose]
     = ([([EEnable; EIn (SendV 0); EDisable], OYield 1); ([EEnable; EIn (ThrowE GenExit); EDisable], ONone)], []).
Proof. exact await_nonvacuous. Qed.

(* ---- kernprof's interval timer (kernprof -i) ------------------------------------------------ *)
(* A program under kernprof: calls of functions decorated by kernprof's profiler p, interleaved in any way
   with ticks of the interval timer (another thread calling prof.dump_stats).  For every tick function that
   keeps the by-count invariant (count 0 => nobody holds the tool id) every call returns what the
   undecorated function returns; both real tick functions keep it. *)
Theorem C03_timer_harmless :
  forall (tick : mon -> mon) (p : Z) (g : Z -> fres),
    (forall m, timer_inv p m -> timer_inv p (tick m)) ->
    forall (steps : list pstep) (m : mon), timer_inv p m ->
      fst (run_steps tick (wrap_function p (pure g)) steps m) = map g (call_args steps).
Proof. exact timer_harmless. Qed.

Theorem C03_timer_harmless_kernprof :
  forall (p : Z) (g : Z -> fres) (steps : list pstep),
    fst (run_steps (dump_cprofile p) (wrap_function p (pure g)) steps mon0) = map g (call_args steps)
    /\ fst (run_steps (dump_line_profiler p) (wrap_function p (pure g)) steps mon0) = map g (call_args steps).
Proof. exact (fun p g steps => conj (timer_harmless_cprofile p g steps) (timer_harmless_line_profiler p g steps)). Qed.

(* non-vacuous, and the invariant matters: a tick that switched the profiler back on behind the count
   (dump, then prof.enable()) makes the next decorated call raise *)
Theorem C03_timer_nonvacuous :
  fst (run_steps (dump_and_resume 2) (wrap_function 2 (pure const7)) [SCall 0; STick; SCall 0] mon0)
  = [FRet 7; FRaise ValueErr].
Proof. exact resuming_tick_breaks_calls. Qed.

(* ---- metadata ------------------------------------------------------------------------------- *)
(* name, docstring, signature and function kind of what wrap_callable returns for a function object of
   ANY kind - plain, generator, coroutine, async generator, and generator marked @types.coroutine (kept
   awaitable since /repo f61df74) - are those of the original *)
Theorem C03_metadata : forall m : fmeta, wrap_meta m = m.
Proof. exact wrap_meta_id. Qed.

Theorem C03_metadata_names :
  forall m : fmeta,
    m_name (wrap_meta m) = m_name m /\ m_doc (wrap_meta m) = m_doc m /\ m_sig (wrap_meta m) = m_sig m.
Proof. exact wrap_meta_names. Qed.

(* non-vacuous; and the types.coroutine marking of f61df74 is what keeps the last kind: without it the
   decorated @types.coroutine function is a plain generator function *)
Theorem C03_metadata_nonvacuous :
  (wrap_meta {| m_name := "fib"; m_doc := Some "doc"%string; m_sig := 3; m_kind := FAsyncGenerator |}
   = {| m_name := "fib"; m_doc := Some "doc"%string; m_sig := 3; m_kind := FAsyncGenerator |}
   /\ template FAsyncGenerator
      <> {| m_name := "fib"; m_doc := Some "doc"%string; m_sig := 3; m_kind := FAsyncGenerator |}
   /\ wrap_meta {| m_name := "sleep0"; m_doc := None; m_sig := 1; m_kind := FGenCoroutine |}
      = {| m_name := "sleep0"; m_doc := None; m_sig := 1; m_kind := FGenCoroutine |})
  /\ (forall m, m_kind m = FGenCoroutine ->
        m_kind (wraps m (template (dispatch m))) = FGenerator /\ wraps m (template (dispatch m)) <> m).
Proof. exact (conj wrap_meta_nonvacuous unmarked_gencoroutine_loses_kind). Qed.
