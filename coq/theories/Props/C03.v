(* C03 - Decorating a callable never changes what it does.
   Nothing but the statements; models and proofs live in Wrap/{Protocol,GenWrap,CoroWrap,
   GenWrapFun,GenWrapRepaired}.v.

   Reading guide.  A decorated function's code is a body automaton
       body : S -> resume (SendV v | ThrowE e) -> BYield v S | BReturn v | BRaise e
   whose only own effect is that it sees how it is resumed (event EIn r: "values sent in,
   exceptions thrown in").  `observe k body ops` (Wrap/Protocol.v, the CPython environment
   model) is everything a client sees when it creates the generator (k = KGen), coroutine (KCoro)
   or async generator (KAsync), applies the operations ops (OpSend v: next/send/asend, OpThrow e:
   throw/athrow, OpClose: close/aclose) and drops it: per operation the body's events and the answer
   (OYield v | OStop v = StopIteration(v), the return value | OStopAsync | ORaise e | ONone), then
   the events of finalisation.  `wrapped_observe_with fwd` is the same for the object the profiler's wrapper
   returns; `erase_obs` removes the Enable/Disable events the wrapper adds on purpose. *)
From Coq Require Import List ZArith Bool String.
From LP Require Import Wrap.Protocol Wrap.GenWrap Wrap.CoroWrap Wrap.GenWrapFun Wrap.GenWrapRepaired.
Import ListNotations.
Open Scope Z_scope.

(* ---- plain functions -------------------------------------------------------------------- *)
(* For EVERY callee f (pure or not, returning or raising) and every profiler state in which the
   profiler can be switched on, the wrapper hands back exactly what the callee handed back. *)
Theorem C03_function :
  forall (p : Z) (f : fn) (a : Z) (m : mon),
    can_enable p m ->
    fst (wrap_function p f a m) = fst (f a (snd (enable_by_count p m))).
Proof. exact wrap_function_result. Qed.

Theorem C03_function_pure :
  forall (p : Z) (g : Z -> fres) (a : Z) (m : mon),
    can_enable p m -> fst (wrap_function p (pure g) a m) = g a.
Proof. exact wrap_function_pure. Qed.

Theorem C03_function_nonvacuous :
  fst (wrap_function 1 (wrap_function 2 (pure const7)) 0 mon0) = FRaise ValueErr
  /\ const7 0 = FRet 7
  /\ fst (wrap_function 1 (wrap_function 1 (pure const7)) 0 mon0) = FRet 7.
Proof. exact two_profilers_witness. Qed.

(* the same profiler instance nested in itself to any depth is harmless (by-count) *)
Theorem C03_same_profiler_nested :
  forall (n : nat) (p : Z) (g : Z -> fres) (a : Z) (m : mon),
    0 <= count m p -> can_enable p m -> fst (wrap_n n p (pure g) a m) = g a.
Proof. exact wrap_same_profiler_nested. Qed.

(* "one profiler being active never makes code decorated by another profiler fail" would be:
   C03_function_pure without the hypothesis can_enable.  It is FALSE on CPython 3.12: for ANY two
   distinct profiler instances (LineProfiler or ContextualProfile), a function decorated by q and
   called under p never runs - the call raises ValueError. *)
Theorem C03_two_profilers_refuted :
  forall (p q : Z) (g : Z -> fres) (a : Z),
    p <> q -> fst (wrap_function p (wrap_function q (pure g)) a mon0) = FRaise ValueErr.
Proof. exact two_profilers_raise. Qed.

(* ---- coroutines ----------------------------------------------------------------------------- *)
(* Full protocol (send, throw, close, return value, finalisation), all bodies, all histories -
   under the two conditions that `await` itself imposes (PEP 380 delegation): the body does not
   swallow GeneratorExit by awaiting again, and GeneratorExit is delivered by close(), not throw(). *)
Theorem C03_coroutine :
  forall (S : Type) (b : body S) (s0 : S) (ops : list op),
    honours_close b ->
    forallb no_ge_throw ops = true ->
    erase_obs (coro_wrapped_observe b s0 ops) = coro_plain_observe b s0 ops.
Proof. exact (fun S b s0 ops H => wrap_coro_transparent b s0 H ops). Qed.

Theorem C03_coroutine_nonvacuous :
  honours_close cwit_ok
  /\ forallb no_ge_throw [OpNext; OpSend 2; OpThrow ValueErr; OpSend 3] = true
  /\ coro_plain_observe cwit_ok 0 [OpNext; OpSend 2; OpThrow ValueErr; OpSend 3]
     = ([([EIn (SendV 0)], OYield 10); ([EIn (SendV 2)], OYield 12);
         ([EIn (ThrowE ValueErr)], OYield 5); ([EIn (SendV 3)], OStop 23)], [])
  /\ coro_wrapped_observe cwit_ok 0 [OpNext; OpSend 2; OpClose]
     = ([([EEnable; EIn (SendV 0)], OYield 10); ([EIn (SendV 2)], OYield 12);
         ([EIn (ThrowE GenExit); EDisable], ONone)], []).
Proof. exact coro_nonvacuous. Qed.

(* both hypotheses are needed; the differences are those of `await`, not of the profiler *)
Theorem C03_coroutine_hypotheses_needed :
  erase_obs (coro_wrapped_observe cwit_stubborn 0 [OpNext; OpClose; OpSend 4])
    <> coro_plain_observe cwit_stubborn 0 [OpNext; OpClose; OpSend 4]
  /\ (honours_close cwit_ge_return
      /\ erase_obs (coro_wrapped_observe cwit_ge_return 0 [OpNext; OpThrow GenExit])
         <> coro_plain_observe cwit_ge_return 0 [OpNext; OpThrow GenExit]).
Proof. exact (conj hyp_close_needed hyp_no_ge_throw_needed). Qed.

(* ---- generators and async generators ------------------------------------------------------- *)
(* `wrapped_observe_with fwd k body s0 ops`: the object returned by the wrapper variant fwd
   (false: throw()/close() are not forwarded to the decorated generator - what /repo contains while
   Wrap/GenWrap.v says `repo_forwards := false`; true: the repair of Wrap/GenWrapRepaired.v).
   C03_generator_full would be `transparent_for fwd KGen`:
     forall S body s0 ops, erase_obs (wrapped_observe_with fwd KGen body s0 ops) = plain_observe KGen body s0 ops. *)

(* It is FALSE of the faithful model of /repo's wrap_generator: *)
Theorem C03_generator_refuted : ~ transparent_for false KGen.
Proof. exact generator_full_false. Qed.

(* witness 1 (`try: yield 1  except ValueError: yield 5`, next, throw ValueError): the exception
   never reaches the body (which is finalised with GeneratorExit instead) and comes straight back *)
Theorem C03_generator_refuted_throw :
  erase_obs (wrapped_observe_with false KGen wit_catch 0 [OpNext; OpThrow ValueErr])
  = ([([EIn (SendV 0)], OYield 1); ([EIn (ThrowE GenExit)], ORaise ValueErr)], [])
  /\ plain_observe KGen wit_catch 0 [OpNext; OpThrow ValueErr]
  = ([([EIn (SendV 0)], OYield 1); ([EIn (ThrowE ValueErr)], OYield 5)], [EIn (ThrowE GenExit)]).
Proof. exact refuted_throw. Qed.

(* witness 2 (body yields again on GeneratorExit, next, close): close() is not forwarded either -
   the original raises RuntimeError, the wrapped one returns None *)
Theorem C03_generator_refuted_close :
  erase_obs (wrapped_observe_with false KGen wit_stubborn 0 [OpNext; OpClose])
  = ([([EIn (SendV 0)], OYield 1); ([EIn (ThrowE GenExit)], ONone)], [])
  /\ plain_observe KGen wit_stubborn 0 [OpNext; OpClose]
  = ([([EIn (SendV 0)], OYield 1); ([EIn (ThrowE GenExit)], ORaise RuntimeErr)], [EIn (ThrowE GenExit)]).
Proof. exact refuted_close. Qed.

(* What IS proved of /repo's wrapper: every history made of next()/send(v) only, of EVERY body -
   yielded values, values sent in, exceptions raised by the body, the RETURN VALUE (kept since
   /repo commit 44481f3), behaviour after exhaustion, finalisation.
   Missing w.r.t. the full statement: throw()/close() while the generator is suspended. *)
Theorem C03_generator_partial :
  forall (S : Type) (b : body S) (s0 : S) (ops : list op),
    forallb is_send ops = true ->
    erase_obs (wrapped_observe_with false KGen b s0 ops) = plain_observe KGen b s0 ops.
Proof.
  exact (fun S b s0 ops Hs => wrap_gen_send_only KGen b s0 ops (fun E => match E with eq_refl => I end) Hs).
Qed.

Theorem C03_generator_partial_nonvacuous :
  forallb is_send [OpNext; OpSend 2; OpSend 3; OpNext; OpNext] = true
  /\ plain_observe KGen wit_echo 0 [OpNext; OpSend 2; OpSend 3; OpNext; OpNext]
     = ([([EIn (SendV 0)], OYield 10); ([EIn (SendV 2)], OYield 12); ([EIn (SendV 3)], OYield 13);
         ([EIn (SendV 0)], OStop 9); ([], OStop 0)], [])
  /\ wrapped_observe_with false KGen wit_echo 0 [OpNext; OpSend 2]
     = ([([EEnable; EIn (SendV 0); EDisable], OYield 10); ([EEnable; EIn (SendV 2); EDisable], OYield 12)],
        [EIn (ThrowE GenExit)]).
Proof. exact partial_nonvacuous. Qed.

(* the former return-value witness (`yield 1; return 7`, next, next) is now answered correctly *)
Theorem C03_generator_return_value :
  erase_obs (wrapped_observe_with false KGen wit_ret 0 [OpNext; OpNext])
  = ([([EIn (SendV 0)], OYield 1); ([EIn (SendV 0)], OStop 7)], [])
  /\ plain_observe KGen wit_ret 0 [OpNext; OpNext]
  = ([([EIn (SendV 0)], OYield 1); ([EIn (SendV 0)], OStop 7)], []).
Proof. exact return_value_kept. Qed.

(* async generators (bodies that never await a pending awaitable) *)
Theorem C03_async_generator_refuted : ~ transparent_for false KAsync.
Proof. exact async_generator_full_false. Qed.

Theorem C03_async_generator_refuted_athrow_aclose :
  (erase_obs (wrapped_observe_with false KAsync wit_catch 0 [OpNext; OpThrow ValueErr])
   = ([([EIn (SendV 0)], OYield 1); ([EIn (ThrowE GenExit)], ORaise ValueErr)], [])
   /\ plain_observe KAsync wit_catch 0 [OpNext; OpThrow ValueErr]
   = ([([EIn (SendV 0)], OYield 1); ([EIn (ThrowE ValueErr)], OYield 5)], [EIn (ThrowE GenExit)]))
  /\ (erase_obs (wrapped_observe_with false KAsync wit_stubborn 0 [OpNext; OpClose])
      = ([([EIn (SendV 0)], OYield 1); ([EIn (ThrowE GenExit)], ONone)], [])
      /\ plain_observe KAsync wit_stubborn 0 [OpNext; OpClose]
      = ([([EIn (SendV 0)], OYield 1); ([EIn (ThrowE GenExit)], ORaise RuntimeErr)], [EIn (ThrowE GenExit)])).
Proof. exact (conj refuted_athrow refuted_aclose). Qed.

(* anext()/asend(v)-only histories of every body.
   Missing: athrow()/aclose() while suspended; bodies that suspend inside an await. *)
Theorem C03_async_generator_partial :
  forall (S : Type) (b : body S) (s0 : S) (ops : list op),
    forallb is_send ops = true ->
    erase_obs (wrapped_observe_with false KAsync b s0 ops) = plain_observe KAsync b s0 ops.
Proof.
  exact (fun S b s0 ops Hs => wrap_gen_send_only KAsync b s0 ops (fun E => match E with eq_refl => I end) Hs).
Qed.

(* ---- the forwarding variant (the repair; Wrap/GenWrapRepaired.v shows the Python) -------------- *)
(* EVERY body, EVERY history (next/send/throw/close in any order): all answers, and everything the body
   sees while the operations run, are the original's - for generators and async generators. *)
Theorem C03_generator_repaired_operations :
  forall (k : kind) (S : Type) (b : body S) (s0 : S) (ops : list op),
    k <> KCoro ->
    fst (erase_obs (wrapped_observe_with true k b s0 ops)) = fst (plain_observe k b s0 ops).
Proof. exact (fun k S b s0 ops Hk => wrap_gen_fwd_ops k b s0 ops Hk). Qed.

(* ... and for every body that honours the close contract, finalisation too: the full statement. *)
Theorem C03_generator_repaired :
  forall (k : kind) (S : Type) (b : body S) (s0 : S) (ops : list op),
    k <> KCoro ->
    honours_close b ->
    erase_obs (wrapped_observe_with true k b s0 ops) = plain_observe k b s0 ops.
Proof. exact (fun k S b s0 ops Hk Hc => wrap_gen_fwd_full k b s0 ops Hk Hc). Qed.

Theorem C03_generator_repaired_nonvacuous :
  honours_close wit_good
  /\ plain_observe KGen wit_good 0 [OpNext; OpSend 2; OpThrow ValueErr; OpNext; OpNext]
     = ([([EIn (SendV 0)], OYield 1); ([EIn (SendV 2)], OYield 12); ([EIn (ThrowE ValueErr)], OYield 5);
         ([EIn (SendV 0)], OStop 7); ([], OStop 0)], [])
  /\ repaired_observe KGen wit_good 0 [OpNext; OpThrow ValueErr; OpClose]
     = ([([EEnable; EIn (SendV 0); EDisable], OYield 1); ([EEnable; EIn (ThrowE ValueErr); EDisable], OYield 5);
         ([EEnable; EIn (ThrowE GenExit); EDisable], ONone)], []).
Proof. exact repaired_nonvacuous. Qed.

(* the hypothesis is needed, and it is all that is left: a body that yields while it is being finalised
   is finalised once more when the wrapper's frame goes away *)
Theorem C03_generator_repaired_residual :
  snd (erase_obs (repaired_observe KGen wit_stubborn 0 [OpNext])) = [EIn (ThrowE GenExit); EIn (ThrowE GenExit)]
  /\ snd (plain_observe KGen wit_stubborn 0 [OpNext]) = [EIn (ThrowE GenExit)]
  /\ ~ honours_close wit_stubborn.
Proof. exact repaired_residual. Qed.

(* what holds of the variant /repo contains according to the line `Definition repo_forwards` in
   Wrap/GenWrap.v (the correspondence check ties that line to the code): today the refutation *)
Theorem C03_generator_current : current_claim repo_forwards.
Proof. exact current_claim_holds. Qed.

(* ---- metadata ------------------------------------------------------------------------------- *)
(* name, docstring, signature and function kind of what wrap_callable returns for a plain
   function object of any kind are those of the original *)
Theorem C03_metadata : forall m : fmeta, wrap_meta m = m.
Proof. exact wrap_meta_id. Qed.

Theorem C03_metadata_nonvacuous :
  wrap_meta {| m_name := "fib"; m_doc := Some "doc"%string; m_sig := 3; m_kind := FAsyncGenerator |}
  = {| m_name := "fib"; m_doc := Some "doc"%string; m_sig := 3; m_kind := FAsyncGenerator |}
  /\ template FAsyncGenerator
     <> {| m_name := "fib"; m_doc := Some "doc"%string; m_sig := 3; m_kind := FAsyncGenerator |}.
Proof. exact wrap_meta_nonvacuous. Qed.
