(* C17 - Relative imports in a profiled module resolve as Python resolves them.
   Nothing but the statements; proofs live in Resolve/RelImport.v. *)
From LP Require Import Prelude.Py Gen.RelImport Resolve.RelImport.

(* For every package depth (pcomps, non-empty), every position in it (stem: a module
   name, "__init__" or "__main__"), every level valid there and every target, the
   function that /repo uses (regenerated from source) returns exactly what
   importlib._resolve_name returns for that module's package. *)
Theorem C17_resolve_agrees :
  forall (pcomps : list string) (stem : string) (level : Z) (target : option string),
    pcomps <> [] ->
    forallb (no_char dot) (pcomps ++ [stem]) = true ->
    1 <= level <= Z.of_nat (length pcomps) ->
    get_module_from_importfrom level target (position pcomps stem)
    = Ok (resolve_name target (package_of pcomps) level).
Proof. exact resolve_agrees. Qed.

(* absolute imports (level 0) pass through unchanged *)
Theorem C17_absolute_untouched :
  forall target module, get_module_from_importfrom 0 target module = Ok target.
Proof. exact absolute_untouched. Qed.

Theorem C17_nonvacuous :
  get_module_from_importfrom 2 (Some "baz") "foo.bar.foobar" = Ok (Some "foo.baz")
  /\ resolve_name (Some "baz") "foo.bar" 2 = Some "foo.baz"
  /\ forallb (no_char dot) (["foo"; "bar"] ++ ["foobar"]) = true.
Proof. exact resolve_example. Qed.
