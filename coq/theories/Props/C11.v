(* C11 - Saved statistics round-trip and every output channel tells the same story.
   Nothing but statements; the proofs are in Report/ChannelsProofs.v.

   Reading: `render` is show_text (C10's model, abstract here), `dump`/`load` are
   pickle.dump / pickle.load (external: hypothesis load (dump s) = Some s, measured
   by the tie on every run), `get_stats` the pure snapshot function of the profiler
   state (C12).  A world is (profiler state, files, stdout); a history is a list of
   profiled executions and output requests; the channels are the source's own
   call sequences (Channels.v). *)
From Coq Require Import QArith.
From LP Require Import Prelude.Py Report.Channels Report.ChannelsProofs.

Section C11.
  Variable text : Type.
  Variable render : snapshot -> opts -> text.
  Variable bytes : Type.
  Variable dump : snapshot -> bytes.
  Variable load : bytes -> option snapshot.
  Hypothesis load_dump : forall s, load (dump s) = Some s.
  Variable st : Type.
  Variable get_stats : st -> snapshot.

  Notation world := (world text bytes st).
  Notation run := (run text render bytes dump load st get_stats).
  Notation snap := (snap text bytes st get_stats).

  (* dump_stats(f) then load_stats(f): the statistics the live profiler reported at
     the moment of writing - functions, their order, lines, hits, times, unit. *)
  Theorem C11_roundtrip :
    forall (w : world) (f : Z),
      load_stats text bytes load st (dump_stats text bytes dump st get_stats f w) f = Some (snap w).
  Proof. exact (roundtrip text bytes dump load load_dump st get_stats). Qed.

  (* ...at the moment of EVERY write, whatever the history of that path: earlier dumps of
     this profiler, dumps of other profilers / processes (foreign writes), deletions. *)
  Theorem C11_roundtrip_any_history :
    forall (hs : list (hstep text bytes st)) (w : world) (f : Z),
      let w' := hrun text render bytes dump load st get_stats hs w in
      load_stats text bytes load st (dump_stats text bytes dump st get_stats f w') f = Some (snap w').
  Proof. exact (roundtrip_any_history text render bytes dump load load_dump st get_stats). Qed.

  (* dump; someone else writes the file; dump again with nothing new recorded: own statistics *)
  Theorem C11_redump_after_foreign_write :
    forall (w : world) (f : Z) (c : content text bytes),
      load_stats text bytes load st
        (dump_stats text bytes dump st get_stats f
           (write_file text bytes st f c (dump_stats text bytes dump st get_stats f w))) f
      = Some (snap w).
  Proof. exact (redump_after_foreign_write text bytes dump load load_dump st get_stats). Qed.

  (* Each channel's text is `render snapshot (opts_of channel)` for the snapshot of
     the state it was called in; the files it writes load back to that snapshot. *)
  Theorem C11_channels_same_snapshot :
    forall (w : world),
      (* live print_stats *)
      (forall o, print_stats text render bytes st get_stats w o = render (snap w) (opts_of (ChLive o)))
      (* kernprof -l -v [-u U] [-z] [-r]: the finally block *)
      /\ (forall f u z r,
             out (kernprof_finally text render bytes dump st get_stats f true u z r w)
             = OutText (render (snap w) (opts_of (ChKernprofView u z r))) :: OutMsg (MSG_WROTE) f :: out w
             /\ load_stats text bytes load st (kernprof_finally text render bytes dump st get_stats f true u z r w) f
                = Some (snap w))
      (* python -m line_profiler [-u U] [-z] [-r] [-t] [-m] file, for whatever the file loads to *)
      /\ (forall file u z r t m s,
             load_stats text bytes load st w file = Some s ->
             exists w', viewer text render bytes load st file u z r t m w = Some w'
                        /\ out w' = OutText (render s (opts_of (ChViewer u z r t m))) :: out w
                        /\ fs w' = fs w /\ prof w' = prof w)
      (* GlobalProfiler.show for every write_config and show_config *)
      /\ (forall wc sc a b c,
             a <> b -> a <> c -> b <> c ->
             let w' := explicit_show text render bytes dump st get_stats wc sc a b c w in
             out_texts text bytes st w'
             = opt_text text (wc_stdout wc) (render (snap w) (opts_of (ChExplicitStdout sc))) ++ out_texts text bytes st w
             /\ (wc_text wc = true -> lookup text bytes a (fs w') = Some (Txt (render (snap w) (opts_of (ChExplicitText sc)))))
             /\ (wc_ts wc = true -> lookup text bytes b (fs w') = Some (Txt (render (snap w) (opts_of (ChExplicitText sc)))))
             /\ (wc_lprof wc = true -> load_stats text bytes load st w' c = Some (snap w))).
  Proof. exact (channels_same_snapshot text render bytes dump load load_dump st get_stats). Qed.

  (* Over any history: whatever is on stdout, in a text file or in an .lprof file
     renders / pickles the snapshot taken at the moment of one of the calls... *)
  Theorem C11_history_snapshot_at_call :
    forall (xs : list (step st)) (w : world),
      fs w = [] -> out w = [] ->
      sound text render bytes dump st (at_call text render bytes dump load st get_stats xs w) (run xs w).
  Proof. exact (history_sound text render bytes dump load load_dump st get_stats). Qed.

  (* ...so with no profiled execution between the requests it is ONE snapshot. *)
  Theorem C11_history_same_snapshot :
    forall (xs : list (step st)) (w : world),
      fs w = [] -> out w = [] ->
      forallb (fun x => negb (is_exec st x)) xs = true ->
      sound text render bytes dump st (fun s => s = snap w) (run xs w)
      /\ forall b, In b (file_pickles text bytes st (run xs w)) -> load b = Some (snap w).
  Proof. exact (history_same_snapshot_full text render bytes dump load load_dump st get_stats). Qed.

  (* kernprof -v -u U -z [-r] prints exactly what python -m line_profiler -u U -z [-r]
     prints from the file that kernprof run wrote. *)
  Theorem C11_view_equals_viewer :
    forall f u z r (w : world),
      let w1 := kernprof_finally text render bytes dump st get_stats f true u z r w in
      exists w2, viewer text render bytes load st f u z r false false w1 = Some w2
                 /\ exists t, out w1 = OutText t :: OutMsg (MSG_WROTE) f :: out w
                              /\ out w2 = OutText t :: out w1.
  Proof. exact (view_equals_viewer text render bytes dump load load_dump st get_stats). Qed.

  (* Reading the texts back (parse o render = data_of: the content of C10, measured
     here by the tie): any two texts of a history without profiled execution carry the
     same rows for every function both show, the same totals, summary totals equal the
     detail rows' sum, and every row shown is a row of the snapshot. *)
  Variable parse : text -> report.
  Hypothesis parse_render : forall s o, wf s -> parse (render s o) = data_of s o.

  Theorem C11_channels_agree :
    forall (xs : list (step st)) (w : world) (t1 t2 : text),
      fs w = [] -> out w = [] ->
      forallb (fun x => negb (is_exec st x)) xs = true ->
      wf (snap w) ->
      let W := run xs w in
      In t1 (out_texts text bytes st W ++ file_texts text bytes st W) ->
      In t2 (out_texts text bytes st W ++ file_texts text bytes st W) ->
      (forall k r1 r2, In (k, r1) (rp_details (parse t1)) -> In (k, r2) (rp_details (parse t2)) -> r1 = r2)
      /\ (forall k a b, In (k, a) (rp_summary (parse t1)) -> In (k, b) (rp_summary (parse t2)) -> a = b)
      /\ (forall k a rs, In (k, a) (rp_summary (parse t1)) -> In (k, rs) (rp_details (parse t2)) -> a = total_time rs)
      /\ (forall k rs r, In (k, rs) (rp_details (parse t1)) -> In r rs ->
            exists rs0, In (k, rs0) (timings (snap w)) /\ In r rs0).
  Proof. exact (texts_agree text render bytes dump load load_dump st get_stats parse parse_render). Qed.
End C11.

(* Options only select and order (no world needed). *)
Theorem C11_options_select_and_order :
  forall s o k,
    (forall rs, In (k, rs) (rp_details (data_of s o)) <->
                exists rs0, In (k, rs0) (timings s) /\ rs = sort_rows rs0
                            /\ o_details o = true /\ detail_shown o (k, rs0) = true)
    /\ (forall t, In (k, t) (rp_summary (data_of s o)) <->
                  exists rs0, In (k, rs0) (timings s) /\ t = total_time rs0
                              /\ o_summarize o = true /\ summary_shown o (k, rs0) = true).
Proof. exact options_select_and_order. Qed.

(* kernprof's view and the viewer get the same keyword arguments, defaults included
   (both default -u to 1e-6); the explicit profiler's text differs from its stdout
   only by forcing details and dropping rich. *)
Theorem C11_option_mappings :
  (forall u z r, opts_of (ChKernprofView u z r) = opts_of (ChViewer u z r false false))
  /\ (forall z r, o_unit (opts_of (ChKernprofView None z r)) = Some unit_1e6
                  /\ forall t m, o_unit (opts_of (ChViewer None z r t m)) = Some unit_1e6)
  /\ (forall sc, o_details sc = true -> o_rich sc = false ->
                 opts_of (ChExplicitText sc) = opts_of (ChExplicitStdout sc))
  /\ (forall sc, o_details (opts_of (ChExplicitText sc)) = true /\ o_rich (opts_of (ChExplicitText sc)) = false).
Proof. exact option_mappings. Qed.

(* The hypotheses are satisfiable and the statements are about something: with
   text := the report itself, a history kernprof -v / viewer / explicit show /
   live print leaves 4 stdout texts, 2 text files, 2 pickles. *)
Theorem C11_nonvacuous :
  let render := data_of in
  let dump := fun s : snapshot => s in
  let load := fun s : snapshot => Some s in
  let get := fun s : snapshot => s in
  let w0 := World (text := report) (bytes := snapshot) ex_snap [] [] in
  let xs := [Kernprof 7 true None true false; View 7 None true false false false;
             Explicit (WC true true true true) default_show_config 8 9 10; Print default_opts] in
  let W := Channels.run report render snapshot dump load snapshot get xs w0 in
  (forall s, load (dump s) = Some s)
  /\ (forall s o, wf s -> (fun t => t) (render s o) = data_of s o)
  /\ wf ex_snap
  /\ length (out_texts report snapshot snapshot W) = 4%nat
  /\ length (file_texts report snapshot snapshot W) = 2%nat
  /\ length (file_pickles report snapshot snapshot W) = 2%nat
  /\ map fst (rp_details (data_of ex_snap (kernprof_view_opts None true false))) = [(2, 10, 1)]
  /\ map fst (rp_details (data_of ex_snap default_opts)) = [(1, 3, 2); (2, 10, 1)]
  /\ rp_summary (data_of ex_snap (explicit_stdout_opts default_show_config)) = [((2, 10, 1), 291700)].
Proof. exact channels_nonvacuous. Qed.
