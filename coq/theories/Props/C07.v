(* C07 - kernprof runs a program the way python itself would.
   Nothing but the statements; models in Cli/EnvModel.v, proofs in Cli/EnvProofs.v.

   `kern_run w o t args` is kernprof.main's set-up read statement by statement
   (argv rewrite, sys.path insertions, find_script / find_module_script, setup
   file, exec namespace) as a trace of effects; `py_script_obs` / `py_module_obs`
   are the SPECIFICATION: what CPython 3.12 hands to `python f args` and
   `python -m M args`.  Both are compared with the real programs on every run.

   Normalisation, stated once: `absolutize cwd p` = normpath(join(cwd, p)) on
   component lists, cwd being the launch directory.  It is applied to __file__
   (kernprof leaves the spelling as typed, python makes it absolute without
   normalising) and to sys.path[0] (kernprof inserts dirname(script), "" for a
   bare file name; python inserts the absolute directory).  sys.argv[1:],
   __name__ and the working directory are compared literally; sys.argv[0] is
   compared literally when the script was named by a path, and through
   kernprof's own lookup when it was found on PATH (python cannot be given a bare
   name to look up, the reference run is `python <located file>`).

   Not modelled (assumptions of the tie): symbolic links, a setup file that
   changes directory / argv / sys.path, and what sits behind sys.path[0]. *)
From LP Require Import Prelude.Py Cli.EnvModel Cli.EnvProofs.

(* Script mode, every option record (-l -b -v -z --prof-imports -u -o -s -i -p),
   every spelling of an existing script (relative, absolute, with "." / ".."
   components, or a bare name that only a PATH directory holds) and every
   argument list. *)
Theorem C07_env_equal_script :
  forall (w : world) (o : opts) (s : path) (args : list string) (f : path),
    p_abs (w_cwd w) = true ->
    find_script w s = Some f ->            (* the script exists: as named, or on PATH *)
    setup_found w o ->                     (* -s absent or naming an existing file *)
    regular (basename s) = true ->         (* the name ends in a file name, not in "", "." or ".." *)
    exists tr po,
      kern_run w o (TScript s) args = Some tr /\ program_obs tr = Some po /\
      let py := py_script_obs w f args in
      ob_args po = ob_args py /\ ob_name po = ob_name py /\ ob_cwd po = ob_cwd py
      /\ absolutize (w_cwd w) (ob_file po) = absolutize (w_cwd w) (ob_file py)
      /\ absolutize (w_cwd w) (ob_path0 po) = ob_path0 py
      /\ ob_argv0 po = s
      /\ find_script w (ob_argv0 po) = Some (ob_argv0 py)
      /\ (isfile w s = true -> ob_argv0 po = ob_argv0 py).
Proof. exact env_equal_script. Qed.

(* hypotheses are satisfiable: a PATH lookup through a relative PATH entry with a
   setup file in another directory, and a spelling with ".." *)
Theorem C07_env_script_nonvacuous :
  p_abs (w_cwd w_ex) = true
  /\ find_script w_ex (rel ["tool"]) = Some (rel ["bin"; "tool"])
  /\ isfile w_ex (rel ["tool"]) = false
  /\ setup_found w_ex o_setup_sub
  /\ regular (basename (rel ["tool"])) = true
  /\ find_script w_ex (rel ["sub"; ".."; "prog.py"]) = Some (rel ["sub"; ".."; "prog.py"])
  /\ kern_obs w_ex o_setup_sub (TScript (rel ["tool"])) ["x"]
     = Some (mkobs (rel ["tool"]) ["x"] "__main__" (rel ["bin"; "tool"]) (rel ["bin"]) (mkpath true ["p"])).
Proof. exact env_script_nonvacuous. Qed.

(* Module mode: the full statement (observed tuple equal to `python -m`'s) is
   FALSE of the faithful model in two ways, recorded below; what holds is
   everything but sys.argv[0], when there is no setup file or it lies in the
   launch directory. *)
Theorem C07_env_module_but_argv0_partial :
  forall (w : world) (o : opts) (m args : list string) (pp : obs),
    p_abs (w_cwd w) = true ->
    normcomps true (p_comps (w_cwd w)) = p_comps (w_cwd w) ->   (* getcwd() is normalised *)
    setup_in_cwd w o ->
    py_module_obs w m args = Some pp ->                         (* python -m finds the module *)
    exists tr po,
      kern_run w o (TModule m) args = Some tr /\ program_obs tr = Some po /\
      ob_args po = ob_args pp /\ ob_name po = ob_name pp /\ ob_cwd po = ob_cwd pp
      /\ absolutize (w_cwd w) (ob_file po) = absolutize (w_cwd w) (ob_file pp)
      /\ absolutize (w_cwd w) (ob_path0 po) = ob_path0 pp
      /\ ob_argv0 po = rel [join "." m]
      /\ ob_argv0 pp = ob_file pp.
Proof. exact env_module_but_argv0. Qed.

Theorem C07_env_module_nonvacuous :
  normcomps true (p_comps (w_cwd w_ex)) = p_comps (w_cwd w_ex)
  /\ setup_in_cwd w_ex o_setup_here
  /\ py_module_obs w_ex ["prog"] ["a"]
     = Some (mkobs (mkpath true ["p"; "prog.py"]) ["a"] "__main__" (mkpath true ["p"; "prog.py"])
                   (mkpath true ["p"]) (mkpath true ["p"])).
Proof. exact env_module_nonvacuous. Qed.

(* FINDING (pinned by the repository's own tests, recorded not repaired):
   `kernprof -m mod`: sys.argv[0] is the module name, python gives the file. *)
Theorem C07_argv0_module_refuted :
  exists w o m args po pp,
    kern_obs w o (TModule m) args = Some po /\ py_module_obs w m args = Some pp /\
    obs_equiv_but_argv0 w po pp = true /\
    argv0_equiv w po pp = false /\
    absolutize (w_cwd w) (ob_argv0 po) <> absolutize (w_cwd w) (ob_argv0 pp).
Proof. exact argv0_module_refuted. Qed.

(* FINDING: `kernprof -s other/dir/setup.py -m mod`: sys.path[0] of the program is
   the setup file's directory, not the launch directory. *)
Theorem C07_path0_module_setup_elsewhere_refuted :
  exists w o m args po pp,
    kern_obs w o (TModule m) args = Some po /\ py_module_obs w m args = Some pp /\
    absolutize (w_cwd w) (ob_path0 po) <> ob_path0 pp.
Proof. exact path0_module_setup_elsewhere_refuted. Qed.

(* The setup file: executed exactly once, before any profiler exists, is
   installed (global @profile, builtins) or runs, before the program, with its own
   __file__ and __name__ == '__main__'; never executed when -s is absent. *)
Theorem C07_setup_once_first_unprofiled :
  forall (w : world) (o : opts) (t : target) (args : list string) (tr : list event),
    kern_run w o t args = Some tr ->
    match o.(o_setup) with
    | None => count_ev is_setup tr = 0
    | Some s =>
        count_ev is_setup tr = 1 /\ setup_first tr = true /\
        exists f, find_script w s = Some f /\
          setup_obs tr = Some (mkobs (argv0_of t) args "__main__" f (dirname f) (w_cwd w))
    end.
Proof. exact setup_once_first_unprofiled. Qed.

Theorem C07_setup_nonvacuous :
  exists tr, kern_run w_ex o_setup_sub (TScript (rel ["prog.py"])) [] = Some tr
             /\ setup_first tr = true /\ count_ev is_setup tr = 1.
Proof. exact setup_nonvacuous. Qed.

(* "kernprof terminates promptly": for every option record - with or without -i -,
   target, argument list and EVERY behaviour of the timer threads, both while the
   program runs (`during`) and after main has stopped the timer (`after`) - complete
   firings, firings whose dump is still in flight when the program ends, dumps
   returning late - no threading.Timer of a RepeatedTimer is pending once main has
   returned and the dumps in flight have finished.  Rests on _run re-arming the
   timer BEFORE the dump (order_in_code = RearmFirst, tied by the in-process run with
   a blocked dump) and on the single construction (fix 204c2e5). *)
Theorem C07_no_helper_thread_after_run :
  forall w o t args tr (during after : list thop),
    kern_run w o t args = Some tr -> live_after_main order_in_code during after tr = 0%nat.
Proof. exact no_helper_thread_after_run. Qed.

(* -i really creates a timer; a firing whose dump is in flight at the stop is covered *)
Theorem C07_timer_nonvacuous :
  exists tr, kern_run w_ex o_interval1 (TScript (rel ["prog.py"])) [] = Some tr
             /\ timer_ops [HFire 0; HFireStart 0] tr = [TCreate; TThread (HFire 0); TThread (HFireStart 0); TStopRt]
             /\ live_threads RearmFirst (trun RearmFirst [TCreate; TThread (HFire 0); TThread (HFireStart 0)]) = 1%nat
             /\ live_after_main order_in_code [HFire 0; HFireStart 0] [HDumpEnd 0] tr = 0%nat.
Proof. exact timer_nonvacuous. Qed.

(* the bookkeeping itself, for every interleaving of the timer threads with the stop *)
Theorem C07_single_timer_stops :
  forall during after : list thop,
    live_threads RearmFirst (trun RearmFirst ([TCreate] ++ map TThread during ++ [TStopRt] ++ map TThread after)) = 0%nat.
Proof. exact single_timer_stops. Qed.

(* the order matters: dumping before re-arming leaves a Timer behind exactly when the
   program ends while a dump is in flight (stop() cancels a Timer that has fired) *)
Theorem C07_dump_before_rearm_would_leak :
  live_threads DumpFirst (trun DumpFirst [TCreate; TThread (HFireStart 0); TStopRt; TThread (HDumpEnd 0)]) = 1%nat
  /\ live_threads DumpFirst (trun DumpFirst [TCreate; TThread (HFireStart 0); TStopRt]) = 1%nat
  /\ live_threads DumpFirst (trun DumpFirst [TCreate; TThread (HFire 0); TThread (HFire 0); TStopRt]) = 0%nat.
Proof. exact dump_first_leaks. Qed.

(* and so did the former double construction *)
Theorem C07_double_creation_would_leak :
  live_threads RearmFirst (trun RearmFirst [TCreate; TCreate; TThread (HFire 0); TThread (HFire 1); TStopRt]) = 1%nat
  /\ live_threads RearmFirst (trun RearmFirst [TCreate; TCreate; TStopRt]) = 1%nat.
Proof. exact double_creation_leaks. Qed.
