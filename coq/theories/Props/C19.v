(* C19 - running kernprof in-process leaves the interpreter as it found it.
   Nothing but the statements; the model is Cli/MainEffects.v (kernprof.main as an effect
   program over sys.argv / sys.path as references to list objects, the global `profile`
   object driven through the translated _kernprof_overwrite / __call__, builtins.profile,
   timer threads, the trace slot), the proofs are in Cli/MainEffectsProofs.v.

   The full statement is
       C19_statement cfg :=
         forall s rs, usable (gp s) = true -> restored s (exec_runs cfg s rs) = true
   (all interpreter states s whose decorator is usable, all sequences rs of runs = option
   sets x program behaviours; restored = argv contents, path contents, decorator usable
   and as found / undecided, no profiler enabled, no timer thread left).

   [current] (Cli/MainEffects.v) is the behaviour of the tree as it is.  C19_statement
   current is FALSE in four independent ways (the *_refuted theorems, each with the
   exact wrong state); C19_restores_partial says what does hold; C19_restores_if_fixed
   says that the four small repairs make the full statement true.

   WHEN /repo IS REPAIRED: flip the corresponding booleans of [current] in
   Cli/MainEffects.v (one line); the *_refuted lemmas of the repaired clauses (PART B below,
   Cli/MainEffectsRefuted.v) then stop compiling - delete them; when all four are repaired
   delete PART B and the import of Cli.MainEffectsRefuted altogether and enable the theorem
   in the comment at the end of this file.  harness/props/c19.py reads the list of
   obligations from this file, nothing else has to change. *)
From LP Require Import Prelude.Py Explicit.Base Gen.GlobalProfiler Cli.MainEffects Cli.MainEffectsProofs.
From LP Require Import Cli.MainEffectsRefuted.

(* ======================= PART A: holds whatever [current] is ============================= *)


(* What does hold of the tree as it is, for all states and all sequences of runs:
   - no profiler is left enabled;
   - sys.path has its previous contents provided sys.path is still the list object kernprof
     saw when it was imported and no run ended with main raising ([no_exception]: along the
     execution, because a stale builtins.profile left by an earlier run can make a later
     plain-cProfile run raise although its program would not);
   - no timer thread is left provided no run used -i N with N > 0.
   (Nothing holds for sys.argv or for the global decorator: see above.) *)
Theorem C19_restores_partial :
  forall s rs,
    tracing_ok s (exec_runs current s rs) = true
    /\ (ref (path s) = cap (path s) -> no_exception current s rs = true -> path_ok s (exec_runs current s rs) = true)
    /\ (no_interval rs = true -> timers_ok s (exec_runs current s rs) = true).
Proof. exact (restores_partial current). Qed.

(* The four repairs (decorators that look the list up at call time, put the name back and
   write back in a finally; main restoring the decorator's state; one timer) make the full
   statement true - for all states, option sets, outcomes and sequences of runs. *)
Theorem C19_restores_if_fixed :
  forall cfg, fx_at_call cfg = true -> fx_finally cfg = true -> fx_profile cfg = true -> fx_timer cfg = true ->
              C19_statement cfg.
Proof. exact restores_if_fixed. Qed.

(* the smaller repair of sys.argv (`sys.argv[:] = ...`) suffices when nobody rebound
   sys.argv / sys.path between kernprof's import and the call *)
Theorem C19_restores_if_fixed_inplace :
  forall cfg s rs,
    fx_argv_inplace cfg = true -> fx_finally cfg = true -> fx_profile cfg = true -> fx_timer cfg = true ->
    ref (argv s) = cap (argv s) -> ref (path s) = cap (path s) -> usable (gp s) = true ->
    restored s (exec_runs cfg s rs) = true.
Proof. exact restores_if_fixed_inplace. Qed.

(* profile(f) raises iff the object is "enabled" without a profiler, in every world *)
Theorem C19_usable_meaning :
  forall g environ av f, (exists e, decorate g environ av f = Err e) <-> usable g = false.
Proof. exact decorate_raises_iff. Qed.

Theorem C19_nonvacuous :
  usable (gp st0) = true /\ ref (path st0) = cap (path st0)
  /\ no_exception current st0 [(opts0, returns); (opts_module, mkProg SysExit true true true)] = true
  /\ path_ok st0 (exec_runs current st0 [(opts0, returns); (opts_module, mkProg SysExit true true true)]) = true
  /\ no_interval [(opts0, raises)] = true
  /\ restored st0 (exec_runs all_fixed st0 [(opts0, returns); (opts0, raises); (opts_timed, returns);
                                            (opts_module, mkProg Exc true true true)]) = true
  /\ cur (path (snd (main_body current opts_module (mkProg Return true false true) st0)))
     = ["/T/setupd"; "/T"; "/lib"; "/prog-added"]
  /\ cur (argv (snd (main_body current opts_module (mkProg Return false true true) st0))) = ["mod"; "x"; "prog-added"].
Proof. exact nonvacuous. Qed.

(* ======================= PART B: the tree as it is violates C19 ========================== *)

(* sys.argv is rebound by main; the decorator restores the list object it captured at
   import, not the name: after a run that RETURNS, sys.argv is [script] + args. *)
Theorem C19_argv_refuted :
  exists s o p, usable (gp s) = true /\ fst (main current o p s) = Returned
                /\ argv_ok s (snd (main current o p s)) = false
                /\ cur (argv (snd (main current o p s))) = o_new_argv o.
Proof. exact argv_refuted. Qed.

(* the restoring decorator has no `finally`: when the program raises, sys.path keeps the
   inserted script directory (although sys.path is still the very object kernprof captured) *)
Theorem C19_path_on_exception_refuted :
  exists s o p, usable (gp s) = true /\ ref (path s) = cap (path s) /\ p_outcome p = Exc
                /\ fst (main current o p s) = Raised
                /\ path_ok s (snd (main current o p s)) = false
                /\ cur (path (snd (main current o p s))) = o_script_dir o :: cur (path s).
Proof. exact path_on_exception_refuted. Qed.

(* install_profiler(None) leaves the global decorator enabled=True, _profile=None:
   the next @profile raises TypeError (translated __call__) *)
Theorem C19_profile_unusable_refuted :
  exists s o p, usable (gp s) = true /\ undecided (gp s) = true
                /\ profile_ok s (snd (main current o p s)) = false
                /\ f_enabled (gp (snd (main current o p s))) = Some true
                /\ f_profile (gp (snd (main current o p s))) = None
                /\ decorate (gp (snd (main current o p s))) (fun _ => None) [] (Fn 0) = Err TypeError.
Proof. exact profile_unusable_refuted. Qed.

(* -i N: two RepeatedTimers are started, one is stopped *)
Theorem C19_timer_leak_refuted :
  exists s o p, usable (gp s) = true /\ 0 < o_interval o
                /\ timers_ok s (snd (main current o p s)) = false
                /\ timers (snd (main current o p s)) = timers s + 1.
Proof. exact timer_leak_refuted. Qed.

Theorem C19_restores_refuted : ~ C19_statement current.
Proof. exact statement_refuted. Qed.

(* not accidents of the witnesses: in the tree as it is EVERY non-empty sequence of runs
   leaves the decorator unusable, and EVERY run with -i N > 0 leaks one timer *)
Theorem C19_every_run_breaks_profile :
  forall s rs, fx_profile current = false -> rs <> [] -> usable (gp (exec_runs current s rs)) = false.
Proof. exact every_run_breaks_profile. Qed.

Theorem C19_every_timed_run_leaks :
  forall s o p, fx_timer current = false -> 0 < o_interval o ->
                timers (snd (main current o p s)) = timers s + 1.
Proof. exact every_timed_run_leaks. Qed.

(* AFTER THE REPAIR (all four flags of [current] true), replace the *_refuted,
   C19_every_* theorems by:

Theorem C19_restores : C19_statement current.
Proof. exact (restores_if_fixed current eq_refl eq_refl eq_refl eq_refl). Qed.
*)
