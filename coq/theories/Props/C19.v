(* C19 - running kernprof in-process leaves the interpreter as it found it.
   Nothing but the statements; the model is Cli/MainEffects.v (kernprof.main as an effect
   program over sys.argv / sys.path as references to list objects, the global `profile`
   object driven through the translated _kernprof_overwrite / __call__, builtins.profile,
   timer threads, the trace slot), the proofs are in Cli/MainEffectsProofs.v.

   The full statement is
       C19_statement cfg :=
         forall s rs, usable (gp s) = true -> setup_silent rs = true -> restored s (exec_runs cfg s rs) = true
   - all interpreter states s whose decorator is usable, all sequences rs of runs = option sets
     (including an output file that cannot be written, a closed stdout, a script that does not
     exist) x program behaviours (return, sys.exit, KeyboardInterrupt, exception; editing or
     rebinding sys.path / sys.argv; driving the builtin profile itself; the periodic-dump timer
     firing at any moment; picking up a stale builtins.profile);
   - restored = sys.argv contents, sys.path contents, decorator usable and with the decision
     and profiler it was found with, no profiler enabled, no timer thread left.

   [current] (Cli/MainEffects.v) is the tree as it is now, after the repairs 204c2e5, d567ae1,
   f436ae3, 2d3e878, a77d816, fcd15c8, 5d3505e; [unrepaired] is the tree before them.

   The full statement is FALSE of [current] in three ways, each with the exact wrong state:
     C19_profile_kept_when_script_missing_refuted  main(['-l', 'missing.py']): SystemExit leaves main
         after the decorator (and builtins.profile) were taken over and before the try/finally;
     C19_monitoring_id_kept_refuted   -l, program `profile.enable(); sys.settrace(None)`: the guard
         `sys.gettrace() is prof` of fcd15c8 is false, the sys.monitoring id stays claimed;
     C19_cprofile_left_on_refuted     -b, program leaves profile.enable() open AND the output file
         cannot be opened: dump_stats() fails before create_stats() switched cProfile off.
   C19_restores_partial: argv, path and threads are as found ALWAYS; the decorator when every
   script exists; everything when moreover no run leaks ([no_leak current], characterised by
   C19_current_leaks_iff).  C19_restores_if_fixed: with every repair the full statement holds;
   each repair is necessary (the C19_..._needs_... theorems).  builtins.profile staying behind
   is not part of the statement; it is modelled and compared ([effective_outcome]).

   WHEN THESE ARE REPAIRED: set fx_missing / fx_untraced / fx_cprofile_off in [current]; the
   corresponding *_refuted theorem (an instance of a general needs-lemma at [current]) stops
   compiling - delete it; when all three are set also delete C19_restores_refuted and
   C19_current_leaks_iff (lemmas current_refuted, current_leaks_iff) and state
   `C19_restores : C19_statement current` by `exact (restores_if_fixed current eq_refl)`. *)
From LP Require Import Prelude.Py Explicit.Base Gen.GlobalProfiler Cli.MainEffects Cli.MainEffectsProofs.

(* ---- the tree as it is ---------------------------------------------------------------------- *)
Theorem C19_profile_kept_when_script_missing_refuted :
  exists s o p, usable (gp s) = true /\ undecided (gp s) = true /\ o_script_missing o = true
                /\ fst (main current o p s) = Raised
                /\ profile_ok s (snd (main current o p s)) = false
                /\ gp (snd (main current o p s)) = mkGP (Some true) (Some (Ext (next_prof s))) "profile_output" 0 0.
Proof. exact (missing_script_needs_handback current eq_refl). Qed.

Theorem C19_monitoring_id_kept_refuted :
  exists s o p, usable (gp s) = true /\ tracing s = None /\ p_leaves p = LEnableUntraced /\ o_line o = true
                /\ fst (main current o p s) = Returned
                /\ tracing_ok s (snd (main current o p s)) = false.
Proof. exact (untraced_enable_needs_release current eq_refl). Qed.

Theorem C19_cprofile_left_on_refuted :
  exists s o p, usable (gp s) = true /\ tracing s = None /\ p_leaves p = LEnable /\ o_line o = false
                /\ o_builtin o = true /\ o_dump_fails o = true
                /\ tracing_ok s (snd (main current o p s)) = false.
Proof. exact (cprofile_needs_explicit_off current eq_refl). Qed.

Theorem C19_restores_refuted : ~ C19_statement current.
Proof. exact current_refuted. Qed.

(* exactly which runs leave a profiler on *)
Theorem C19_current_leaks_iff :
  forall o p, leaks current o p
  = ran o && (if o_line o then match p_leaves p with LEnableUntraced => true | _ => false end
              else o_builtin o && match p_leaves p with LNone => false | _ => o_dump_fails o end).
Proof. exact current_leaks_iff. Qed.

(* What holds, for all interpreter states with a usable decorator and all sequences of runs (any
   options - also results that cannot be written or shown -, outcomes, timer schedules, rebinding
   programs, registrations): argv, path and threads are as found ALWAYS; the decorator is as found
   when every script / module exists; everything is when moreover no run leaks. *)
Theorem C19_restores_partial :
  forall s rs, usable (gp s) = true -> setup_silent rs = true ->
    argv_ok s (exec_runs current s rs) = true /\ path_ok s (exec_runs current s rs) = true
    /\ timers_ok s (exec_runs current s rs) = true
    /\ (scripts_found rs = true -> profile_ok s (exec_runs current s rs) = true)
    /\ (scripts_found rs = true -> no_leak current rs = true -> restored s (exec_runs current s rs) = true).
Proof. exact restores_current_partial. Qed.

(* "... sequences of several in-process runs followed by ordinary use of the profile decorator":
   interleave kernprof.main runs (ARun) with enable() / disable() / decorations of
   line_profiler.profile (AUse) in any way - argv, path, trace slot and threads end as they
   started, and the whole decorator object ends exactly as the ordinary uses ALONE would have
   left it ([user_gp]: the host's uses, and the uses made by the runs' -s setup files).
   [no_leaking_act current]: no run leaks or names a missing script. *)
Theorem C19_runs_invisible_partial :
  forall acts s, no_leaking_act current acts = true ->
                 veq (exec_acts current s acts) (set_gp (user_gp acts (cur (argv s)) (gp s)) s).
Proof. exact runs_invisible_current. Qed.

(* the decorator object and sys.argv only need the scripts to exist - whether a run's results
   could be written or not (5d3505e), whether a profiler leaked or not *)
Theorem C19_decorator_after_runs_partial :
  forall acts s, acts_found acts = true ->
                 gp (exec_acts current s acts) = user_gp acts (cur (argv s)) (gp s)
                 /\ cur (argv (exec_acts current s acts)) = cur (argv s).
Proof. exact decorator_under_kernprof. Qed.

(* a main with every repair satisfies C19 *)
Theorem C19_restores_if_fixed : forall cfg, all_repaired cfg = true -> C19_statement cfg.
Proof. exact restores_if_fixed. Qed.

(* ---- each repair is necessary ---------------------------------------------------------------- *)
(* a main that rebinds sys.argv under decorators that captured the list at import leaves
   sys.argv = [script] + args after a run that RETURNS *)
Theorem C19_argv_needs_call_time_lookup :
  forall cfg, fx_at_call cfg = false -> fx_argv_inplace cfg = false ->
  exists s o p, usable (gp s) = true /\ fst (main cfg o p s) = Returned
                /\ argv_ok s (snd (main cfg o p s)) = false
                /\ cur (argv (snd (main cfg o p s))) = o_new_argv o.
Proof. exact argv_needs_repair. Qed.

(* without the `finally`, a raising program leaves the inserted script directory in sys.path *)
Theorem C19_path_needs_finally :
  forall cfg, fx_finally cfg = false ->
  exists s o p, usable (gp s) = true /\ ref (path s) = cap (path s) /\ p_outcome p = Exc
                /\ fst (main cfg o p s) = Raised
                /\ path_ok s (snd (main cfg o p s)) = false
                /\ cur (path (snd (main cfg o p s))) = o_script_dir o :: cur (path s).
Proof. exact path_needs_finally. Qed.

(* with install_profiler(None) instead of handing the state back, the next @profile raises *)
Theorem C19_profile_needs_state_handback :
  forall cfg, fx_profile cfg = false ->
  exists s o p, usable (gp s) = true /\ undecided (gp s) = true
                /\ profile_ok s (snd (main cfg o p s)) = false
                /\ decorate (gp (snd (main cfg o p s))) (fun _ => None) [] (Fn 0) = Err TypeError.
Proof. exact profile_needs_repair. Qed.

(* with the timer created twice, -i N leaks one *)
Theorem C19_timer_needs_single_creation :
  forall cfg, fx_timer cfg = false ->
  exists s o p, usable (gp s) = true /\ 0 < o_interval o
                /\ timers_ok s (snd (main cfg o p s)) = false
                /\ timers (snd (main cfg o p s)) = timers s + 1.
Proof. exact timer_needs_repair. Qed.

(* as long as the registrations' enable_by_count() is not balanced, one matched import suffices *)
Theorem C19_autoprofile_needs_balance :
  forall cfg, fx_autoprof cfg = false ->
  exists s o p, usable (gp s) = true /\ tracing s = None /\ registers o p = true
                /\ fst (main cfg o p s) = Returned
                /\ tracing_ok s (snd (main cfg o p s)) = false
                /\ tracing (snd (main cfg o p s)) = Some (Ext (next_prof s)).
Proof. exact autoprof_needs_balance. Qed.

Theorem C19_direct_enable_needs_disable :
  forall cfg, fx_direct_enable cfg = false ->
  exists s o p, usable (gp s) = true /\ tracing s = None /\ p_leaves p = LEnable /\ o_line o = true
                /\ fst (main cfg o p s) = Returned
                /\ tracing_ok s (snd (main cfg o p s)) = false
                /\ tracing (snd (main cfg o p s)) = Some (Ext (next_prof s)).
Proof. exact direct_enable_needs_disable. Qed.

(* the hand-back must come BEFORE the results are written / shown (5d3505e): with an output file
   that cannot be opened main raises out of its finally and the decorator stays taken over *)
Theorem C19_profile_needs_early_handback :
  forall cfg, fx_profile_first cfg = false -> fx_profile cfg = true ->
  exists s o p, usable (gp s) = true /\ undecided (gp s) = true /\ o_dump_fails o = true
                /\ fst (main cfg o p s) = Raised
                /\ profile_ok s (snd (main cfg o p s)) = false
                /\ gp (snd (main cfg o p s)) = mkGP (Some true) (Some (Ext (next_prof s))) "profile_output" 0 0.
Proof. exact profile_needs_early_handback. Qed.

Theorem C19_missing_script_needs_handback :
  forall cfg, fx_missing cfg = false ->
  exists s o p, usable (gp s) = true /\ undecided (gp s) = true /\ o_script_missing o = true
                /\ fst (main cfg o p s) = Raised
                /\ profile_ok s (snd (main cfg o p s)) = false
                /\ gp (snd (main cfg o p s)) = mkGP (Some true) (Some (Ext (next_prof s))) "profile_output" 0 0.
Proof. exact missing_script_needs_handback. Qed.

Theorem C19_untraced_enable_needs_release :
  forall cfg, fx_untraced cfg = false ->
  exists s o p, usable (gp s) = true /\ tracing s = None /\ p_leaves p = LEnableUntraced /\ o_line o = true
                /\ fst (main cfg o p s) = Returned
                /\ tracing_ok s (snd (main cfg o p s)) = false.
Proof. exact untraced_enable_needs_release. Qed.

Theorem C19_cprofile_needs_explicit_off :
  forall cfg, fx_cprofile_off cfg = false ->
  exists s o p, usable (gp s) = true /\ tracing s = None /\ p_leaves p = LEnable /\ o_line o = false
                /\ o_builtin o = true /\ o_dump_fails o = true
                /\ tracing_ok s (snd (main cfg o p s)) = false.
Proof. exact cprofile_needs_explicit_off. Qed.

(* ---- the periodic-dump timer (-i N), with stop() falling anywhere - also into a dump ------------ *)
(* Whatever the timer did before rt.stop() (expiries, dumps started and finished, in any
   interleaving) and whatever happens afterwards: no timer is armed, none can be armed again,
   and when the dumps in progress have returned no helper thread is left.  (the theorems above use
   this for every program: Prog.p_sched is universally quantified there.) *)
Theorem C19_timer_stop_final :
  forall pre post : list tevent,
    let t := rt_exec rearm_before_dump rt_init (pre ++ Stop :: post) in
    rt_armed t = O /\ rt_running t = false
    /\ rt_threads (rt_exec rearm_before_dump t (repeat DumpDone (rt_dumping t))) = O.
Proof. exact rt_stop_final. Qed.

(* the timer exists for ANY non-zero -i value (`if options.output_interval:`; a negative one is clamped to
   1 s) and the same test guards rt.stop(): nothing is left for -i -2 either *)
Theorem C19_negative_interval_timer_stopped :
  timed opts_negative = true
  /\ timers (snd (main current opts_negative returns st0)) = timers st0
  /\ timers (snd (main unrepaired opts_negative returns st0)) = timers st0 + 1.
Proof. exact negative_interval_timer. Qed.

(* ... and this depends on _run re-arming BEFORE it dumps: with the other order a stop() that
   falls into a dump is undone when the dump returns *)
Theorem C19_timer_needs_rearm_before_dump :
  rt_leftover false [Fire] = 1%nat
  /\ rt_armed (rt_exec false rt_init [Fire; Stop; DumpDone]) = 1%nat
  /\ rt_leftover false [] = O /\ rt_leftover false [Fire; DumpDone] = O.
Proof. exact rt_dump_first_leaks. Qed.

(* ... and a leaked profiler makes the next in-process run raise (before a77d816) *)
Theorem C19_leak_broke_next_run :
  fst (main unrepaired opts0 returns (snd (main unrepaired opts0 registering st0))) = Raised
  /\ fst (main unrepaired opts0 returns st0) = Returned.
Proof. exact leak_breaks_next_run_unrepaired. Qed.

Theorem C19_direct_enable_broke_next_run :
  fst (main unrepaired opts0 returns (snd (main unrepaired opts0 enabling st0))) = Raised.
Proof. exact direct_enable_broke_next_run. Qed.

Theorem C19_unrepaired_refuted : ~ C19_statement unrepaired.
Proof. exact unrepaired_refuted. Qed.

(* profile(f) raises iff the object is "enabled" without a profiler, in every world *)
Theorem C19_usable_meaning :
  forall g environ av f, (exists e, decorate g environ av f = Err e) <-> usable g = false.
Proof. exact decorate_raises_iff. Qed.

Theorem C19_nonvacuous :
  usable (gp st0) = true
  /\ restored st0 (exec_runs current st0 [(opts0, returns); (opts0, raises); (opts_timed, returns);
                                           (opts_module, mkProg Exc true true true true true LByCount 0 [Fire; Fire; DumpDone])]) = true
  /\ restored st0 (exec_runs unrepaired st0 [(opts0, returns)]) = false
  /\ fst (main current opts0 raises st0) = Raised
  /\ cur (path (snd (main_body current opts_module (mkProg Return true false true false true LNone 0 []) st0)))
     = ["/T/setupd"; "/T"; "/lib"; "/prog-added"; "/prog-rebound"]
  /\ cur (argv (snd (main_body current opts_module (mkProg Return false true false true true LNone 0 []) st0))) = ["mod"; "x"; "prog-added"; "prog-rebound"].
Proof. exact nonvacuous. Qed.
