(* C08 - Auto-profiling rewrites only add hooks; the program behaves the same.
   Nothing but the statements; proofs live in Ast/{TransformFacts,Behaviour,PropFacts}.v.

   [transform c body] is AstTree(Module)Profiler.profile() on the parsed file [body];
   [pre c body] is the reference program t': [body] itself in script mode, [body] with the
   relative imports made absolute (by the translated get_module_from_importfrom, which
   C17 proves equal to importlib's resolution) in -m mode. *)
From LP Require Import Prelude.Py Gen.RelImport
     Ast.AstLite Ast.AuxStr Ast.Select Ast.Transform Ast.TransformFacts Ast.Behaviour Ast.PropFacts.

(* Erasing what auto-profiling can add (`profile` decorators, registration statements) from
   the rewritten tree gives the erased reference program - for ALL trees and configurations;
   on a program that does not itself use `profile` it gives back the program itself. *)
Theorem C08_erasure :
  forall c body t',
    transform c body = Ok t' ->
    erase t' = erase (pre c body) /\ (clean (pre c body) = true -> erase t' = pre c body).
Proof. exact erasure. Qed.

Theorem C08_reference_program :
  (forall c body, c_module c = None -> pre c body = body)
  /\ (forall c m body, c_module c = Some m -> pre c body = absolutize m body).
Proof. split; [exact pre_script|exact pre_module]. Qed.

(* every original statement keeps its line number (line numbers of all statements other than
   registration calls, at any depth, in source order) *)
Theorem C08_lines_preserved :
  forall c body t', transform c body = Ok t' -> lines t' = lines body.
Proof. exact lines_transform. Qed.

(* function headers, at any depth and in order: untouched unless the script is selected, in
   which case `profile` is appended last iff it is not already there; on a clean program that
   is exactly one `profile`, innermost *)
Theorem C08_decorator_innermost_once :
  forall c body t',
    transform c body = Ok t' ->
    funcs t' = (if c_full c then map deco_once (funcs (pre c body)) else funcs (pre c body))
    /\ (forall f, fh_decos (deco_once f)
                  = if has_profile (fh_decos f) then fh_decos f else fh_decos f ++ [DName profile_name])
    /\ (c_full c = true -> clean (pre c body) = true ->
        forall f, In f (funcs t') -> once_innermost f = true).
Proof. exact decorator_innermost_once. Qed.

(* the rewrite is defined for every program except one with a top-level `from . import x`
   seen by the extractor, where it raises TypeError before anything runs *)
Theorem C08_rewrite_defined :
  forall c body,
    (no_bare_relative (pre c body) = true -> exists t', transform c body = Ok t')
    /\ (no_bare_relative (pre c body) = false -> transform c body = Err TypeError).
Proof. exact rewrite_defined. Qed.

(* C08_inserted_nodes_located: "each inserted statement carries the line number of the import
   it follows" is FALSE of the faithful model: inserted nodes have no location and
   fix_missing_locations gives them the line of the enclosing parent - the `def` line for an
   import inside a function, line 1 at module level.  (Replayed on the implementation:
   findings/C08-inserted-nodes-wrong-line.json.) *)
Theorem C08_inserted_nodes_located_refuted : ~ located_statement.
Proof. exact located_refuted. Qed.

Theorem C08_inserted_located_witnesses :
  transform loc_cfg loc_body_fn
  = Ok [FuncDef false "f" [DName "profile"] [Import [("os", None)] 2; ProfCall "os" (Some 1)] 1]
  /\ transform (Build_cfg false false None ["pkg"]) loc_body_mod
     = Ok [Other 0 1; Import [("pkg", None)] 2; ProfCall "pkg" (Some 1)]
  /\ located loc_body_fn = true /\ located loc_body_mod = true.
Proof. exact located_witnesses. Qed.

(* syntactic validity is not preserved: a registration statement lands between two
   `from __future__ import` statements (--prof-imports) ... *)
Theorem C08_future_placement_refuted : ~ future_statement.
Proof. exact future_refuted. Qed.

(* ... and a star import (from x import STAR) gets a registration call whose argument is the
   name STAR = "*", which is not an expression (NameError at run time),
   with --prof-imports and also when x is selected with plain -p *)
Theorem C08_star_registration_refuted :
  ~ star_statement
  /\ transform loc_cfg [ImportFrom (Some "os") [("*", None)] 0 1]
     = Ok [ImportFrom (Some "os") [("*", None)] 0 1; ProfCall "*" (Some 1)]
  /\ transform (Build_cfg false false None ["pkg"]) [ImportFrom (Some "pkg") [("*", None)] 0 1]
     = Ok [ImportFrom (Some "pkg") [("*", None)] 0 1; ProfCall "*" (Some 1)].
Proof. exact star_refuted. Qed.

(* Behaviour.  For an ARBITRARY big-step semantics exec : list stmt -> env -> outcome * env with
   eqv = equality of the program-visible part of env, if
     (iii) exec is compositional over statement lists (exec_nil, exec_app) and nested bodies
           (congruence for def / class / compound bodies) and respects eqv on leaves,
     (i)   appending the decorator `profile` does not change a definition (it denotes the
           identity: property C03),
     (ii)  a registration call of a good name changes nothing program-visible
           (C03_registration_inert),
   then executing the rewritten tree gives the same outcome and an eqv-equal state as
   executing the reference program - provided every name handed to a registration call is
   good (which `*` is not).  Induction over the tree, every nested body included.
   The theorem inherits C03's status: (i) is false for generator functions while the wrapped
   generator drops the return value. *)
Theorem C08_behaviour :
  forall (env outcome : Type) (exec : list stmt -> env -> outcome * env)
         (is_normal : outcome -> bool) (normal : outcome) (eqv : env -> env -> Prop),
    (forall e, eqv e e) ->
    (forall a b, eqv a b -> eqv b a) ->
    (forall a b c, eqv a b -> eqv b c -> eqv a c) ->
    (forall e, exec [] e = (normal, e)) ->
    (forall a b e,
        exec (a ++ b) e = (if is_normal (fst (exec a e)) then exec b (snd (exec a e)) else exec a e)) ->
    (forall s, is_leaf s = true -> beq env outcome exec eqv [s] [s]) ->
    (forall a n ds b b' l,
        beq env outcome exec eqv b b' ->
        beq env outcome exec eqv [FuncDef a n ds b l] [FuncDef a n ds b' l]) ->
    (forall n i b b' l,
        beq env outcome exec eqv b b' ->
        beq env outcome exec eqv [ClassDef n i b l] [ClassDef n i b' l]) ->
    (forall i bs bs' l,
        Forall2 (fun p p' : Z * list stmt =>
                   fst p = fst p' /\ beq env outcome exec eqv (snd p) (snd p')) bs bs' ->
        beq env outcome exec eqv [Compound i bs l] [Compound i bs' l]) ->
    (forall a n ds b l,
        beq env outcome exec eqv [FuncDef a n (ds ++ [DName profile_name]) b l] [FuncDef a n ds b l]) ->
    forall good_name : string -> bool,
      (forall n loc, good_name n = true -> beq env outcome exec eqv [ProfCall n loc] []) ->
      forall c body t',
        transform c body = Ok t' ->
        (forall y, In y (regs t') -> good_name y = true) ->
        forall e,
          fst (exec t' e) = fst (exec (pre c body) e)
          /\ eqv (snd (exec t' e)) (snd (exec (pre c body) e)).
Proof. exact behaviour. Qed.

(* Non-vacuity: the hypotheses of C08_behaviour are jointly satisfiable - the trace semantics
   [toy_exec] (append the line of every original statement) meets all of them and the theorem,
   applied to it, says the rewritten program visits the same lines; and a concrete clean
   three-level program with its rewrite, erasure and lines. *)
Theorem C08_nonvacuous :
  (forall c body t', transform c body = Ok t' -> snd (toy_exec t' []) = snd (toy_exec (pre c body) []))
  /\ clean nv_body = true
  /\ (exists t', transform nv_cfg nv_body = Ok t' /\ erase t' = nv_body
                 /\ lines t' = [1; 2; 3; 4; 4; 5; 6; 7; 8; 9]).
Proof. exact c08_nonvacuous. Qed.
