(* C08 - Auto-profiling rewrites only add hooks; the program behaves the same.
   Nothing but the statements; proofs live in Ast/{TransformFacts,Placement,Behaviour,PropFacts}.v.

   [transform c body] is AstTree(Module)Profiler.profile() on the parsed file [body];
   [pre c body] is the reference program t': [body] itself in script mode, [body] with the
   relative imports made absolute (by the translated get_module_from_importfrom, which
   C17 proves equal to importlib's resolution) in -m mode.  The rewrite is total. *)
From LP Require Import Prelude.Py Gen.RelImport
     Ast.AstLite Ast.AuxStr Ast.Select Ast.Transform Ast.TransformFacts Ast.Placement
     Ast.Behaviour Ast.PropFacts.

(* Erasing what auto-profiling can add (`profile` decorators, registration statements) from
   the rewritten tree gives the erased reference program - for ALL trees and configurations;
   on a program that does not itself use `profile` it gives back the program itself. *)
Theorem C08_erasure :
  forall c body,
    erase (transform c body) = erase (pre c body)
    /\ (clean (pre c body) = true -> erase (transform c body) = pre c body).
Proof. exact erasure. Qed.

Theorem C08_reference_program :
  (forall c body, c_module c = None -> pre c body = body)
  /\ (forall c m body, c_module c = Some m -> pre c body = absolutize m body).
Proof. split; [exact pre_script|exact pre_module]. Qed.

(* every original statement keeps its line number (line numbers of all statements other than
   registration calls, at any depth, in source order) *)
Theorem C08_lines_preserved :
  forall c body, lines (transform c body) = lines body.
Proof. exact lines_transform. Qed.

(* function headers, at any depth and in order: untouched unless the script is selected, in
   which case `profile` is appended last iff it is not already there; on a clean program that
   is exactly one `profile`, innermost *)
Theorem C08_decorator_innermost_once :
  forall c body,
    funcs (transform c body) = (if c_full c then map deco_once (funcs (pre c body)) else funcs (pre c body))
    /\ (forall f, fh_decos (deco_once f)
                  = if has_profile (fh_decos f) then fh_decos f else fh_decos f ++ [DName profile_name])
    /\ (c_full c = true -> clean (pre c body) = true ->
        forall f, In f (funcs (transform c body)) -> once_innermost f = true).
Proof. exact decorator_innermost_once. Qed.

(* C08_inserted_nodes_located, the full statement (true since the repair): every registration
   statement that follows an import - directly or behind other registrations, at any depth -
   carries the line number of that import.  [located] descends into every nested body. *)
Theorem C08_inserted_nodes_located :
  forall c body,
    (located (pre c body) = true -> located (transform c body) = true)
    /\ (located body = true -> located (pre c body) = true).
Proof. exact located_full. Qed.

(* syntactic validity is preserved: no statement is inserted before a `from __future__ import`
   (neither by --prof-imports nor by a selection that matches __future__) ... *)
Theorem C08_future_placement :
  forall c body, future_ok (pre c body) = true -> future_ok (transform c body) = true.
Proof. exact future_transform. Qed.

(* ... and no registration call is made for `*`: under the grammar of import statements
   (`*` only as the bare name of a from-import alias, [star_grammar]) a star-free program
   stays star-free, with --prof-imports and with the star-imported module selected.
   More precisely every name handed to a registration call is one the program already
   registers, the alias of a selected binding, or the name bound by a non-star alias of a
   visited import. *)
Theorem C08_star_registration :
  (forall c body, star_grammar (pre c body) = true -> star_free (pre c body) = true ->
                  star_free (transform c body) = true)
  /\ (forall c body y,
         In y (regs (transform c body)) ->
         In y (regs (pre c body)) \/ In y (map snd (wanted (c_sel c) (pre c body)))
         \/ In y (import_names (pre c body))).
Proof. split; [exact star_transform|exact regs_transform_incl]. Qed.

(* the rewrite no longer fails on a top-level bare relative import (it is no candidate), and
   the three repaired situations on concrete trees *)
Theorem C08_repaired_examples :
  (transform (Build_cfg true true None ["sibling_mod"])
             [Other 0 1; ImportFrom None [("sibling_mod", None)] 1 2; Other 1 3]
   = [Other 0 1; ImportFrom None [("sibling_mod", None)] 1 2; ProfCall "sibling_mod" (Some 2); Other 1 3]
   /\ select ["sibling_mod"; "."] [ImportFrom None [("sibling_mod", None)] 1 2] = [])
  /\ (transform (Build_cfg true true None ["json"])
                [Import [("json", None)] 1; FuncDef false "f" [] [Import [("os", None)] 3] 2]
      = [Import [("json", None)] 1; ProfCall "json" (Some 1);
         FuncDef false "f" [DName "profile"] [Import [("os", None)] 3; ProfCall "os" (Some 3)] 2]
      /\ transform (Build_cfg true true None ["__future__"])
                   [ImportFrom (Some "__future__") [("annotations", None)] 0 1;
                    ImportFrom (Some "__future__") [("division", None)] 0 2]
         = [ImportFrom (Some "__future__") [("annotations", None)] 0 1;
            ImportFrom (Some "__future__") [("division", None)] 0 2]
      /\ transform (Build_cfg true true None ["pkg"]) [ImportFrom (Some "pkg") [("*", None)] 0 1]
         = [ImportFrom (Some "pkg") [("*", None)] 0 1]).
Proof. split; [exact bare_relative_ignored|exact c08_examples]. Qed.

(* Behaviour.  For an ARBITRARY big-step semantics exec : list stmt -> env -> outcome * env with
   eqv = equality of the program-visible part of env, if
     (iii) exec is compositional over statement lists (exec_nil, exec_app) and nested bodies
           (congruence for def / class / compound bodies) and respects eqv on leaves,
     (i)   appending the decorator `profile` does not change a definition (it denotes the
           identity: property C03),
     (ii)  a registration call of a good name changes nothing program-visible
           (C03_registration_inert),
   then executing the rewritten tree gives the same outcome and an eqv-equal state as
   executing the reference program - provided every name handed to a registration call is
   good.  Induction over the tree, every nested body included.
   The theorem inherits C03's status: (i) is exactly what C03 establishes for the wrappers
   (generator return values and throw()/close() forwarding included). *)
Theorem C08_behaviour :
  forall (env outcome : Type) (exec : list stmt -> env -> outcome * env)
         (is_normal : outcome -> bool) (normal : outcome) (eqv : env -> env -> Prop),
    (forall e, eqv e e) ->
    (forall a b, eqv a b -> eqv b a) ->
    (forall a b c, eqv a b -> eqv b c -> eqv a c) ->
    (forall e, exec [] e = (normal, e)) ->
    (forall a b e,
        exec (a ++ b) e = (if is_normal (fst (exec a e)) then exec b (snd (exec a e)) else exec a e)) ->
    (forall s, is_leaf s = true -> beq env outcome exec eqv [s] [s]) ->
    (forall a n ds b b' l,
        beq env outcome exec eqv b b' ->
        beq env outcome exec eqv [FuncDef a n ds b l] [FuncDef a n ds b' l]) ->
    (forall n i b b' l,
        beq env outcome exec eqv b b' ->
        beq env outcome exec eqv [ClassDef n i b l] [ClassDef n i b' l]) ->
    (forall i bs bs' l,
        Forall2 (fun p p' : Z * list stmt =>
                   fst p = fst p' /\ beq env outcome exec eqv (snd p) (snd p')) bs bs' ->
        beq env outcome exec eqv [Compound i bs l] [Compound i bs' l]) ->
    (forall a n ds b l,
        beq env outcome exec eqv [FuncDef a n (ds ++ [DName profile_name]) b l] [FuncDef a n ds b l]) ->
    forall good_name : string -> bool,
      (forall n loc, good_name n = true -> beq env outcome exec eqv [ProfCall n loc] []) ->
      forall c body,
        (forall y, In y (regs (transform c body)) -> good_name y = true) ->
        forall e,
          fst (exec (transform c body) e) = fst (exec (pre c body) e)
          /\ eqv (snd (exec (transform c body) e)) (snd (exec (pre c body) e)).
Proof. exact behaviour. Qed.

(* Non-vacuity: the hypotheses of C08_behaviour are jointly satisfiable - the trace semantics
   [toy_exec] (append the line of every original statement) meets all of them and the theorem,
   applied to it, says the rewritten program visits the same lines; and a concrete clean
   three-level program satisfying the hypotheses of every theorem above. *)
Theorem C08_nonvacuous :
  (forall c body, snd (toy_exec (transform c body) []) = snd (toy_exec (pre c body) []))
  /\ clean nv_body = true /\ located nv_body = true /\ future_ok nv_body = true
  /\ star_grammar nv_body = true /\ star_free nv_body = true
  /\ erase (transform nv_cfg nv_body) = nv_body
  /\ lines (transform nv_cfg nv_body) = [1; 2; 3; 4; 4; 5; 6; 7; 8; 9].
Proof. exact c08_nonvacuous. Qed.
