(* C06 - results are delivered however the profiled program ends.
   Nothing but the statements; model in Cli/DeliverModel.v, proofs in
   Cli/DeliverProofs.v; the explicit profiler's methods are the translated ones
   (Gen/GlobalProfiler.v, regenerated from line_profiler/explicit_profiler.py).

   A program is the stream of tracing events (call / line / return-or-unwind) it
   executes; `kd` says how it ends (KReturn | KSysExit | KKbdInt | KExc).
   `kern_run stream kd reg ctx timed outfile` interprets kernprof.main's
   try / except (KeyboardInterrupt, SystemExit) / finally skeleton (ctx: the
   prof.runctx dispatch of plain cProfile mode with its own enable/finally
   disable; timed: -i) and returns the effect trace, the outcome and the profiler
   state; `reg` is the set of functions the profiler registered, so the modes
   -l (decorated), -l -p (auto-profiled), -b, plain and -m differ only in reg,
   ctx and in which counter of the snapshot the written file holds.

   Partial: OS-level delivery (flush, atexit ordering among other hooks, signals
   that are not turned into KeyboardInterrupt) and the report option -v are
   exercised by the tie, not modelled. *)
From LP Require Import Prelude.Py Cli.DeliverModel Cli.DeliverProofs.
From LP Require Import Explicit.Base Gen.GlobalProfiler Explicit.GlobalProfiler.

(* For ALL streams, outcomes, modes and states in which the program leaves
   sys.stdout (usable, None, or a stream that cannot be written to): the trace of
   main contains exactly one dump_stats(outfile), nothing that can raise on the
   program's stdout precedes it, no program event follows it, every program event
   precedes it, the dumped snapshot is the profiler state after the whole executed
   stream; SystemExit / KeyboardInterrupt are absorbed, an exception still
   propagates, and with an unusable stdout main ends in the I/O error of its own
   closing print - after the dump. *)
Theorem C06_dump_on_every_outcome :
  forall (stream : list pev) (kd : kind) (reg : Z -> bool) (out : ostate) (ctx timed : bool) (outfile : string),
    let '(tr, oc, st) := kern_run stream kd reg out ctx timed outfile in
    one_dump_after_program tr = true
    /\ count_eff is_dump tr = 1
    /\ no_failure_before_dump tr = true
    /\ dumped_state tr = Some (outfile, prof_run reg pst0 stream)
    /\ program_events tr = stream
    /\ oc = (match out with
             | OutBroken => OIOError
             | _ => match kd with KExc => ORaised KExc | _ => ONormal end
             end)
    /\ st = prof_run reg pst0 stream.
Proof. exact dump_on_every_outcome. Qed.

(* The order inside the finally block is what delivers the results: a block that
   first flushed the program's stdout would, for a stdout that is None or cannot be
   written to, perform NO dump at all - for every program, outcome and mode. *)
Theorem C06_flush_before_dump_would_lose_results :
  forall (stream : list pev) (kd : kind) (reg : Z -> bool) (out : ostate) (ctx timed : bool) (outfile : string),
    out = OutNone \/ out = OutBroken ->
    let '(tr, oc, _) := exec stream kd reg out (kern_main_flush_first ctx timed outfile) pst0 in
    count_eff is_dump tr = 0 /\ oc = OIOError.
Proof. exact flush_first_loses_results. Qed.

(* kernprof -l -v: for ALL programs, outcomes and every state of the program's stdout on
   which print() does not raise (untouched, None, or rebound to another stream and not
   restored): exactly one report is written, to the stdout saved BEFORE the program ran,
   and it shows the very profiler state that the single dump put into the file (the
   profiler is switched off before the dump, nothing is recorded in between). *)
Theorem C06_view_agrees_with_file :
  forall (stream : list pev) (kd : kind) (reg : Z -> bool) (out : ostate) (ctx : bool) (outfile : string),
    out <> OutBroken ->
    let '(tr, oc, st) := exec stream kd reg out (kern_main_view ctx outfile) pst0 in
    count_eff is_view tr = 1
    /\ viewed_state tr = Some (prof_run reg pst0 stream)
    /\ last_dump tr = Some (outfile, prof_run reg pst0 stream)
    /\ count_eff is_dump tr = 1.
Proof. exact view_agrees_with_file. Qed.

(* With -i N a RepeatedTimer thread dumps snapshots into the same outfile while the
   program runs.  For ALL streams, outcomes, stdout states and ALL positions of the
   periodic dumps: what the file holds in the end (the LAST write) is main's own
   dump, nothing of the program follows it, and it carries the profiler state after
   the whole executed stream - a periodic snapshot never stands in for it. *)
Theorem C06_final_dump_with_periodic_dumps :
  forall (stream : list pev) (kd : kind) (reg : Z -> bool) (out : ostate) (ticks : list nat)
         (ctx : bool) (outfile : string),
    let '(tr, oc, st) := kern_run_ticks stream kd reg out ticks ctx outfile in
    last_dump tr = Some (outfile, prof_run reg pst0 stream)
    /\ program_events tr = stream
    /\ (exists A rest, tr = A ++ FDump outfile (prof_run reg pst0 stream) :: rest
                       /\ nodump rest = true /\ existsb is_prog rest = false)
    /\ oc = main_outcome kd out
    /\ st = prof_run reg pst0 stream.
Proof. exact final_dump_with_periodic_dumps. Qed.

(* FINDING (the -i statement above does NOT carry over to cProfile, i.e. kernprof -i N
   without -l, also with -b): there the periodic dump itself switches the profiler off
   (cProfile's dump_stats -> create_stats -> self.disable()), faithfully modelled by
   kern_run_ticks_c.  A concrete run: the program executes all its events and returns,
   two dumps are made, and the file left behind holds 0 calls of a function that was
   called once after the periodic dump - whereas the -l model of the same run with the
   same periodic dump holds that call. *)
Theorem C06_cprofile_periodic_dump_refuted :
  exists (stream : list pev) (kd : kind) (reg : Z -> bool) (out : ostate) (tick : nat) (ctx : bool)
         (outfile : string) (late : Z),
    closed stream = true
    /\ program_events (fst (fst (kern_run_ticks_c stream kd reg out [tick] ctx outfile))) = stream
    /\ count_eff is_dump (fst (fst (kern_run_ticks_c stream kd reg out [tick] ctx outfile))) = 2
    /\ count_call reg stream late = 1
    /\ dumped_calls (kern_run_ticks_c stream kd reg out [tick] ctx outfile) outfile late = Some 0
    /\ dumped_calls (kern_run_ticks stream kd reg out [tick] ctx outfile) outfile late = Some 1.
Proof. exact cprofile_periodic_dump_refuted. Qed.

(* The profiler is only switched on inside the windows that the wrappers of the
   decorated functions open around every activation segment (a call, every
   resumption of a generator, and the resumption that delivers close() / throw()
   when a loop over it is abandoned by the terminating program).  For every
   well-nested stream the windowed profiler records exactly what the always-on
   profiler of C06_content records; a segment executed outside a window is lost. *)
Theorem C06_wrapper_windows_transparent :
  forall (reg : Z -> bool) (evs : list pev),
    wf evs = true ->
    snd (wprof_run reg (0%nat, pst0) (wrap reg evs)) = prof_run reg pst0 evs.
Proof. exact windows_transparent. Qed.

(* kernprof -b: cProfile is the profiler, it records every function while it is on and
   it is on only inside the decorated functions' windows: the data are exactly the
   events of the profiled sections (`windowed_events`) - in particular NOTHING when
   the program ends before its first profiled call, and the dump of
   C06_dump_on_every_outcome still happens (an empty but freshly written file). *)
Theorem C06_builtin_mode_records_profiled_sections :
  forall (reg dec : Z -> bool) (evs : list pev),
    snd (wprof_run reg (0%nat, pst0) (wrap dec evs)) = prof_run reg pst0 (windowed_events dec evs).
Proof. exact builtin_mode_records_profiled_sections. Qed.

Theorem C06_unwindowed_segment_would_be_lost :
  let ws := [WEnable; WE (PCall 0); WE (PLine 0 2); WE (PRet 0); WDisable;
             WE (PCall 0); WE (PLine 0 5); WE (PRet 0)] in
  p_hits (snd (wprof_run (fun _ => true) (0%nat, pst0) ws)) 0 5 = 0
  /\ p_hits (snd (wprof_run (fun _ => true) (0%nat, pst0)
                    (wrap (fun _ => true) [PCall 0; PLine 0 2; PRet 0; PCall 0; PLine 0 5; PRet 0]))) 0 5 = 1.
Proof. exact unwindowed_segment_is_lost. Qed.

(* The content of that snapshot: for every well-nested full run `prog`, EVERY
   termination point k and kind, the state after the executed events (the first k
   events, then the unwinding of every live activation) holds exactly the counts
   of the executed prefix - hits per (function, line), calls per function - and no
   line is left pending. *)
Theorem C06_content :
  forall (reg : Z -> bool) (prog : list pev) (kd : kind) (k : nat),
    wf prog = true -> (kd = KReturn -> closed prog = true) ->
    let st := prof_run reg pst0 (executed prog kd k) in
    let prefix := match kd with KReturn => prog | _ => firstn k prog end in
    (forall f l, p_hits st f l = count_line reg prefix f l)
    /\ (forall f, p_calls st f = count_call reg prefix f)
    /\ (forall f, p_pend st f = None).
Proof. exact content_every_k. Qed.

(* the same for any executed stream whose activations have all ended (covers
   programs whose unwinding runs further lines, e.g. finally blocks) *)
Theorem C06_content_closed_stream :
  forall (reg : Z -> bool) (evs : list pev),
    closed evs = true ->
    let st := prof_run reg pst0 evs in
    (forall f l, p_hits st f l = count_line reg evs f l)
    /\ (forall f, p_calls st f = count_call reg evs f)
    /\ (forall f, p_pend st f = None).
Proof. exact content. Qed.

(* without the unwinding the statement would be false: the line on which the
   program stopped is still pending (this is what "wrappers disable in finally"
   buys); and a concrete run satisfying the hypotheses *)
Theorem C06_content_nonvacuous :
  wf prog_ex = true /\ closed prog_ex = true
  /\ executed prog_ex KExc 5 = [PCall 0; PLine 0 2; PLine 0 3; PCall 1; PLine 1 7; PRet 1; PRet 0]
  /\ (let st := prof_run (fun _ => true) pst0 (executed prog_ex KExc 5) in
      p_hits st 0 3 = 1 /\ p_hits st 1 7 = 1 /\ p_hits st 1 8 = 0 /\ p_calls st 1 = 1)
  /\ (let st := prof_run (fun _ => true) pst0 (firstn 5 prog_ex) in p_hits st 1 7 = 0 /\ p_pend st 1 = Some 7).
Proof. exact content_nonvacuous. Qed.

(* Explicit mode (LINE_PROFILE=1 / profile.enable()): for every history of
   enable / disable / decorate calls that switched profiling on, exactly one
   `show` is registered with atexit; whatever way the program ends, the process
   trace is the program's events, then that one show, which emits exactly the
   switched-on outputs under the configured prefix with the profiler state of the
   whole executed stream (whose content C06_content describes) - PROVIDED the
   program leaves a sys.stdout that can be written to, or the stdout report is
   switched off: the full statement is refuted below. *)
Theorem C06_explicit_atexit_partial :
  forall (environ : string -> option string) (argv : list string) (ops : list op)
         (wc : write_config) (ts : string) (stream : list pev) (kd : kind) (reg : Z -> bool) (out : ostate),
    user_history ops = true ->
    spec_active (requestedb (environ "LINE_PROFILE") argv) None ops = true ->
    out = OutOk \/ w_stdout wc = false ->
    let s' := snd (run environ argv gp_init ops) in
    let prefix := spec_prefix init_output_prefix ops in
    let st := prof_run reg pst0 stream in
    f_atexit s' = 1
    /\ explicit_run stream kd reg out (map hook_outputs (at_exit s' wc ts))
       = (map FProg stream ++ raise_eff kd ++ [FShow (emitted_codes (expected_outputs wc prefix ts)) st],
          program_outcome kd, st).
Proof. exact explicit_atexit. Qed.

(* FINDING: show() prints the report to sys.stdout BEFORE it writes the files; a
   program that ends with sys.stdout = None / closed / not writable makes the exit
   hook raise in that first step and no output is written. *)
Theorem C06_explicit_stdout_unusable_refuted :
  exists environ argv ops wc ts stream kd reg out,
    user_history ops = true
    /\ spec_active (requestedb (environ "LINE_PROFILE") argv) None ops = true
    /\ out <> OutOk /\ w_stdout wc = true /\ w_lprof wc = true
    /\ count_eff is_show (fst (fst (explicit_run stream kd reg out
                                      (map hook_outputs (at_exit (snd (run environ argv gp_init ops)) wc ts))))) = 0.
Proof. exact explicit_stdout_broken_refuted. Qed.

Theorem C06_explicit_nonvacuous :
  user_history [OpDecorate (Fn 1); OpDecorate (Fn 2)] = true
  /\ spec_active (requestedb (environ_of (Some "1") "LINE_PROFILE") ["prog"]) None [OpDecorate (Fn 1); OpDecorate (Fn 2)] = true.
Proof. exact explicit_nonvacuous. Qed.
