(* Prelude: the reading of Python list / str / option operations that the
   translated (Gen/*.v) and hand-written models share.  Stdlib only.
   Every primitive here has a conformance shard against CPython
   (harness/props/prelude.py), run by the checks that use it. *)
From Coq Require Export String Ascii.
From Coq Require Export List ZArith Bool Lia ZifyBool.
Export ListNotations.
Open Scope string_scope.
Open Scope list_scope.
Open Scope Z_scope.

Inductive exn := ValueError | AssertionError | IndexError | TypeError | OutOfFuel | OtherError.
Inductive res (A : Type) := Ok (a : A) | Err (e : exn).
Arguments Ok {A} a.
Arguments Err {A} e.

Definition exn_code (e : exn) : Z :=
  match e with ValueError => 1 | AssertionError => 2 | IndexError => 3 | TypeError => 4
             | OutOfFuel => 5 | OtherError => 6 end.

(* ---- lists --------------------------------------------------------------- *)
Section Lists.
  Context {A : Type} (eqb : A -> A -> bool).

  Fixpoint index_nat (l : list A) (x : A) : option nat :=
    match l with
    | [] => None
    | y :: t => if eqb y x then Some O else option_map S (index_nat t x)
    end.

  (* list.index: None stands for ValueError *)
  Definition py_index (l : list A) (x : A) : option Z := option_map Z.of_nat (index_nat l x).

  Definition py_in (x : A) (l : list A) : bool := existsb (eqb x) l.
End Lists.

Definition norm_idx (n i : Z) : Z :=
  let j := if i <? 0 then i + n else i in Z.max 0 (Z.min n j).

(* l[lo:hi] with Python's clamping and negative indices *)
Definition py_slice {A} (l : list A) (lo hi : option Z) : list A :=
  let n := Z.of_nat (length l) in
  let a := match lo with None => 0 | Some i => norm_idx n i end in
  let b := match hi with None => n | Some i => norm_idx n i end in
  firstn (Z.to_nat (b - a)) (skipn (Z.to_nat a) l).

(* l[i]; None stands for IndexError *)
Definition py_get {A} (l : list A) (i : Z) : option A :=
  let n := Z.of_nat (length l) in
  let j := if i <? 0 then i + n else i in
  if (j <? 0) || (n <=? j) then None else nth_error l (Z.to_nat j).

Definition py_len {A} (l : list A) : Z := Z.of_nat (length l).
Definition list_empty {A} (l : list A) : bool := match l with [] => true | _ => false end.

(* ---- strings -------------------------------------------------------------- *)
Definition str_empty (s : string) : bool := match s with EmptyString => true | _ => false end.
Definition str_in (x : string) (l : list string) : bool := existsb (String.eqb x) l.
Definition str_index (l : list string) (x : string) : option Z := py_index String.eqb l x.

Definition dot : ascii := "."%char.

(* str.split(c) for a one-character separator *)
Fixpoint split (c : ascii) (s : string) : list string :=
  match s with
  | EmptyString => [EmptyString]
  | String a s' =>
      if Ascii.eqb a c then EmptyString :: split c s'
      else match split c s' with
           | [] => [String a EmptyString]
           | h :: t => String a h :: t
           end
  end.

(* sep.join(l) *)
Fixpoint join (sep : string) (l : list string) : string :=
  match l with
  | [] => EmptyString
  | [x] => x
  | x :: t => (x ++ sep ++ join sep t)%string
  end.

Definition lower_ascii (a : ascii) : ascii :=
  let n := nat_of_ascii a in
  if andb (Nat.leb 65 n) (Nat.leb n 90) then ascii_of_nat (n + 32) else a.

(* str.lower() on ASCII strings *)
Fixpoint lower (s : string) : string :=
  match s with EmptyString => EmptyString | String a t => String (lower_ascii a) (lower t) end.

(* s.rsplit('.', k): the last k separators split, the rest stay joined *)
Definition rsplit_dot (s : string) (k : Z) : list string :=
  let comps := split dot s in
  let n := Z.of_nat (length comps) in
  if n - 1 <=? k then comps
  else join "." (firstn (Z.to_nat (n - k)) comps) :: skipn (Z.to_nat (n - k)) comps.

Fixpoint no_char (c : ascii) (s : string) : bool :=
  match s with EmptyString => true | String a t => negb (Ascii.eqb a c) && no_char c t end.

Definition opt_eqb {A} (eqb : A -> A -> bool) (a b : option A) : bool :=
  match a, b with Some x, Some y => eqb x y | None, None => true | _, _ => false end.

Fixpoint list_eqb {A} (eqb : A -> A -> bool) (a b : list A) : bool :=
  match a, b with
  | [], [] => true
  | x :: a', y :: b' => eqb x y && list_eqb eqb a' b'
  | _, _ => false
  end.

(* indices (from 0) of the false entries of a list of verdicts: what case shards print *)
Fixpoint false_indices_from (i : Z) (l : list bool) : list Z :=
  match l with
  | [] => []
  | b :: t => if b then false_indices_from (i + 1) t else i :: false_indices_from (i + 1) t
  end.
Definition false_indices (l : list bool) : list Z := false_indices_from 0 l.
