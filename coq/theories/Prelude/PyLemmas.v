(* Lemmas about the Prelude primitives, used by the property proofs. *)
From LP Require Import Prelude.Py.

Lemma index_nat_app_notin {A} (eqb : A -> A -> bool) (l r : list A) x :
  (forall y, In y l -> eqb y x = false) ->
  index_nat eqb (l ++ r) x = option_map (fun n => (length l + n)%nat) (index_nat eqb r x).
Proof.
  induction l as [|a l IH]; intros H; cbn [app index_nat length].
  - destruct (index_nat eqb r x); reflexivity.
  - rewrite (H a (or_introl eq_refl)). rewrite IH by (intros y Hy; apply H; right; exact Hy).
    destruct (index_nat eqb r x); reflexivity.
Qed.

Lemma index_nat_none {A} (eqb : A -> A -> bool) (l : list A) x :
  (forall y, In y l -> eqb y x = false) -> index_nat eqb l x = None.
Proof.
  induction l as [|a l IH]; intros H; cbn [index_nat]; [reflexivity|].
  rewrite (H a (or_introl eq_refl)), IH; [reflexivity|]. intros y Hy; apply H; right; exact Hy.
Qed.

Lemma index_nat_some_in {A} (eqb : A -> A -> bool) (l : list A) x n :
  index_nat eqb l x = Some n -> exists y, In y l /\ eqb y x = true.
Proof.
  revert n; induction l as [|a l IH]; intros n; cbn [index_nat]; [discriminate|].
  destruct (eqb a x) eqn:E.
  - intros _. exists a. split; [left; reflexivity|exact E].
  - destruct (index_nat eqb l x) as [m|]; [|discriminate]. intros _.
    destruct (IH m eq_refl) as [y [Hy1 Hy2]]. exists y; split; [right; exact Hy1|exact Hy2].
Qed.

Lemma str_notin_eqb (l : list string) (x : string) :
  ~ In x l -> forall y, In y l -> String.eqb y x = false.
Proof.
  intros H y Hy. destruct (String.eqb_spec y x) as [->|]; [contradiction|reflexivity].
Qed.

Lemma py_index_app_here (l r : list string) x :
  ~ In x l -> py_index String.eqb (l ++ x :: r) x = Some (Z.of_nat (length l)).
Proof.
  intros H. unfold py_index. rewrite index_nat_app_notin by (apply str_notin_eqb; exact H).
  cbn [index_nat]. rewrite String.eqb_refl. cbn [option_map]. f_equal. f_equal. lia.
Qed.

Lemma py_index_notin (l : list string) x : ~ In x l -> py_index String.eqb l x = None.
Proof.
  intros H. unfold py_index. rewrite index_nat_none; [reflexivity|]. apply str_notin_eqb; exact H.
Qed.

Lemma py_index_none_notin (l : list string) x : py_index String.eqb l x = None -> ~ In x l.
Proof.
  unfold py_index. intros H Hin. induction l as [|a l IH]; [contradiction|].
  cbn [index_nat] in H. destruct (String.eqb_spec a x) as [->|Hne]; [discriminate|].
  destruct Hin as [->|Hin]; [congruence|].
  destruct (index_nat String.eqb l x); [discriminate|]. apply IH; [reflexivity|exact Hin].
Qed.

Lemma norm_idx_in n i : 0 <= i <= n -> norm_idx n i = i.
Proof. unfold norm_idx. intros H. destruct (i <? 0) eqn:E; lia. Qed.

Lemma py_slice_prefix {A} (l r : list A) :
  py_slice (l ++ r) None (Some (Z.of_nat (length l))) = l.
Proof.
  unfold py_slice. rewrite app_length. rewrite norm_idx_in by lia.
  cbn [skipn Z.to_nat]. rewrite Z.sub_0_r, Nat2Z.id. change (skipn 0 (l ++ r)) with (l ++ r).
  rewrite firstn_app, Nat.sub_diag, firstn_all. cbn [firstn]. apply app_nil_r.
Qed.

Lemma py_slice_suffix {A} (l r : list A) k :
  k = Z.of_nat (length l) -> py_slice (l ++ r) (Some k) None = r.
Proof.
  intros ->. unfold py_slice. rewrite app_length. rewrite norm_idx_in by lia.
  rewrite Nat2Z.id, skipn_app, Nat.sub_diag, skipn_all. cbn [app skipn].
  replace (Z.to_nat (Z.of_nat (length l + length r) - Z.of_nat (length l))) with (length r) by lia.
  apply firstn_all.
Qed.

Lemma py_get_app_here {A} (l r : list A) x k :
  k = Z.of_nat (length l) -> py_get (l ++ x :: r) k = Some x.
Proof.
  intros ->. unfold py_get. rewrite app_length. cbn [length].
  destruct (Z.of_nat (length l) <? 0) eqn:E1; [lia|].
  destruct ((Z.of_nat (length l) <? 0) || (Z.of_nat (length l + S (length r)) <=? Z.of_nat (length l))) eqn:E2; [lia|].
  rewrite Nat2Z.id, nth_error_app2 by lia. rewrite Nat.sub_diag. reflexivity.
Qed.

(* ---- split / join ----------------------------------------------------------- *)
Lemma split_nonempty c s : split c s <> [].
Proof.
  destruct s as [|a s]; cbn [split]; [discriminate|].
  destruct (Ascii.eqb a c); [discriminate|]. destruct (split c s); discriminate.
Qed.

Lemma split_no_char c s : no_char c s = true -> split c s = [s].
Proof.
  induction s as [|a s IH]; cbn [no_char split]; [reflexivity|].
  intros H. apply andb_prop in H as [H1 H2]. destruct (Ascii.eqb a c); [discriminate|].
  rewrite IH by exact H2. reflexivity.
Qed.

Lemma split_app_sep c x rest :
  no_char c x = true -> split c (x ++ String c rest) = x :: split c rest.
Proof.
  induction x as [|a x IH]; cbn [no_char append split]; intros H.
  - rewrite Ascii.eqb_refl. reflexivity.
  - apply andb_prop in H as [H1 H2]. destruct (Ascii.eqb a c); [discriminate|].
    rewrite IH by exact H2. reflexivity.
Qed.

Lemma split_join c (comps : list string) :
  comps <> [] -> forallb (no_char c) comps = true ->
  split c (join (String c EmptyString) comps) = comps.
Proof.
  induction comps as [|x t IH]; [congruence|]. intros _ H. cbn [forallb] in H.
  apply andb_prop in H as [Hx Ht]. destruct t as [|y t'].
  - cbn [join]. apply split_no_char; exact Hx.
  - change (join (String c "") (x :: y :: t')) with (x ++ String c "" ++ join (String c "") (y :: t'))%string.
    change (String c "" ++ join (String c "") (y :: t'))%string with (String c (join (String c "") (y :: t'))).
    rewrite split_app_sep by exact Hx. rewrite IH; [reflexivity|discriminate|exact Ht].
Qed.

Lemma str_app_assoc (a b c : string) : ((a ++ b) ++ c = a ++ (b ++ c))%string.
Proof. induction a as [|x a IH]; cbn [append]; [reflexivity|]. rewrite IH. reflexivity. Qed.

Lemma join_snoc sep (l : list string) x :
  l <> [] -> join sep (l ++ [x]) = (join sep l ++ sep ++ x)%string.
Proof.
  induction l as [|a t IH]; [congruence|]. intros _. destruct t as [|b t'].
  - reflexivity.
  - change ((a :: b :: t') ++ [x]) with (a :: (b :: t') ++ [x]).
    change (join sep (a :: (b :: t') ++ [x])) with (a ++ sep ++ join sep ((b :: t') ++ [x]))%string.
    rewrite IH by discriminate.
    change (join sep (a :: b :: t')) with (a ++ sep ++ join sep (b :: t'))%string.
    rewrite !str_app_assoc. reflexivity.
Qed.
