(* Executable checkers for the C20 case shards (vm_compute).  No proofs.
   A case = a sequence of %lprun invocations in one IPython session; for each the
   harness hands over the inputs (args, statement effect, function shapes) and what
   it observed on the implementation. *)
From Coq Require Import QArith.
From LP Require Import Prelude.Py Report.Channels Report.Lprun.
Local Open Scope Z_scope.

(* the generated functions:
     Loop e : def f(n): s = 0 / for i in range(n): / s += i / (e times) s += k / return s
     Wrap   : def w(n): r = g(n) / return r
     Raiser : def x(): raise ...
     OneLine: def q(n): return n * n   /   q = lambda n: n + 1   (body on the header line:
              the only line with data is co_firstlineno itself)               *)
Inductive shape := Loop (extra : Z) | Wrap | Raiser | OneLine.

Definition zsum (l : list Z) : Z := fold_right Z.add 0 l.
Definition zlen {A} (l : list A) : Z := Z.of_nat (length l).

(* hits of the body lines, from the arguments of the recorded calls *)
Definition expected_hits (sh : shape) (ns : list Z) : list Z :=
  let c := zlen ns in
  match sh with
  | Loop e => [c; zsum (map (fun n => n + 1) ns); zsum ns] ++ repeat c (Z.to_nat e) ++ [c]
  | Wrap => [c; c]
  | Raiser => [c]
  | OneLine => [c]
  end.

Record lobs := LObs {
  lo_kind : Z;                 (* 0 returned normally, 1 UsageError, 2 TypeError, 3 another exception came out, 4 anything else *)
  lo_ret : bool;               (* run_line_magic returned a profiler *)
  lo_b_before : option Z;      (* builtins.__dict__.get('profile'): None | Some 1 = the user's object
                                  | Some (100+k) = the profiler of invocation k | Some (-1) = something else *)
  lo_b_during : option Z;      (* what the statement saw there *)
  lo_b_after : option Z;
  lo_builtins_other_same : bool;
  lo_ns_added : list Z;
  lo_ns_removed : list Z;
  lo_stats : option (list (Z * list Z));   (* the magic's profiler: function id -> hits of its body lines *)
  lo_count_during : Z;
  lo_count_after : Z;
  lo_stable : bool;            (* calling the named functions after the magic changed nothing *)
  lo_pages : list Z;           (* ids of the texts paged *)
  lo_T : option Z;             (* id of the text in the -T file, if it exists afterwards *)
  lo_live : option Z;          (* id of rstrip(print_stats of that profiler with the same -u / -s) *)
  lo_D : option bool;          (* the -D file exists -> it loads to that profiler's statistics *)
  lo_msg : Z;                  (* 0 nothing, 1 SystemExit message, 2 KeyboardInterrupt message, 3 something else *)
  lo_msg_D : bool;
  lo_msg_T : bool }.

Definition oz_eqb := opt_eqb Z.eqb.
Definition zl_eqb := list_eqb Z.eqb.
Definition mem (x : Z) (l : list Z) : bool := existsb (Z.eqb x) l.
Fixpoint assoc {B} (x : Z) (l : list (Z * B)) : option B :=
  match l with [] => None | (y, b) :: t => if y =? x then Some b else assoc x t end.
Definition is_some {A} (o : option A) : bool := match o with Some _ => true | None => false end.

Definition shape_of (shapes : list (Z * shape)) (f : Z) : shape :=
  match assoc f shapes with Some s => s | None => Raiser end.

(* the model is run with texts and pickles collapsed to a point *)
Definition msession := session Z Z.
Definition m_lprun (a : args) (st : stmt) (s : msession) :=
  lprun Z (fun _ _ => 0) (fun t => t) Z (fun _ => 0) (fun _ => Snap [] (FUnit 0 (1 # 1))) a st s.

Definition kind_code (k : reskind) : Z :=
  match k with KDone => 0 | KUsage => 1 | KType => 2 | KPropagated => 3 end.

Definition stats_match (shapes : list (Z * shape)) (keys : list Z) (ns_of : Z -> list Z)
           (got : list (Z * list Z)) : bool :=
  forallb (fun f => match assoc f got with
                    | Some v => zl_eqb v (expected_hits (shape_of shapes f) (ns_of f))
                    | None => false
                    end) keys
  && forallb (fun fv => mem (fst fv) keys) got.

(* (a) model = implementation, one invocation *)
Definition model_ok1 (shapes : list (Z * shape)) (runs : bool) (a : args) (st : stmt) (s : msession) (ob : lobs) : bool :=
  let '(s', r) := m_lprun a st s in
  let reached := reaches a in
  let done := match r_kind r with KDone => true | _ => false end in
  (lo_kind ob =? kind_code (r_kind r))
  && Bool.eqb (lo_ret ob) (r_ret r)
  && oz_eqb (lo_b_before ob) (b_profile s)
  && oz_eqb (lo_b_after ob) (b_profile s')
  && oz_eqb (lo_b_during ob) (if reached && runs then Some (next_id s) else None)
  && match r_prof r, lo_stats ob with
     | None, None => true
     | Some p, Some got => stats_match shapes (p_funcs p) (calls_of p) got
                           && (lo_count_during ob =? (if runs then 1 else -1)) && (lo_count_after ob =? p_count p)
     | _, _ => false
     end
  && (zlen (lo_pages ob) =? zlen (pager s') - zlen (pager s))
  && Bool.eqb (is_some (lo_T ob)) (done && is_some (a_T a))
  (* pager, -T file and the profiler's own rstripped print are one text in the model *)
  && match lo_pages ob with
     | [pg] => oz_eqb (lo_live ob) (Some pg)
               && match lo_T ob with Some t => t =? pg | None => true end
     | _ => true
     end
  && match lo_D ob with Some false => false | _ => true end
  && Bool.eqb (is_some (lo_D ob)) (done && is_some (a_D a))
  && (lo_msg ob =? (if done then msg_of (s_outcome st) else 0))
  && Bool.eqb (lo_msg_D ob) (done && is_some (a_D a))
  && Bool.eqb (lo_msg_T ob) (done && is_some (a_T a))
  && zl_eqb (lo_ns_added ob) (if reached then s_binds st else [])
  && zl_eqb (lo_ns_removed ob) [].

(* (b) the property on the implementation's own output, one invocation.
   Everything except "builtins as found" ... *)
Definition spec_other1 (shapes : list (Z * shape)) (runs : bool) (a : args) (st : stmt) (k : Z) (ob : lobs) : bool :=
  let reached := reaches a in
  let nm := named a in
  let ns_of := fun f => map snd (filter (fun c => fst c =? f) (s_calls st)) in
  if reached then
    (* profiles the named functions and nothing else, for the statement only *)
    match lo_stats ob with
    | Some got => stats_match shapes nm (fun f => if mem f nm then ns_of f else []) got
                  && (negb runs || (lo_count_during ob =? 1)) && (lo_count_after ob =? 0) && lo_stable ob
    | None => false
    end
    (* output on return, exit, interrupt; all outputs are one text / one snapshot *)
    && match s_outcome st with
       | ExcOther => (lo_kind ob =? 3)          (* the property asks nothing more here *)
       | oc =>
           (lo_kind ob =? 0)
           && Bool.eqb (lo_ret ob) (a_r a)
           && match lo_pages ob with
              | [t] => oz_eqb (lo_live ob) (Some t)
                       && (if is_some (a_T a) then oz_eqb (lo_T ob) (Some t) else true)
              | _ => false
              end
           && (if is_some (a_D a) then match lo_D ob with Some true => true | _ => false end else true)
           && (lo_msg ob =? msg_of oc)
       end
    (* the user's namespace: the statement's own bindings only *)
    && zl_eqb (lo_ns_added ob) (s_binds st) && zl_eqb (lo_ns_removed ob) []
    && lo_builtins_other_same ob
    && (negb runs || oz_eqb (lo_b_during ob) (Some (100 + k)))
  else
    ((lo_kind ob =? 1) || (lo_kind ob =? 2))
    && zl_eqb (lo_pages ob) [] && negb (is_some (lo_T ob)) && negb (is_some (lo_D ob))
    && zl_eqb (lo_ns_added ob) [] && zl_eqb (lo_ns_removed ob) []
    && lo_builtins_other_same ob.

(* ... and "builtins as found", split so that the known signature can be told apart:
   leak signature = no builtins.profile existed before this invocation and afterwards
   it is this invocation's profiler *)
Definition restored (ob : lobs) : bool := oz_eqb (lo_b_before ob) (lo_b_after ob).
Definition leak_sig (k : Z) (ob : lobs) : bool :=
  negb (restored ob) && negb (is_some (lo_b_before ob)) && oz_eqb (lo_b_after ob) (Some (100 + k)).

(* i_runs = false: the statement does not compile (SyntaxError out of exec before its first
   instruction): in the model a statement that makes no calls and ends in another exception;
   what the statement would have seen in builtins cannot be observed then. *)
Record inv := Inv { i_args : args; i_stmt : stmt; i_runs : bool; i_obs : lobs }.

Fixpoint walk (shapes : list (Z * shape)) (xs : list inv) (k : Z) (s : msession) : bool * bool * bool :=
  match xs with
  | [] => (true, true, true)
  | x :: t =>
      let m := model_ok1 shapes (i_runs x) (i_args x) (i_stmt x) s (i_obs x) in
      let o := spec_other1 shapes (i_runs x) (i_args x) (i_stmt x) k (i_obs x)
               && (restored (i_obs x) || leak_sig k (i_obs x)) in
      let l := negb (leak_sig k (i_obs x)) in
      let '(m', o', l') := walk shapes t (k + 1) (fst (m_lprun (i_args x) (i_stmt x) s)) in
      (m && m', o && o', l && l')
  end.

(* one case: (model = implementation, property apart from the leak signature, no leak) *)
Definition case_ok (pre : option Z) (shapes : list (Z * shape)) (xs : list inv) : bool * bool * bool :=
  walk shapes xs 0 (Sess pre 100 [] [] [] []).

(* self-test *)
Definition t_shapes : list (Z * shape) := [(7, Loop 0); (8, Loop 1)].
Definition t_args : args := Args [Some 7] [] UNone true false None None.
Definition t_stmt : stmt := Stmt [(7, 3); (8, 3)] Return [].
Definition t_obs (after : option Z) (h : Z) : lobs :=
  LObs 0 true None (Some 100) after true [] [] (Some [(7, [1; h; 3; 1])]) 1 0 true [5] None (Some 5) None 0 false false.
Example selftest :
  case_ok None t_shapes [Inv t_args t_stmt true (t_obs (Some 100) 4)] = (false, true, false)
  /\ case_ok None t_shapes [Inv t_args t_stmt true (t_obs None 4)] = (true, true, true)
  /\ case_ok None t_shapes [Inv t_args t_stmt true (t_obs (Some 100) 5)] = (false, false, false).
Proof. vm_compute. repeat split. Qed.
