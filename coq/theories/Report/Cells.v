(* Report engine (E6), cell layer: the numbers of show_func as CPython computes and prints them.

   A binary64 value is carried as the exact rational it denotes (a Q whose value is m*2^e);
   every Python float operation of show_func is mirrored by the exact rational operation
   followed by `round64` (round to nearest, ties to even, 53-bit significand, gradual
   underflow; overflow to infinity is outside the modelled domain):
       float(int), int*float, float*float, float/float, float/int, int/int (true division).
   '%.Nf' and '%.Pg' are the correctly rounded (ties-to-even on the exact binary value)
   decimal conversions that CPython's dtoa-based formatter performs, so cell strings are
   comparable bit-exactly with the implementation's.  Non-negative values only (times,
   hits and units are non-negative). *)
From Coq Require Import QArith.
From LP Require Import Prelude.Py Report.LayoutStr Report.Layout.
Open Scope Z_scope.

(* round-half-even of n/d for n >= 0, d > 0 *)
Definition rhe (n d : Z) : Z :=
  let q := n / d in
  let r := n mod d in
  match (2 * r) ?= d with
  | Lt => q
  | Gt => q + 1
  | Eq => if Z.even q then q else q + 1
  end.

Definition qrhe (x : Q) : Z := rhe (Qnum x) (Zpos (Qden x)).

Definition pow2Q (k : Z) : Q :=
  if 0 <=? k then inject_Z (2 ^ k) else (1 # Z.to_pos (2 ^ (- k)))%Q.
Definition pow10Q (k : Z) : Q :=
  if 0 <=? k then inject_Z (10 ^ k) else (1 # Z.to_pos (10 ^ (- k)))%Q.

(* floor(log2 x) for x > 0 *)
Definition ilog2Q (x : Q) : Z :=
  let e0 := Z.log2 (Qnum x) - Z.log2 (Zpos (Qden x)) in
  if Qle_bool (pow2Q e0) x then e0 else e0 - 1.

(* nearest binary64 to x >= 0 *)
Definition round64_pos (x : Q) : Q :=
  if Qnum x =? 0 then 0%Q else
  let e := ilog2Q x in
  let sh := Z.max (e - 52) (-1074) in
  let m := qrhe (x * pow2Q (- sh))%Q in
  Qred (inject_Z m * pow2Q sh)%Q.

Definition round64 (x : Q) : Q :=
  if Qnum x <? 0 then (- round64_pos (- x))%Q else round64_pos x.

Definition f_of_int (z : Z) : Q := round64 (inject_Z z).      (* float(z) *)
Definition fmul (a b : Q) : Q := round64 (a * b)%Q.            (* a * b *)
Definition fdiv (a b : Q) : Q := round64 (a / b)%Q.            (* a / b, b <> 0 *)
Definition int_truediv (a b : Z) : Q := round64 (inject_Z a / inject_Z b)%Q.   (* int / int *)

(* floor(log10 x) for x > 0: estimate from the binary exponent, then correct *)
Definition ilog10Q (x : Q) : Z :=
  let est := (ilog2Q x * 1233) / 4096 in
  if Qle_bool (pow10Q (est + 1)) x then est + 1
  else if Qle_bool (pow10Q est) x then est
  else est - 1.

Fixpoint zeros (n : nat) : list Z := match n with O => [] | S k => 0 :: zeros k end.

(* the decimal digits of n, left-padded with zeros to at least w digits *)
Definition digits_w (w : Z) (n : Z) : list Z :=
  let ds := digits_of n in
  zeros (Z.to_nat (w - Z.of_nat (length ds))) ++ ds.

Fixpoint strip_trailing_zeros (l : list Z) : list Z :=
  match l with
  | [] => []
  | d :: t => match strip_trailing_zeros t with
              | [] => if d =? 0 then [] else [d]
              | t' => d :: t'
              end
  end.

(* '%<w>.<prec>f' % x *)
Definition fmt_f (w prec : Z) (x : Q) : string :=
  let p10 := 10 ^ prec in
  let n := qrhe (x * inject_Z p10)%Q in
  let ip := n / p10 in
  let fp := n mod p10 in
  lpad w (if prec =? 0 then fmt_d ip
          else (fmt_d ip ++ "." ++ str_of_digits (digits_w prec fp))%string).

(* the P significant decimal digits of x > 0 and the decimal exponent of the first one *)
Definition sig_digits (P : Z) (x : Q) : Z * Z :=
  let X0 := ilog10Q x in
  let D0 := qrhe (x * pow10Q (P - 1 - X0))%Q in
  if D0 =? 10 ^ P then (10 ^ (P - 1), X0 + 1) else (D0, X0).

Definition exp_text (X : Z) : string :=
  String "e"%char (String (if (X <? 0)%Z then "-"%char else "+"%char)
     (str_of_digits (digits_w 2 (Z.abs X)))).

(* '%<w>.<P>g' % x   (no '#' flag: trailing zeros and a bare point are removed) *)
Definition fmt_g (w P0 : Z) (x : Q) : string :=
  let P := if P0 =? 0 then 1 else P0 in
  lpad w
  (if Qnum x =? 0 then "0" else
   let '(D, X) := sig_digits P x in
   let ds := digits_w P D in
   if (X <? -4) || (P <=? X) then
     match strip_trailing_zeros ds with
     | [] => "0"
     | d :: rest =>
         (str_of_digits [d]
          ++ (match rest with [] => "" | _ => String "."%char (str_of_digits rest) end)
          ++ exp_text X)%string
     end
   else if 0 <=? X then
     let ip := firstn (Z.to_nat (X + 1)) ds in
     let fp := strip_trailing_zeros (skipn (Z.to_nat (X + 1)) ds) in
     (str_of_digits ip ++ match fp with [] => "" | _ => String "."%char (str_of_digits fp) end)%string
   else
     ("0." ++ str_of_digits (zeros (Z.to_nat (- X - 1)) ++ strip_trailing_zeros ds))%string).

(* ---- the display tuple of one timing, exactly as show_func builds it ------------- *)
Definition hits_cell (nhits : Z) : string :=
  let s := fmt_d nhits in
  if 9 <? slen s then fmt_g 0 6 (f_of_int nhits) else s.

Definition time_cell (scalar : Q) (time : Z) : string :=
  let v := fmul (f_of_int time) scalar in
  let s := fmt_f 5 1 v in
  if 12 <? slen s then fmt_g 5 3 v else s.

Definition perhit_cell (scalar : Q) (time nhits : Z) : string :=
  let v := fdiv (fmul (f_of_int time) scalar) (f_of_int nhits) in
  let s := fmt_f 5 1 v in
  if 8 <? slen s then fmt_g 5 3 v else s.

Definition percent_cell (tot time : Z) : string :=
  if tot =? 0 then "" else fmt_f 5 1 (int_truediv (100 * time) tot).

Definition py_cells (scalar : Q) (tot : Z) (t : timing) : cells :=
  (hits_cell (t_hits t), time_cell scalar (t_time t),
   perhit_cell scalar (t_time t) (t_hits t), percent_cell tot (t_time t)).

(* unit, output_unit: the exact values of the two Python floats *)
Definition py_formatter (unit : Q) (output_unit : option Q) : formatter :=
  let ou := match output_unit with Some u => u | None => unit end in
  let scalar := fdiv unit ou in
  mkFmt (fmt_g 0 6 ou)
        (fun tt => fmt_g 0 6 (fmul (f_of_int tt) unit))
        (py_cells scalar)
        (fun tt => fmt_f 6 2 (fmul (f_of_int tt) unit))
        (fun _ => true).          (* io.StringIO / a UTF-8 stream *)

(* the stream's encoding.  Text is carried as UTF-8 bytes: ASCII can encode it iff every byte is
   below 128, Latin-1 iff every code point is below 256, i.e. no lead byte above 0xC3 *)
Inductive encoding := Utf8 | Ascii | Latin1.
Fixpoint all_bytes_below (n : N) (s : string) : bool :=
  match s with
  | EmptyString => true
  | String a t => (N_of_ascii a <? n)%N && all_bytes_below n t
  end.
Definition encodable_in (e : encoding) (s : string) : bool :=
  match e with Utf8 => true | Ascii => all_bytes_below 128 s | Latin1 => all_bytes_below 196 s end.

Definition with_encoding (F : formatter) (e : encoding) : formatter :=
  mkFmt (f_unit_text F) (f_total F) (f_cells F) (f_summary F) (encodable_in e).

Definition show_text_enc (e : encoding) (unit : Q) (output_unit : option Q) (E : env) (o : options) (st : stats)
  : report := show_text (with_encoding (py_formatter unit output_unit) e) E o st.

Definition show_text_py (unit : Q) (output_unit : option Q) (E : env) (o : options) (st : stats)
  : report := show_text (py_formatter unit output_unit) E o st.

(* ---- the two command lines that print a report ---------------------------------------- *)
(* `python -m line_profiler [-u U] [-z] [-t] [-m] X.lprof`: main() loads the pickled LineStats and
   hands ITS timings dict, unchanged, to show_text (details always on; -u defaults to 1e-6).
   The environment is the one of the viewer's process (relative file names resolve against its
   working directory). *)
Definition viewer_cli_report (unit u : Q) (z t m : bool) (E : env) (st : stats) : report :=
  show_text_py unit (Some u) E (mkOpts z t m true) st.

(* `kernprof -l -v [-u U] [-z] script`: prof.print_stats(output_unit=U, stripzeros=z) on the
   statistics just collected, in the kernprof process *)
Definition kernprof_view_report (unit u : Q) (z : bool) (E : env) (st : stats) : report :=
  show_text_py unit (Some u) E (mkOpts z false false true) st.

(* `LineProfiler.print_stats(output_unit, stripzeros, details, summarize, sort)`: show_text on the
   LineStats that get_stats() returns - its timings AND its unit (not the resolution of the
   profiler's own clock): a subclass may serve merged, rescaled or loaded statistics *)
Record linestats := mkLineStats { ls_timings : stats; ls_unit : Q }.
Definition print_stats_report (ls : linestats) (output_unit : option Q) (o : options) (E : env) : report :=
  show_text_py (ls_unit ls) output_unit E o (ls_timings ls).

(* ---- reading a printed number back ------------------------------------------------ *)
(* a printed cell is  [spaces] digits [ "." digits ] [ "e" ("+"|"-") digits ];
   parse_dec gives (M, E, nd) with value M * 10^E, nd = number of mantissa digits printed *)
Fixpoint split_at (c : ascii) (s : string) : string * option string :=
  match s with
  | EmptyString => (EmptyString, None)
  | String a t =>
      if Ascii.eqb a c then (EmptyString, Some t)
      else let '(l, r) := split_at c t in (String a l, r)
  end.

Definition parse_exp (s : string) : option Z :=
  match s with
  | String sg t =>
      if Ascii.eqb sg "+"%char then parse_nat t
      else if Ascii.eqb sg "-"%char then option_map Z.opp (parse_nat t)
      else None
  | EmptyString => None
  end.

Definition parse_dec (s0 : string) : option (Z * Z * Z) :=
  let s := lstrip_space s0 in
  let '(mant, ex) := split_at "e"%char s in
  let '(ip, fp) := split_at "."%char mant in
  match parse_nat ip with
  | None => None
  | Some i =>
      let fr := match fp with
                | None => Some (0, 0)
                | Some f => match parse_nat f with Some v => Some (v, slen f) | None => None end
                end in
      match fr with
      | None => None
      | Some (fv, fl) =>
          let m := i * 10 ^ fl + fv in
          match ex with
          | None => Some (m, - fl, slen ip + fl)
          | Some es => match parse_exp es with
                       | Some e => Some (m, e - fl, slen ip + fl)
                       | None => None
                       end
          end
      end
  end.

Definition dec_value (p : Z * Z * Z) : Q := (inject_Z (fst (fst p)) * pow10Q (snd (fst p)))%Q.
