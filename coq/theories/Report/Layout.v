(* Report engine (E6), layout layer: line_profiler.line_profiler.show_text / show_func
   (rich=False) as total list functions, statement by statement.

   INTERFACE (stable; Channels.v may rely on it)
     key       = (filename, first_lineno, function name)
     timing    = (lineno, nhits, time)           all Python ints
     stats     = list (key * list timing)        in dict (insertion) order, keys distinct
     env       = filename -> first_lineno -> source      what os.path.exists + linecache +
                 inspect.getblock deliver: `Found sublines` (file on disk), `Missing`, or
                 `Cell sublines` (an IPython cell: no file, the source lives only in
                 linecache.cache; show_func refreshes only the reported file's entry with
                 linecache.checkcache(filename) - since /repo 6c987c9 - so the lookup of one
                 function does not depend on which functions were reported before it)
     formatter = the four number-to-text conversions and the stream's `encodable` test (instantiated in Cells.v by
                 `py_formatter unit output_unit`; every structural theorem holds for any formatter)
     show_func F env strip key timings : option block
     show_text F env opts stats        : report
     render_report : report -> list string      the text, split at "\n" (every line is
                                                 "\n"-terminated in the real output)          *)
From LP Require Import Prelude.Py Report.LayoutStr.

Definition key := (string * Z * string)%type.
Definition timing := (Z * Z * Z)%type.
Definition t_line (t : timing) : Z := fst (fst t).
Definition t_hits (t : timing) : Z := snd (fst t).
Definition t_time (t : timing) : Z := snd t.
Definition entry := (key * list timing)%type.
Definition stats := list entry.

Record options := mkOpts { o_stripzeros : bool; o_sort : bool; o_summarize : bool; o_details : bool }.

Inductive source :=
| Found (sublines : list string)    (* os.path.exists: linecache.checkcache(filename), then the file is read *)
| Missing                           (* no file, not an IPython cell name *)
| Cell (sublines : list string).    (* is_ipython_kernel_cell(filename), source only in linecache.cache *)
Definition env := string -> Z -> source.

Definition cells := (string * string * string * string)%type.   (* hits, time, per hit, % time *)
Definition empty_cells : cells := ("", "", "", "").

Record formatter := mkFmt {
  f_unit_text : string;            (* '%g' % (output_unit if output_unit is not None else unit) *)
  f_total : Z -> string;           (* '%g' % (total_time * unit) *)
  f_cells : Z -> timing -> cells;  (* total_time -> one timing -> its display tuple *)
  f_summary : Z -> string;         (* '%6.2f' % (total_time * unit) *)
  f_encodable : string -> bool     (* can the stream's (strict) encoding encode this text?  io.StringIO and
                                      UTF-8 streams: always; an ascii / latin-1 stdout: not every source line *)
}.

(* sum(...) over a list of ints *)
Definition zsum (l : list Z) : Z := fold_right Z.add 0 l.
Definition total_hits (tm : list timing) : Z := zsum (map t_hits tm).
Definition total_time (tm : list timing) : Z := zsum (map t_time tm).

(* ---- sorted(): a stable sort ------------------------------------------------- *)
Section Sort.
  Context {A : Type} (le : A -> A -> bool).
  Fixpoint insert (x : A) (l : list A) : list A :=
    match l with
    | [] => [x]
    | y :: t => if le x y then x :: y :: t else y :: insert x t
    end.
  (* x stood before everything in l originally, so it goes before its equals: stable *)
  Fixpoint isort (l : list A) : list A :=
    match l with [] => [] | x :: t => insert x (isort t) end.
End Sort.

(* tuple comparison of (filename, lineno, name): lexicographic; str compares by code point *)
Definition key_cmp (a b : key) : comparison :=
  let '(f1, l1, n1) := a in let '(f2, l2, n2) := b in
  match String.compare f1 f2 with
  | Eq => match Z.compare l1 l2 with Eq => String.compare n1 n2 | c => c end
  | c => c
  end.
Definition key_le (a b : key) : bool := match key_cmp a b with Gt => false | _ => true end.
Definition key_eqb (a b : key) : bool := match key_cmp a b with Eq => true | _ => false end.

Definition entry_le_key (a b : entry) : bool := key_le (fst a) (fst b).
Definition entry_le_time (a b : entry) : bool := total_time (snd a) <=? total_time (snd b).

(* stats_order *)
Definition stats_order (sort : bool) (st : stats) : list entry :=
  if sort then isort entry_le_time st else isort entry_le_key st.

(* ---- the display dict ---------------------------------------------------------- *)
Definition dict := list (Z * cells).
Fixpoint dset (d : dict) (k : Z) (v : cells) : dict :=
  match d with
  | [] => [(k, v)]
  | (k', v') :: t => if k' =? k then (k, v) :: t else (k', v') :: dset t k v
  end.
Fixpoint dget (d : dict) (k : Z) : option cells :=
  match d with
  | [] => None
  | (k', v') :: t => if k' =? k then Some v' else dget t k
  end.

Definition build_display (F : formatter) (tot : Z) (tm : list timing) : dict :=
  fold_left (fun d t => dset d (t_line t) (f_cells F tot t)) tm [].

Definition zmax_list (d : Z) (l : list Z) : Z := fold_right Z.max d l.
Definition zmin_list (d : Z) (l : list Z) : Z := fold_right Z.min d l.

(* range(start, start+n) *)
Fixpoint zrange (start : Z) (n : nat) : list Z :=
  match n with O => [] | S k => start :: zrange (start + 1) k end.

Record row := mkRow { r_lineno : Z; r_cells : cells; r_text : string }.

Record block := mkBlock {
  b_key : key;
  b_total : string;         (* text after "Total time: " *)
  b_found : bool;           (* the File:/Function: header vs the "Could not find file" text *)
  b_wh : Z; b_wt : Z; b_wp : Z;   (* widths of the Hits / Time / Per Hit columns *)
  b_rows : list row
}.

Definition c_hits (c : cells) : string := fst (fst (fst c)).
Definition c_time (c : cells) : string := snd (fst (fst c)).
Definition c_perhit (c : cells) : string := snd (fst c).
Definition c_percent (c : cells) : string := snd c.

(* the source block: sublines *)
Definition block_lines (src : source) (start : Z) (tm : list timing) : list string :=
  match src with
  | Found sub => sub
  | Cell sub => sub
  | Missing =>
      let linenos := map t_line tm in
      let nlines := match linenos with
                    | [] => 1
                    | l0 :: rest =>
                        zmax_list l0 rest - Z.min (zmin_list l0 rest) start + 1
                    end in
      repeat EmptyString (Z.to_nat nlines)
  end.

(* what the row shows when stream.write(row) raises UnicodeEncodeError *)
Definition encode_fallback : string := "UnicodeEncodeError - help wanted for a fix".

(* the cells are ASCII, so the row is encodable iff the source text is *)
Definition shown_text (F : formatter) (line : string) : string :=
  let t := rstrip_char cr (rstrip_char nl line) in
  if f_encodable F t then t else encode_fallback.

Definition mk_row (F : formatter) (d : dict) (lineno : Z) (line : string) : row :=
  mkRow lineno
        (match dget d lineno with Some c => c | None => empty_cells end)
        (shown_text F line).

Definition show_func (F : formatter) (E : env) (strip : bool) (k : key) (tm : list timing)
  : option block :=
  let '(fn, start, name) := k in
  let th := total_hits tm in
  let tt := total_time tm in
  if strip && (th =? 0) then None else
  let src := E fn start in
  let sub := block_lines src start tm in
  let d := build_display F tt tm in
  let wh := zmax_list 9 (map (fun kv => slen (c_hits (snd kv))) d) in
  let wt := zmax_list 12 (map (fun kv => slen (c_time (snd kv))) d) in
  let wp := zmax_list 8 (map (fun kv => slen (c_perhit (snd kv))) d) in
  let rows := map (fun p => mk_row F d (fst p) (snd p)) (combine (zrange start (length sub)) sub) in
  Some (mkBlock k (f_total F tt) (match src with Missing => false | _ => true end)
                wh wt wp rows).

Record report := mkReport {
  rp_unit : string;
  rp_blocks : list block;
  rp_summary : list (key * string)      (* (key, '%6.2f' text) per summary line *)
}.

Fixpoint filter_map {A B} (f : A -> option B) (l : list A) : list B :=
  match l with
  | [] => []
  | x :: t => match f x with Some y => y :: filter_map f t | None => filter_map f t end
  end.

(* `if not stripzeros or sum(t[1] for t in timings)`: like show_func, skip exactly the functions
   without hits (since /repo commit 49eff24; before it the test was on total_time * unit) *)
Definition summary_of (F : formatter) (strip : bool) (e : entry) : option (key * string) :=
  let tt := total_time (snd e) in
  if negb strip || negb (total_hits (snd e) =? 0) then Some (fst e, f_summary F tt) else None.

Definition show_text (F : formatter) (E : env) (o : options) (st : stats) : report :=
  let order := stats_order (o_sort o) st in
  mkReport (f_unit_text F)
           (if o_details o
            then filter_map (fun e => show_func F E (o_stripzeros o) (fst e) (snd e)) order
            else [])
           (if o_summarize o then filter_map (summary_of F (o_stripzeros o)) order else []).

(* ---- rendering -------------------------------------------------------------------- *)
Definition lhs_text (b : block) (lineno hits time perhit percent : string) : string :=
  (lpad 6 lineno ++ " " ++ lpad (b_wh b) hits ++ " " ++ lpad (b_wt b) time ++ " "
   ++ lpad (b_wp b) perhit ++ " " ++ lpad 8 percent)%string.

Definition header_text (b : block) : string :=
  (lhs_text b "Line #" "Hits" "Time" "Per Hit" "% Time" ++ "  " ++ "Line Contents")%string.

Definition row_lhs (b : block) (r : row) : string :=
  let c := r_cells r in
  lhs_text b (fmt_d (r_lineno r)) (c_hits c) (c_time c) (c_perhit c) (c_percent c).

Definition row_text (b : block) (r : row) : string := (row_lhs b r ++ "  " ++ r_text r)%string.

Definition render_block (b : block) : list string :=
  let '(fn, start, name) := b_key b in
  let h := header_text b in
  [("Total time: " ++ b_total b ++ " s")%string]
  ++ (if b_found b
      then [("File: " ++ fn)%string; ("Function: " ++ name ++ " at line " ++ fmt_d start)%string]
      else [""; ("Could not find file " ++ fn)%string;
            "Are you sure you are running this program from the same directory";
            "that you ran the profiler from?";
            "Continuing without the function's contents."])
  ++ [""; h; repeat_char "="%char (String.length h)]
  ++ map (row_text b) (b_rows b)
  ++ [""].

Definition render_summary (ks : key * string) : string :=
  let '((fn, start, name), txt) := ks in
  (txt ++ " seconds - " ++ fn ++ ":" ++ fmt_d start ++ " - " ++ name)%string.

Definition render_report (r : report) : list string :=
  [("Timer unit: " ++ rp_unit r ++ " s")%string; ""]
  ++ concat (map render_block (rp_blocks r))
  ++ map render_summary (rp_summary r).
