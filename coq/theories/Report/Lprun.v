(* Engine E6, %lprun (C20): the IPython magic as a small state machine.
   Executable definitions only; proofs in LprunProofs.v, shard checkers in
   LprunCheck.v.

   Source read: line_profiler/ipython_extension.py (LineProfilerMagics.lprun),
   profiler_mixin.py (runctx = enable_by_count; exec; finally disable_by_count),
   line_profiler.py (add_module, print_stats, dump_stats).

   Order of the source, which the model follows statement by statement:
     1. evaluate every -f expression          (failure -> UsageError)
     2. profile = LineProfiler( *funcs )
     3. import every -m module, add_module    (failure -> UsageError)
     4. float(-u)                             (failure -> TypeError)
     5. had_profile/old_profile; builtins.__dict__["profile"] = profile
     6. try: profile.runctx(stmt)  except SystemExit / KeyboardInterrupt: message
     7. finally: if had_profile: builtins.__dict__["profile"] = old_profile
                 else: builtins.__dict__.pop("profile", None)        (since 350dbfa)
     8. any other exception leaves here
     9. print_stats -> rstrip -> page; print(message); -D dump_stats; -T write; -r return *)
From Coq Require Import QArith.
From LP Require Import Prelude.Py Report.Channels.
Local Open Scope Z_scope.

Inductive outcome := Return | SysExit | KbdInt | ExcOther.

(* functions are ids; the statement's effect is the list of calls it makes (nested
   calls included, in order), how it ends, and which names it binds itself *)
Definition call := (Z * Z)%type.            (* (function, argument n) *)
Record stmt := Stmt { s_calls : list call; s_outcome : outcome; s_binds : list Z }.

(* ---- the profiler object ---------------------------------------------------- *)
Record profiler := Prof {
  p_id : Z;
  p_funcs : list Z;          (* registered functions, in registration order *)
  p_count : Z;               (* enable_count *)
  p_log : list call }.       (* calls recorded, newest first *)

Definition registered (p : profiler) (f : Z) : bool := existsb (Z.eqb f) (p_funcs p).
Definition new_profiler (id : Z) (funcs : list Z) : profiler := Prof id funcs 0 [].
(* enable_by_count: if count == 0: enable(); count += 1 *)
Definition enable_by_count (p : profiler) : profiler :=
  Prof (p_id p) (p_funcs p) (p_count p + 1) (p_log p).
(* disable_by_count: if count > 0: count -= 1; if count == 0: disable() *)
Definition disable_by_count (p : profiler) : profiler :=
  Prof (p_id p) (p_funcs p) (if 0 <? p_count p then p_count p - 1 else p_count p) (p_log p).
(* a call is recorded iff the profiler is enabled and the function registered *)
Definition record (p : profiler) (c : call) : profiler :=
  if (0 <? p_count p) && registered p (fst c)
  then Prof (p_id p) (p_funcs p) (p_count p) (c :: p_log p) else p.
Definition exec_calls (p : profiler) (cs : list call) : profiler := fold_left record cs p.

(* ByCountProfilerMixin.runctx *)
Definition runctx (p : profiler) (s : stmt) : profiler * outcome :=
  let p1 := enable_by_count p in
  let p2 := exec_calls p1 (s_calls s) in
  (disable_by_count p2, s_outcome s).        (* finally: disable_by_count *)

Definition calls_of (p : profiler) (f : Z) : list Z :=
  map snd (filter (fun c => fst c =? f) (p_log p)).

(* ---- the option string after IPython's parser and the evaluations ---------- *)
Inductive uarg := UNone | UBad | UOk (u : funit).
Record args := Args {
  a_f : list (option Z);             (* each -f expression: the function, or None if eval raises *)
  a_m : list (option (list Z));      (* each -m NAME: the functions add_module registers for the module NAME
                                        ITSELF (__import__(NAME, fromlist=[""]): for a dotted NAME the sub-module,
                                        not its top-level package), or None if the import fails *)
  a_u : uarg;
  a_r : bool;
  a_s : bool;
  a_D : option Z;                    (* file ids; None = "" (not given) *)
  a_T : option Z }.

Fixpoint collect {A} (l : list (option A)) : option (list A) :=
  match l with
  | [] => Some []
  | None :: _ => None
  | Some x :: t => match collect t with Some r => Some (x :: r) | None => None end
  end.

Definition unit_of (u : uarg) : option funit := match u with UOk v => Some v | _ => None end.

(* message printed after the page *)
Definition msg_of (o : outcome) : Z :=
  match o with SysExit => 1 | KbdInt => 2 | _ => 0 end.

(* THE REPAIR SWITCH.  true = the tree since /repo 350dbfa: the finally block reads
       if had_profile: builtins.__dict__["profile"] = old_profile
       else:           builtins.__dict__.pop("profile", None)
   false = the tree before that commit (nothing was done when no builtin `profile`
   existed, so the magic's profiler stayed in builtins). *)
Definition tree_deletes_inserted_profile : bool := true.

Definition restore_builtins (fixed : bool) (old cur : option Z) : option Z :=
  match old with
  | Some _ => old                      (* if had_profile: builtins["profile"] = old_profile *)
  | None => if fixed then None else cur
  end.

Inductive reskind := KDone | KUsage | KType | KPropagated.

Section Lprun.
  Variable text : Type.
  Variable render : snapshot -> opts -> text.
  Variable rstrip : text -> text.
  Variable bytes : Type.
  Variable dump : snapshot -> bytes.
  Variable get_stats : profiler -> snapshot.

  Record session := Sess {
    b_profile : option Z;                  (* builtins.__dict__.get("profile") as an object id *)
    next_id : Z;                           (* id of the next profiler object *)
    pager : list text;                     (* page(...) calls, newest first *)
    files : list (Z * content text bytes);
    msgs : list (Z * Z);                   (* (kind, argument) printed: (0,msg) after page, (1,msg) -D, (2,msg) -T *)
    ns : list Z }.                         (* names in the user namespace *)

  Record result := Res { r_kind : reskind; r_prof : option profiler; r_ret : bool }.

  Definition bump (s : session) : session :=
    Sess (b_profile s) (next_id s + 1) (pager s) (files s) (msgs s) (ns s).

  Definition lprun_gen (fixed : bool) (a : args) (st : stmt) (s : session) : session * result :=
    match collect (a_f a) with
    | None => (bump s, Res KUsage None false)
    | Some fs =>
      match collect (a_m a) with
      | None => (bump s, Res KUsage None false)
      | Some ms =>
        match a_u a with
        | UBad => (bump s, Res KType None false)
        | _ =>
          let p0 := new_profiler (next_id s) (fs ++ concat ms) in
          let old := b_profile s in
          let during := Some (p_id p0) in
          let '(p1, oc) := runctx p0 st in
          let after := restore_builtins fixed old during in
          let ns1 := s_binds st ++ ns s in
          match oc with
          | ExcOther =>
              (Sess after (next_id s + 1) (pager s) (files s) (msgs s) ns1, Res KPropagated (Some p1) false)
          | _ =>
              let o := lprun_opts (unit_of (a_u a)) (a_s a) in
              let output := rstrip (render (get_stats p1) o) in
              let m := msg_of oc in
              let files1 := match a_D a with Some f => (f, Pkl (dump (get_stats p1))) :: files s | None => files s end in
              let msgs1 := match a_D a with Some f => (1, m) :: (0, m) :: msgs s | None => (0, m) :: msgs s end in
              let files2 := match a_T a with Some f => (f, Txt output) :: files1 | None => files1 end in
              let msgs2 := match a_T a with Some f => (2, m) :: msgs1 | None => msgs1 end in
              (Sess after (next_id s + 1) (output :: pager s) files2 msgs2 ns1, Res KDone (Some p1) (a_r a))
          end
        end
      end
    end.

  Definition lprun := lprun_gen tree_deletes_inserted_profile.

  Fixpoint run_seq (fixed : bool) (xs : list (args * stmt)) (s : session) : session * list result :=
    match xs with
    | [] => (s, [])
    | (a, st) :: t =>
        let '(s1, r) := lprun_gen fixed a st s in
        let '(s2, rs) := run_seq fixed t s1 in
        (s2, r :: rs)
    end.

  (* does the invocation get as far as touching builtins? *)
  Definition reaches (a : args) : bool :=
    match collect (a_f a), collect (a_m a), a_u a with
    | Some _, Some _, UBad => false
    | Some _, Some _, _ => true
    | _, _, _ => false
    end.

  Definition named (a : args) : list Z :=
    match collect (a_f a), collect (a_m a) with
    | Some fs, Some ms => fs ++ concat ms
    | _, _ => []
    end.
End Lprun.

Arguments Sess {text bytes} b_profile next_id pager files msgs ns.
Arguments b_profile {text bytes} s.
Arguments next_id {text bytes} s.
Arguments pager {text bytes} s.
Arguments files {text bytes} s.
Arguments msgs {text bytes} s.
Arguments ns {text bytes} s.
