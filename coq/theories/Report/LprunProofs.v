(* Proofs about the %lprun state machine (Lprun.v): C20. *)
From Coq Require Import QArith.
From LP Require Import Prelude.Py Report.Channels Report.Lprun.
Local Open Scope Z_scope.

(* ---- the profiler ------------------------------------------------------------ *)
Lemma record_disabled p c : p_count p = 0 -> record p c = p.
Proof. intros H. unfold record. rewrite H. reflexivity. Qed.

Lemma exec_calls_disabled p cs : p_count p = 0 -> exec_calls p cs = p.
Proof.
  intros H. unfold exec_calls. induction cs as [|c t IH]; cbn [fold_left]; [reflexivity|].
  rewrite record_disabled by exact H. exact IH.
Qed.

Lemma record_inv p c :
  p_id (record p c) = p_id p /\ p_funcs (record p c) = p_funcs p /\ p_count (record p c) = p_count p.
Proof. unfold record. destruct (_ && _); repeat split. Qed.

Lemma exec_calls_inv p cs :
  p_id (exec_calls p cs) = p_id p /\ p_funcs (exec_calls p cs) = p_funcs p
  /\ p_count (exec_calls p cs) = p_count p.
Proof.
  unfold exec_calls. revert p. induction cs as [|c t IH]; intros p; cbn [fold_left]; [repeat split|].
  destruct (IH (record p c)) as [H1 [H2 H3]]. destruct (record_inv p c) as [G1 [G2 G3]].
  rewrite H1, H2, H3. auto.
Qed.

Lemma exec_calls_log p cs :
  0 < p_count p ->
  p_log (exec_calls p cs) = rev (filter (fun c => registered p (fst c)) cs) ++ p_log p.
Proof.
  unfold exec_calls. revert p. induction cs as [|c t IH]; intros p Hc; cbn [fold_left filter]; [reflexivity|].
  assert (Hreg : forall f, registered (record p c) f = registered p f).
  { intros f. unfold registered. now destruct (record_inv p c) as [_ [-> _]]. }
  rewrite IH by (destruct (record_inv p c) as [_ [_ ->]]; exact Hc).
  rewrite (filter_ext _ _ (fun c0 => Hreg (fst c0))).
  unfold record. assert (Hpos : (0 <? p_count p) = true) by lia. rewrite Hpos. cbn [andb].
  destruct (registered p (fst c)); cbn [p_log rev].
  - now rewrite <- app_assoc.
  - reflexivity.
Qed.

Lemma filter_rev {A} (f : A -> bool) l : filter f (rev l) = rev (filter f l).
Proof.
  induction l as [|x t IH]; [reflexivity|]. cbn [rev filter].
  rewrite filter_app, IH. cbn [filter]. destruct (f x); cbn [rev]; [reflexivity|now rewrite app_nil_r].
Qed.

Lemma filter_filter {A} (f g : A -> bool) l : filter f (filter g l) = filter (fun x => f x && g x) l.
Proof.
  induction l as [|x t IH]; [reflexivity|]. cbn [filter].
  destruct (g x); cbn [filter]; rewrite ?IH; [now rewrite andb_true_r|now rewrite andb_false_r].
Qed.

Lemma filter_unregistered (funcs : list Z) f (l : list call) :
  existsb (Z.eqb f) funcs = false ->
  filter (fun x => (fst x =? f) && existsb (Z.eqb (fst x)) funcs) l = [].
Proof.
  intros Hreg. induction l as [|c t IH]; [reflexivity|]. cbn [filter].
  destruct (fst c =? f) eqn:E; cbn [andb]; [|exact IH].
  apply Z.eqb_eq in E. rewrite E, Hreg. exact IH.
Qed.

(* what the profiler of one invocation ends up as *)
Definition ran (id : Z) (funcs : list Z) (st : stmt) : profiler :=
  fst (runctx (new_profiler id funcs) st).

Lemma ran_facts id funcs st :
  let p := ran id funcs st in
  p_id p = id /\ p_funcs p = funcs /\ p_count p = 0
  /\ (forall f, calls_of p f =
                if existsb (Z.eqb f) funcs
                then rev (map snd (filter (fun c => fst c =? f) (s_calls st))) else [])
  /\ (forall cs, exec_calls p cs = p).
Proof.
  unfold ran, runctx. cbn [fst].
  set (p1 := enable_by_count (new_profiler id funcs)).
  assert (Hc : p_count p1 = 1) by reflexivity.
  destruct (exec_calls_inv p1 (s_calls st)) as [Hid [Hf Hcount]].
  assert (Hcnt0 : p_count (disable_by_count (exec_calls p1 (s_calls st))) = 0).
  { unfold disable_by_count. cbn [p_count]. rewrite Hcount, Hc. reflexivity. }
  split; [unfold disable_by_count; cbn [p_id]; now rewrite Hid|].
  split; [unfold disable_by_count; cbn [p_funcs]; now rewrite Hf|].
  split; [exact Hcnt0|].
  split.
  - intros f. unfold calls_of, disable_by_count. cbn [p_log].
    rewrite exec_calls_log by (rewrite Hc; lia).
    cbn [p_log p1 enable_by_count new_profiler]. rewrite app_nil_r, filter_rev, filter_filter.
    unfold registered. cbn [p_funcs p1 enable_by_count new_profiler].
    destruct (existsb (Z.eqb f) funcs) eqn:Hreg.
    + rewrite map_rev. f_equal. f_equal. apply filter_ext_in. intros c _.
      destruct (fst c =? f) eqn:E; [|reflexivity].
      apply Z.eqb_eq in E. rewrite E. cbn [andb]. exact Hreg.
    + now rewrite filter_unregistered.
  - intros cs. now apply exec_calls_disabled.
Qed.

(* ---- one invocation ----------------------------------------------------------- *)
Section LprunFacts.
  Variable text : Type.
  Variable render : snapshot -> opts -> text.
  Variable rstrip : text -> text.
  Variable bytes : Type.
  Variable dump : snapshot -> bytes.
  Variable get_stats : profiler -> snapshot.

  Notation session := (session text bytes).
  Notation lprun_gen := (lprun_gen text render rstrip bytes dump get_stats).
  Notation lprun := (lprun text render rstrip bytes dump get_stats).
  Notation run_seq := (run_seq text render rstrip bytes dump get_stats).
  Notation lookup := (Channels.lookup text bytes).

  Lemma reaches_named a :
    reaches a = true ->
    exists fs ms, collect (a_f a) = Some fs /\ collect (a_m a) = Some ms /\ a_u a <> UBad
                  /\ named a = fs ++ concat ms.
  Proof.
    unfold reaches, named. destruct (collect (a_f a)) as [fs|]; [|discriminate].
    destruct (collect (a_m a)) as [ms|]; [|discriminate].
    intros H. exists fs, ms. repeat split. intros E. rewrite E in H. discriminate.
  Qed.

  (* the expected text of an invocation *)
  Definition output_of (a : args) (p : profiler) : text :=
    rstrip (render (get_stats p) (opts_of (ChLprun (unit_of (a_u a)) (a_s a)))).

  (* Everything about an invocation that gets past option handling. *)
  Lemma lprun_reaching fixed a st (s : session) :
    reaches a = true ->
    let p := ran (next_id s) (named a) st in
    let s' := fst (lprun_gen fixed a st s) in
    let r := snd (lprun_gen fixed a st s) in
    r_prof r = Some p
    /\ b_profile s' = restore_builtins fixed (b_profile s) (Some (next_id s))
    /\ ns s' = s_binds st ++ ns s
    /\ next_id s' = next_id s + 1
    /\ (s_outcome st = ExcOther ->
          r_kind r = KPropagated /\ r_ret r = false
          /\ pager s' = pager s /\ files s' = files s /\ msgs s' = msgs s)
    /\ (s_outcome st <> ExcOther ->
          r_kind r = KDone /\ r_ret r = a_r a
          /\ pager s' = output_of a p :: pager s
          /\ In (0, msg_of (s_outcome st)) (msgs s')
          /\ (forall f, a_T a = Some f -> lookup f (files s') = Some (Txt (output_of a p))
                                          /\ In (2, msg_of (s_outcome st)) (msgs s'))
          /\ (forall f, a_D a = Some f -> a_T a <> Some f ->
                        lookup f (files s') = Some (Pkl (dump (get_stats p)))
                        /\ In (1, msg_of (s_outcome st)) (msgs s'))
          /\ (a_T a = None -> a_D a = None -> files s' = files s)).
  Proof.
    intros Hr. destruct (reaches_named a Hr) as [fs [ms [Hf [Hm [Hu Hn]]]]].
    unfold Lprun.lprun_gen. rewrite Hf, Hm, Hn. unfold ran.
    destruct (a_u a) as [| |u] eqn:Eu; try congruence;
      unfold runctx; cbn [fst snd];
      destruct (s_outcome st) eqn:Eo; cbn [fst snd r_prof r_kind r_ret b_profile ns next_id pager files msgs];
      (split; [reflexivity|]); (split; [reflexivity|]); (split; [reflexivity|]); (split; [reflexivity|]);
      (split; [intros Hx; try discriminate; repeat split|]); intros Hx; try congruence;
      (split; [reflexivity|]); (split; [reflexivity|]);
      unfold output_of; cbn [opts_of unit_of]; rewrite ?Eu; cbn [unit_of];
      (split; [reflexivity|]);
      (split; [destruct (a_T a), (a_D a); cbn [In]; auto|]);
      (split; [intros f Hf'; rewrite Hf'; cbn [Channels.lookup]; rewrite Z.eqb_refl;
               split; [reflexivity|destruct (a_D a); cbn [In]; auto]|]);
      (split; [intros f Hd Hnt; rewrite Hd;
               destruct (a_T a) as [g|]; cbn [Channels.lookup In];
               [assert (Eg : (g =? f) = false) by (apply Z.eqb_neq; congruence); rewrite Eg|];
               rewrite Z.eqb_refl; split; auto|]);
      intros Ht Hd; rewrite Ht, Hd; reflexivity.
  Qed.

  (* An invocation stopped by UsageError / TypeError touches nothing. *)
  Lemma lprun_not_reaching fixed a st (s : session) :
    reaches a = false ->
    let s' := fst (lprun_gen fixed a st s) in
    let r := snd (lprun_gen fixed a st s) in
    (r_kind r = KUsage \/ r_kind r = KType) /\ r_prof r = None /\ r_ret r = false
    /\ b_profile s' = b_profile s /\ pager s' = pager s /\ files s' = files s
    /\ msgs s' = msgs s /\ ns s' = ns s /\ next_id s' = next_id s + 1.
  Proof.
    unfold reaches, Lprun.lprun_gen. destruct (collect (a_f a)) as [fs|]; cbn [fst snd].
    - destruct (collect (a_m a)) as [ms|]; cbn [fst snd].
      + destruct (a_u a); try discriminate. intros _. cbn. repeat split; auto.
      + intros _. cbn. repeat split; auto.
    - intros _. cbn. repeat split; auto.
  Qed.

  (* ---- builtins ---------------------------------------------------------------- *)
  Lemma builtins_restored_had fixed a st (s : session) x :
    b_profile s = Some x -> b_profile (fst (lprun_gen fixed a st s)) = Some x.
  Proof.
    intros Hb. destruct (reaches a) eqn:Hr.
    - destruct (lprun_reaching fixed a st s Hr) as [_ [H _]]. rewrite H, Hb. reflexivity.
    - destruct (lprun_not_reaching fixed a st s Hr) as [_ [_ [_ [H _]]]]. now rewrite H.
  Qed.

  (* the machine WITHOUT the repair (fixed = false, the tree before 350dbfa) *)
  Lemma builtins_leak_unrepaired a st (s : session) :
    b_profile s = None -> reaches a = true ->
    b_profile (fst (lprun_gen false a st s)) = Some (next_id s).
  Proof.
    intros Hb Hr.
    destruct (lprun_reaching false a st s Hr) as [_ [H _]].
    rewrite H, Hb. reflexivity.
  Qed.

  Lemma builtins_fixed a st (s : session) :
    b_profile (fst (lprun_gen true a st s)) = b_profile s.
  Proof.
    destruct (reaches a) eqn:Hr.
    - destruct (lprun_reaching true a st s Hr) as [_ [H _]]. rewrite H.
      destruct (b_profile s); reflexivity.
    - now destruct (lprun_not_reaching true a st s Hr) as [_ [_ [_ [H _]]]].
  Qed.

  (* ---- sequences of invocations -------------------------------------------------- *)
  Lemma run_seq_cons fixed a st xs (s : session) :
    fst (run_seq fixed ((a, st) :: xs) s) = fst (run_seq fixed xs (fst (lprun_gen fixed a st s))).
  Proof.
    cbn [Lprun.run_seq]. destruct (lprun_gen fixed a st s) as [s1 r]. cbn [fst].
    destruct (run_seq fixed xs s1) as [s2 rs]. reflexivity.
  Qed.

  Lemma seq_builtins_had fixed xs (s : session) x :
    b_profile s = Some x -> b_profile (fst (run_seq fixed xs s)) = Some x.
  Proof.
    revert s. induction xs as [|[a st] t IH]; intros s Hb; [exact Hb|].
    rewrite run_seq_cons. apply IH. now apply builtins_restored_had.
  Qed.

  Lemma seq_builtins_fixed xs (s : session) :
    b_profile (fst (run_seq true xs s)) = b_profile s.
  Proof.
    revert s. induction xs as [|[a st] t IH]; intros s; [reflexivity|].
    rewrite run_seq_cons, IH. apply builtins_fixed.
  Qed.

  Lemma next_id_step fixed a st (s : session) : next_id (fst (lprun_gen fixed a st s)) = next_id s + 1.
  Proof.
    destruct (reaches a) eqn:Hr.
    - now destruct (lprun_reaching fixed a st s Hr) as [_ [_ [_ [H _]]]].
    - now destruct (lprun_not_reaching fixed a st s Hr) as [_ [_ [_ [_ [_ [_ [_ [_ H]]]]]]]].
  Qed.

  (* the current tree: builtins as found, over any sequence of invocations *)
  Lemma seq_builtins_restored xs (s : session) :
    b_profile (fst (run_seq tree_deletes_inserted_profile xs s)) = b_profile s.
  Proof. exact (seq_builtins_fixed xs s). Qed.
End LprunFacts.

(* ---- packaged statements for Props/C20.v ----------------------------------------- *)
Section Packaged.
  Variable text : Type.
  Variable render : snapshot -> opts -> text.
  Variable rstrip : text -> text.
  Variable bytes : Type.
  Variable dump : snapshot -> bytes.
  Variable get_stats : profiler -> snapshot.
  Notation session := (session text bytes).
  Notation lprun_gen := (lprun_gen text render rstrip bytes dump get_stats).
  Notation lprun := (lprun text render rstrip bytes dump get_stats).
  Notation run_seq := (run_seq text render rstrip bytes dump get_stats).

  Lemma only_named fixed a st (s : session) :
    reaches a = true ->
    exists p, r_prof (snd (lprun_gen fixed a st s)) = Some p
      /\ p_funcs p = named a
      /\ p_count p = 0
      /\ (forall f, calls_of p f =
                    if existsb (Z.eqb f) (named a)
                    then rev (map snd (filter (fun c => fst c =? f) (s_calls st))) else [])
      /\ (forall cs, exec_calls p cs = p).
  Proof.
    intros Hr. exists (ran (next_id s) (named a) st).
    destruct (lprun_reaching text render rstrip bytes dump get_stats fixed a st s Hr) as [H _].
    destruct (ran_facts (next_id s) (named a) st) as [_ [Hf [Hc [Hcalls Hstable]]]].
    auto.
  Qed.

  Lemma outputs_agree fixed a st (s : session) :
    reaches a = true -> s_outcome st <> ExcOther ->
    let s' := fst (lprun_gen fixed a st s) in
    let r := snd (lprun_gen fixed a st s) in
    exists p, r_prof r = Some p /\ r_kind r = KDone /\ r_ret r = a_r a
      /\ pager s' = output_of text render rstrip get_stats a p :: pager s
      /\ (forall f, a_T a = Some f ->
            Channels.lookup text bytes f (files s') = Some (Txt (output_of text render rstrip get_stats a p)))
      /\ (forall f, a_D a = Some f -> a_T a <> Some f ->
            Channels.lookup text bytes f (files s') = Some (Pkl (dump (get_stats p))))
      /\ (forall cs, get_stats (exec_calls p cs) = get_stats p).
  Proof.
    intros Hr Ho s' r. exists (ran (next_id s) (named a) st).
    destruct (lprun_reaching text render rstrip bytes dump get_stats fixed a st s Hr)
      as [Hp [_ [_ [_ [_ H]]]]].
    destruct (H Ho) as [Hk [Hret [Hpg [_ [HT [HD _]]]]]].
    destruct (ran_facts (next_id s) (named a) st) as [_ [_ [_ [_ Hstable]]]].
    repeat split; auto.
    - intros f Hf. now destruct (HT f Hf).
    - intros f Hf Hn. now destruct (HD f Hf Hn).
    - intros cs. now rewrite Hstable.
  Qed.

  Lemma output_on_exit_or_interrupt fixed a st (s : session) :
    reaches a = true -> s_outcome st = SysExit \/ s_outcome st = KbdInt ->
    let s' := fst (lprun_gen fixed a st s) in
    let r := snd (lprun_gen fixed a st s) in
    exists p, r_prof r = Some p /\ r_kind r = KDone /\ r_ret r = a_r a
      /\ pager s' = output_of text render rstrip get_stats a p :: pager s
      /\ In (0, if match s_outcome st with SysExit => true | _ => false end then 1 else 2) (msgs s')
      /\ (forall f, a_T a = Some f ->
            Channels.lookup text bytes f (files s') = Some (Txt (output_of text render rstrip get_stats a p)))
      /\ (forall f, a_D a = Some f -> a_T a <> Some f ->
            Channels.lookup text bytes f (files s') = Some (Pkl (dump (get_stats p)))).
  Proof.
    intros Hr Ho s' r. exists (ran (next_id s) (named a) st).
    assert (Hne : s_outcome st <> ExcOther) by (destruct Ho as [E|E]; rewrite E; discriminate).
    destruct (lprun_reaching text render rstrip bytes dump get_stats fixed a st s Hr)
      as [Hp [_ [_ [_ [_ H]]]]].
    destruct (H Hne) as [Hk [Hret [Hpg [Hm [HT [HD _]]]]]].
    repeat split; auto.
    - destruct Ho as [E|E]; rewrite E in *; exact Hm.
    - intros f Hf. now destruct (HT f Hf).
    - intros f Hf Hn. now destruct (HD f Hf Hn).
  Qed.

  Lemma other_exception fixed a st (s : session) :
    reaches a = true -> s_outcome st = ExcOther ->
    let s' := fst (lprun_gen fixed a st s) in
    let r := snd (lprun_gen fixed a st s) in
    r_kind r = KPropagated /\ r_ret r = false
    /\ pager s' = pager s /\ files s' = files s /\ msgs s' = msgs s
    /\ b_profile s' = restore_builtins fixed (b_profile s) (Some (next_id s))
    /\ exists p, r_prof r = Some p /\ p_count p = 0.
  Proof.
    intros Hr Ho s' r.
    destruct (lprun_reaching text render rstrip bytes dump get_stats fixed a st s Hr)
      as [Hp [Hb [_ [_ [H _]]]]].
    destruct (H Ho) as [Hk [Hret [Hpg [Hf Hm]]]].
    repeat split; auto.
    exists (ran (next_id s) (named a) st). split; [exact Hp|].
    now destruct (ran_facts (next_id s) (named a) st) as [_ [_ [Hc _]]].
  Qed.

  Lemma namespace_as_found fixed a st (s : session) :
    ns (fst (lprun_gen fixed a st s)) = (if reaches a then s_binds st else []) ++ ns s.
  Proof.
    destruct (reaches a) eqn:Hr.
    - now destruct (lprun_reaching text render rstrip bytes dump get_stats fixed a st s Hr) as [_ [_ [H _]]].
    - now destruct (lprun_not_reaching text render rstrip bytes dump get_stats fixed a st s Hr)
        as [_ [_ [_ [_ [_ [_ [_ [H _]]]]]]]].
  Qed.

  Lemma builtins_restored xs (s : session) :
    b_profile (fst (run_seq tree_deletes_inserted_profile xs s)) = b_profile s.
  Proof. apply seq_builtins_restored. Qed.

  (* a pre-existing builtin `profile` is put back by the repaired and by the unrepaired machine *)
  Lemma builtins_restored_when_had fixed xs (s : session) x :
    b_profile s = Some x -> b_profile (fst (run_seq fixed xs s)) = Some x.
  Proof. apply seq_builtins_had. Qed.

  Lemma errors_touch_nothing fixed a st (s : session) :
    reaches a = false ->
    let s' := fst (lprun_gen fixed a st s) in
    let r := snd (lprun_gen fixed a st s) in
    (r_kind r = KUsage \/ r_kind r = KType) /\ r_prof r = None /\ r_ret r = false
    /\ b_profile s' = b_profile s /\ pager s' = pager s /\ files s' = files s
    /\ msgs s' = msgs s /\ ns s' = ns s /\ next_id s' = next_id s + 1.
  Proof. apply lprun_not_reaching. Qed.
End Packaged.

(* ---- the refutation, with a concrete witness -------------------------------------- *)
Definition w_args : args := Args [Some 7] [] UNone true false None None.
Definition w_stmt : stmt := Stmt [(7, 3); (8, 3)] Return [].
Definition w_sess : session unit unit := Sess None 100 [] [] [] [].
Definition w_run := lprun unit (fun _ _ => tt) (fun t => t) unit (fun _ => tt)
                          (fun _ => Snap [] (FUnit 1 (1 # 1000000000))) w_args w_stmt w_sess.

(* `%lprun -r -f f f(3)` in a session without a builtin `profile`: afterwards there is
   still none (current tree); the unrepaired machine left its profiler there - the
   else-branch of the finally block is necessary. *)
Definition w_run_unrepaired := lprun_gen unit (fun _ _ => tt) (fun t => t) unit (fun _ => tt)
                          (fun _ => Snap [] (FUnit 1 (1 # 1000000000))) false w_args w_stmt w_sess.

Lemma builtins_witness :
  b_profile w_sess = None
  /\ reaches w_args = true
  /\ r_kind (snd w_run) = KDone
  /\ b_profile (fst w_run) = None
  /\ b_profile (fst w_run_unrepaired) = Some 100.
Proof. vm_compute. repeat split. Qed.

(* non-vacuity of the positive statements: a concrete run with every option,
   a statement that raises SystemExit after calling a named and an unnamed function *)
Definition e_args : args := Args [Some 7; Some 9] [Some [20; 21]] (UOk (FUnit 2 (1 # 1000))) true true (Some 50) (Some 51).
Definition e_stmt : stmt := Stmt [(7, 3); (8, 3); (20, 0); (7, 1)] SysExit [].
Definition e_sess : session (snapshot * opts) snapshot := Sess (Some 1) 100 [] [] [] [5; 6].
Definition e_stats (p : profiler) : snapshot :=
  Snap (map (fun f => ((f, 1, f), map (fun n => (n, 1, 0)) (calls_of p f))) (p_funcs p)) (FUnit 1 (1 # 1000000000)).
Definition e_run := lprun (snapshot * opts) (fun s o => (s, o)) (fun t => t) snapshot (fun s => s) e_stats e_args e_stmt e_sess.

Example lprun_nonvacuous :
  reaches e_args = true
  /\ named e_args = [7; 9; 20; 21]
  /\ r_kind (snd e_run) = KDone /\ r_ret (snd e_run) = true
  /\ option_map (fun p => (p_funcs p, p_count p, calls_of p 7, calls_of p 8, calls_of p 20)) (r_prof (snd e_run))
     = Some ([7; 9; 20; 21], 0, [1; 3], [], [0])
  /\ b_profile (fst e_run) = Some 1
  /\ length (pager (fst e_run)) = 1%nat /\ length (files (fst e_run)) = 2%nat
  /\ msgs (fst e_run) = [(2, 1); (1, 1); (0, 1)]
  /\ ns (fst e_run) = [5; 6].
Proof. vm_compute. repeat split. Qed.
