(* Concrete reports computed by the model (vm_compute): the witness of the IPython-cell row
   loss, and a worked example showing that the hypotheses of the C10 theorems are
   satisfiable and what the rendered text looks like. *)
From Coq Require Import QArith.
From LP Require Import Prelude.Py Report.LayoutStr Report.Layout Report.LayoutProofs Report.Cells.
Open Scope Z_scope.

(* the exact value of the Python float 1e-06 *)
Definition u6 : Q := (4722366482869645 # 4722366482869645213696)%Q.

Definition ex_st : stats :=
  [(("zero.py", 4, "slow"), [(5, 3, 7000)]);
   (("zero.py", 1, "fast"), [(2, 1234567890, 0)])].

Definition ex_env : env :=
  fun fn start =>
    if start =? 4 then Found [("def slow(x):" ++ String nl "")%string; "    return x + 1"] else Missing.

Definition ex_opts : options := mkOpts true false true true.   (* stripzeros, summarize, details *)

(* stripzeros + summarize: "fast" was hit 1234567890 times in 0 timer units.  Its details are
   printed AND it has its summary line (before /repo commit 49eff24 the summary line was missing:
   the summary was filtered on total time, the details on total hits).  The whole text, as the
   model renders it: *)
Theorem example_report :
  NoDup (map fst ex_st)
  /\ Forall (fun e => NoDup (map t_line (snd e)) /\ Forall (fun t => 1 <= t_hits t) (snd e)) ex_st
  /\ render_report (show_text_py u6 None ex_env ex_opts ex_st) =
     ["Timer unit: 1e-06 s"; "";
      "Total time: 0 s"; "";
      "Could not find file zero.py";
      "Are you sure you are running this program from the same directory";
      "that you ran the profiler from?";
      "Continuing without the function's contents."; "";
      "Line #        Hits         Time  Per Hit   % Time  Line Contents";
      "================================================================";
      "     1                                             ";
      "     2 1.23457e+09          0.0      0.0           "; "";
      "Total time: 0.007 s"; "File: zero.py"; "Function: slow at line 4"; "";
      "Line #      Hits         Time  Per Hit   % Time  Line Contents";
      "==============================================================";
      "     4                                           def slow(x):";
      "     5         3       7000.0   2333.3    100.0      return x + 1"; "";
      "  0.00 seconds - zero.py:1 - fast";
      "  0.01 seconds - zero.py:4 - slow"].
Proof.
  split; [|split].
  - repeat constructor; cbn; intuition discriminate.
  - repeat constructor; cbn; try lia; intros [].
  - vm_compute. reflexivity.
Qed.

(* a repeated line number: the first entry's numbers are nowhere in the block *)
Theorem duplicate_example :
  let F := py_formatter 1 None in
  option_map (fun b => map r_cells (b_rows b))
             (show_func F (fun _ _ => Missing) false false ("f.py", 1, "f") [(1, 5, 10); (1, 7, 30)])
  = Some [("7", " 30.0", "  4.3", " 75.0")].
Proof. vm_compute. reflexivity. Qed.

(* One report, two functions: `f` in a file on disk and `c0` defined in an IPython cell (its
   source lives only in linecache.cache).  show_func(f) calls linecache.clearcache(); the block
   of c0, printed after it, has its header and NO rows: both recorded lines are lost.  Printed
   alone (or before f) the same function shows both lines. *)
Definition ip_cell : string := "<ipython-input-3-abcdef>".
Definition ip_st : stats :=
  [(("/src/a.py", 1, "f"), [(2, 1, 100)]);
   ((ip_cell, 1, "c0"), [(2, 1, 50); (3, 1, 60)])].
Definition ip_env : env :=
  fun fn start =>
    if String.eqb fn ip_cell then Cell ["def c0(y):"; "    y += 1"; "    return y"]
    else Found ["def f(x):"; "    return x"].

Theorem ipython_cell_rows_witness :
  exists (st : stats) (k : key) (tm : list timing) (E : env) (o : options) (sub : list string),
    NoDup (map fst st) /\ In (k, tm) st /\ NoDup (map t_line tm) /\ tm <> []
    /\ E (fst (fst k)) (snd (fst k)) = Cell sub
    /\ (forall t, In t tm -> snd (fst k) <= t_line t < snd (fst k) + Z.of_nat (length sub))
    /\ o_details o = true
    (* alone, every recorded line of k is on a row *)
    /\ (forall t, In t tm ->
          exists b, In b (rp_blocks (show_text_py 1 None E o [(k, tm)])) /\
                    In (t_line t) (map r_lineno (b_rows b)))
    (* after a function whose file is on disk, its block is there but has no rows *)
    /\ (exists b, In b (rp_blocks (show_text_py 1 None E o st)) /\ b_key b = k /\ b_rows b = []).
Proof.
  exists ip_st, (ip_cell, 1, "c0"), [(2, 1, 50); (3, 1, 60)], ip_env, (mkOpts false false false true),
         ["def c0(y):"; "    y += 1"; "    return y"].
  split; [|split; [|split; [|split; [|split; [|split; [|split; [|split]]]]]]].
  - repeat constructor; cbn; intuition discriminate.
  - right. left. reflexivity.
  - repeat constructor; cbn; intuition discriminate.
  - discriminate.
  - reflexivity.
  - intros t [<-|[<-|[]]]; cbn; lia.
  - reflexivity.
  - intros t Ht. eexists. split; [vm_compute; left; reflexivity|].
    destruct Ht as [<-|[<-|[]]]; vm_compute; tauto.
  - eexists. split; [vm_compute; right; left; reflexivity|]. split; reflexivity.
Qed.
