(* Concrete reports computed by the model (vm_compute): an IPython-cell example, and a worked example showing that the hypotheses of the C10 theorems are
   satisfiable and what the rendered text looks like. *)
From Coq Require Import QArith.
From LP Require Import Prelude.Py Report.LayoutStr Report.Layout Report.LayoutProofs Report.Cells.
Open Scope Z_scope.

(* the exact value of the Python float 1e-06 *)
Definition u6 : Q := (4722366482869645 # 4722366482869645213696)%Q.

Definition ex_st : stats :=
  [(("zero.py", 4, "slow"), [(5, 3, 7000)]);
   (("zero.py", 1, "fast"), [(2, 1234567890, 0)])].

Definition ex_env : env :=
  fun fn start =>
    if start =? 4 then Found [("def slow(x):" ++ String nl "")%string; "    return x + 1"] else Missing.

Definition ex_opts : options := mkOpts true false true true.   (* stripzeros, summarize, details *)

(* stripzeros + summarize: "fast" was hit 1234567890 times in 0 timer units.  Its details are
   printed AND it has its summary line (before /repo commit 49eff24 the summary line was missing:
   the summary was filtered on total time, the details on total hits).  The whole text, as the
   model renders it: *)
Theorem example_report :
  NoDup (map fst ex_st)
  /\ Forall (fun e => NoDup (map t_line (snd e)) /\ Forall (fun t => 1 <= t_hits t) (snd e)) ex_st
  /\ render_report (show_text_py u6 None ex_env ex_opts ex_st) =
     ["Timer unit: 1e-06 s"; "";
      "Total time: 0 s"; "";
      "Could not find file zero.py";
      "Are you sure you are running this program from the same directory";
      "that you ran the profiler from?";
      "Continuing without the function's contents."; "";
      "Line #        Hits         Time  Per Hit   % Time  Line Contents";
      "================================================================";
      "     1                                             ";
      "     2 1.23457e+09          0.0      0.0           "; "";
      "Total time: 0.007 s"; "File: zero.py"; "Function: slow at line 4"; "";
      "Line #      Hits         Time  Per Hit   % Time  Line Contents";
      "==============================================================";
      "     4                                           def slow(x):";
      "     5         3       7000.0   2333.3    100.0      return x + 1"; "";
      "  0.00 seconds - zero.py:1 - fast";
      "  0.01 seconds - zero.py:4 - slow"].
Proof.
  split; [|split].
  - repeat constructor; cbn; intuition discriminate.
  - repeat constructor; cbn; try lia; intros [].
  - vm_compute. reflexivity.
Qed.

(* a repeated line number: the first entry's numbers are nowhere in the block *)
Theorem duplicate_example :
  let F := py_formatter 1 None in
  option_map (fun b => map r_cells (b_rows b))
             (show_func F (fun _ _ => Missing) false ("f.py", 1, "f") [(1, 5, 10); (1, 7, 30)])
  = Some [("7", " 30.0", "  4.3", " 75.0")].
Proof. vm_compute. reflexivity. Qed.

(* One report, two functions: `f` in a file on disk and `c0` defined in an IPython cell (its
   source lives only in linecache.cache).  The block of c0, printed after the block of f, shows
   its three lines with both recorded lines on their rows (before /repo 6c987c9 it had a header
   and no rows: show_func(f) called linecache.clearcache()). *)
Definition ip_cell : string := "<ipython-input-3-abcdef>".
Definition ip_st : stats :=
  [(("/src/a.py", 1, "f"), [(2, 1, 100)]);
   ((ip_cell, 1, "c0"), [(2, 1, 50); (3, 1, 60)])].
Definition ip_env : env :=
  fun fn start =>
    if String.eqb fn ip_cell then Cell ["def c0(y):"; "    y += 1"; "    return y"]
    else Found ["def f(x):"; "    return x"].

Theorem ipython_cell_example :
  map (fun b => (b_key b, map (fun r => (r_lineno r, c_hits (r_cells r), r_text r)) (b_rows b)))
      (rp_blocks (show_text_py 1 None ip_env (mkOpts false false false true) ip_st))
  = [(("/src/a.py", 1, "f"), [(1, "", "def f(x):"); (2, "1", "    return x")]);
     ((ip_cell, 1, "c0"), [(1, "", "def c0(y):"); (2, "1", "    y += 1"); (3, "1", "    return y")])].
Proof. vm_compute. reflexivity. Qed.

(* A function whose file name is an IPython cell name while the cell's source is cached nowhere
   (the statistics are viewed in another process than the notebook's): show_func takes the
   File:/Function: branch, linecache.getlines gives nothing, inspect.getblock([]) = [] - the block
   is a header and NO rows, although both recorded lines have numbers.  (An unknown ordinary file
   name takes the "Could not find file" branch, which does print the rows.) *)
Definition uc_cell : string := "<ipython-input-7-c0ffee>".
Theorem uncached_cell_witness :
  exists (st : stats) (k : key) (tm : list timing) (E : env) (o : options),
    NoDup (map fst st) /\ In (k, tm) st /\ NoDup (map t_line tm) /\ tm <> []
    /\ (forall t, In t tm -> snd (fst k) <= t_line t /\ 1 <= t_hits t)
    /\ E (fst (fst k)) (snd (fst k)) = Cell []
    /\ o_details o = true
    /\ (exists b, In b (rp_blocks (show_text_py 1 None E o st)) /\ b_key b = k /\ b_rows b = [])
    (* the same statistics under a name that is neither a file nor a cell keep their rows *)
    /\ (exists b, In b (rp_blocks (show_text_py 1 None (fun _ _ => Missing) o st)) /\ b_key b = k
                  /\ map r_lineno (b_rows b) = [1; 2; 3]).
Proof.
  exists [((uc_cell, 1, "c1"), [(2, 4, 900); (3, 4, 1100)])], (uc_cell, 1, "c1"), [(2, 4, 900); (3, 4, 1100)],
         (fun _ _ => Cell []), (mkOpts false false false true).
  split; [|split; [|split; [|split; [|split; [|split; [|split; [|split]]]]]]].
  - repeat constructor. intros [].
  - left. reflexivity.
  - repeat constructor; cbn; intuition discriminate.
  - discriminate.
  - intros t [<-|[<-|[]]]; cbn; lia.
  - reflexivity.
  - reflexivity.
  - eexists. split; [vm_compute; left; reflexivity|]. split; reflexivity.
  - eexists. split; [vm_compute; left; reflexivity|]. split; reflexivity.
Qed.

(* a strict ascii stream: the row of a non-ASCII source line shows the placeholder, on its own row *)
Theorem encoding_example :
  option_map (fun b => map (fun r => (r_lineno r, r_text r)) (b_rows b))
    (show_func (with_encoding (py_formatter 1 None) Ascii)
               (fun _ _ => Found ["def e(x):"; bs [32;32;97;32;61;32;39;195;169;39]; "  return x"])
               false ("e.py", 1, "e") [(2, 1, 5); (3, 1, 5)])
  = Some [(1, "def e(x):"); (2, encode_fallback); (3, "  return x")].
Proof. vm_compute. reflexivity. Qed.
