(* Structural theorems about the layout model (Layout.v): they hold for EVERY formatter,
   environment, option combination and stats list - no bound on the number of functions,
   lines or the magnitude of the numbers. *)
From Coq Require Import Sorting.Permutation Sorting.Sorted.
From LP Require Import Prelude.Py Report.LayoutStr Report.Layout.

(* ---- sorted() ------------------------------------------------------------------- *)
Section SortFacts.
  Context {A : Type} (le : A -> A -> bool).
  Hypothesis le_total : forall a b, le a b = false -> le b a = true.

  Lemma insert_perm x l : Permutation (insert le x l) (x :: l).
  Proof.
    induction l as [|y t IH]; cbn [insert]; [apply Permutation_refl|].
    destruct (le x y); [apply Permutation_refl|].
    eapply Permutation_trans; [apply perm_skip, IH|apply perm_swap].
  Qed.

  Lemma isort_perm l : Permutation (isort le l) l.
  Proof.
    induction l as [|x t IH]; cbn [isort]; [constructor|].
    eapply Permutation_trans; [apply insert_perm|apply perm_skip, IH].
  Qed.

  Let R a b := le a b = true.

  Lemma insert_hdrel a x l : R a x -> HdRel R a l -> HdRel R a (insert le x l).
  Proof.
    intros Hax Hal. destruct l as [|y t]; cbn [insert]; [constructor; exact Hax|].
    destruct (le x y); constructor; [exact Hax|]. inversion Hal; assumption.
  Qed.

  Lemma insert_sorted x l : Sorted R l -> Sorted R (insert le x l).
  Proof.
    induction l as [|y t IH]; intros Hs; cbn [insert].
    - repeat constructor.
    - destruct (le x y) eqn:E.
      + constructor; [exact Hs|constructor; exact E].
      + inversion Hs as [|? ? Hst Hhd]; subst. constructor; [apply IH; exact Hst|].
        apply insert_hdrel; [apply le_total; exact E|exact Hhd].
  Qed.

  Lemma isort_sorted l : Sorted R (isort le l).
  Proof. induction l as [|x t IH]; cbn [isort]; [constructor|apply insert_sorted; exact IH]. Qed.

  (* stability: elements that compare equal keep their original relative order *)
  Hypothesis le_trans : forall a b c, le a b = true -> le b c = true -> le a c = true.
  Definition eqv (a b : A) : bool := le a b && le b a.

  Lemma eqv_shift x a y : eqv x a = true -> le a y = false -> eqv x y = false.
  Proof.
    unfold eqv. intros Hxa Hay. apply andb_true_iff in Hxa as [Hxa Hax].
    destruct (le x y) eqn:Exy; [|reflexivity]. cbn.
    destruct (le y x) eqn:Eyx; [|reflexivity].
    (* a <= x <= y contradicts le a y = false *)
    rewrite (le_trans a x y Hax Exy) in Hay. discriminate.
  Qed.

  Lemma insert_filter_eqv x a l :
    filter (eqv x) (insert le a l) = if eqv x a then a :: filter (eqv x) l else filter (eqv x) l.
  Proof.
    induction l as [|y t IH]; cbn [insert filter]; [reflexivity|].
    destruct (le a y) eqn:E; cbn [filter]; [reflexivity|].
    rewrite IH. destruct (eqv x a) eqn:Exa; [|reflexivity].
    rewrite (eqv_shift x a y Exa E). reflexivity.
  Qed.

  Lemma isort_stable x l : filter (eqv x) (isort le l) = filter (eqv x) l.
  Proof.
    induction l as [|a t IH]; cbn [isort filter]; [reflexivity|].
    rewrite insert_filter_eqv, IH. reflexivity.
  Qed.
End SortFacts.

(* ---- orders used by show_text ------------------------------------------------------ *)
Lemma key_cmp_antisym a b : key_cmp a b = CompOpp (key_cmp b a).
Proof.
  destruct a as [[f1 l1] n1], b as [[f2 l2] n2]. unfold key_cmp.
  rewrite (String.compare_antisym f2 f1). destruct (String.compare f1 f2); cbn [CompOpp]; try reflexivity.
  rewrite (Z.compare_antisym l1 l2). destruct (l1 ?= l2); cbn [CompOpp]; try reflexivity.
  rewrite (String.compare_antisym n2 n1). destruct (String.compare n1 n2); reflexivity.
Qed.

Lemma key_le_total a b : key_le a b = false -> key_le b a = true.
Proof.
  unfold key_le. rewrite (key_cmp_antisym b a). destruct (key_cmp a b); cbn [CompOpp]; congruence.
Qed.

Lemma entry_le_key_total a b : entry_le_key a b = false -> entry_le_key b a = true.
Proof. apply key_le_total. Qed.

Lemma entry_le_time_total a b : entry_le_time a b = false -> entry_le_time b a = true.
Proof. unfold entry_le_time. lia. Qed.

Lemma entry_le_time_trans a b c :
  entry_le_time a b = true -> entry_le_time b c = true -> entry_le_time a c = true.
Proof. unfold entry_le_time. lia. Qed.

Lemma stats_order_perm s st : Permutation (stats_order s st) st.
Proof. unfold stats_order. destruct s; apply isort_perm. Qed.

(* ---- filter_map ------------------------------------------------------------------- *)
Lemma filter_map_in {A B} (f : A -> option B) l y :
  In y (filter_map f l) <-> exists x, In x l /\ f x = Some y.
Proof.
  induction l as [|a t IH]; cbn [filter_map].
  - split; [intros []|intros [x [[] _]]].
  - destruct (f a) eqn:E.
    + cbn [In]. rewrite IH. split.
      * intros [->|[x [Hx Hf]]]; [exists a; split; [left; reflexivity|exact E]|exists x; split; [right; exact Hx|exact Hf]].
      * intros [x [[->|Hx] Hf]]; [left; congruence|right; exists x; split; assumption].
    + rewrite IH. split.
      * intros [x [Hx Hf]]. exists x. split; [right; exact Hx|exact Hf].
      * intros [x [[->|Hx] Hf]]; [congruence|exists x; split; assumption].
Qed.

Lemma filter_map_map_filter {A B C} (f : A -> option B) (g : B -> C) (h : A -> C) (p : A -> bool) l :
  (forall x y, f x = Some y -> g y = h x /\ p x = true) ->
  (forall x, f x = None -> p x = false) ->
  map g (filter_map f l) = map h (filter p l).
Proof.
  intros HS HN. induction l as [|a t IH]; cbn [filter_map filter map]; [reflexivity|].
  destruct (f a) eqn:E.
  - destruct (HS _ _ E) as [Hg Hp]. rewrite Hp. cbn [map]. rewrite Hg, IH. reflexivity.
  - rewrite (HN _ E). exact IH.
Qed.

Lemma NoDup_map_filter {A B} (h : A -> B) (p : A -> bool) l :
  NoDup (map h l) -> NoDup (map h (filter p l)).
Proof.
  induction l as [|a t IH]; cbn [map filter]; intros H; [constructor|].
  inversion H as [|? ? Hn Ht]; subst. destruct (p a); [|apply IH; exact Ht].
  cbn [map]. constructor; [|apply IH; exact Ht].
  intros Hin. apply Hn. apply in_map_iff in Hin as [x [Hx Hin]]. apply filter_In in Hin as [Hin _].
  apply in_map_iff. exists x. split; assumption.
Qed.

(* ---- show_func: which functions are shown ----------------------------------------- *)
Definition shown (strip : bool) (e : entry) : bool := negb (strip && (total_hits (snd e) =? 0)).

Lemma show_func_key F E strip k tm b : show_func F E strip k tm = Some b -> b_key b = k.
Proof.
  destruct k as [[fn start] name]. unfold show_func.
  destruct (strip && (total_hits tm =? 0)); [discriminate|]. intros H. inversion H. reflexivity.
Qed.

Lemma show_func_some F E strip k tm :
  (exists b, show_func F E strip k tm = Some b) <-> shown strip (k, tm) = true.
Proof.
  destruct k as [[fn start] name]. unfold show_func, shown. cbn [snd].
  destruct (strip && (total_hits tm =? 0)); cbn [negb]; split.
  - intros [b H]; discriminate.
  - discriminate.
  - reflexivity.
  - intros _. eexists. reflexivity.
Qed.

Lemma show_func_none F E strip k tm :
  show_func F E strip k tm = None <-> shown strip (k, tm) = false.
Proof.
  destruct k as [[fn start] name]. unfold show_func, shown. cbn [snd].
  destruct (strip && (total_hits tm =? 0)); cbn [negb]; split; congruence.
Qed.

(* the details loop is a pure per-function map: a block does not depend on what was reported
   before it *)
Lemma blocks_are_per_function F E o st :
  o_details o = true ->
  rp_blocks (show_text F E o st)
  = filter_map (fun e => show_func F E (o_stripzeros o) (fst e) (snd e)) (stats_order (o_sort o) st).
Proof. intros Hd. unfold show_text. cbn [rp_blocks]. rewrite Hd. reflexivity. Qed.

Lemma blocks_keys F E o st :
  o_details o = true ->
  map b_key (rp_blocks (show_text F E o st))
  = map fst (filter (shown (o_stripzeros o)) (stats_order (o_sort o) st)).
Proof.
  intros Hd. rewrite blocks_are_per_function by exact Hd.
  apply filter_map_map_filter.
  - intros [k tm] b H. cbn [fst snd] in H. split; [exact (show_func_key _ _ _ _ _ _ H)|].
    apply (proj1 (show_func_some F E _ k tm)). exists b. exact H.
  - intros [k tm] H. cbn [fst snd] in H. apply (proj1 (show_func_none F E _ k tm)). exact H.
Qed.

Lemma NoDup_keys_in_unique (st : stats) k tm tm' :
  NoDup (map fst st) -> In (k, tm) st -> In (k, tm') st -> tm = tm'.
Proof.
  induction st as [|[k0 t0] t IH]; intros Hnd H1 H2; [destruct H1|].
  cbn [map fst] in Hnd. inversion Hnd as [|? ? Hn Ht]; subst.
  destruct H1 as [H1|H1], H2 as [H2|H2].
  - congruence.
  - inversion H1; subst. exfalso. apply Hn. apply in_map_iff. exists (k, tm'). split; [reflexivity|exact H2].
  - inversion H2; subst. exfalso. apply Hn. apply in_map_iff. exists (k, tm). split; [reflexivity|exact H1].
  - apply IH; assumption.
Qed.

(* every stats key gives exactly one block (NoDup + membership); under stripzeros exactly
   the functions with total hits <> 0; every block is show_func of its own timings *)
Theorem every_function_once F E o (st : stats) :
  NoDup (map fst st) -> o_details o = true ->
  let blocks := rp_blocks (show_text F E o st) in
  NoDup (map b_key blocks)
  /\ (forall k tm, In (k, tm) st ->
        (In k (map b_key blocks) <-> (o_stripzeros o = false \/ total_hits tm <> 0)))
  /\ (forall b, In b blocks ->
        exists tm, In (b_key b, tm) st /\ show_func F E (o_stripzeros o) (b_key b) tm = Some b).
Proof.
  intros Hnd Hd blocks.
  assert (Hperm := stats_order_perm (o_sort o) st).
  assert (Hnd' : NoDup (map fst (stats_order (o_sort o) st))).
  { eapply Permutation_NoDup; [apply Permutation_map, Permutation_sym, Hperm|exact Hnd]. }
  split; [|split].
  - unfold blocks. rewrite blocks_keys by exact Hd. apply NoDup_map_filter. exact Hnd'.
  - intros k tm Hin. unfold blocks. rewrite blocks_keys by exact Hd.
    rewrite in_map_iff. split.
    + intros [[k' tm'] [Hk Hf]]. cbn [fst] in Hk. subst k'. apply filter_In in Hf as [Hf Hs].
      assert (tm' = tm).
      { eapply NoDup_keys_in_unique; [exact Hnd| |exact Hin].
        eapply Permutation_in; [exact Hperm|exact Hf]. }
      subst tm'. unfold shown in Hs. cbn [snd] in Hs.
      destruct (o_stripzeros o); [right|left; reflexivity]. cbn in Hs. lia.
    + intros Hs. exists (k, tm). split; [reflexivity|]. apply filter_In. split.
      * eapply Permutation_in; [apply Permutation_sym, Hperm|exact Hin].
      * unfold shown. cbn [snd]. destruct Hs as [->|Hs]; [reflexivity|].
        destruct (o_stripzeros o); [cbn; lia|reflexivity].
  - intros b Hb. unfold blocks, show_text in Hb. cbn [rp_blocks] in Hb. rewrite Hd in Hb.
    apply filter_map_in in Hb as [[k tm] [Hin Hf]]. cbn [fst snd] in Hf.
    pose proof (show_func_key _ _ _ _ _ _ Hf) as Hk. subst k.
    exists tm. split; [eapply Permutation_in; [exact Hperm|exact Hin]|exact Hf].
Qed.

Lemma details_off F E o st : o_details o = false -> rp_blocks (show_text F E o st) = [].
Proof. intros H. unfold show_text. cbn [rp_blocks]. rewrite H. reflexivity. Qed.

(* with non-negative hit counts "total hits = 0" is "no line was ever hit" *)
Lemma zsum_zero_iff l : Forall (fun x => 0 <= x) l -> (zsum l = 0 <-> Forall (fun x => x = 0) l).
Proof.
  induction l as [|a t IH]; intros HF; cbn [zsum fold_right].
  - split; [constructor|reflexivity].
  - inversion HF as [|? ? Ha Ht]; subst. specialize (IH Ht). fold (zsum t).
    assert (0 <= zsum t).
    { clear -Ht. induction t as [|b t IH]; cbn [zsum fold_right]; [lia|].
      inversion Ht; subst. fold (zsum t). specialize (IH H2). lia. }
    split.
    + intros Hs. constructor; [lia|]. apply IH. lia.
    + intros HF0. inversion HF0 as [|? ? Ha0 Ht0]; subst. apply IH in Ht0. lia.
Qed.

Lemma no_hits_iff tm :
  (forall t, In t tm -> 0 <= t_hits t) ->
  (total_hits tm = 0 <-> forall t, In t tm -> t_hits t = 0).
Proof.
  intros H. unfold total_hits. rewrite zsum_zero_iff.
  - rewrite Forall_forall. split.
    + intros HA t Ht. apply HA. apply in_map. exact Ht.
    + intros HA x Hx. apply in_map_iff in Hx as [t [<- Ht]]. apply HA. exact Ht.
  - apply Forall_forall. intros x Hx. apply in_map_iff in Hx as [t [<- Ht]]. apply H. exact Ht.
Qed.

(* ---- ordering of the blocks ---------------------------------------------------------- *)
Lemma Sorted_filter {A} (R : A -> A -> Prop) (p : A -> bool) l :
  (forall a b c, R a b -> R b c -> R a c) -> Sorted R l -> Sorted R (filter p l).
Proof.
  intros Htr Hs. apply Sorted_StronglySorted in Hs; [|exact Htr].
  apply StronglySorted_Sorted.
  induction Hs as [|a t Hst IH Hall]; cbn [filter]; [constructor|].
  destruct (p a); [|exact IH]. constructor; [exact IH|].
  apply Forall_forall. intros x Hx. apply filter_In in Hx as [Hx _].
  rewrite Forall_forall in Hall. apply Hall. exact Hx.
Qed.

Lemma Sorted_weaken {A} (R R' : A -> A -> Prop) l :
  (forall a b, R a b -> R' a b) -> Sorted R l -> Sorted R' l.
Proof.
  intros HR Hs. induction Hs as [|a l Hl IH Hhd]; constructor; [exact IH|].
  destruct Hhd; constructor. apply HR. assumption.
Qed.

(* sort=True: the shown entries are in ascending total time, ties in dict order *)
Theorem sort_by_time F E o st :
  o_details o = true -> o_sort o = true ->
  exists order,
    Permutation order st
    /\ Sorted (fun a b => total_time (snd a) <= total_time (snd b)) order
    /\ (forall x, filter (eqv entry_le_time x) order = filter (eqv entry_le_time x) st)
    /\ map b_key (rp_blocks (show_text F E o st)) = map fst (filter (shown (o_stripzeros o)) order)
    /\ Sorted (fun a b => total_time (snd a) <= total_time (snd b)) (filter (shown (o_stripzeros o)) order).
Proof.
  intros Hd Hs. exists (stats_order true st).
  assert (HS : Sorted (fun a b => total_time (snd a) <= total_time (snd b)) (stats_order true st)).
  { unfold stats_order. eapply Sorted_weaken; [|apply (isort_sorted entry_le_time entry_le_time_total)].
    intros a b Hab. unfold entry_le_time in Hab. lia. }
  split; [apply stats_order_perm|]. split; [exact HS|]. split; [|split].
  - intros x. unfold stats_order. apply isort_stable. apply entry_le_time_trans.
  - rewrite <- Hs. apply blocks_keys. exact Hd.
  - apply Sorted_filter; [intros a b c; lia|exact HS].
Qed.

(* sort=False: in ascending key order (tuple comparison of (filename, lineno, name)) *)
Theorem sort_by_key F E o st :
  o_details o = true -> o_sort o = false ->
  exists order,
    Permutation order st
    /\ Sorted (fun a b => key_le (fst a) (fst b) = true) order
    /\ map b_key (rp_blocks (show_text F E o st)) = map fst (filter (shown (o_stripzeros o)) order).
Proof.
  intros Hd Hs. exists (stats_order false st). split; [apply stats_order_perm|]. split.
  - unfold stats_order. apply (isort_sorted entry_le_key entry_le_key_total).
  - rewrite <- Hs. apply blocks_keys. exact Hd.
Qed.

(* ---- summary ---------------------------------------------------------------------------- *)
Lemma shown_alt strip e : shown strip e = negb strip || negb (total_hits (snd e) =? 0).
Proof. unfold shown. destruct strip, (total_hits (snd e) =? 0); reflexivity. Qed.

Lemma summary_keys F E o st :
  o_summarize o = true ->
  rp_summary (show_text F E o st)
  = map (fun e => (fst e, f_summary F (total_time (snd e))))
        (filter (shown (o_stripzeros o)) (stats_order (o_sort o) st)).
Proof.
  intros Hs. unfold show_text. cbn [rp_summary]. rewrite Hs.
  induction (stats_order (o_sort o) st) as [|e t IH]; cbn [filter_map filter map]; [reflexivity|].
  unfold summary_of at 1. rewrite (shown_alt (o_stripzeros o) e).
  destruct (negb (o_stripzeros o) || negb (total_hits (snd e) =? 0)); cbn [map]; rewrite IH; reflexivity.
Qed.

(* summarize adds one total per function to be shown (all of them without stripzeros; with it
   those with total hits <> 0), in block order, and nothing when off *)
Theorem summarize_one_per_function F E o (st : stats) :
  NoDup (map fst st) ->
  (o_summarize o = false -> rp_summary (show_text F E o st) = [])
  /\ (o_summarize o = true ->
      NoDup (map fst (rp_summary (show_text F E o st)))
      /\ (forall k tm, In (k, tm) st ->
            (In (k, f_summary F (total_time tm)) (rp_summary (show_text F E o st))
             <-> (o_stripzeros o = false \/ total_hits tm <> 0)))
      /\ (o_stripzeros o = false ->
            map fst (rp_summary (show_text F E o st)) = map fst (stats_order (o_sort o) st))).
Proof.
  intros Hnd. split.
  - intros H. unfold show_text. cbn [rp_summary]. rewrite H. reflexivity.
  - intros Hs. rewrite summary_keys by exact Hs.
    assert (Hperm := stats_order_perm (o_sort o) st).
    assert (Hnd' : NoDup (map fst (stats_order (o_sort o) st))).
    { eapply Permutation_NoDup; [apply Permutation_map, Permutation_sym, Hperm|exact Hnd]. }
    split; [|split].
    + rewrite map_map. cbn [fst]. apply NoDup_map_filter. exact Hnd'.
    + intros k tm Hin. rewrite in_map_iff. split.
      * intros [[k' tm'] [Heq Hf]]. cbn [fst snd] in Heq. apply filter_In in Hf as [Hf Hsum].
        inversion Heq; subst k'.
        assert (tm' = tm).
        { eapply NoDup_keys_in_unique; [exact Hnd| |exact Hin]. eapply Permutation_in; [exact Hperm|exact Hf]. }
        subst tm'. unfold shown in Hsum. cbn [snd] in Hsum.
        destruct (o_stripzeros o); [right|left; reflexivity]. cbn in Hsum. lia.
      * intros Hc. exists (k, tm). split; [reflexivity|]. apply filter_In. split.
        -- eapply Permutation_in; [apply Permutation_sym, Hperm|exact Hin].
        -- unfold shown. cbn [snd]. destruct Hc as [-> | Hc]; [reflexivity|].
           destruct (o_stripzeros o); [cbn; lia|reflexivity].
    + intros Hz. rewrite map_map. cbn [fst]. f_equal.
      clear -Hz. induction (stats_order (o_sort o) st) as [|e t IH]; cbn [filter]; [reflexivity|].
      unfold shown at 1. rewrite Hz at 1. cbn [negb andb]. f_equal. exact IH.
Qed.

(* the summary lists exactly the functions whose details are shown, in the same order - under
   every option combination, stripzeros included *)
Theorem summary_matches_details F E o (st : stats) :
  o_details o = true -> o_summarize o = true ->
  map fst (rp_summary (show_text F E o st)) = map b_key (rp_blocks (show_text F E o st)).
Proof.
  intros Hd Hs. rewrite blocks_keys by exact Hd. rewrite summary_keys by exact Hs.
  rewrite map_map. reflexivity.
Qed.

(* ---- rows of one block ---------------------------------------------------------------- *)
(* the entry display[lineno]: the LAST timing recorded for that line *)
Definition last_for (tm : list timing) (l : Z) : option timing :=
  find (fun t => t_line t =? l) (rev tm).

Lemma dget_dset d k v k' :
  dget (dset d k v) k' = if k =? k' then Some v else dget d k'.
Proof.
  induction d as [|[k0 v0] t IH]; cbn [dset dget].
  - destruct (k =? k'); reflexivity.
  - destruct (k0 =? k) eqn:E0.
    + cbn [dget]. assert (k0 = k) by lia. subst k0. destruct (k =? k'); reflexivity.
    + cbn [dget]. destruct (k0 =? k') eqn:E1.
      * assert (k0 = k') by lia. subst k0. replace (k =? k') with false by lia. reflexivity.
      * exact IH.
Qed.

Lemma find_app {A} (p : A -> bool) l1 l2 :
  find p (l1 ++ l2) = match find p l1 with Some x => Some x | None => find p l2 end.
Proof. induction l1 as [|a t IH]; cbn [app find]; [reflexivity|]. destruct (p a); [reflexivity|exact IH]. Qed.

Lemma build_display_get_gen F tot tm : forall d l,
  dget (fold_left (fun d t => dset d (t_line t) (f_cells F tot t)) tm d) l
  = match last_for tm l with
    | Some t => Some (f_cells F tot t)
    | None => dget d l
    end.
Proof.
  unfold last_for. induction tm as [|t tm IH]; intros d l; cbn [fold_left rev find]; [reflexivity|].
  rewrite IH. rewrite find_app.
  destruct (find (fun t0 => t_line t0 =? l) (rev tm)); [reflexivity|].
  cbn [find]. rewrite dget_dset. destruct (t_line t =? l); reflexivity.
Qed.

Lemma build_display_get F tot tm l :
  dget (build_display F tot tm) l = option_map (f_cells F tot) (last_for tm l).
Proof.
  unfold build_display. rewrite build_display_get_gen. destruct (last_for tm l); reflexivity.
Qed.

(* what show_func prints beside line l *)
Definition display_entry (F : formatter) (tot : Z) (tm : list timing) (l : Z) : cells :=
  match last_for tm l with Some t => f_cells F tot t | None => empty_cells end.

Lemma last_for_unique tm t :
  NoDup (map t_line tm) -> In t tm -> last_for tm (t_line t) = Some t.
Proof.
  intros Hnd Hin. unfold last_for.
  destruct (find (fun t0 => t_line t0 =? t_line t) (rev tm)) as [t'|] eqn:E.
  - apply find_some in E as [Hin' Heq]. apply in_rev in Hin'.
    assert (Hl : t_line t' = t_line t) by lia. f_equal.
    clear Heq. induction tm as [|a tm IH]; [destruct Hin|].
    cbn [map] in Hnd. inversion Hnd as [|? ? Hn Ht]; subst.
    destruct Hin as [->|Hin], Hin' as [->|Hin'].
    + reflexivity.
    + exfalso. apply Hn. rewrite <- Hl. apply in_map. exact Hin'.
    + exfalso. apply Hn. rewrite Hl. apply in_map. exact Hin.
    + apply IH; assumption.
  - exfalso. pose proof (find_none _ _ E t) as H. cbn beta in H.
    rewrite <- in_rev in H. specialize (H Hin). lia.
Qed.

Lemma last_for_none tm l : (forall t, In t tm -> t_line t <> l) -> last_for tm l = None.
Proof.
  intros H. unfold last_for.
  destruct (find (fun t0 => t_line t0 =? l) (rev tm)) as [t'|] eqn:E; [|reflexivity].
  apply find_some in E as [Hin Heq]. apply in_rev in Hin. specialize (H _ Hin). lia.
Qed.

Lemma last_for_some tm l t : last_for tm l = Some t -> In t tm /\ t_line t = l.
Proof.
  unfold last_for. intros E. apply find_some in E as [Hin Heq]. apply in_rev in Hin. split; [exact Hin|lia].
Qed.

Lemma zrange_length s n : length (zrange s n) = n.
Proof. revert s. induction n as [|n IH]; intros s; cbn [zrange length]; [reflexivity|]. rewrite IH. reflexivity. Qed.

Lemma zrange_nth n : forall s i x, nth_error (zrange s n) i = Some x -> x = s + Z.of_nat i.
Proof.
  induction n as [|n IH]; intros s i x; cbn [zrange]; [destruct i; discriminate|].
  destruct i as [|i]; cbn [nth_error].
  - intros H. inversion H. lia.
  - intros H. apply IH in H. lia.
Qed.

Lemma nth_error_combine {A B} (l1 : list A) : forall (l2 : list B) i p,
  nth_error (combine l1 l2) i = Some p ->
  nth_error l1 i = Some (fst p) /\ nth_error l2 i = Some (snd p).
Proof.
  induction l1 as [|a l1 IH]; intros l2 i p; cbn [combine]; [destruct i; discriminate|].
  destruct l2 as [|b l2]; [destruct i; discriminate|].
  destruct i as [|i]; cbn [nth_error].
  - intros H. inversion H. split; reflexivity.
  - apply IH.
Qed.

Lemma show_func_rows F E strip fn start name tm b :
  show_func F E strip (fn, start, name) tm = Some b ->
  let sub := block_lines (E fn start) start tm in
  b_rows b = map (fun p => mk_row F (build_display F (total_time tm) tm) (fst p) (snd p))
                 (combine (zrange start (length sub)) sub).
Proof.
  unfold show_func. destruct (strip && (total_hits tm =? 0)); [discriminate|].
  intros H. inversion H. reflexivity.
Qed.

(* row i of a block carries line start+i, the text of the i-th line of the source block,
   and the display entry of that line number (empty cells when nothing was recorded) *)
Theorem row_i_is_line_start_plus_i F E strip fn start name tm b :
  show_func F E strip (fn, start, name) tm = Some b ->
  let sub := block_lines (E fn start) start tm in
  length (b_rows b) = length sub
  /\ forall i r, nth_error (b_rows b) i = Some r ->
       r_lineno r = start + Z.of_nat i
       /\ (exists line, nth_error sub i = Some line /\ r_text r = shown_text F line)
       /\ r_cells r = display_entry F (total_time tm) tm (start + Z.of_nat i).
Proof.
  intros H sub. rewrite (show_func_rows _ _ _ _ _ _ _ _ H). fold sub. split.
  - rewrite map_length, combine_length, zrange_length. lia.
  - intros i r Hr. rewrite nth_error_map in Hr.
    destruct (nth_error (combine (zrange start (length sub)) sub) i) as [p|] eqn:Ep; [|discriminate].
    cbn [option_map] in Hr. inversion Hr as [Hr']. clear Hr.
    apply nth_error_combine in Ep as [Hz Hs]. apply zrange_nth in Hz.
    unfold mk_row. cbn [r_lineno r_text r_cells]. split; [exact Hz|]. split.
    + exists (snd p). split; [exact Hs|reflexivity].
    + rewrite build_display_get, Hz. unfold display_entry.
      destruct (last_for tm (start + Z.of_nat i)); reflexivity.
Qed.

(* unique line numbers (what C12 guarantees): every recorded line inside the block range is
   on exactly one row, its own, with its own numbers; a recorded line outside the range is on
   no row at all (silently dropped) *)
Theorem every_line_once F E strip fn start name tm b :
  show_func F E strip (fn, start, name) tm = Some b ->
  NoDup (map t_line tm) ->
  let n := Z.of_nat (length (block_lines (E fn start) start tm)) in
  forall t, In t tm ->
    (start <= t_line t < start + n ->
       exists i r, nth_error (b_rows b) i = Some r
                   /\ i = Z.to_nat (t_line t - start)
                   /\ r_lineno r = t_line t
                   /\ r_cells r = f_cells F (total_time tm) t
                   /\ forall j r', nth_error (b_rows b) j = Some r' -> r_lineno r' = t_line t -> j = i)
    /\ (~ (start <= t_line t < start + n) -> forall r, In r (b_rows b) -> r_lineno r <> t_line t).
Proof.
  intros H Hnd n t Hin.
  destruct (row_i_is_line_start_plus_i _ _ _ _ _ _ _ _ H) as [Hlen Hrow]. cbn zeta in Hlen, Hrow.
  split.
  - intros Hrange. set (i := Z.to_nat (t_line t - start)).
    destruct (nth_error (b_rows b) i) as [r|] eqn:Er.
    + exists i, r. destruct (Hrow _ _ Er) as [Hl [_ Hc]].
      split; [exact Er|]. split; [reflexivity|]. split; [unfold i in Hl; lia|]. split.
      * rewrite Hc. replace (start + Z.of_nat i) with (t_line t) by (unfold i; lia).
        unfold display_entry. rewrite (last_for_unique _ _ Hnd Hin). reflexivity.
      * intros j r' Hj Hl'. destruct (Hrow _ _ Hj) as [Hlj _]. unfold i. lia.
    + exfalso. apply nth_error_None in Er. unfold n in Hrange. unfold i in Er. lia.
  - intros Hout r Hr Heq. apply In_nth_error in Hr as [i Hi].
    destruct (Hrow _ _ Hi) as [Hl _].
    assert (Hlt : (i < length (b_rows b))%nat) by (apply nth_error_Some; congruence).
    apply Hout. unfold n. lia.
Qed.

(* a missing file never drops a line of valid stats (all lines at or after the first line) *)
Lemma zmax_list_ge d l x : In x (d :: l) -> x <= zmax_list d l.
Proof.
  induction l as [|a l IH]; cbn [zmax_list fold_right].
  - intros [->|[]]. lia.
  - fold (zmax_list d l). intros [->|[->|Hin]].
    + specialize (IH (or_introl eq_refl)). lia.
    + lia.
    + specialize (IH (or_intror Hin)). lia.
Qed.

Lemma zmin_list_ge d l s : (forall x, In x (d :: l) -> s <= x) -> s <= zmin_list d l.
Proof.
  induction l as [|a l IH]; cbn [zmin_list fold_right]; intros H.
  - apply H. left. reflexivity.
  - fold (zmin_list d l). apply Z.min_glb.
    + apply H. right. left. reflexivity.
    + apply IH. intros x [->|Hx]; apply H; [left; reflexivity|right; right; exact Hx].
Qed.

Theorem missing_file_covers_all_lines start tm :
  (forall t, In t tm -> start <= t_line t) ->
  forall t, In t tm ->
    start <= t_line t < start + Z.of_nat (length (block_lines Missing start tm)).
Proof.
  intros Hge t Hin. split; [apply Hge; exact Hin|].
  unfold block_lines. rewrite repeat_length.
  destruct (map t_line tm) as [|l0 rest] eqn:Em; [destruct tm; [destruct Hin|discriminate]|].
  assert (Hx : In (t_line t) (l0 :: rest)) by (rewrite <- Em; apply in_map; exact Hin).
  pose proof (zmax_list_ge _ _ _ Hx) as Hmax.
  assert (Hmin : start <= zmin_list l0 rest).
  { apply zmin_list_ge. intros x Hxin. rewrite <- Em in Hxin. apply in_map_iff in Hxin as [t' [<- Ht']].
    apply Hge. exact Ht'. }
  rewrite Z.min_r by exact Hmin. lia.
Qed.

(* the header of the block: column widths fit every displayed cell *)
Lemma zmax_list_ge_default d l : d <= zmax_list d l.
Proof. induction l as [|a l IH]; cbn [zmax_list fold_right]; [lia|]. fold (zmax_list d l). lia. Qed.

(* ---- repeated line numbers (outside C12's guarantee): the LAST entry wins ------------------ *)
Lemma find_none_all {A} (p : A -> bool) l : (forall x, In x l -> p x = false) -> find p l = None.
Proof.
  induction l as [|a t IH]; intros H; cbn [find]; [reflexivity|].
  rewrite (H a (or_introl eq_refl)). apply IH. intros x Hx. apply H. right. exact Hx.
Qed.

Theorem duplicate_lineno_last_wins pre t post :
  (forall t', In t' post -> t_line t' <> t_line t) ->
  last_for (pre ++ t :: post) (t_line t) = Some t.
Proof.
  intros H. unfold last_for. rewrite rev_app_distr. cbn [rev]. rewrite <- app_assoc. rewrite find_app.
  rewrite find_none_all.
  - cbn [app find]. rewrite Z.eqb_refl. reflexivity.
  - intros x Hx. apply in_rev in Hx. specialize (H x Hx). lia.
Qed.

(* ---- skip-zero hides exactly the functions with no hits ------------------------------------ *)
Theorem skip_zero_exact F E o (st : stats) :
  NoDup (map fst st) -> o_details o = true -> o_stripzeros o = true ->
  forall k tm, In (k, tm) st -> (forall t, In t tm -> 0 <= t_hits t) ->
    (~ In k (map b_key (rp_blocks (show_text F E o st))) <-> forall t, In t tm -> t_hits t = 0).
Proof.
  intros Hnd Hd Hs k tm Hin Hnn.
  destruct (every_function_once F E o st Hnd Hd) as [_ [Hiff _]]. cbn zeta in Hiff.
  rewrite (Hiff k tm Hin), Hs. rewrite <- (no_hits_iff tm Hnn). split.
  - intros H. destruct (Z.eq_dec (total_hits tm) 0) as [E0|Ne]; [exact E0|]. exfalso. apply H. right. exact Ne.
  - intros H [Hc|Hc]; [discriminate|contradiction].
Qed.

(* ---- IPython cells: shown wherever their block comes ----------------------------------------- *)
(* A function defined in an IPython cell (source only in linecache.cache): wherever its block
   stands in the report, it has one row per line of the cell's block, and every recorded line in
   that range is on exactly one row with its own numbers.  (Until /repo 6c987c9 show_func called
   linecache.clearcache() and a cell function printed after an on-disk function had no rows.) *)
Theorem cell_rows_shown F E o (st : stats) b fn start name sub :
  o_details o = true ->
  In b (rp_blocks (show_text F E o st)) -> b_key b = (fn, start, name) -> E fn start = Cell sub ->
  exists tm, In ((fn, start, name), tm) st
    /\ length (b_rows b) = length sub
    /\ (NoDup (map t_line tm) ->
        forall t, In t tm -> start <= t_line t < start + Z.of_nat (length sub) ->
          exists i r, nth_error (b_rows b) i = Some r /\ i = Z.to_nat (t_line t - start)
                      /\ r_lineno r = t_line t /\ r_cells r = f_cells F (total_time tm) t
                      /\ forall j r', nth_error (b_rows b) j = Some r' -> r_lineno r' = t_line t -> j = i).
Proof.
  intros Hd Hb Hk HE. rewrite blocks_are_per_function in Hb by exact Hd.
  apply filter_map_in in Hb as [[k tm] [Hin Hf]]. cbn [fst snd] in Hf.
  pose proof (show_func_key _ _ _ _ _ _ Hf) as Hk'. rewrite Hk in Hk'. subst k.
  exists tm. split; [eapply Permutation_in; [apply stats_order_perm|exact Hin]|].
  destruct (row_i_is_line_start_plus_i _ _ _ _ _ _ _ _ Hf) as [Hlen _]. cbn zeta in Hlen.
  rewrite HE in Hlen. cbn [block_lines] in Hlen. split; [exact Hlen|].
  intros Hnd t Ht Hr.
  pose proof (every_line_once _ _ _ _ _ _ _ _ Hf Hnd t Ht) as [Hin' _]. cbn zeta in Hin'.
  rewrite HE in Hin'. cbn [block_lines] in Hin'. apply Hin'. exact Hr.
Qed.
