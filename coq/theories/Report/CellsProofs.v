(* Proofs about the cell layer (Cells.v): what a reader of the report can recover from the
   printed text, for EVERY non-negative value (no bound on magnitude). *)
From Coq Require Import QArith Qabs.
From LP Require Import Prelude.Py Report.LayoutStr Report.Layout Report.LayoutProofs Report.Cells.
Open Scope Z_scope.

(* ---- rounding --------------------------------------------------------------------- *)
Lemma rhe_bound n d : 0 <= n -> 0 < d -> 2 * Z.abs (rhe n d * d - n) <= d.
Proof.
  intros Hn Hd. unfold rhe.
  pose proof (Z.div_mod n d ltac:(lia)) as Hdm.
  pose proof (Z.mod_pos_bound n d Hd) as Hr.
  set (q := n / d) in *. set (r := n mod d) in *.
  destruct (Z.compare_spec (2 * r) d) as [E|E|E].
  - destruct (Z.even q); lia.
  - lia.
  - lia.
Qed.

Lemma rhe_nonneg n d : 0 <= n -> 0 < d -> 0 <= rhe n d.
Proof.
  intros Hn Hd. unfold rhe. assert (0 <= n / d) by (apply Z.div_pos; lia).
  destruct (2 * (n mod d) ?= d); [destruct (Z.even (n / d))| |]; lia.
Qed.

(* |n/p - N/d| <= 1/(2p) from the cross-multiplied integer inequality *)
Lemma q_bridge (n N : Z) (p d : positive) :
  2 * Z.abs (n * Zpos d - N * Zpos p) <= Zpos d ->
  (Qabs ((n # p) - (N # d)) <= 1 # (2 * p))%Q.
Proof.
  intros H. unfold Qabs, Qminus, Qplus, Qopp, Qle. cbn [Qnum Qden].
  rewrite !Pos2Z.inj_mul.
  replace (n * Z.pos d + - N * Z.pos p) with (n * Z.pos d - N * Z.pos p) by lia.
  pose proof (Pos2Z.is_pos p). pose proof (Pos2Z.is_pos d).
  change (Z.pos 2) with 2. nia.
Qed.

Lemma qrhe_bound (y : Q) : (0 <= y)%Q -> (Qabs (inject_Z (qrhe y) - y) <= 1 # 2)%Q.
Proof.
  intros Hy. destruct y as [N d]. unfold qrhe, inject_Z. cbn [Qnum Qden].
  apply (q_bridge (rhe N (Zpos d)) N 1 d).
  assert (0 <= N) by (unfold Qle in Hy; cbn in Hy; lia).
  pose proof (rhe_bound N (Zpos d) H ltac:(lia)). lia.
Qed.

Lemma qrhe_nonneg (y : Q) : (0 <= y)%Q -> 0 <= qrhe y.
Proof.
  intros Hy. destruct y as [N d]. unfold qrhe. cbn [Qnum Qden]. apply rhe_nonneg; [|lia].
  unfold Qle in Hy; cbn in Hy; lia.
Qed.

(* ---- powers of ten ---------------------------------------------------------------- *)
Lemma pow10_pos k : 0 <= k -> 0 < 10 ^ k.
Proof. intros. apply Z.pow_pos_nonneg; lia. Qed.

Lemma pow10Q_pos k : (0 < pow10Q k)%Q.
Proof.
  unfold pow10Q. destruct (0 <=? k) eqn:E.
  - unfold Qlt, inject_Z. cbn [Qnum Qden]. pose proof (pow10_pos k ltac:(lia)). lia.
  - unfold Qlt. cbn [Qnum Qden]. lia.
Qed.

Lemma pow10Q_succ k : (pow10Q (k + 1) == 10 * pow10Q k)%Q.
Proof.
  unfold pow10Q. destruct (0 <=? k) eqn:E.
  - replace (0 <=? k + 1) with true by lia. rewrite Z.pow_add_r by lia.
    unfold Qeq, inject_Z, Qmult. cbn [Qnum Qden]. lia.
  - destruct (0 <=? k + 1) eqn:E1.
    + assert (k = -1) by lia. subst k. reflexivity.
    + replace (- k) with (Z.succ (- (k + 1))) by lia. rewrite Z.pow_succ_r by lia.
      pose proof (pow10_pos (- (k + 1)) ltac:(lia)) as Hp.
      unfold Qeq, Qmult. cbn [Qnum Qden inject_Z].
      rewrite Pos2Z.inj_mul. rewrite !Z2Pos.id by lia. lia.
Qed.

Lemma pow10Q_opp k : (pow10Q k * pow10Q (- k) == 1)%Q.
Proof.
  unfold pow10Q. destruct (0 <=? k) eqn:E; destruct (0 <=? - k) eqn:E1.
  - assert (k = 0) by lia. subst k. reflexivity.
  - rewrite Z.opp_involutive. pose proof (pow10_pos k ltac:(lia)).
    unfold Qeq, Qmult, inject_Z. cbn [Qnum Qden]. rewrite ?Pos2Z.inj_mul. rewrite Z2Pos.id by lia. lia.
  - pose proof (pow10_pos (- k) ltac:(lia)).
    unfold Qeq, Qmult, inject_Z. cbn [Qnum Qden]. rewrite Pos2Z.inj_mul. rewrite Z2Pos.id by lia. lia.
  - lia.
Qed.

(* ---- '%.Pg': the P significant digits are within half a unit of the P-th place ------ *)
Theorem sig_digits_precision (P : Z) (x : Q) :
  1 <= P -> (0 < x)%Q ->
  let '(D, X) := sig_digits P x in
  (Qabs (inject_Z D * pow10Q (X - P + 1) - x) <= (1 # 2) * pow10Q (X - P + 1))%Q.
Proof.
  intros HP Hx. unfold sig_digits.
  set (X0 := ilog10Q x). set (s := pow10Q (P - 1 - X0)).
  set (t := pow10Q (X0 - P + 1)).
  assert (Hst : (s * t == 1)%Q).
  { unfold s, t. replace (X0 - P + 1) with (- (P - 1 - X0)) by lia. apply pow10Q_opp. }
  assert (Ht : (0 < t)%Q) by apply pow10Q_pos.
  assert (Hs : (0 < s)%Q) by apply pow10Q_pos.
  assert (Hy : (0 <= x * s)%Q).
  { apply Qmult_le_0_compat; apply Qlt_le_weak; assumption. }
  pose proof (qrhe_bound _ Hy) as Hb.
  set (D0 := qrhe (x * s)%Q) in *.
  assert (Hmain : (Qabs (inject_Z D0 * t - x) <= (1 # 2) * t)%Q).
  { assert (Heq : (inject_Z D0 * t - x == (inject_Z D0 - x * s) * t)%Q).
    { setoid_replace x with (x * (s * t))%Q at 1 by (rewrite Hst; ring). ring. }
    rewrite Heq, Qabs_Qmult. rewrite (Qabs_pos t) by (apply Qlt_le_weak; exact Ht).
    apply Qmult_le_compat_r; [exact Hb|apply Qlt_le_weak; exact Ht]. }
  destruct (D0 =? 10 ^ P) eqn:E.
  - replace (X0 + 1 - P + 1) with (X0 - P + 1 + 1) by lia. fold t.
    rewrite (pow10Q_succ (X0 - P + 1)). fold t.
    assert (HD : (inject_Z (10 ^ (P - 1)) * (10 * t) == inject_Z D0 * t)%Q).
    { assert (D0 = 10 ^ P) by lia. replace P with (Z.succ (P - 1)) in H at 1 by lia.
      rewrite Z.pow_succ_r in H by lia. rewrite H. rewrite inject_Z_mult. change (inject_Z 10) with 10%Q. ring. }
    rewrite HD. eapply Qle_trans; [exact Hmain|].
    setoid_replace ((1 # 2) * (10 * t))%Q with (10 * ((1 # 2) * t))%Q by ring.
    assert (0 <= (1 # 2) * t)%Q by (apply Qmult_le_0_compat; [discriminate|apply Qlt_le_weak; exact Ht]).
    setoid_replace ((1 # 2) * t)%Q with (1 * ((1 # 2) * t))%Q at 1 by ring.
    apply Qmult_le_compat_r; [discriminate|exact H].
  - fold t. exact Hmain.
Qed.

(* ---- how many digits fmt_d prints ------------------------------------------------------ *)
Lemma rev_digits_len_le fuel : forall n k,
  0 <= n < 10 ^ k -> 1 <= k -> Z.of_nat (length (rev_digits fuel n)) <= k.
Proof.
  induction fuel as [|f IH]; intros n k Hn Hk; cbn [rev_digits length]; [lia|].
  destruct (n <? 10) eqn:E; cbn [length]; [lia|].
  assert (2 <= k).
  { destruct (Z.eq_dec k 1) as [->|]; [|lia]. change (10 ^ 1) with 10 in Hn. lia. }
  specialize (IH (n / 10) (k - 1)).
  assert (0 <= n / 10 < 10 ^ (k - 1)).
  { split; [apply Z.div_pos; lia|]. apply Z.div_lt_upper_bound; [lia|].
    replace k with (Z.succ (k - 1)) in Hn by lia. rewrite Z.pow_succ_r in Hn by lia. lia. }
  specialize (IH H0 ltac:(lia)). lia.
Qed.

Lemma rev_digits_len_gt fuel : forall n k,
  0 <= k -> 10 ^ k <= n < 2 ^ Z.of_nat fuel -> k < Z.of_nat (length (rev_digits fuel n)).
Proof.
  induction fuel as [|f IH]; intros n k Hk Hn.
  - cbn in Hn. pose proof (pow10_pos k Hk). lia.
  - cbn [rev_digits]. destruct (n <? 10) eqn:E; cbn [length].
    + destruct (Z.eq_dec k 0) as [->|]; [lia|].
      assert (10 ^ 1 <= 10 ^ k) by (apply Z.pow_le_mono_r; lia). change (10 ^ 1) with 10 in H. lia.
    + destruct (Z.eq_dec k 0) as [->|]; [lia|].
      specialize (IH (n / 10) (k - 1) ltac:(lia)).
      assert (10 ^ (k - 1) <= n / 10 < 2 ^ Z.of_nat f).
      { rewrite Nat2Z.inj_succ, Z.pow_succ_r in Hn by lia.
        replace k with (Z.succ (k - 1)) in Hn by lia. rewrite Z.pow_succ_r in Hn by lia.
        split; [apply Z.div_le_lower_bound; lia|apply Z.div_lt_upper_bound; lia]. }
      specialize (IH H). lia.
Qed.

Lemma digits_of_fuel n : 0 <= n -> n < 2 ^ Z.of_nat (S (Z.to_nat (Z.log2 n))).
Proof.
  intros Hn. rewrite Nat2Z.inj_succ. destruct (Z.eq_dec n 0) as [->|Hne]; [cbn; lia|].
  rewrite Z2Nat.id by (apply Z.log2_nonneg). apply Z.log2_spec. lia.
Qed.

Lemma digits_of_len_le n k : 0 <= n < 10 ^ k -> 1 <= k -> Z.of_nat (length (digits_of n)) <= k.
Proof. intros. unfold digits_of. rewrite rev_length. apply rev_digits_len_le; assumption. Qed.

Lemma digits_of_len_gt n k : 0 <= k -> 10 ^ k <= n -> k < Z.of_nat (length (digits_of n)).
Proof.
  intros Hk Hn. unfold digits_of. rewrite rev_length. apply rev_digits_len_gt; [exact Hk|].
  split; [exact Hn|]. apply digits_of_fuel. pose proof (pow10_pos k Hk). lia.
Qed.

Lemma slen_str_of_digits l : slen (str_of_digits l) = Z.of_nat (length l).
Proof. unfold slen. induction l as [|d l IH]; cbn [str_of_digits String.length length]; lia. Qed.

Lemma fmt_d_nonneg n : 0 <= n -> fmt_d n = str_of_digits (digits_of n).
Proof. intros. unfold fmt_d. replace (n <? 0) with false by lia. reflexivity. Qed.

(* up to nine digits the Hits cell is the exact decimal text; from ten digits on it is '%g' *)
Theorem hits_cell_exact n : 0 <= n < 10 ^ 9 -> hits_cell n = fmt_d n.
Proof.
  intros Hn. unfold hits_cell. rewrite fmt_d_nonneg by lia. rewrite slen_str_of_digits.
  pose proof (digits_of_len_le n 9 Hn ltac:(lia)).
  replace (9 <? Z.of_nat (length (digits_of n))) with false by lia. reflexivity.
Qed.

Theorem hits_cell_fallback n : 10 ^ 9 <= n -> hits_cell n = fmt_g 0 6 (f_of_int n).
Proof.
  intros Hn. unfold hits_cell. assert (0 <= n) by (pose proof (pow10_pos 9 ltac:(lia)); lia).
  rewrite fmt_d_nonneg by lia. rewrite slen_str_of_digits.
  pose proof (digits_of_len_gt n 9 ltac:(lia) Hn).
  replace (9 <? Z.of_nat (length (digits_of n))) with true by lia. reflexivity.
Qed.

(* ---- reading '%.<prec>f' text back -------------------------------------------------------- *)
Lemma scaled_round_bound (x s t : Q) :
  (s * t == 1)%Q -> (0 < t)%Q -> (0 <= x * s)%Q ->
  (Qabs (inject_Z (qrhe (x * s)) * t - x) <= (1 # 2) * t)%Q.
Proof.
  intros Hst Ht Hy. pose proof (qrhe_bound _ Hy) as Hb.
  set (D0 := qrhe (x * s)%Q) in *.
  assert (Heq : (inject_Z D0 * t - x == (inject_Z D0 - x * s) * t)%Q).
  { setoid_replace x with (x * (s * t))%Q at 1 by (rewrite Hst; ring). ring. }
  rewrite Heq, Qabs_Qmult. rewrite (Qabs_pos t) by (apply Qlt_le_weak; exact Ht).
  apply Qmult_le_compat_r; [exact Hb|apply Qlt_le_weak; exact Ht].
Qed.

Definition nondigit (c : ascii) : Prop := digit_val c = None.

Lemma digit_char_neq c d : nondigit c -> 0 <= d <= 9 -> Ascii.eqb (digit_char d) c = false.
Proof.
  intros Hc Hd. destruct (Ascii.eqb_spec (digit_char d) c) as [<-|]; [|reflexivity].
  unfold nondigit in Hc. rewrite digit_val_char in Hc by exact Hd. discriminate.
Qed.

Lemma no_char_digits c l :
  nondigit c -> Forall (fun d => 0 <= d <= 9) l -> no_char c (str_of_digits l) = true.
Proof.
  intros Hc HF. induction HF as [|d l Hd Hl IH]; cbn [str_of_digits no_char]; [reflexivity|].
  rewrite (digit_char_neq c d Hc Hd), IH. reflexivity.
Qed.

Lemma no_char_app c a b : no_char c (a ++ b)%string = no_char c a && no_char c b.
Proof.
  induction a as [|x a IH]; cbn [String.append no_char]; [reflexivity|].
  rewrite IH. rewrite andb_assoc. reflexivity.
Qed.

Lemma split_at_none c s : no_char c s = true -> split_at c s = (s, None).
Proof.
  induction s as [|a s IH]; cbn [no_char split_at]; [reflexivity|].
  intros H. apply andb_true_iff in H as [Ha Hs]. apply negb_true_iff in Ha. rewrite Ha.
  rewrite (IH Hs). reflexivity.
Qed.

Lemma split_at_here c a b :
  no_char c a = true -> split_at c (a ++ String c b)%string = (a, Some b).
Proof.
  induction a as [|x a IH]; cbn [String.append no_char split_at].
  - intros _. rewrite Ascii.eqb_refl. reflexivity.
  - intros H. apply andb_true_iff in H as [Ha Hs]. apply negb_true_iff in Ha. rewrite Ha.
    rewrite (IH Hs). reflexivity.
Qed.

Lemma lstrip_spaces k s : lstrip_space (repeat_char " "%char k ++ s)%string = lstrip_space s.
Proof. induction k as [|k IH]; cbn [repeat_char String.append lstrip_space]; [reflexivity|exact IH]. Qed.

Lemma lstrip_digit d l s :
  0 <= d <= 9 -> lstrip_space (str_of_digits (d :: l) ++ s)%string = (str_of_digits (d :: l) ++ s)%string.
Proof.
  intros Hd. cbn [str_of_digits String.append lstrip_space].
  rewrite (digit_char_neq " "%char d); [reflexivity|reflexivity|exact Hd].
Qed.

Definition horner (l : list Z) : Z := fold_left (fun a d => 10 * a + d) l 0.

Lemma parse_nat_digits l :
  l <> [] -> Forall (fun d => 0 <= d <= 9) l -> parse_nat (str_of_digits l) = Some (horner l).
Proof.
  intros Hne HF. unfold parse_nat.
  destruct (str_of_digits l) eqn:E; [destruct l; [congruence|discriminate]|]. rewrite <- E.
  rewrite <- (append_nil_r (str_of_digits l)). rewrite parse_digits_app by exact HF. reflexivity.
Qed.

Lemma horner_zeros k l : horner (zeros k ++ l) = horner l.
Proof.
  unfold horner. rewrite fold_left_app. f_equal.
  induction k as [|k IH]; cbn [zeros fold_left]; [reflexivity|exact IH].
Qed.

Lemma zeros_range k : Forall (fun d => 0 <= d <= 9) (zeros k).
Proof. induction k; cbn [zeros]; constructor; [lia|assumption]. Qed.

Lemma zeros_length k : length (zeros k) = k.
Proof. induction k; cbn [zeros length]; congruence. Qed.

Lemma digits_w_spec w n :
  1 <= w -> 0 <= n < 10 ^ w ->
  Forall (fun d => 0 <= d <= 9) (digits_w w n) /\ Z.of_nat (length (digits_w w n)) = w
  /\ horner (digits_w w n) = n /\ digits_w w n <> [].
Proof.
  intros Hw Hn. unfold digits_w.
  pose proof (digits_of_len_le n w Hn Hw) as Hlen.
  split; [|split; [|split]].
  - apply Forall_app. split; [apply zeros_range|apply digits_of_range; lia].
  - rewrite app_length, zeros_length. lia.
  - rewrite horner_zeros. apply digits_of_value. lia.
  - intros H. apply app_eq_nil in H as [_ H]. exact (digits_of_nonempty n H).
Qed.

Lemma dot_nondigit : nondigit "."%char. Proof. reflexivity. Qed.
Lemma e_nondigit : nondigit "e"%char. Proof. reflexivity. Qed.
Lemma space_nondigit : nondigit " "%char. Proof. reflexivity. Qed.

(* the text of '%<w>.<prec>f' % x reads back as n * 10^-prec with |n*10^-prec - x| <= 10^-prec / 2 *)
Theorem fmt_f_precision (w prec : Z) (x : Q) :
  1 <= prec -> (0 <= x)%Q ->
  exists p, parse_dec (fmt_f w prec x) = Some p
            /\ snd (fst p) = - prec
            /\ (Qabs (dec_value p - x) <= (1 # 2) * pow10Q (- prec))%Q.
Proof.
  intros Hp Hx. unfold fmt_f.
  set (p10 := 10 ^ prec). assert (Hp10 : 0 < p10) by (apply pow10_pos; lia).
  assert (Hy : (0 <= x * inject_Z p10)%Q).
  { apply Qmult_le_0_compat; [exact Hx|]. unfold Qle, inject_Z. cbn [Qnum Qden]. lia. }
  set (n := qrhe (x * inject_Z p10)%Q).
  assert (Hn : 0 <= n) by (apply qrhe_nonneg; exact Hy).
  replace (prec =? 0) with false by lia.
  set (ip := n / p10). set (fp := n mod p10).
  assert (Hip : 0 <= ip) by (apply Z.div_pos; lia).
  assert (Hfp : 0 <= fp < 10 ^ prec) by (apply Z.mod_pos_bound; exact Hp10).
  destruct (digits_w_spec prec fp Hp Hfp) as [HFr [HFl [HFv HFne]]].
  rewrite (fmt_d_nonneg ip Hip).
  pose proof (digits_of_range ip Hip) as HIr.
  pose proof (digits_of_nonempty ip) as HIne.
  pose proof (digits_of_value ip Hip) as HIv. fold (horner (digits_of ip)) in HIv.
  set (ids := digits_of ip) in *. set (fds := digits_w prec fp) in *.
  exists (ip * 10 ^ prec + fp, - prec, slen (str_of_digits ids) + prec).
  split; [|split].
  - unfold parse_dec, lpad, spaces. rewrite lstrip_spaces.
    destruct ids as [|d0 ids']; [congruence|].
    pose proof (Forall_inv HIr) as Hd0. cbn beta in Hd0.
    rewrite lstrip_digit by exact Hd0.
    rewrite split_at_none.
    2:{ rewrite no_char_app, (no_char_digits _ _ e_nondigit HIr). cbn [String.append no_char].
        rewrite (no_char_digits _ _ e_nondigit HFr). reflexivity. }
    change ("." ++ str_of_digits fds)%string with (String "."%char (str_of_digits fds)).
    rewrite split_at_here by (apply no_char_digits; [exact dot_nondigit|exact HIr]).
    rewrite (parse_nat_digits _ HIne HIr), HIv.
    rewrite (parse_nat_digits _ HFne HFr), HFv.
    rewrite slen_str_of_digits, HFl. reflexivity.
  - reflexivity.
  - unfold dec_value. cbn [fst snd].
    replace (ip * 10 ^ prec + fp) with n by (unfold ip, fp; fold p10; pose proof (Z.div_mod n p10 ltac:(lia)); lia).
    unfold n. apply scaled_round_bound.
    + replace (inject_Z p10) with (pow10Q prec) by (unfold pow10Q; replace (0 <=? prec) with true by lia; reflexivity).
      apply pow10Q_opp.
    + apply pow10Q_pos.
    + exact Hy.
Qed.

Theorem fmt_f1_precision (x : Q) : (0 <= x)%Q ->
  exists p, parse_dec (fmt_f 5 1 x) = Some p /\ snd (fst p) = -1
            /\ (Qabs (dec_value p - x) <= 1 # 20)%Q.
Proof.
  intros Hx. destruct (fmt_f_precision 5 1 x ltac:(lia) Hx) as [p [H1 [H2 H3]]].
  exists p. split; [exact H1|]. split; [exact H2|exact H3].
Qed.

Theorem fmt_f2_precision (x : Q) : (0 <= x)%Q ->
  exists p, parse_dec (fmt_f 6 2 x) = Some p /\ snd (fst p) = -2
            /\ (Qabs (dec_value p - x) <= 1 # 200)%Q.
Proof.
  intros Hx. destruct (fmt_f_precision 6 2 x ltac:(lia) Hx) as [p [H1 [H2 H3]]].
  exists p. split; [exact H1|]. split; [exact H2|exact H3].
Qed.

Theorem hits_fallback_six_digits :
  (forall n, 10 ^ 9 <= n -> hits_cell n = fmt_g 0 6 (f_of_int n))
  /\ (forall x : Q, (0 < x)%Q ->
        let '(D, X) := sig_digits 6 x in
        (Qabs (inject_Z D * pow10Q (X - 6 + 1) - x) <= (1 # 2) * pow10Q (X - 6 + 1))%Q).
Proof. split; [exact hits_cell_fallback|]. intros x Hx. apply (sig_digits_precision 6 x); [lia|exact Hx]. Qed.

(* ---- the command lines ------------------------------------------------------------------------ *)
(* The viewer shows every function of the loaded statistics exactly once (under -z those with
   hits), each block being show_func of that key's own timings, and with -m one summary line per
   shown function in the same order: nothing between the pickle and the report merges, renames or
   drops a key. *)
Theorem viewer_cli_every_function_once unit u z t m E (st : stats) :
  NoDup (map fst st) ->
  let r := viewer_cli_report unit u z t m E st in
  NoDup (map b_key (rp_blocks r))
  /\ (forall k tm, In (k, tm) st -> (In k (map b_key (rp_blocks r)) <-> (z = false \/ total_hits tm <> 0)))
  /\ (forall b, In b (rp_blocks r) ->
        exists tm, In (b_key b, tm) st /\ show_func (py_formatter unit (Some u)) E z (b_key b) tm = Some b)
  /\ (m = true -> map fst (rp_summary r) = map b_key (rp_blocks r)).
Proof.
  intros Hnd r.
  destruct (every_function_once (py_formatter unit (Some u)) E (mkOpts z t m true) st Hnd eq_refl) as [H1 [H2 H3]].
  split; [exact H1|]. split; [exact H2|]. split; [exact H3|].
  intros ->. apply (summary_matches_details (py_formatter unit (Some u)) E (mkOpts z t true true) st); reflexivity.
Qed.

Theorem kernprof_view_every_function_once unit u z E (st : stats) :
  NoDup (map fst st) ->
  let r := kernprof_view_report unit u z E st in
  NoDup (map b_key (rp_blocks r))
  /\ (forall k tm, In (k, tm) st -> (In k (map b_key (rp_blocks r)) <-> (z = false \/ total_hits tm <> 0)))
  /\ (forall b, In b (rp_blocks r) ->
        exists tm, In (b_key b, tm) st /\ show_func (py_formatter unit (Some u)) E z (b_key b) tm = Some b).
Proof.
  intros Hnd r.
  exact (every_function_once (py_formatter unit (Some u)) E (mkOpts z false false true) st Hnd eq_refl).
Qed.

Theorem print_stats_every_function_once (ls : linestats) ou o E :
  NoDup (map fst (ls_timings ls)) -> o_details o = true ->
  let r := print_stats_report ls ou o E in
  NoDup (map b_key (rp_blocks r))
  /\ (forall k tm, In (k, tm) (ls_timings ls) ->
        (In k (map b_key (rp_blocks r)) <-> (o_stripzeros o = false \/ total_hits tm <> 0)))
  /\ (forall b, In b (rp_blocks r) ->
        exists tm, In (b_key b, tm) (ls_timings ls)
                   /\ show_func (py_formatter (ls_unit ls) ou) E (o_stripzeros o) (b_key b) tm = Some b)
  /\ (o_summarize o = true -> map fst (rp_summary r) = map b_key (rp_blocks r)).
Proof.
  intros Hnd Hd r.
  destruct (every_function_once (py_formatter (ls_unit ls) ou) E o (ls_timings ls) Hnd Hd) as [H1 [H2 H3]].
  split; [exact H1|]. split; [exact H2|]. split; [exact H3|].
  intros Hs. apply summary_matches_details; assumption.
Qed.
