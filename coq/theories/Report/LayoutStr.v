(* Report engine (E6), string layer: the pieces of Python's str / %-formatting that
   show_func / show_text use on already formatted cells - len, '%Ns' padding,
   str.rstrip(c), decimal text of an int ('%d', str(int)) and its inverse.
   Stdlib only.  Strings are byte strings; text that is not ASCII is carried as its
   UTF-8 bytes (byte-wise order = code-point order, rstrip of an ASCII character
   is the same on bytes and on code points). *)
From LP Require Import Prelude.Py.

Definition slen (s : string) : Z := Z.of_nat (String.length s).

Fixpoint repeat_char (c : ascii) (n : nat) : string :=
  match n with O => EmptyString | S k => String c (repeat_char c k) end.

Definition spaces (n : Z) : string := repeat_char " "%char (Z.to_nat n).

(* '%<w>s' % s : right-justified in a field of at least w characters *)
Definition lpad (w : Z) (s : string) : string := (spaces (w - slen s) ++ s)%string.

(* s.rstrip(c) for a one-character argument: every trailing c goes *)
Fixpoint rstrip_char (c : ascii) (s : string) : string :=
  match s with
  | EmptyString => EmptyString
  | String a t =>
      match rstrip_char c t with
      | EmptyString => if Ascii.eqb a c then EmptyString else String a EmptyString
      | t' => String a t'
      end
  end.

Fixpoint lstrip_space (s : string) : string :=
  match s with
  | String a t => if Ascii.eqb a " "%char then lstrip_space t else s
  | EmptyString => EmptyString
  end.

Definition nl : ascii := ascii_of_nat 10.
Definition cr : ascii := ascii_of_nat 13.

(* bytes given as numbers (how the case shards spell non-printable / non-ASCII text) *)
Fixpoint bs (l : list Z) : string :=
  match l with [] => EmptyString | b :: t => String (ascii_of_N (Z.to_N b)) (bs t) end.

Definition str_le (a b : string) : bool :=
  match String.compare a b with Gt => false | _ => true end.

(* ---- decimal text of an int ------------------------------------------------ *)
Definition digit_char (d : Z) : ascii := ascii_of_N (Z.to_N (48 + d)).

(* None when the character is not a decimal digit *)
Definition digit_val (c : ascii) : option Z :=
  let n := Z.of_N (N_of_ascii c) in
  if (48 <=? n) && (n <=? 57) then Some (n - 48) else None.

(* least significant digit first *)
Fixpoint rev_digits (fuel : nat) (n : Z) : list Z :=
  match fuel with
  | O => []
  | S f => if n <? 10 then [n] else (n mod 10) :: rev_digits f (n / 10)
  end.

Definition digits_of (n : Z) : list Z := rev (rev_digits (S (Z.to_nat (Z.log2 n))) n).

Fixpoint str_of_digits (l : list Z) : string :=
  match l with [] => EmptyString | d :: t => String (digit_char d) (str_of_digits t) end.

(* '%d' % n, str(n) *)
Definition fmt_d (n : Z) : string :=
  if n <? 0 then String "-"%char (str_of_digits (digits_of (- n))) else str_of_digits (digits_of n).

(* Horner evaluation of a digit string; None if a non-digit occurs or the string is empty *)
Fixpoint parse_digits_from (acc : Z) (s : string) : option Z :=
  match s with
  | EmptyString => Some acc
  | String c t => match digit_val c with
                  | Some d => parse_digits_from (10 * acc + d) t
                  | None => None
                  end
  end.

Definition parse_nat (s : string) : option Z :=
  match s with EmptyString => None | _ => parse_digits_from 0 s end.

(* ---- lemmas ------------------------------------------------------------------ *)
Lemma slen_nonneg s : 0 <= slen s.
Proof. unfold slen. lia. Qed.

Lemma slen_app a b : slen (a ++ b)%string = slen a + slen b.
Proof.
  unfold slen. induction a as [|c a IH]; cbn [String.append String.length]; [lia|].
  rewrite !Nat2Z.inj_succ. lia.
Qed.

Lemma slen_repeat c n : slen (repeat_char c n) = Z.of_nat n.
Proof. unfold slen. induction n as [|n IH]; cbn [repeat_char String.length]; lia. Qed.

Lemma slen_lpad w s : slen (lpad w s) = Z.max w (slen s).
Proof.
  unfold lpad, spaces. rewrite slen_app, slen_repeat. pose proof (slen_nonneg s). lia.
Qed.

Lemma digit_val_char d : 0 <= d <= 9 -> digit_val (digit_char d) = Some d.
Proof.
  intros H. unfold digit_val, digit_char.
  rewrite N_ascii_embedding.
  - rewrite Z2N.id by lia.
    replace ((48 <=? 48 + d) && (48 + d <=? 57)) with true by lia. f_equal. lia.
  - apply N2Z.inj_lt. rewrite Z2N.id by lia. change (Z.of_N 256) with 256. lia.
Qed.

(* value of a digit list, least significant first *)
Fixpoint val_lsd (l : list Z) : Z := match l with [] => 0 | d :: t => d + 10 * val_lsd t end.

Lemma rev_digits_val fuel : forall n, 0 <= n < 2 ^ Z.of_nat fuel -> val_lsd (rev_digits fuel n) = n.
Proof.
  induction fuel as [|f IH]; intros n Hn.
  - cbn in Hn. assert (n = 0) by lia. subst. reflexivity.
  - cbn [rev_digits]. destruct (n <? 10) eqn:E.
    + cbn [val_lsd]. lia.
    + cbn [val_lsd]. rewrite IH.
      * pose proof (Z.div_mod n 10). lia.
      * rewrite Nat2Z.inj_succ, Z.pow_succ_r in Hn by lia.
        split; [apply Z.div_pos; lia|].
        apply Z.div_lt_upper_bound; lia.
Qed.

Lemma rev_digits_range fuel : forall n, 0 <= n -> Forall (fun d => 0 <= d <= 9) (rev_digits fuel n).
Proof.
  induction fuel as [|f IH]; intros n Hn; cbn [rev_digits]; [constructor|].
  destruct (n <? 10) eqn:E.
  - constructor; [lia|constructor].
  - constructor.
    + pose proof (Z.mod_pos_bound n 10). lia.
    + apply IH. apply Z.div_pos; lia.
Qed.

Lemma rev_digits_nonempty fuel n : rev_digits (S fuel) n <> [].
Proof. cbn [rev_digits]. destruct (n <? 10); discriminate. Qed.

Lemma parse_digits_app acc l1 : forall s2,
  Forall (fun d => 0 <= d <= 9) l1 ->
  parse_digits_from acc (str_of_digits l1 ++ s2) =
  parse_digits_from (fold_left (fun a d => 10 * a + d) l1 acc) s2.
Proof.
  revert acc. induction l1 as [|d l IH]; intros acc s2 HF; cbn [str_of_digits String.append fold_left parse_digits_from].
  - reflexivity.
  - inversion HF as [|? ? Hd Hl]; subst. rewrite digit_val_char by exact Hd. apply IH. exact Hl.
Qed.

Lemma horner_rev l : fold_left (fun a d => 10 * a + d) (rev l) 0 = val_lsd l.
Proof.
  induction l as [|d l IH]; [reflexivity|].
  cbn [rev val_lsd]. rewrite fold_left_app. cbn [fold_left]. rewrite IH. lia.
Qed.

Lemma str_of_digits_nonempty l : l <> [] -> str_of_digits l <> EmptyString.
Proof. destruct l; [congruence|discriminate]. Qed.

Lemma digits_of_range n : 0 <= n -> Forall (fun d => 0 <= d <= 9) (digits_of n).
Proof. intros H. unfold digits_of. apply Forall_rev. apply rev_digits_range. exact H. Qed.

Lemma digits_of_nonempty n : digits_of n <> [].
Proof.
  unfold digits_of. intros H. apply (f_equal (@rev Z)) in H. rewrite rev_involutive in H.
  exact (rev_digits_nonempty _ _ H).
Qed.

Lemma digits_of_value n : 0 <= n -> fold_left (fun a d => 10 * a + d) (digits_of n) 0 = n.
Proof.
  intros Hn. unfold digits_of. rewrite horner_rev. apply rev_digits_val.
  split; [exact Hn|].
  rewrite Nat2Z.inj_succ. destruct (Z.eq_dec n 0) as [->|Hne]; [cbn; lia|].
  rewrite Z2Nat.id by (apply Z.log2_nonneg).
  apply Z.log2_spec. lia.
Qed.

Lemma append_nil_r (s : string) : (s ++ "")%string = s.
Proof. induction s as [|c s IH]; cbn [String.append]; congruence. Qed.

(* parse (fmt_d n) = n : every non-negative int survives printing and reading back *)
Lemma parse_fmt_d n : 0 <= n -> parse_nat (fmt_d n) = Some n.
Proof.
  intros Hn. unfold fmt_d. replace (n <? 0) with false by lia.
  unfold parse_nat.
  pose proof (str_of_digits_nonempty _ (digits_of_nonempty n)) as Hne.
  destruct (str_of_digits (digits_of n)) eqn:E; [congruence|]. rewrite <- E.
  rewrite <- (append_nil_r (str_of_digits (digits_of n))).
  rewrite parse_digits_app by (apply digits_of_range; exact Hn).
  cbn [parse_digits_from]. rewrite digits_of_value by exact Hn. reflexivity.
Qed.
