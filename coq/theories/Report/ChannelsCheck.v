(* Executable checkers that the C11 / C20 case shards evaluate with vm_compute.
   No proofs here.  An observation is what the harness tokenised out of the text
   a channel really produced; nothing is parsed inside Coq. *)
From Coq Require Import QArith Qabs.
From LP Require Import Prelude.Py Report.Channels.
Local Open Scope Z_scope.

Record prow := PRow {
  p_line : Z;
  p_hits : Z;            (* value of the Hits cell *)
  p_hits_exact : bool;   (* printed with %d (true) or with %g, six significant digits (false) *)
  p_time : Q;            (* value of the Time cell *)
  p_time_f1 : bool }.    (* printed with %5.1f (true) or %5.3g (false) *)

Record pfunc := PFunc { pf_key : key; pf_total : Q (* "Total time: %g s" *); pf_rows : list prow }.
Record psum := PSum { ps_key : key; ps_secs : Q (* "%6.2f seconds" *) }.
Record observed := Obs {
  ob_unit : Z;           (* id of the string in "Timer unit: <str> s" *)
  ob_unitq : Q;          (* that string read as an exact decimal *)
  ob_funcs : list pfunc;
  ob_sums : list psum }.

Definition key_eqb (a b : key) : bool :=
  let '(f1, l1, n1) := a in let '(f2, l2, n2) := b in (f1 =? f2) && (l1 =? l2) && (n1 =? n2).
Definition row_eqb (a b : row) : bool :=
  (r_line a =? r_line b) && (r_hits a =? r_hits b) && (r_time a =? r_time b).
Definition funit_eqb (a b : funit) : bool := (uid a =? uid b) && Qeq_bool (uval a) (uval b).
Definition entry_eqb (a b : entry) : bool := key_eqb (fst a) (fst b) && list_eqb row_eqb (snd a) (snd b).
(* identical: same functions in the same (dict) order, same lines, hits, times, same unit *)
Definition snapshot_eqb (a b : snapshot) : bool :=
  list_eqb entry_eqb (timings a) (timings b) && funit_eqb (s_unit a) (s_unit b).

(* ---- numbers as printed ---------------------------------------------------- *)
Definition slack : Q := 1 # 1125899906842624.       (* 2^-50: a few binary64 roundings *)
Definition q_close (c x tolabs tolrel : Q) : bool :=
  Qle_bool (Qabs (c - x)) (tolabs + Qabs x * tolrel).

(* "%d", or "%g" above nine digits *)
Definition hits_ok (p : prow) (h : Z) : bool :=
  if p_hits_exact p then p_hits p =? h
  else (1000000000 <=? h) && (Z.abs (p_hits p - h) * 200000 <=? h).

(* Time cell: time * (unit / output_unit) through %5.1f or %5.3g *)
Definition time_ok (p : prow) (t : Z) (u out : Q) : bool :=
  let x := (inject_Z t * u / out)%Q in
  if p_time_f1 p then q_close (p_time p) x (1 # 20) slack
  else q_close (p_time p) x 0 ((1 # 200) + slack)%Q.

Definition total_ok (c : Q) (total : Z) (u : Q) : bool :=
  q_close c (inject_Z total * u)%Q 0 ((1 # 200000) + slack)%Q.
Definition secs_ok (c : Q) (total : Z) (u : Q) : bool :=
  q_close c (inject_Z total * u)%Q (1 # 200) slack.

Fixpoint find_entry (k : key) (l : list entry) : option (list row) :=
  match l with [] => None | e :: t => if key_eqb (fst e) k then Some (snd e) else find_entry k t end.
Fixpoint find_row (line : Z) (l : list row) : option row :=
  match l with [] => None | r :: t => if r_line r =? line then Some r else find_row line t end.

Fixpoint all2 {A B} (f : A -> B -> bool) (a : list A) (b : list B) : bool :=
  match a, b with
  | [], [] => true
  | x :: a', y :: b' => f x y && all2 f a' b'
  | _, _ => false
  end.

(* ---- (a) model = implementation: the report the model predicts for the channel *)
Definition rows_match (exp : list row) (got : list prow) : bool :=
  all2 (fun (r : row) (p : prow) => (r_line r =? p_line p) && hits_ok p (r_hits r))
           exp got.
Definition funcs_match (exp : list entry) (got : list pfunc) : bool :=
  all2 (fun (e : entry) (f : pfunc) => key_eqb (fst e) (pf_key f) && rows_match (snd e) (pf_rows f))
           exp got.
Definition sums_match (exp : list (key * Z)) (got : list psum) : bool :=
  all2 (fun (e : key * Z) (p : psum) => key_eqb (fst e) (ps_key p)) exp got.

Definition model_ok (s : snapshot) (c : channel) (ob : observed) : bool :=
  let r := data_of s (opts_of c) in
  (uid (rp_unit r) =? ob_unit ob)
  && funcs_match (rp_details r) (ob_funcs ob)
  && sums_match (rp_summary r) (ob_sums ob).

(* ---- (b) the property on the implementation's own output -------------------- *)
(* every number shown belongs to the snapshot: right function, right line,
   hits exact (up to %g), time / totals within the precision of the format *)
Definition func_sound (s : snapshot) (out : Q) (f : pfunc) : bool :=
  match find_entry (pf_key f) (timings s) with
  | None => false
  | Some rs =>
      total_ok (pf_total f) (total_time rs) (uval (s_unit s))
      && forallb (fun p => match find_row (p_line p) rs with
                           | None => false
                           | Some r => hits_ok p (r_hits r) && time_ok p (r_time r) (uval (s_unit s)) out
                           end) (pf_rows f)
      (* and nothing that has data is left out of a shown block *)
      && (Nat.eqb (length (pf_rows f)) (length rs))
  end.
Definition sum_sound (s : snapshot) (p : psum) : bool :=
  match find_entry (ps_key p) (timings s) with
  | None => false
  | Some rs => secs_ok (ps_secs p) (total_time rs) (uval (s_unit s))
  end.
Definition obs_sound (s : snapshot) (ob : observed) : bool :=
  forallb (func_sound s (ob_unitq ob)) (ob_funcs ob) && forallb (sum_sound s) (ob_sums ob).

(* two channels showing the same function in the same unit show identical cells *)
Fixpoint find_pfunc (k : key) (l : list pfunc) : option pfunc :=
  match l with [] => None | f :: t => if key_eqb (pf_key f) k then Some f else find_pfunc k t end.
Fixpoint find_prow (line : Z) (l : list prow) : option prow :=
  match l with [] => None | p :: t => if p_line p =? line then Some p else find_prow line t end.
Definition prow_same (a b : prow) : bool :=
  (p_hits a =? p_hits b) && Bool.eqb (p_hits_exact a) (p_hits_exact b)
  && Qeq_bool (p_time a) (p_time b) && Bool.eqb (p_time_f1 a) (p_time_f1 b).
Definition pair_consistent (a b : observed) : bool :=
  forallb (fun fa => match find_pfunc (pf_key fa) (ob_funcs b) with
                     | None => true                   (* options select *)
                     | Some fb =>
                         Qeq_bool (pf_total fa) (pf_total fb)
                         && (negb (ob_unit a =? ob_unit b)
                             || forallb (fun pa => match find_prow (p_line pa) (pf_rows fb) with
                                                   | None => false
                                                   | Some pb => prow_same pa pb
                                                   end) (pf_rows fa))
                     end) (ob_funcs a).
Definition all_consistent (obs : list observed) : bool :=
  forallb (fun a => forallb (pair_consistent a) obs) obs.

(* one case: a live snapshot, what every dump loaded back to, every channel's observation *)
Definition case_ok (s : snapshot) (loaded : list snapshot) (obs : list (channel * observed)) : bool * bool :=
  (forallb (fun co => model_ok s (fst co) (snd co)) obs,
   forallb (snapshot_eqb s) loaded
   && forallb (fun co => obs_sound s (snd co)) obs
   && all_consistent (map snd obs)).

(* ---- histories of dumps with several writers ------------------------------------- *)
(* what the harness saw, step by step; `live` = get_stats() of the dumping profiler at
   the moment of the dump, `loaded` = load_stats(file) right after the step *)
Inductive hobs :=
| HDump (f : Z) (live : snapshot) (loaded : option snapshot)
| HForeign (f : Z) (s : snapshot)           (* someone else pickles s into the file *)
| HDelete (f : Z)
| HLoad (f : Z) (loaded : option snapshot).

Definition osnap_eqb (a b : option snapshot) : bool := opt_eqb snapshot_eqb a b.
Definition hworld := world unit snapshot snapshot.
Definition h_dump (f : Z) (w : hworld) : hworld := dump_stats unit snapshot (fun s => s) snapshot (fun s => s) f w.
Definition h_load (w : hworld) (f : Z) : option snapshot := load_stats unit snapshot (fun s => Some s) snapshot w f.

(* (model file system = what load_stats returned, the property: loaded = live at every dump) *)
Fixpoint hist_walk (hs : list hobs) (w : hworld) : bool * bool :=
  match hs with
  | [] => (true, true)
  | HDump f live loaded :: t =>
      let w1 := h_dump f (World live (fs w) (out w)) in
      let '(m, sp) := hist_walk t w1 in
      (osnap_eqb (h_load w1 f) loaded && m, osnap_eqb (Some live) loaded && sp)
  | HForeign f s :: t => hist_walk t (write_file unit snapshot snapshot f (Pkl s) w)
  | HDelete f :: t => hist_walk t (delete_file unit snapshot snapshot f w)
  | HLoad f loaded :: t =>
      let '(m, sp) := hist_walk t w in
      (osnap_eqb (h_load w f) loaded && m, osnap_eqb (h_load w f) loaded && sp)
  end.
Definition hist_ok (hs : list hobs) : bool * bool :=
  hist_walk hs (World (Snap [] (FUnit 0 (1 # 1))) [] []).

(* tiny self-test so that a broken checker cannot pass silently *)
Definition t_unit : funit := FUnit 1 (1 # 1000000000).
Definition t_snap : snapshot := Snap [((2, 10, 1), [(11, 1, 700); (12, 1000, 153000)]); ((1, 3, 2), [])] t_unit.
Definition t_obs : observed :=
  Obs 0 (1 # 1000000)
      [PFunc (2, 10, 1) (1537 # 10000000) [PRow 11 1 true (7 # 10) true; PRow 12 1000 true (153 # 1) true]] [].
Definition t_obs_bad : observed :=
  Obs 0 (1 # 1000000)
      [PFunc (2, 10, 1) (1537 # 10000000) [PRow 11 1 true (7 # 10) true; PRow 12 1001 true (153 # 1) true]] [].
Example selftest :
  case_ok t_snap [t_snap] [(ChKernprofView None true false, t_obs); (ChViewer None true false false false, t_obs)] = (true, true)
  /\ case_ok t_snap [t_snap] [(ChKernprofView None true false, t_obs_bad)] = (false, false)
  /\ case_ok t_snap [t_snap] [(ChKernprofView None false false, t_obs)] = (false, true)
  /\ case_ok t_snap [Snap [] t_unit] [] = (true, false)
  /\ hist_ok [HDump 1 t_snap (Some t_snap); HForeign 1 (Snap [] t_unit); HLoad 1 (Some (Snap [] t_unit));
              HDump 1 t_snap (Some t_snap); HDelete 1; HLoad 1 None] = (true, true)
  /\ hist_ok [HDump 1 t_snap (Some t_snap); HForeign 1 (Snap [] t_unit); HDump 1 t_snap (Some (Snap [] t_unit))] = (false, false).
Proof. vm_compute. repeat split. Qed.
