(* C10 read as an executable predicate over the OBSERVED report (what the harness tokenised
   from the text the real show_text wrote), plus the comparison model-vs-observation used by
   the correspondence shards.

   spec_ok checks, for one (stats, unit, output_unit, options, files) and one observed report:
     - the header states the output unit to six significant digits;
     - details: the blocks are exactly the functions to be shown (all of them, or under
       stripzeros those with total hits <> 0), once each, ordered by key or (sort) by total time;
     - in each block row i carries line start+i and the text of that line of the real file
       (read independently by the harness; "" for a missing file), every recorded line is on
       exactly one row, rows of unrecorded lines have empty cells;
     - hits are exact below 10^9 (above: exact or six significant digits), time / per hit /
       percent / total agree with the exact rational value computed from the data and the exact
       values of the two float units, to the printed precision (half a unit of the last printed
       place) plus 2^-50 relative slack for the binary64 roundings;
     - summarize: one summary line per function to be shown, same order, none otherwise.      *)
From Coq Require Import QArith.
From LP Require Import Prelude.Py Report.LayoutStr Report.Layout Report.Cells.
Open Scope Z_scope.

Record obs_row := mkORow {
  or_lineno : Z; or_hits : string; or_time : string; or_perhit : string; or_percent : string;
  or_text : string }.

Record obs_block := mkOBlock {
  ob_total : string;                 (* text between "Total time: " and " s" *)
  ob_file : string;                  (* File: / Could not find file *)
  ob_func : option (string * Z);     (* Function: name at line N (absent when the file is missing) *)
  ob_rows : list obs_row }.

Record obs := mkObs {
  o_lines : list string;             (* the whole text split at "\n" *)
  o_unit : string;                   (* text between "Timer unit: " and " s" *)
  o_blocks : list obs_block;
  o_summary : list (string * key) }. (* ('%6.2f' text, (file, lineno, name)) per summary line *)

(* what the harness knows about the files it wrote: does (file) exist, and its lines from
   line `start` on, without line terminators *)
Definition files := list (string * Z * (bool * list string)).

Definition lookup_file (fs : files) (fn : string) (start : Z) : bool * list string :=
  match find (fun e => String.eqb (fst (fst e)) fn && (snd (fst e) =? start)) fs with
  | Some e => snd e
  | None => (false, [])
  end.

Definition env_of (l : list (string * Z * source)) : env :=
  fun fn start =>
    match find (fun e => String.eqb (fst (fst e)) fn && (snd (fst e) =? start)) l with
    | Some e => snd e
    | None => Missing
    end.

(* ---- numeric agreement -------------------------------------------------------------- *)
Definition q_close (a b tol : Q) : bool := Qle_bool (a - b) tol && Qle_bool (b - a) tol.

Definition slack (exact : Q) : Q := (exact * (1 # Z.to_pos (2 ^ 50)))%Q.

Fixpoint has_char (c : ascii) (s : string) : bool :=
  match s with EmptyString => false | String a t => Ascii.eqb a c || has_char c t end.

(* decimal exponent of the leading digit of a parsed number M*10^E, M > 0 *)
Definition lead_exp (p : Z * Z * Z) : Z :=
  snd (fst p) + Z.of_nat (length (digits_of (fst (fst p)))) - 1.

(* printed with P significant digits ('%.Pg'): half a unit of the P-th significant place *)
Definition g_close (P : Z) (s : string) (exact : Q) : bool :=
  match parse_dec s with
  | None => false
  | Some p =>
      let tol := if fst (fst p) =? 0 then 0%Q else ((1 # 2) * pow10Q (lead_exp p - P + 1))%Q in
      q_close (dec_value p) exact (tol + slack exact)%Q
  end.

(* printed with exactly `prec` decimals ('%.<prec>f') *)
Definition f_close (prec : Z) (s : string) (exact : Q) : bool :=
  match parse_dec s with
  | None => false
  | Some p =>
      (snd (fst p) =? - prec)
      && q_close (dec_value p) exact ((1 # 2) * pow10Q (- prec) + slack exact)%Q
  end.

(* a time-like cell: one decimal, or three significant digits in exponent form *)
Definition cell_close (s : string) (exact : Q) : bool :=
  if has_char "e"%char s then g_close 3 s exact else f_close 1 s exact.

Definition hits_ok (s : string) (nhits : Z) : bool :=
  match parse_nat (lstrip_space s) with
  | Some v => v =? nhits
  | None => (10 ^ 9 <=? nhits) && g_close 6 s (inject_Z nhits)
  end.

Definition cells_ok (unit ou : Q) (tot : Z) (t : timing) (r : obs_row) : bool :=
  let exact_time := (inject_Z (t_time t) * unit / ou)%Q in
  hits_ok (or_hits r) (t_hits t)
  && cell_close (or_time r) exact_time
  && cell_close (or_perhit r) (exact_time / inject_Z (t_hits t))%Q
  && (if tot =? 0 then str_empty (or_percent r)
      else f_close 1 (or_percent r) (inject_Z (100 * t_time t) / inject_Z tot)%Q).

Definition row_empty (r : obs_row) : bool :=
  str_empty (or_hits r) && str_empty (or_time r) && str_empty (or_perhit r) && str_empty (or_percent r).

(* ---- one block ------------------------------------------------------------------------- *)
(* the text beside a row: that line of the file, or - only when the stream's encoding cannot
   encode that line - the fixed placeholder *)
Definition expected_text (e : encoding) (l : string) : string :=
  if encodable_in e l then l else encode_fallback.

Fixpoint rows_positions (e : encoding) (start : Z) (flines : option (list string)) (rows : list obs_row) : bool :=
  match rows with
  | [] => true
  | r :: rest =>
      (or_lineno r =? start)
      && match flines with
         | None => str_empty (or_text r) && rows_positions e (start + 1) None rest
         | Some [] => false                       (* a row beyond the end of the file *)
         | Some (l :: ls) => String.eqb (or_text r) (expected_text e l) && rows_positions e (start + 1) (Some ls) rest
         end
  end.

Definition count_rows (l : Z) (rows : list obs_row) : Z :=
  Z.of_nat (length (filter (fun r => or_lineno r =? l) rows)).

Definition block_ok (enc : encoding) (unit ou : Q) (fs : files) (e : entry) (b : obs_block) : bool :=
  let '((fn, start, name), tm) := e in
  let '(ex, flines) := lookup_file fs fn start in
  let tot := total_time tm in
  String.eqb (ob_file b) fn
  && (match ob_func b with
      | Some (n, s) => ex && String.eqb n name && (s =? start)
      | None => negb ex
      end)
  && g_close 6 (ob_total b) (inject_Z tot * unit)%Q
  && rows_positions enc start (if ex then Some flines else None) (ob_rows b)
  && forallb (fun t => (count_rows (t_line t) (ob_rows b) =? 1)
                       && forallb (fun r => negb (or_lineno r =? t_line t) || cells_ok unit ou tot t r)
                                  (ob_rows b)) tm
  && forallb (fun r => existsb (fun t => t_line t =? or_lineno r) tm || row_empty r) (ob_rows b).

Fixpoint forallb2 {A B} (f : A -> B -> bool) (l1 : list A) (l2 : list B) : bool :=
  match l1, l2 with
  | [], [] => true
  | a :: t1, b :: t2 => f a b && forallb2 f t1 t2
  | _, _ => false
  end.

Definition spec_shown (strip : bool) (e : entry) : bool := negb (strip && (total_hits (snd e) =? 0)).

Definition key_eq (a b : key) : bool :=
  String.eqb (fst (fst a)) (fst (fst b)) && (snd (fst a) =? snd (fst b)) && String.eqb (snd a) (snd b).

Definition summary_ok (unit : Q) (e : entry) (s : string * key) : bool :=
  key_eq (fst e) (snd s) && f_close 2 (fst s) (inject_Z (total_time (snd e)) * unit)%Q.

Definition spec_ok_enc (enc : encoding) (unit : Q) (output_unit : option Q) (fs : files) (o : options)
           (st : stats) (ob : obs) : bool :=
  let ou := match output_unit with Some u => u | None => unit end in
  let expected := filter (spec_shown (o_stripzeros o)) (stats_order (o_sort o) st) in
  g_close 6 (o_unit ob) ou
  && (if o_details o then forallb2 (block_ok enc unit ou fs) expected (o_blocks ob)
      else list_empty (o_blocks ob))
  && (if o_summarize o then forallb2 (summary_ok unit) expected (o_summary ob)
      else list_empty (o_summary ob)).

Definition spec_ok := spec_ok_enc Utf8.

(* ---- model vs observation ---------------------------------------------------------------- *)
Definition row_agrees (r : row) (x : obs_row) : bool :=
  let c := r_cells r in
  (r_lineno r =? or_lineno x)
  && String.eqb (lstrip_space (c_hits c)) (or_hits x)
  && String.eqb (lstrip_space (c_time c)) (or_time x)
  && String.eqb (lstrip_space (c_perhit c)) (or_perhit x)
  && String.eqb (lstrip_space (c_percent c)) (or_percent x)
  && String.eqb (r_text r) (or_text x).

Definition block_agrees (b : block) (x : obs_block) : bool :=
  let '(fn, start, name) := b_key b in
  String.eqb (b_total b) (ob_total x)
  && String.eqb fn (ob_file x)
  && (match ob_func x with
      | Some (n, s) => b_found b && String.eqb n name && (s =? start)
      | None => negb (b_found b)
      end)
  && forallb2 row_agrees (b_rows b) (ob_rows x).

Definition report_agrees (r : report) (ob : obs) : bool :=
  list_eqb String.eqb (render_report r) (o_lines ob)
  && String.eqb (rp_unit r) (o_unit ob)
  && forallb2 block_agrees (rp_blocks r) (o_blocks ob)
  && forallb2 (fun m x => key_eq (fst m) (snd x) && String.eqb (lstrip_space (snd m)) (fst x))
              (rp_summary r) (o_summary ob).

Definition model_agrees (unit : Q) (output_unit : option Q) (E : env) (o : options) (st : stats)
           (ob : obs) : bool :=
  report_agrees (show_text_py unit output_unit E o st) ob.

(* one correspondence case: (model agrees with the implementation, spec holds of the implementation) *)
Definition case_ok (unit : Q) (output_unit : option Q) (E : env) (fs : files) (o : options)
           (st : stats) (ob : obs) : bool * bool :=
  (model_agrees unit output_unit E o st ob, spec_ok unit output_unit fs o st ob).

(* the two command lines, end to end: the text they print vs the model's glue functions, and the
   property predicate on that text w.r.t. the statistics of the .lprof file the run wrote *)
Definition viewer_case_ok (unit u : Q) (z t m : bool) (E : env) (fs : files) (st : stats) (ob : obs)
  : bool * bool :=
  (report_agrees (viewer_cli_report unit u z t m E st) ob,
   spec_ok unit (Some u) fs (mkOpts z t m true) st ob).

Definition kernprof_case_ok (unit u : Q) (z : bool) (E : env) (fs : files) (st : stats) (ob : obs)
  : bool * bool :=
  (report_agrees (kernprof_view_report unit u z E st) ob,
   spec_ok unit (Some u) fs (mkOpts z false false true) st ob).

Definition print_stats_case_ok (unit : Q) (output_unit : option Q) (E : env) (fs : files) (o : options)
           (st : stats) (ob : obs) : bool * bool :=
  (report_agrees (print_stats_report (mkLineStats st unit) output_unit o E) ob,
   spec_ok unit output_unit fs o st ob).

(* a stream with a strict non-UTF-8 encoding (io.TextIOWrapper(..., encoding='ascii' / 'latin-1'),
   PYTHONIOENCODING for the command lines): whichever entry point printed the report, it is
   show_text with the formatter's `encodable` test set to that encoding *)
Definition case_ok_enc (enc : encoding) (unit : Q) (output_unit : option Q) (E : env) (fs : files)
           (o : options) (st : stats) (ob : obs) : bool * bool :=
  (report_agrees (show_text_enc enc unit output_unit E o st) ob,
   spec_ok_enc enc unit output_unit fs o st ob).
