(* Proofs about the channel model (Channels.v): C11, reused by C20. *)
From Coq Require Import QArith.
From LP Require Import Prelude.Py Report.Channels.
Local Open Scope Z_scope.

(* ---- sorting only permutes ------------------------------------------------ *)
Section SortFacts.
  Context {A : Type} (leb : A -> A -> bool).

  Lemma In_insert (a : A) l x : In x (insert leb a l) <-> x = a \/ In x l.
  Proof.
    induction l as [|y t IH]; cbn [insert].
    - cbn. intuition.
    - destruct (leb a y); cbn [In].
      + intuition.
      + rewrite IH. intuition.
  Qed.

  Lemma In_isort l x : In x (isort leb l) <-> In x l.
  Proof.
    induction l as [|y t IH]; cbn [isort fold_right].
    - reflexivity.
    - fold (isort leb t). rewrite In_insert, IH. cbn [In]. intuition.
  Qed.

  Lemma length_insert (a : A) l : length (insert leb a l) = S (length l).
  Proof.
    induction l as [|y t IH]; cbn [insert]; [reflexivity|].
    destruct (leb a y); cbn [length]; [reflexivity|now rewrite IH].
  Qed.

  Lemma length_isort l : length (isort leb l) = length l.
  Proof.
    induction l as [|y t IH]; cbn [isort fold_right]; [reflexivity|].
    fold (isort leb t). now rewrite length_insert, IH.
  Qed.
End SortFacts.

Lemma total_time_insert r l : total_time (insert row_leb r l) = r_time r + total_time l.
Proof.
  induction l as [|y t IH]; cbn [insert]; [reflexivity|].
  destruct (row_leb r y); [reflexivity|].
  unfold total_time in *. cbn [fold_right]. rewrite IH. lia.
Qed.

Lemma total_time_sort_rows rs : total_time (sort_rows rs) = total_time rs.
Proof.
  unfold sort_rows. induction rs as [|y t IH]; cbn [isort fold_right]; [reflexivity|].
  fold (isort row_leb t). rewrite total_time_insert, IH. reflexivity.
Qed.

Lemma total_hits_insert r l : total_hits (insert row_leb r l) = r_hits r + total_hits l.
Proof.
  induction l as [|y t IH]; cbn [insert]; [reflexivity|].
  destruct (row_leb r y); [reflexivity|].
  unfold total_hits in *. cbn [fold_right]. rewrite IH. lia.
Qed.

Lemma total_hits_sort_rows rs : total_hits (sort_rows rs) = total_hits rs.
Proof.
  unfold sort_rows. induction rs as [|y t IH]; cbn [isort fold_right]; [reflexivity|].
  fold (isort row_leb t). rewrite total_hits_insert, IH. reflexivity.
Qed.

Lemma In_sort_rows rs r : In r (sort_rows rs) <-> In r rs.
Proof. apply In_isort. Qed.

(* ---- what a report contains ------------------------------------------------ *)
Lemma In_stats_order s o e : In e (stats_order s o) <-> In e (timings s).
Proof. apply In_isort. Qed.

Lemma details_sound s o k rs :
  In (k, rs) (rp_details (data_of s o)) ->
  exists rs0, In (k, rs0) (timings s) /\ rs = sort_rows rs0
              /\ o_details o = true /\ detail_shown o (k, rs0) = true.
Proof.
  unfold data_of; cbn [rp_details]. destruct (o_details o) eqn:Hd; [|intros []].
  intros H. apply in_map_iff in H. destruct H as [[k0 rs0] [Heq Hin]].
  cbn [fst snd] in Heq. inversion Heq; subst.
  apply filter_In in Hin. destruct Hin as [Hin Hs].
  apply In_stats_order in Hin. exists rs0. auto.
Qed.

Lemma details_complete s o k rs0 :
  o_details o = true -> In (k, rs0) (timings s) -> detail_shown o (k, rs0) = true ->
  In (k, sort_rows rs0) (rp_details (data_of s o)).
Proof.
  intros Hd Hin Hs. unfold data_of; cbn [rp_details]. rewrite Hd.
  apply in_map_iff. exists (k, rs0). split; [reflexivity|].
  apply filter_In. split; [|exact Hs]. now apply In_stats_order.
Qed.

Lemma summary_sound s o k t :
  In (k, t) (rp_summary (data_of s o)) ->
  exists rs0, In (k, rs0) (timings s) /\ t = total_time rs0
              /\ o_summarize o = true /\ summary_shown o (k, rs0) = true.
Proof.
  unfold data_of; cbn [rp_summary]. destruct (o_summarize o) eqn:Hd; [|intros []].
  intros H. apply in_map_iff in H. destruct H as [[k0 rs0] [Heq Hin]].
  cbn [fst snd] in Heq. inversion Heq; subst.
  apply filter_In in Hin. destruct Hin as [Hin Hs].
  apply In_stats_order in Hin. exists rs0. auto.
Qed.

Lemma summary_complete s o k rs0 :
  o_summarize o = true -> In (k, rs0) (timings s) -> summary_shown o (k, rs0) = true ->
  In (k, total_time rs0) (rp_summary (data_of s o)).
Proof.
  intros Hd Hin Hs. unfold data_of; cbn [rp_summary]. rewrite Hd.
  apply in_map_iff. exists (k, rs0). split; [reflexivity|].
  apply filter_In. split; [|exact Hs]. now apply In_stats_order.
Qed.

Lemma wf_unique s k a b : wf s -> In (k, a) (timings s) -> In (k, b) (timings s) -> a = b.
Proof.
  unfold wf. induction (timings s) as [|[k0 r0] t IH]; cbn [map fst In]; [intros _ []|].
  intros Hnd Ha Hb. inversion Hnd as [|? ? Hnotin Hnd']; subst.
  destruct Ha as [Ha|Ha], Hb as [Hb|Hb].
  - inversion Ha; inversion Hb; subst; reflexivity.
  - inversion Ha; subst. exfalso. apply Hnotin. apply in_map_iff. exists (k, b). auto.
  - inversion Hb; subst. exfalso. apply Hnotin. apply in_map_iff. exists (k, a). auto.
  - now apply IH.
Qed.

(* options only select and order: the DATA two reports carry for a function agree *)
Lemma reports_agree_rows s o1 o2 k r1 r2 :
  wf s -> In (k, r1) (rp_details (data_of s o1)) -> In (k, r2) (rp_details (data_of s o2)) -> r1 = r2.
Proof.
  intros Hwf H1 H2.
  apply details_sound in H1. destruct H1 as [a [Ha [E1 _]]].
  apply details_sound in H2. destruct H2 as [b [Hb [E2 _]]].
  rewrite (wf_unique s k a b Hwf Ha Hb) in E1. congruence.
Qed.

Lemma reports_agree_summary s o1 o2 k t1 t2 :
  wf s -> In (k, t1) (rp_summary (data_of s o1)) -> In (k, t2) (rp_summary (data_of s o2)) -> t1 = t2.
Proof.
  intros Hwf H1 H2.
  apply summary_sound in H1. destruct H1 as [a [Ha [E1 _]]].
  apply summary_sound in H2. destruct H2 as [b [Hb [E2 _]]].
  rewrite (wf_unique s k a b Hwf Ha Hb) in E1. congruence.
Qed.

Lemma summary_agrees_with_details s o1 o2 k t rs :
  wf s -> In (k, t) (rp_summary (data_of s o1)) -> In (k, rs) (rp_details (data_of s o2)) ->
  t = total_time rs.
Proof.
  intros Hwf H1 H2.
  apply summary_sound in H1. destruct H1 as [a [Ha [E1 _]]].
  apply details_sound in H2. destruct H2 as [b [Hb [E2 _]]].
  subst. rewrite total_time_sort_rows. now rewrite (wf_unique s k a b Hwf Ha Hb).
Qed.

(* every row shown is a row of the snapshot, with its hits and time untouched *)
Lemma report_row_in_snapshot s o k rs r :
  In (k, rs) (rp_details (data_of s o)) -> In r rs ->
  exists rs0, In (k, rs0) (timings s) /\ In r rs0.
Proof.
  intros H Hr. apply details_sound in H. destruct H as [rs0 [Hin [E _]]].
  exists rs0. split; [exact Hin|]. subst. now apply In_sort_rows.
Qed.

Lemma report_unit s o : rp_unit (data_of s o) = shown_unit s o.
Proof. reflexivity. Qed.

(* without stripzeros every function of the snapshot is shown exactly as often as it occurs *)
Lemma details_all_without_strip s o :
  o_details o = true -> o_strip o = false ->
  length (rp_details (data_of s o)) = length (timings s).
Proof.
  intros Hd Hs. unfold data_of; cbn [rp_details]. rewrite Hd, map_length.
  assert (Hf : forall l, filter (detail_shown o) l = l).
  { induction l as [|e t IH]; cbn [filter]; [reflexivity|].
    unfold detail_shown at 1. rewrite Hs. cbn [andb negb]. now rewrite IH. }
  rewrite Hf. apply length_isort.
Qed.

(* ---- option mappings -------------------------------------------------------- *)
Lemma view_opts_eq_viewer_opts u z r :
  kernprof_view_opts u z r = viewer_opts u z r false false.
Proof. reflexivity. Qed.

(* text files always have details and are never rich; everything else as stdout *)
Lemma explicit_text_vs_stdout sc :
  o_details sc = true -> o_rich sc = false ->
  explicit_text_opts sc = explicit_stdout_opts sc.
Proof. intros Hd Hr. unfold explicit_text_opts, explicit_stdout_opts. now rewrite Hd, Hr. Qed.

Lemma lprun_opts_eq_live u s : lprun_opts u s = Opts u s true false false false.
Proof. reflexivity. Qed.

(* ---- the world --------------------------------------------------------------- *)
Section WorldFacts.
  Variable text : Type.
  Variable render : snapshot -> opts -> text.
  Variable bytes : Type.
  Variable dump : snapshot -> bytes.
  Variable load : bytes -> option snapshot.
  Hypothesis load_dump : forall s, load (dump s) = Some s.   (* pickle: trusted, measured by the tie *)
  Variable st : Type.
  Variable get_stats : st -> snapshot.

  Notation world := (world text bytes st).
  Notation step := (step st).
  Notation print_stats := (print_stats text render bytes st get_stats).
  Notation dump_stats := (dump_stats text bytes dump st get_stats).
  Notation load_stats := (load_stats text bytes load st).
  Notation kernprof_finally := (kernprof_finally text render bytes dump st get_stats).
  Notation viewer := (viewer text render bytes load st).
  Notation explicit_show := (explicit_show text render bytes dump st get_stats).
  Notation do_step := (do_step text render bytes dump load st get_stats).
  Notation run := (run text render bytes dump load st get_stats).
  Notation lookup := (lookup text bytes).
  Notation out_texts := (out_texts text bytes st).
  Notation file_texts := (file_texts text bytes st).
  Notation file_pickles := (file_pickles text bytes st).
  Notation say := (say text bytes st).
  Notation write_file := (write_file text bytes st).

  Definition snap (w : world) : snapshot := get_stats (prof w).

  (* -- round trip -- *)
  Lemma roundtrip (w : world) f : load_stats (dump_stats f w) f = Some (snap w).
  Proof.
    unfold load_stats, dump_stats, Channels.write_file. cbn [fs lookup Channels.lookup].
    rewrite Z.eqb_refl. apply load_dump.
  Qed.

  (* ... whatever happened to that path before: earlier dumps of this profiler, dumps of
     other profilers, foreign writes, deletions, in any order.  In particular a profiler
     that dumps, sees its file overwritten and dumps again (nothing new recorded) gets its
     own statistics back. *)
  Lemma roundtrip_any_history hs (w : world) f :
    load_stats (dump_stats f (hrun text render bytes dump load st get_stats hs w)) f
    = Some (snap (hrun text render bytes dump load st get_stats hs w)).
  Proof. apply roundtrip. Qed.

  Lemma redump_after_foreign_write (w : world) f c :
    load_stats (dump_stats f (write_file f c (dump_stats f w))) f = Some (snap w).
  Proof. exact (roundtrip (write_file f c (dump_stats f w)) f). Qed.

  (* the profiler is not touched by any output request *)
  Lemma prof_say i (w : world) : prof (say i w) = prof w. Proof. reflexivity. Qed.
  Lemma prof_write f c (w : world) : prof (write_file f c w) = prof w. Proof. reflexivity. Qed.
  Lemma prof_dump f (w : world) : prof (dump_stats f w) = prof w. Proof. reflexivity. Qed.

  Lemma prof_kernprof f v u z r (w : world) : prof (kernprof_finally f v u z r w) = prof w.
  Proof. unfold kernprof_finally. destruct v; reflexivity. Qed.

  Lemma prof_explicit wc sc a b c (w : world) : prof (explicit_show wc sc a b c w) = prof w.
  Proof.
    unfold explicit_show. destruct wc as [l t ts so]; cbn [wc_lprof wc_text wc_ts wc_stdout].
    destruct so, t, ts, l; reflexivity.
  Qed.

  Lemma prof_step x (w : world) : is_exec st x = false -> prof (do_step x w) = prof w.
  Proof.
    destruct x; cbn [is_exec do_step Channels.do_step]; intros H; try discriminate; try reflexivity.
    - apply prof_kernprof.
    - unfold Channels.viewer. destruct (Channels.load_stats _ _ _ _ _ _); reflexivity.
    - apply prof_explicit.
  Qed.

  Lemma prof_run xs (w : world) : forallb (fun x => negb (is_exec st x)) xs = true -> prof (run xs w) = prof w.
  Proof.
    revert w. induction xs as [|x t IH]; intros w H; [reflexivity|].
    cbn [forallb] in H. apply andb_true_iff in H. destruct H as [Hx Ht].
    unfold run, Channels.run in *. cbn [fold_left]. rewrite IH by exact Ht.
    apply prof_step. now destruct (is_exec st x).
  Qed.

  (* -- each channel, exactly -- *)
  Lemma live_text (w : world) o : print_stats w o = render (snap w) (opts_of (ChLive o)).
  Proof. reflexivity. Qed.

  Lemma kernprof_view_text f u z r (w : world) :
    out (kernprof_finally f true u z r w)
    = OutText (render (snap w) (opts_of (ChKernprofView u z r))) :: OutMsg (MSG_WROTE) f :: out w
    /\ load_stats (kernprof_finally f true u z r w) f = Some (snap w).
  Proof.
    split; [reflexivity|].
    unfold kernprof_finally, Channels.kernprof_finally, load_stats, Channels.load_stats.
    cbn [fs Channels.say Channels.dump_stats Channels.write_file Channels.lookup].
    rewrite Z.eqb_refl. apply load_dump.
  Qed.

  Lemma kernprof_noview f u z r (w : world) :
    out (kernprof_finally f false u z r w) = OutMsg (MSG_WROTE) f :: out w
    /\ load_stats (kernprof_finally f false u z r w) f = Some (snap w).
  Proof.
    split; [reflexivity|].
    unfold kernprof_finally, Channels.kernprof_finally, load_stats, Channels.load_stats.
    cbn [fs Channels.say Channels.dump_stats Channels.write_file Channels.lookup].
    rewrite Z.eqb_refl. apply load_dump.
  Qed.

  Lemma viewer_text file u z r t m (w : world) s :
    load_stats w file = Some s ->
    exists w', viewer file u z r t m w = Some w'
               /\ out w' = OutText (render s (opts_of (ChViewer u z r t m))) :: out w
               /\ fs w' = fs w /\ prof w' = prof w.
  Proof.
    intros H. unfold Channels.viewer. rewrite H.
    eexists; split; [reflexivity|]. repeat split.
  Qed.

  (* kernprof -v -u U -z [-r] prints what the viewer prints from the file it wrote *)
  Lemma view_equals_viewer f u z r (w : world) :
    let w1 := kernprof_finally f true u z r w in
    exists w2, viewer f u z r false false w1 = Some w2
               /\ exists t, out w1 = OutText t :: OutMsg (MSG_WROTE) f :: out w
                            /\ out w2 = OutText t :: out w1.
  Proof.
    intros w1. destruct (kernprof_view_text f u z r w) as [Hout Hload]. fold w1 in Hout, Hload.
    destruct (viewer_text f u z r false false w1 (snap w) Hload) as [w2 [Hv [Ho _]]].
    exists w2. split; [exact Hv|].
    exists (render (snap w) (kernprof_view_opts u z r)). split; [exact Hout|].
    rewrite Ho. reflexivity.
  Qed.

  (* the explicit profiler: what lands where *)
  Definition opt_text (b : bool) (t : text) : list text := if b then [t] else [].

  Lemma explicit_outputs wc sc a b c (w : world) :
    a <> b -> a <> c -> b <> c ->
    let w' := explicit_show wc sc a b c w in
    out_texts w' = opt_text (wc_stdout wc) (render (snap w) (opts_of (ChExplicitStdout sc))) ++ out_texts w
    /\ (wc_text wc = true -> lookup a (fs w') = Some (Txt (render (snap w) (opts_of (ChExplicitText sc)))))
    /\ (wc_ts wc = true -> lookup b (fs w') = Some (Txt (render (snap w) (opts_of (ChExplicitText sc)))))
    /\ (wc_lprof wc = true -> load_stats w' c = Some (snap w)).
  Proof.
    intros Hab Hac Hbc w'. subst w'.
    assert (Eba : (b =? a) = false) by (apply Z.eqb_neq; congruence).
    assert (Eca : (c =? a) = false) by (apply Z.eqb_neq; congruence).
    assert (Ecb : (c =? b) = false) by (apply Z.eqb_neq; congruence).
    unfold explicit_show, Channels.explicit_show, load_stats, Channels.load_stats.
    destruct wc as [l t ts so]; cbn [wc_lprof wc_text wc_ts wc_stdout].
    destruct so, t, ts, l;
      cbn [fs out prof Channels.say Channels.dump_stats Channels.write_file Channels.lookup
           Channels.out_texts flat_map app opt_text Channels.print_stats];
      rewrite ?Z.eqb_refl, ?Eba, ?Eca, ?Ecb;
      (split; [reflexivity|]); repeat split; intros; try discriminate; try reflexivity;
      try apply load_dump.
  Qed.

  (* -- histories -- *)
  Definition at_call (xs : list step) (w : world) (s : snapshot) : Prop :=
    exists pre post, xs = pre ++ post /\ s = snap (run pre w).

  Definition sound (P : snapshot -> Prop) (W : world) : Prop :=
    (forall t, In t (out_texts W) \/ In t (file_texts W) -> exists s o, P s /\ t = render s o)
    /\ (forall b, In b (file_pickles W) -> exists s, P s /\ b = dump s).

  Lemma sound_mono (P Q : snapshot -> Prop) W : (forall s, P s -> Q s) -> sound P W -> sound Q W.
  Proof.
    intros HPQ [Ht Hb]. split.
    - intros t H. destruct (Ht t H) as [s [o [Hp E]]]. exists s, o. auto.
    - intros b H. destruct (Hb b H) as [s [Hp E]]. exists s. auto.
  Qed.

  Lemma sound_say_text (P : snapshot -> Prop) (W : world) s o :
    P s -> sound P W -> sound P (say (OutText (render s o)) W).
  Proof.
    intros Hp [Ht Hb]. split; [|exact Hb].
    intros t [H|H]; [|apply Ht; now right].
    unfold out_texts, Channels.out_texts in H. cbn [out Channels.say flat_map] in H.
    apply in_app_iff in H. destruct H as [[H|[]]|H].
    - subst. exists s, o. auto.
    - apply Ht. now left.
  Qed.

  Lemma sound_say_msg (P : snapshot -> Prop) (W : world) m f : sound P W -> sound P (say (OutMsg m f) W).
  Proof. intros H. exact H. Qed.

  Lemma sound_write_text (P : snapshot -> Prop) (W : world) f s o :
    P s -> sound P W -> sound P (write_file f (Txt (render s o)) W).
  Proof.
    intros Hp [Ht Hb]. split; [|exact Hb].
    intros t [H|H]; [apply Ht; now left|].
    unfold file_texts, Channels.file_texts in H. cbn [fs Channels.write_file flat_map snd] in H.
    apply in_app_iff in H. destruct H as [[H|[]]|H].
    - subst. exists s, o. auto.
    - apply Ht. now right.
  Qed.

  Lemma sound_dump (P : snapshot -> Prop) (W : world) f : P (snap W) -> sound P W -> sound P (dump_stats f W).
  Proof.
    intros Hp [Ht Hb]. split; [exact Ht|].
    intros b H. unfold file_pickles, Channels.file_pickles in H.
    cbn [fs Channels.dump_stats Channels.write_file flat_map snd] in H.
    apply in_app_iff in H. destruct H as [[H|[]]|H].
    - subst. exists (snap W). auto.
    - now apply Hb.
  Qed.

  Lemma lookup_pickle f (l : list (Z * content text bytes)) b :
    lookup f l = Some (Pkl b) -> In b (flat_map (fun fc => match snd fc with Pkl b => [b] | _ => [] end) l).
  Proof.
    induction l as [|[g c] t IH]; cbn [lookup Channels.lookup flat_map snd]; [discriminate|].
    destruct (g =? f).
    - intros H. inversion H; subst. cbn. now left.
    - intros H. apply in_app_iff. right. now apply IH.
  Qed.

  Lemma sound_step (P : snapshot -> Prop) x (W : world) :
    is_exec st x = false -> P (snap W) -> sound P W -> sound P (do_step x W).
  Proof.
    destruct x as [f|o|f|f v u z r|f u z r t m|wc sc a b c];
      cbn [is_exec do_step Channels.do_step]; intros Hx Hp Hs; try discriminate.
    - now apply sound_say_text.
    - now apply sound_dump.
    - unfold Channels.kernprof_finally. destruct v.
      + apply sound_say_text; [exact Hp|]. apply sound_say_msg. now apply sound_dump.
      + apply sound_say_msg. now apply sound_dump.
    - unfold Channels.viewer, Channels.load_stats.
      destruct (Channels.lookup text bytes f (fs W)) as [[tx|bb]|] eqn:Hl; try exact Hs.
      destruct (load bb) as [s0|] eqn:Hld; [|exact Hs].
      apply lookup_pickle in Hl. destruct Hs as [Ht Hb].
      destruct (Hb bb Hl) as [s1 [Hp1 E]]. subst bb. rewrite load_dump in Hld. inversion Hld; subst.
      apply sound_say_text; [exact Hp1|]. split; assumption.
    - unfold Channels.explicit_show.
      destruct wc as [l t ts so]; cbn [wc_lprof wc_text wc_ts wc_stdout].
      assert (H1 : sound P (if so then say (OutText (print_stats W (explicit_stdout_opts sc))) W else W)).
      { destruct so; [|exact Hs]. now apply sound_say_text. }
      set (W1 := if so then _ else W) in *.
      assert (E1 : snap W1 = snap W) by (subst W1; destruct so; reflexivity).
      set (raw := Channels.print_stats text render bytes st get_stats W1 (explicit_text_opts sc)).
      assert (Eraw : raw = render (snap W) (explicit_text_opts sc)).
      { subst raw. unfold Channels.print_stats. fold (snap W1). now rewrite E1. }
      rewrite Eraw.
      set (W2 := if t then _ else W1).
      assert (H2 : sound P W2 /\ snap W2 = snap W).
      { subst W2. destruct t; [|auto]. split; [|exact E1].
        apply sound_say_msg. now apply sound_write_text. }
      destruct H2 as [H2 E2].
      set (W3 := if ts then _ else W2).
      assert (H3 : sound P W3 /\ snap W3 = snap W).
      { subst W3. destruct ts; [|auto]. split; [|exact E2].
        apply sound_say_msg. now apply sound_write_text. }
      destruct H3 as [H3 E3].
      destruct l; [|exact H3].
      apply sound_say_msg. apply sound_dump; [now rewrite E3|exact H3].
  Qed.

  Lemma sound_exec (P : snapshot -> Prop) f (W : world) : sound P W -> sound P (do_step (Exec f) W).
  Proof. intros H. exact H. Qed.

  Lemma run_snoc xs x (w : world) : run (xs ++ [x]) w = do_step x (run xs w).
  Proof. unfold run, Channels.run. now rewrite fold_left_app. Qed.

  (* Every text and every pickle a history leaves behind (stdout, text files,
     .lprof files) renders / pickles the snapshot get_stats() returned at the
     moment of some call in that history. *)
  Theorem history_sound xs (w : world) :
    fs w = [] -> out w = [] -> sound (at_call xs w) (run xs w).
  Proof.
    intros Hfs Hout. induction xs as [|x xs IH] using rev_ind.
    - unfold run, Channels.run; cbn [fold_left]. split.
      + intros t [H|H].
        * unfold out_texts, Channels.out_texts in H. rewrite Hout in H. destruct H.
        * unfold file_texts, Channels.file_texts in H. rewrite Hfs in H. destruct H.
      + intros b H. unfold file_pickles, Channels.file_pickles in H. rewrite Hfs in H. destruct H.
    - rewrite run_snoc.
      assert (Hmono : forall s, at_call xs w s -> at_call (xs ++ [x]) w s).
      { intros s [pre [post [E Hs]]]. exists pre, (post ++ [x]). split; [|exact Hs].
        rewrite E. now rewrite app_assoc. }
      apply (sound_mono _ _ _ Hmono) in IH.
      destruct (is_exec st x) eqn:Hx.
      + destruct x; try discriminate. now apply sound_exec.
      + apply sound_step; [exact Hx| |exact IH].
        exists xs, [x]. split; reflexivity.
  Qed.

  Lemma at_call_noexec xs (w : world) s :
    forallb (fun x => negb (is_exec st x)) xs = true -> at_call xs w s -> s = snap w.
  Proof.
    intros Hne [pre [post [E Hs]]]. subst xs s.
    rewrite forallb_app in Hne. apply andb_true_iff in Hne. destruct Hne as [Hpre _].
    unfold snap. now rewrite prof_run.
  Qed.

  (* With no profiled execution in between, all of it is ONE snapshot. *)
  Theorem history_same_snapshot xs (w : world) :
    fs w = [] -> out w = [] ->
    forallb (fun x => negb (is_exec st x)) xs = true ->
    sound (fun s => s = snap w) (run xs w).
  Proof.
    intros Hfs Hout Hne. eapply sound_mono; [|now apply history_sound].
    intros s Hs. now apply (at_call_noexec xs w).
  Qed.

  Lemma channels_same_snapshot (w : world) :
      (forall o, print_stats w o = render (snap w) (opts_of (ChLive o)))
      /\ (forall f u z r,
             out (kernprof_finally f true u z r w)
             = OutText (render (snap w) (opts_of (ChKernprofView u z r))) :: OutMsg (MSG_WROTE) f :: out w
             /\ load_stats (kernprof_finally f true u z r w) f = Some (snap w))
      /\ (forall file u z r t m s,
             load_stats w file = Some s ->
             exists w', viewer file u z r t m w = Some w'
                        /\ out w' = OutText (render s (opts_of (ChViewer u z r t m))) :: out w
                        /\ fs w' = fs w /\ prof w' = prof w)
      /\ (forall wc sc a b c,
             a <> b -> a <> c -> b <> c ->
             let w' := explicit_show wc sc a b c w in
             out_texts w'
             = opt_text (wc_stdout wc) (render (snap w) (opts_of (ChExplicitStdout sc))) ++ out_texts w
             /\ (wc_text wc = true -> lookup a (fs w') = Some (Txt (render (snap w) (opts_of (ChExplicitText sc)))))
             /\ (wc_ts wc = true -> lookup b (fs w') = Some (Txt (render (snap w) (opts_of (ChExplicitText sc)))))
             /\ (wc_lprof wc = true -> load_stats w' c = Some (snap w))).
  Proof.
    split; [intros o; apply live_text|].
    split; [intros; now apply kernprof_view_text|].
    split; [intros; now apply viewer_text|].
    intros; now apply explicit_outputs.
  Qed.

  (* -- reading the texts back: any two channels' parsed data agree -- *)
  Variable parse : text -> report.
  Hypothesis parse_render : forall s o, wf s -> parse (render s o) = data_of s o.   (* C10 *)

  Theorem texts_agree xs (w : world) t1 t2 :
    fs w = [] -> out w = [] ->
    forallb (fun x => negb (is_exec st x)) xs = true ->
    wf (snap w) ->
    let W := run xs w in
    In t1 (out_texts W ++ file_texts W) -> In t2 (out_texts W ++ file_texts W) ->
    (forall k r1 r2, In (k, r1) (rp_details (parse t1)) -> In (k, r2) (rp_details (parse t2)) -> r1 = r2)
    /\ (forall k a b, In (k, a) (rp_summary (parse t1)) -> In (k, b) (rp_summary (parse t2)) -> a = b)
    /\ (forall k a rs, In (k, a) (rp_summary (parse t1)) -> In (k, rs) (rp_details (parse t2)) -> a = total_time rs)
    /\ (forall k rs r, In (k, rs) (rp_details (parse t1)) -> In r rs ->
          exists rs0, In (k, rs0) (timings (snap w)) /\ In r rs0).
  Proof.
    intros Hfs Hout Hne Hwf W H1 H2.
    destruct (history_same_snapshot xs w Hfs Hout Hne) as [Ht _]. fold W in Ht.
    apply in_app_iff in H1. apply in_app_iff in H2.
    destruct (Ht t1 H1) as [s1 [o1 [E1 T1]]]. destruct (Ht t2 H2) as [s2 [o2 [E2 T2]]].
    subst s1 s2 t1 t2. rewrite !parse_render by exact Hwf.
    repeat split.
    - intros k r1 r2. now apply reports_agree_rows.
    - intros k a b. now apply reports_agree_summary.
    - intros k a rs. now apply summary_agrees_with_details.
    - intros k rs r. apply report_row_in_snapshot.
  Qed.

  Theorem pickles_load_to_snapshot xs (w : world) b :
    fs w = [] -> out w = [] ->
    forallb (fun x => negb (is_exec st x)) xs = true ->
    In b (file_pickles (run xs w)) -> load b = Some (snap w).
  Proof.
    intros Hfs Hout Hne Hb.
    destruct (history_same_snapshot xs w Hfs Hout Hne) as [_ Hp].
    destruct (Hp b Hb) as [s [E1 E2]]. subst. apply load_dump.
  Qed.
  Theorem history_same_snapshot_full xs (w : world) :
    fs w = [] -> out w = [] ->
    forallb (fun x => negb (is_exec st x)) xs = true ->
    sound (fun s => s = snap w) (run xs w)
    /\ forall b, In b (file_pickles (run xs w)) -> load b = Some (snap w).
  Proof.
    intros Hfs Hout Hne. split.
    - now apply history_same_snapshot.
    - intros b. now apply pickles_load_to_snapshot.
  Qed.
End WorldFacts.

Lemma options_select_and_order s o k :
    (forall rs, In (k, rs) (rp_details (data_of s o)) <->
                exists rs0, In (k, rs0) (timings s) /\ rs = sort_rows rs0
                            /\ o_details o = true /\ detail_shown o (k, rs0) = true)
    /\ (forall t, In (k, t) (rp_summary (data_of s o)) <->
                  exists rs0, In (k, rs0) (timings s) /\ t = total_time rs0
                              /\ o_summarize o = true /\ summary_shown o (k, rs0) = true).
Proof.
  split.
  - intros rs. split; [apply details_sound|].
    intros [rs0 [Hin [E [Hd Hs]]]]. subst. now apply details_complete.
  - intros t. split; [apply summary_sound|].
    intros [rs0 [Hin [E [Hd Hs]]]]. subst. now apply summary_complete.
Qed.

Lemma option_mappings :
  (forall u z r, opts_of (ChKernprofView u z r) = opts_of (ChViewer u z r false false))
  /\ (forall z r, o_unit (opts_of (ChKernprofView None z r)) = Some unit_1e6
                  /\ forall t m, o_unit (opts_of (ChViewer None z r t m)) = Some unit_1e6)
  /\ (forall sc, o_details sc = true -> o_rich sc = false ->
                 opts_of (ChExplicitText sc) = opts_of (ChExplicitStdout sc))
  /\ (forall sc, o_details (opts_of (ChExplicitText sc)) = true /\ o_rich (opts_of (ChExplicitText sc)) = false).
Proof.
  split; [intros; apply view_opts_eq_viewer_opts|].
  split; [intros; split; reflexivity|].
  split; [intros; now apply explicit_text_vs_stdout|].
  intros; split; reflexivity.
Qed.

(* ---- the hypotheses are satisfiable: text := the report itself ------------- *)
Definition ex_unit : funit := FUnit 1 (1 # 1000000000).
Definition ex_snap : snapshot :=
  Snap [((2, 10, 1), [(11, 1, 700); (12, 1000, 153000); (13, 1000, 138000)]);
        ((1, 3, 2), [(4, 0, 0)])] ex_unit.

Lemma ex_wf : wf ex_snap.
Proof. unfold wf, ex_snap; cbn [timings map fst]. repeat constructor; cbn; intuition congruence. Qed.

Example channels_nonvacuous :
  let render := data_of in
  let dump := fun s : snapshot => s in
  let load := fun s : snapshot => Some s in
  let get := fun s : snapshot => s in
  let w0 := World (text := report) (bytes := snapshot) ex_snap [] [] in
  let xs := [Kernprof 7 true None true false; View 7 None true false false false;
             Explicit (WC true true true true) default_show_config 8 9 10; Print default_opts] in
  let W := run report render snapshot dump load snapshot get xs w0 in
  (forall s, load (dump s) = Some s)
  /\ (forall s o, wf s -> (fun t => t) (render s o) = data_of s o)
  /\ wf ex_snap
  /\ length (out_texts report snapshot snapshot W) = 4%nat
  /\ length (file_texts report snapshot snapshot W) = 2%nat
  /\ length (file_pickles report snapshot snapshot W) = 2%nat
  /\ map fst (rp_details (data_of ex_snap (kernprof_view_opts None true false))) = [(2, 10, 1)]
  /\ map fst (rp_details (data_of ex_snap default_opts)) = [(1, 3, 2); (2, 10, 1)]
  /\ rp_summary (data_of ex_snap (explicit_stdout_opts default_show_config)) = [((2, 10, 1), 291700)].
Proof.
  cbv zeta. split; [reflexivity|]. split; [reflexivity|]. split; [exact ex_wf|].
  vm_compute. repeat split; reflexivity.
Qed.
