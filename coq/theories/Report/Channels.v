(* Engine E6, channels (C11, reused by C20): every way line_profiler has of
   presenting statistics, as a function of ONE snapshot (the LineStats a fresh
   get_stats() call returns) and of the option mapping of that channel.

   This file holds the executable definitions only (no proofs): data, option
   mappings as the source passes them, the selection/ordering part of show_text
   (which functions, in which order, which totals), and the world model
   (profiler state, files, stdout).  Proofs: ChannelsProofs.v; the checkers that
   case shards run: ChannelsCheck.v.

   Source read (line_profiler 4.3.0):
     line_profiler.py   LineProfiler.dump_stats / print_stats, show_text, load_stats, main
     kernprof.py        main: the `finally:` block (dump_stats + optional view)
     explicit_profiler  GlobalProfiler.show (write_config x show_config)
     ipython_extension  %lprun: print_stats -> rstrip -> page / -T, -D dump, -r
   The cell formatting and the row <-> source-line zip of show_func are C10's
   model (Layout.v / Cells.v); here `render` stays abstract. *)
From Coq Require Import QArith.
From LP Require Import Prelude.Py.
Local Open Scope Z_scope.

(* ---- data ----------------------------------------------------------------- *)
(* key = (file name, first line, function name); strings are interned by the
   harness as their rank in code-point order, so Z order = Python's str order *)
Definition key := (Z * Z * Z)%type.
(* one profiled line: (lineno, nhits, total_time), time in timer units *)
Definition row := (Z * Z * Z)%type.
Definition r_line (r : row) : Z := fst (fst r).
Definition r_hits (r : row) : Z := snd (fst r).
Definition r_time (r : row) : Z := snd r.

(* a float unit: the binary64 value as an exact rational, plus the id of the
   string '%g' prints for it (what the "Timer unit:" header shows) *)
Record funit := FUnit { uid : Z; uval : Q }.

(* LineStats: `timings` is an insertion-ordered dict -> association list *)
Record snapshot := Snap { timings : list (key * list row); s_unit : funit }.

(* keyword arguments of show_text / print_stats *)
Record opts := Opts {
  o_unit : option funit;      (* output_unit *)
  o_strip : bool;             (* stripzeros  *)
  o_details : bool;
  o_summarize : bool;
  o_sort : bool;
  o_rich : bool }.

(* print_stats(self, stream=None, output_unit=None, stripzeros=False,
               details=True, summarize=False, sort=False, rich=False) *)
Definition default_opts : opts := Opts None false true false false false.

(* argparse default of -u/--unit, in kernprof.py and in line_profiler.main: '1e-6'
   run through positive_float.  Exact value of the double 1e-6; uid 0 is reserved
   for the string "1e-06" by the harness. *)
Definition unit_1e6 : funit :=
  FUnit 0 (4722366482869645 # 4722366482869645213696).
Definition cli_unit (u : option funit) : funit :=
  match u with Some v => v | None => unit_1e6 end.

(* ---- the channels and the options each passes to show_text --------------- *)
Inductive channel :=
| ChLive (o : opts)                                   (* prof.print_stats with keyword arguments o *)
| ChKernprofView (u : option funit) (z r : bool)      (* kernprof -l -v [-u U] [-z] [-r] *)
| ChViewer (u : option funit) (z r t m : bool)        (* python -m line_profiler [-u U] [-z] [-r] [-t] [-m] file *)
| ChExplicitStdout (sc : opts)                        (* GlobalProfiler.show, write_config['stdout'] *)
| ChExplicitText (sc : opts)                          (* ... ['text'] and ['timestamped_text'] (one raw_text) *)
| ChLprun (u : option funit) (s : bool).              (* %lprun [-u U] [-s]: pager, -T file, what -r's profiler prints *)

(* kernprof.py:510  prof.print_stats(output_unit=options.unit, stripzeros=options.skip_zero,
                                     rich=options.rich, stream=original_stdout) *)
Definition kernprof_view_opts (u : option funit) (z r : bool) : opts :=
  Opts (Some (cli_unit u)) z true false false r.

(* line_profiler.py:476  show_text(lstats.timings, lstats.unit, output_unit=args.unit,
       stripzeros=args.skip_zero, rich=args.rich, sort=args.sort, summarize=args.summarize) *)
Definition viewer_opts (u : option funit) (z r t m : bool) : opts :=
  Opts (Some (cli_unit u)) z true m t r.

(* explicit_profiler.py:343  kwargs = self.show_config.copy(); print_stats with those kwargs
   (show_config has no output_unit key) *)
Definition explicit_stdout_opts (sc : opts) : opts :=
  Opts None (o_strip sc) (o_details sc) (o_summarize sc) (o_sort sc) (o_rich sc).
(* explicit_profiler.py:348  text_kwargs['rich'] = 0; text_kwargs['details'] = 1 *)
Definition explicit_text_opts (sc : opts) : opts :=
  Opts None (o_strip sc) true (o_summarize sc) (o_sort sc) false.

(* ipython_extension.py:143  profile.print_stats(stdout_trap, output_unit=output_unit,
                                                 stripzeros="s" in opts) *)
Definition lprun_opts (u : option funit) (s : bool) : opts :=
  Opts u s true false false false.

Definition opts_of (c : channel) : opts :=
  match c with
  | ChLive o => o
  | ChKernprofView u z r => kernprof_view_opts u z r
  | ChViewer u z r t m => viewer_opts u z r t m
  | ChExplicitStdout sc => explicit_stdout_opts sc
  | ChExplicitText sc => explicit_text_opts sc
  | ChLprun u s => lprun_opts u s
  end.

(* GlobalProfiler.__init__: show_config = sort 1, stripzeros 1, rich 1, details 0, summarize 1 *)
Definition default_show_config : opts := Opts None true false true true true.

(* ---- which data a report presents: selection and ordering of show_text ---- *)
Definition total_hits (rs : list row) : Z := fold_right (fun r a => r_hits r + a) 0 rs.
Definition total_time (rs : list row) : Z := fold_right (fun r a => r_time r + a) 0 rs.

Definition key_leb (a b : key) : bool :=
  let '(f1, l1, n1) := a in let '(f2, l2, n2) := b in
  if f1 <? f2 then true else if f2 <? f1 then false
  else if l1 <? l2 then true else if l2 <? l1 then false
  else n1 <=? n2.

(* stable insertion sort = Python's sorted() for a total preorder *)
Section Sort.
  Context {A : Type} (leb : A -> A -> bool).
  Fixpoint insert (x : A) (l : list A) : list A :=
    match l with
    | [] => [x]
    | y :: t => if leb x y then x :: y :: t else y :: insert x t
    end.
  Definition isort (l : list A) : list A := fold_right insert [] l.
End Sort.

Definition entry := (key * list row)%type.
(* sorted(stats.items()): keys are unique, so the key decides *)
Definition entry_leb_key (a b : entry) : bool := key_leb (fst a) (fst b).
(* sorted(stats.items(), key=lambda kv: sum(t[2] for t in kv[1])) *)
Definition entry_leb_time (a b : entry) : bool := total_time (snd a) <=? total_time (snd b).

Definition stats_order (s : snapshot) (o : opts) : list entry :=
  isort (if o_sort o then entry_leb_time else entry_leb_key) (timings s).

(* show_func puts the rows on the source lines, i.e. in ascending line order *)
Definition row_leb (a b : row) : bool := r_line a <=? r_line b.
Definition sort_rows (rs : list row) : list row := isort row_leb rs.

Definition shown_unit (s : snapshot) (o : opts) : funit :=
  match o_unit o with Some u => u | None => s_unit s end.

(* `if stripzeros and total_hits == 0: return`   (show_func) *)
Definition detail_shown (o : opts) (e : entry) : bool :=
  negb (o_strip o && (total_hits (snd e) =? 0)).
(* `if not stripzeros or sum(t[1] for t in timings):`  (show_text summary; since /repo 49eff24 the
   summary hides exactly the functions the details hide: those without hits) *)
Definition summary_shown (o : opts) (e : entry) : bool :=
  negb (o_strip o) || negb (total_hits (snd e) =? 0).

Record report := Report {
  rp_unit : funit;                       (* "Timer unit: %g s" *)
  rp_details : list entry;               (* function blocks, in order, rows by line *)
  rp_summary : list (key * Z) }.         (* "%6.2f seconds - fn:lineno - name", in order, total in timer units *)

Definition data_of (s : snapshot) (o : opts) : report :=
  Report (shown_unit s o)
         (if o_details o
          then map (fun e => (fst e, sort_rows (snd e))) (filter (detail_shown o) (stats_order s o))
          else [])
         (if o_summarize o
          then map (fun e => (fst e, total_time (snd e))) (filter (summary_shown o) (stats_order s o))
          else []).

(* well-formed snapshot: dict keys unique (C12_wellformed gives unique line numbers too) *)
Definition wf (s : snapshot) : Prop := NoDup (map fst (timings s)).

(* ---- the world: profiler state, files, stdout ----------------------------- *)
Section World.
  Variable text : Type.                       (* what a stream receives *)
  Variable render : snapshot -> opts -> text. (* show_text: C10's model, abstract here *)
  Variable bytes : Type.
  Variable dump : snapshot -> bytes.          (* pickle.dump(lstats, f, HIGHEST_PROTOCOL) *)
  Variable load : bytes -> option snapshot.   (* pickle.load *)
  Variable st : Type.                         (* state of the C-level profiler *)
  Variable get_stats : st -> snapshot.        (* pure: C12_snapshot_pure *)

  Inductive content := Txt (t : text) | Pkl (b : bytes).
  Inductive outitem := OutText (t : text) | OutMsg (m : Z) (f : Z).

  Record world := World {
    prof : st;
    fs : list (Z * content);                  (* file id -> content; newest binding first *)
    out : list outitem }.                     (* stdout, newest first *)

  Fixpoint lookup (f : Z) (l : list (Z * content)) : option content :=
    match l with
    | [] => None
    | (g, c) :: t => if g =? f then Some c else lookup f t
    end.

  Definition write_file (f : Z) (c : content) (w : world) : world :=
    World (prof w) ((f, c) :: fs w) (out w).
  Definition say (i : outitem) (w : world) : world :=
    World (prof w) (fs w) (i :: out w).

  (* LineProfiler.print_stats: lstats = self.get_stats(); show_text(lstats.timings, lstats.unit, ...) *)
  Definition print_stats (w : world) (o : opts) : text := render (get_stats (prof w)) o.
  (* LineProfiler.dump_stats: lstats = self.get_stats(); pickle.dump(lstats, f) *)
  Definition dump_stats (f : Z) (w : world) : world :=
    write_file f (Pkl (dump (get_stats (prof w)))) w.
  (* load_stats(filename) *)
  Definition load_stats (w : world) (f : Z) : option snapshot :=
    match lookup f (fs w) with Some (Pkl b) => load b | _ => None end.

  (* message ids *)
  Definition MSG_WROTE : Z := 1.      (* 'Wrote profile results to %s' *)

  (* kernprof.main, finally block (line-by-line profiler):
       prof.dump_stats(options.outfile); print('Wrote ...'); if options.view: prof.print_stats(...) *)
  Definition kernprof_finally (outfile : Z) (view : bool) (u : option funit) (z r : bool) (w : world) : world :=
    let w1 := say (OutMsg MSG_WROTE outfile) (dump_stats outfile w) in
    if view then say (OutText (print_stats w1 (kernprof_view_opts u z r))) w1 else w1.

  (* python -m line_profiler ... file *)
  Definition viewer (file : Z) (u : option funit) (z r t m : bool) (w : world) : option world :=
    match load_stats w file with
    | Some s => Some (say (OutText (render s (viewer_opts u z r t m))) w)
    | None => None
    end.

  (* GlobalProfiler.show *)
  Record write_config := WC { wc_lprof : bool; wc_text : bool; wc_ts : bool; wc_stdout : bool }.
  Definition explicit_show (wc : write_config) (sc : opts) (f_txt f_ts f_lprof : Z) (w : world) : world :=
    let w1 := if wc_stdout wc then say (OutText (print_stats w (explicit_stdout_opts sc))) w else w in
    let raw := print_stats w1 (explicit_text_opts sc) in       (* computed once for both text files *)
    let w2 := if wc_text wc then say (OutMsg MSG_WROTE f_txt) (write_file f_txt (Txt raw) w1) else w1 in
    let w3 := if wc_ts wc then say (OutMsg MSG_WROTE f_ts) (write_file f_ts (Txt raw) w2) else w2 in
    if wc_lprof wc then say (OutMsg MSG_WROTE f_lprof) (dump_stats f_lprof w3) else w3.

  (* ---- histories: profiled execution interleaved with output requests ---- *)
  Inductive step :=
  | Exec (f : st -> st)                                   (* profiled code runs: the state changes *)
  | Print (o : opts)                                      (* live print_stats *)
  | Dump (file : Z)                                       (* dump_stats *)
  | Kernprof (outfile : Z) (view : bool) (u : option funit) (z r : bool)
  | View (file : Z) (u : option funit) (z r t m : bool)
  | Explicit (wc : write_config) (sc : opts) (f_txt f_ts f_lprof : Z).

  Definition do_step (x : step) (w : world) : world :=
    match x with
    | Exec f => World (f (prof w)) (fs w) (out w)
    | Print o => say (OutText (print_stats w o)) w
    | Dump f => dump_stats f w
    | Kernprof f v u z r => kernprof_finally f v u z r w
    | View f u z r t m => match viewer f u z r t m w with Some w' => w' | None => w end
    | Explicit wc sc a b c => explicit_show wc sc a b c w
    end.

  Definition run (xs : list step) (w : world) : world := fold_left (fun w x => do_step x w) xs w.

  Definition is_exec (x : step) : bool := match x with Exec _ => true | _ => false end.

  (* histories in which the files have other writers too: another profiler object of the
     same process, another process, a forked child, a tool that replaces or deletes the
     file.  From this profiler's point of view all of them are foreign writes. *)
  Inductive hstep :=
  | Own (x : step)
  | Foreign (f : Z) (c : content)
  | Delete (f : Z).

  Definition delete_file (f : Z) (w : world) : world :=
    World (prof w) (filter (fun fc => negb (fst fc =? f)) (fs w)) (out w).

  Definition do_hstep (h : hstep) (w : world) : world :=
    match h with
    | Own x => do_step x w
    | Foreign f c => write_file f c w
    | Delete f => delete_file f w
    end.

  Definition hrun (hs : list hstep) (w : world) : world := fold_left (fun w h => do_hstep h w) hs w.

  (* every text visible in a world: stdout and text files *)
  Definition out_texts (w : world) : list text :=
    flat_map (fun i => match i with OutText t => [t] | _ => [] end) (out w).
  Definition file_texts (w : world) : list text :=
    flat_map (fun fc => match snd fc with Txt t => [t] | _ => [] end) (fs w).
  Definition file_pickles (w : world) : list bytes :=
    flat_map (fun fc => match snd fc with Pkl b => [b] | _ => [] end) (fs w).
End World.

Arguments Txt {text bytes} t.
Arguments Pkl {text bytes} b.
Arguments OutText {text} t.
Arguments OutMsg {text} m f.
Arguments World {text bytes st} prof fs out.
Arguments prof {text bytes st} w.
Arguments fs {text bytes st} w.
Arguments out {text bytes st} w.
Arguments Exec {st} f.
Arguments Print {st} o.
Arguments Dump {st} file.
Arguments Kernprof {st} outfile view u z r.
Arguments View {st} file u z r t m.
Arguments Explicit {st} wc sc f_txt f_ts f_lprof.
Arguments Own {text bytes st} x.
Arguments Foreign {text bytes st} f c.
Arguments Delete {text bytes st} f.
