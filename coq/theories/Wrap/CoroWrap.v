(* Wrap/CoroWrap.v - ByCountProfilerMixin.wrap_coroutine as a body-automaton transformer.

       async def wrapper(ARGS):
           self.enable_by_count()
           try:
               result = await func(ARGS)
           finally:
               self.disable_by_count()
           return result

   `await c` on a native coroutine delegates exactly like `yield from` (PEP 380/492):
   send(v) -> c.send(v); throw(e) -> c.throw(e), except that GeneratorExit is not thrown
   into c: c.close() is called and then GeneratorExit (or whatever c.close() raised) is
   raised at the await expression.  Hand model, tied by correspondence only. *)
From Coq Require Import List ZArith Bool Lia.
From LP Require Import Wrap.Protocol.
Import ListNotations.
Open Scope Z_scope.

(* not started, or suspended inside `await c` with c in state g *)
Inductive cstate (S : Type) := CInit | CAwait (g : gstate S).
Arguments CInit {S}.
Arguments CAwait {S} g.

Section Wrap.
  Context {S : Type}.
  Variable b : ebody S.
  Variable kill : S -> list event.
  Variable s0 : S.

  (* the awaited coroutine answered `out`: stay suspended, or leave through `finally`.
     The awaited object is a temporary on the wrapper's evaluation stack: it is released
     (and, if still suspended, finalised) while the stack unwinds, BEFORE the finally block *)
  Definition after_await (ev : list event) (out : outcome) (g' : gstate S) : list event * bstep (cstate S) :=
    match out with
    | OYield x => (ev, BYield x (CAwait g'))
    | OStop v => (ev ++ drop b kill g' ++ [EDisable], BReturn v)         (* result = ...; finally; return result *)
    | ORaise e => (ev ++ drop b kill g' ++ [EDisable], BRaise e)
    | OStopAsync | ONone => (ev ++ drop b kill g' ++ [EDisable], BRaise OtherErr)   (* a coroutine never answers this *)
    end.

  Definition wrap_coro : ebody (cstate S) := fun cs r =>
    match cs, r with
    | CInit, SendV _ =>
        let '(ev, out, g') := gen_op KCoro b s0 GCreated (OpSend vnone) in
        after_await ([EEnable] ++ ev) out g'
    | CInit, ThrowE e => ([], BRaise e)
    | CAwait g, SendV v =>
        let '(ev, out, g') := gen_op KCoro b s0 g (OpSend v) in after_await ev out g'
    | CAwait g, ThrowE e =>
        if e =? GenExit then
          let '(ev, out, g') := gen_op KCoro b s0 g OpClose in
          match out with
          | ORaise e' => (ev ++ drop b kill g' ++ [EDisable], BRaise e')
          | _ => (ev ++ drop b kill g' ++ [EDisable], BRaise GenExit)
          end
        else
          let '(ev, out, g') := gen_op KCoro b s0 g (OpThrow e) in after_await ev out g'
    end.

  (* destroying the wrapper's suspended frame releases the coroutine it awaits *)
  Definition ckill (cs : cstate S) : list event :=
    match cs with CInit => [] | CAwait g => drop b kill g end.
End Wrap.

(* ---- `await x` by itself: a native coroutine `async def outer(): return await f()` ------------- *)
(* the same delegation as in wrap_coroutine without the profiler bracket; the awaited object is a native
   coroutine (ik = KCoro) or a generator marked @types.coroutine (ik = KGen): CPython delegates send / throw /
   close to both in the same way *)
Section Await.
  Context {S : Type}.
  Variable ik : kind.
  Variable b : ebody S.
  Variable kill : S -> list event.
  Variable s0 : S.

  Definition after_plain_await (ev : list event) (out : outcome) (g' : gstate S) : list event * bstep (cstate S) :=
    match out with
    | OYield x => (ev, BYield x (CAwait g'))
    | OStop v => (ev ++ drop b kill g', BReturn v)
    | ORaise e => (ev ++ drop b kill g', BRaise e)
    | OStopAsync | ONone => (ev ++ drop b kill g', BRaise OtherErr)
    end.

  Definition await_of : ebody (cstate S) := fun cs r =>
    match cs, r with
    | CInit, SendV _ =>
        let '(ev, out, g') := gen_op ik b s0 GCreated (OpSend vnone) in after_plain_await ev out g'
    | CInit, ThrowE e => ([], BRaise e)
    | CAwait g, SendV v =>
        let '(ev, out, g') := gen_op ik b s0 g (OpSend v) in after_plain_await ev out g'
    | CAwait g, ThrowE e =>
        if e =? GenExit then
          let '(ev, out, g') := gen_op ik b s0 g OpClose in
          match out with
          | ORaise e' => (ev ++ drop b kill g', BRaise e')
          | _ => (ev ++ drop b kill g', BRaise GenExit)
          end
        else
          let '(ev, out, g') := gen_op ik b s0 g (OpThrow e) in after_plain_await ev out g'
    end.

  Definition akill (cs : cstate S) : list event :=
    match cs with CInit => [] | CAwait g => drop b kill g end.

  (* what a client of the awaiting coroutine sees *)
  Definition awaited_observe (ops : list op) :=
    observe KCoro await_of akill CInit ops.
End Await.

Definition coro_wrapped_observe {S} (b : body S) (s0 : S) (ops : list op) :=
  observe KCoro (wrap_coro (observed b) nokill s0) (ckill (observed b) nokill) CInit ops.
Definition coro_plain_observe {S} (b : body S) (s0 : S) (ops : list op) :=
  observe KCoro (observed b) nokill s0 ops.

(* GeneratorExit is delivered by close(), never by an explicit throw() *)
Definition no_ge_throw (o : op) : bool :=
  match o with OpThrow e => negb (e =? GenExit) | _ => true end.

Inductive csim {S} : gstate S -> gstate (cstate S) -> Prop :=
| csim_created : csim GCreated GCreated
| csim_susp : forall s, csim (GSuspended s) (GSuspended (CAwait (GSuspended s)))
| csim_closed : csim GClosed GClosed.

Section Transparent.
  Context {S : Type}.
  Variable b : body S.
  Variable s0 : S.
  Hypothesis Hclose : honours_close b.

  Let W := wrap_coro (observed b) nokill s0.
  Let WK := ckill (observed b) nokill.

  Ltac fin := cbn; repeat split; try constructor.

  Lemma csim_step : forall p w o,
    no_ge_throw o = true -> csim p w ->
    let '(evp, outp, p') := gen_op KCoro (observed b) s0 p o in
    let '(evw, outw, w') := gen_op KCoro W CInit w o in
    erase evw = evp /\ outw = outp /\ csim p' w'.
  Proof.
    intros p w o Ho H. destruct H as [| s |]; subst W; destruct o as [v | e |];
      unfold gen_op, wrap_coro, after_await, gen_op, observed, settle, settle_close, pep479; cbn [no_ge_throw] in Ho.
    - destruct (v =? vnone) eqn:Ev; [|fin].
      change (vnone =? vnone) with true. cbv iota.
      destruct (b s0 (SendV vnone)) as [y s' | rv | x] eqn:Eb; [fin | fin |].
      destruct (x =? StopIter) eqn:E1; cbn; rewrite ?E1; fin.
    - fin.
    - fin.
    - destruct (b s (SendV v)) as [y s' | rv | x] eqn:Eb; [fin | fin |].
      destruct (x =? StopIter) eqn:E1; cbn; rewrite ?E1; fin.
    - apply negb_true_iff in Ho. rewrite Ho.
      destruct (b s (ThrowE e)) as [y s' | rv | x] eqn:Eb; [fin | fin |].
      destruct (x =? StopIter) eqn:E1; cbn; rewrite ?E1; fin.
    - change (GenExit =? GenExit) with true. cbv iota.
      destruct (b s (ThrowE GenExit)) as [y s' | rv | x] eqn:Eb.
      + exfalso. exact (Hclose _ _ _ Eb).
      + fin.
      + destruct (x =? StopIter) eqn:E1.
        * cbn. fin.
        * destruct (x =? GenExit) eqn:E2; cbn; rewrite ?E1, ?E2; fin.
    - fin.
    - fin.
    - fin.
  Qed.

  Lemma csim_drop : forall p w, csim p w -> erase (drop W WK w) = drop (observed b) nokill p.
  Proof.
    intros p w H. destruct H as [| s |]; try reflexivity.
    subst W WK. unfold drop, wrap_coro, gen_op, observed, settle_close, pep479, nokill.
    change (GenExit =? GenExit) with true. cbv iota.
    destruct (b s (ThrowE GenExit)) as [y s' | rv | x] eqn:Eb.
    - exfalso. exact (Hclose _ _ _ Eb).
    - reflexivity.
    - destruct (x =? StopIter) eqn:E1; [reflexivity|].
      destruct (x =? GenExit) eqn:E2; reflexivity.
  Qed.

  Lemma csim_run : forall ops p w,
    forallb no_ge_throw ops = true -> csim p w ->
    let '(trp, p') := run KCoro (observed b) s0 p ops in
    let '(trw, w') := run KCoro W CInit w ops in
    map (fun x => (erase (fst x), snd x)) trw = trp /\ csim p' w'.
  Proof.
    induction ops as [|o ops IH]; intros p w Hs H; cbn [run].
    - split; [reflexivity | assumption].
    - cbn [forallb] in Hs. apply andb_true_iff in Hs. destruct Hs as [Ho Hs].
      pose proof (csim_step p w o Ho H) as Hstep.
      destruct (gen_op KCoro (observed b) s0 p o) as [[evp outp] p'].
      destruct (gen_op KCoro W CInit w o) as [[evw outw] w'].
      destruct Hstep as (He & Ho' & Hsim).
      specialize (IH p' w' Hs Hsim).
      destruct (run KCoro (observed b) s0 p' ops) as [trp p''].
      destruct (run KCoro W CInit w' ops) as [trw w''].
      destruct IH as [Ht Hsim']. split; [|assumption].
      cbn [map fst snd]. rewrite He, Ho', Ht. reflexivity.
  Qed.

  Theorem wrap_coro_transparent : forall ops,
    forallb no_ge_throw ops = true ->
    erase_obs (coro_wrapped_observe b s0 ops) = coro_plain_observe b s0 ops.
  Proof.
    intros ops Hs. unfold coro_wrapped_observe, coro_plain_observe, observe.
    pose proof (csim_run ops GCreated GCreated Hs csim_created) as H. fold W. fold WK.
    destruct (run KCoro (observed b) s0 GCreated ops) as [trp p'].
    destruct (run KCoro W CInit GCreated ops) as [trw w'].
    destruct H as [Ht Hsim]. unfold erase_obs; cbn [fst snd].
    rewrite Ht, (csim_drop _ _ Hsim). reflexivity.
  Qed.
End Transparent.

(* ---- the two hypotheses are needed: they are the limits of `await` itself ----------- *)

(* `await s(1)` ; on GeneratorExit swallow it and await again (violates the close contract) *)
Definition cwit_stubborn : body Z := fun s r =>
  if s =? 0 then BYield 1 1
  else match r with
       | ThrowE e => if e =? GenExit then BYield 2 2 else BRaise e
       | SendV v => BYield (10 + v) s
       end.

(* `try: await s(1)  except GeneratorExit: return 3` *)
Definition cwit_ge_return : body Z := fun s r =>
  match r with
  | ThrowE e => if e =? GenExit then BReturn 3 else BRaise e
  | SendV v => if s =? 0 then BYield 1 1 else BReturn v
  end.

Lemma hyp_close_needed :
  erase_obs (coro_wrapped_observe cwit_stubborn 0 [OpNext; OpClose; OpSend 4])
  <> coro_plain_observe cwit_stubborn 0 [OpNext; OpClose; OpSend 4].
Proof. vm_compute. discriminate. Qed.

Lemma hyp_no_ge_throw_needed :
  honours_close cwit_ge_return
  /\ erase_obs (coro_wrapped_observe cwit_ge_return 0 [OpNext; OpThrow GenExit])
     <> coro_plain_observe cwit_ge_return 0 [OpNext; OpThrow GenExit].
Proof.
  split.
  - intros s v s'. unfold cwit_ge_return. cbn. discriminate.
  - vm_compute. discriminate.
Qed.

(* a non-trivial history satisfying the hypotheses: awaits, a value sent in, an exception
   thrown in and handled, close *)
Definition cwit_ok : body Z := fun s r =>
  match r with
  | SendV v => if s <? 2 then BYield (10 + v) (s + 1) else BReturn (20 + v)
  | ThrowE e => if e =? ValueErr then BYield 5 s else BRaise e
  end.

Lemma cwit_ok_honours_close : honours_close cwit_ok.
Proof. intros s v s'. unfold cwit_ok. cbn. discriminate. Qed.

Lemma coro_nonvacuous :
  honours_close cwit_ok
  /\ forallb no_ge_throw [OpNext; OpSend 2; OpThrow ValueErr; OpSend 3] = true
  /\ coro_plain_observe cwit_ok 0 [OpNext; OpSend 2; OpThrow ValueErr; OpSend 3]
     = ([([EIn (SendV 0)], OYield 10); ([EIn (SendV 2)], OYield 12);
         ([EIn (ThrowE ValueErr)], OYield 5); ([EIn (SendV 3)], OStop 23)], [])
  /\ coro_wrapped_observe cwit_ok 0 [OpNext; OpSend 2; OpClose]
     = ([([EEnable; EIn (SendV 0)], OYield 10); ([EIn (SendV 2)], OYield 12);
         ([EIn (ThrowE GenExit); EDisable], ONone)], []).
Proof.
  split; [exact cwit_ok_honours_close|]. repeat split; vm_compute; reflexivity.
Qed.
