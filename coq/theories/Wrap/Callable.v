(* C16 - decorating any supported callable really profiles its code: the model.

   `wrap`     - ByCountProfilerMixin.wrap_callable for one profiler (hand model; the
                dispatch chain and the rebuilt attributes are tied to Gen/Dispatch.v by
                `dispatch_table` / `impl_attrs_table` in CallableProofs.v)
   `leaves`   - line_profiler._get_underlying_functions (proved equal to the translated
                function for every term, CallableProofs.underlying_ok)
   `register` - LineProfiler.add_callable: the function ids handed to add_function
   `invoke`   - which underlying functions run, and at which enable depth, when the
                object is used through an access path from a caller at depth d. *)
From LP Require Import Prelude.Py Wrap.CallableBase Gen.Dispatch.

Definition omap (f : callable -> callable) (o : option callable) : option callable :=
  match o with Some x => Some (f x) | None => None end.

Fixpoint wrap (c : callable) : callable :=
  match c with
  | Fn k f => Wrapped k f           (* wrap_function / _generator / _coroutine / _async_generator + marker *)
  | Wrapped k f => Wrapped k f      (* already wrapped by this profiler: returned as is *)
  | ClassM x => ClassM (wrap x)
  | StaticM x => StaticM (wrap x)
  | Bound x => Bound (wrap x)
  | Partial x => Partial (wrap x)
  | PartialM x => PartialM (wrap x)
  | PropOf g s d =>
      PropOf (match g with Some x => Some (wrap x) | None => None end)
           (match s with Some x => Some (wrap x) | None => None end)
           (match d with Some x => Some (wrap x) | None => None end)
  | CachedProp x => CachedProp (wrap x)
  end.

Fixpoint leaves (c : callable) : list callable :=
  match c with
  | Fn _ _ | Wrapped _ _ => [c]
  | ClassM x | StaticM x | Bound x | Partial x | PartialM x | CachedProp x => leaves x
  | PropOf g s d =>
      (match g with Some x => leaves x | None => [] end)
      ++ (match s with Some x => leaves x | None => [] end)
      ++ (match d with Some x => leaves x | None => [] end)
  end.

Fixpoint height (c : callable) : nat :=
  match c with
  | Fn _ _ | Wrapped _ _ => 1
  | ClassM x | StaticM x | Bound x | Partial x | PartialM x | CachedProp x => S (height x)
  | PropOf g s d =>
      S (Nat.max (match g with Some x => height x | None => 0 end)
           (Nat.max (match s with Some x => height x | None => 0 end)
                    (match d with Some x => height x | None => 0 end)))
  end.

(* add_callable: leaves carrying this profiler's marker are skipped *)
Definition new_id (l : callable) : list Z := match l with Fn _ f => [f] | _ => [] end.
Definition known_id (l : callable) : list Z := match l with Wrapped _ f => [f] | _ => [] end.
Definition register (c : callable) : list Z := flat_map new_id (leaves c).
Definition fresh_ids (c : callable) : list Z := flat_map new_id (leaves c).
Definition wrapped_ids (c : callable) : list Z := flat_map known_id (leaves c).
Definition leaf_id (l : callable) : list Z := match l with Fn _ f | Wrapped _ f => [f] | _ => [] end.
Definition leaf_ids (c : callable) : list Z := flat_map leaf_id (leaves c).

(* profiler(obj): (registered function ids, object) -> (registered ids, returned object) *)
Definition decorate (st : list Z * callable) : list Z * callable :=
  (fst st ++ register (snd st), wrap (snd st)).

Inductive access :=
| ACall        (* call it / call the attribute looked up on the class or an instance *)
| AGet | ASet | ADel   (* property access through an instance *)
| ACachedGet.  (* second read of a cached_property on the same instance *)

(* (function id, enable depth while its body runs) *)
Fixpoint invoke (d : Z) (a : access) (c : callable) : list (Z * Z) :=
  match c with
  | Fn _ f => [(f, d)]
  | Wrapped _ f => [(f, d + 1)]      (* enable_by_count(); try: body finally: disable_by_count() *)
  | ClassM x | StaticM x | Bound x | Partial x | PartialM x => invoke d a x
  | CachedProp x => match a with ACachedGet => [] | _ => invoke d ACall x end
  | PropOf g s d' =>
      match a with
      | AGet => match g with Some x => invoke d ACall x | None => [] end
      | ASet => match s with Some x => invoke d ACall x | None => [] end
      | ADel => match d' with Some x => invoke d ACall x | None => [] end
      | _ => []
      end
  end.

(* ---- serialisation for the correspondence shards ---------------------------------- *)
Definition kcode (k : fkind) : Z := match k with KPlain => 0 | KGen => 1 | KCoro => 2 | KAsyncGen => 3 end.
Fixpoint encode (c : callable) : list Z :=
  match c with
  | Fn k f => [1; kcode k; f]
  | Wrapped k f => [2; kcode k; f]
  | ClassM x => 3 :: encode x
  | StaticM x => 4 :: encode x
  | Bound x => 5 :: encode x
  | Partial x => 6 :: encode x
  | PartialM x => 7 :: encode x
  | PropOf g s d =>
      8 :: (match g with Some x => encode x | None => [0] end)
        ++ (match s with Some x => encode x | None => [0] end)
        ++ (match d with Some x => encode x | None => [0] end)
  | CachedProp x => 9 :: encode x
  end.

Definition enc_runs (r : list (Z * Z)) : list Z := flat_map (fun fe => [fst fe; snd fe]) r ++ [-2].
Definition runs_of (plan : list (access * Z)) (c : callable) : list Z :=
  flat_map (fun ad => enc_runs (invoke (snd ad) (fst ad) c)) plan.
Definition count_z (x : Z) (l : list Z) : Z := Z.of_nat (length (filter (Z.eqb x) l)).
Definition ran_ids (plan : list (access * Z)) (c : callable) : list Z :=
  flat_map (fun ad => map fst (invoke (snd ad) (fst ad) c)) plan.

(* what the model predicts for one correspondence case *)
Record c16_obs := mk_obs {
  o_funcs1 : list Z;   (* profiler.functions (as leaf ids) after the first decoration *)
  o_shape1 : list Z;   (* structure of the returned object *)
  o_funcs2 : list Z;   (* ... after decorating the returned object again *)
  o_shape2 : list Z;
  o_orig : list Z;     (* runs when the undecorated object is used *)
  o_runs1 : list Z;    (* runs through the decorated object *)
  o_runs2 : list Z;    (* runs through the twice-decorated object *)
  o_execs : list Z     (* executions, after decoration, of the first and the clean-up line of every leaf function *)
}.

Definition model_obs (c : callable) (regs : list Z) (plan : list (access * Z)) : c16_obs :=
  let st1 := decorate (regs, c) in
  let st2 := decorate st1 in
  mk_obs (fst st1) (encode (snd st1)) (fst st2) (encode (snd st2))
         (runs_of plan c) (runs_of plan (snd st1)) (runs_of plan (snd st2))
         (flat_map (fun f => let n := count_z f (ran_ids plan (snd st1) ++ ran_ids plan (snd st2)) in [n; n])
                   (leaf_ids c)).

Definition lz_eqb := list_eqb Z.eqb.
Definition obs_eqb (a b : c16_obs) : bool :=
  lz_eqb (o_funcs1 a) (o_funcs1 b) && lz_eqb (o_shape1 a) (o_shape1 b)
  && lz_eqb (o_funcs2 a) (o_funcs2 b) && lz_eqb (o_shape2 a) (o_shape2 b)
  && lz_eqb (o_orig a) (o_orig b) && lz_eqb (o_runs1 a) (o_runs1 b) && lz_eqb (o_runs2 a) (o_runs2 b)
  && lz_eqb (o_execs a) (o_execs b).

(* ---- the property evaluated on observed data only ------------------------------------ *)
(* runs are encoded f e f e ... -2 f e ... -2 *)
Fixpoint run_ids (l : list Z) : list Z :=
  match l with
  | [] => []
  | x :: r => if x =? -2 then x :: run_ids r
              else match r with [] => [x] | _ :: r' => x :: run_ids r' end
  end.
Fixpoint run_depths_ok (l : list Z) : bool :=
  match l with
  | [] => true
  | x :: r => if x =? -2 then run_depths_ok r
              else match r with [] => false | e :: r' => (1 <=? e) && run_depths_ok r' end
  end.

Definition spec_ok (o : c16_obs) (hits execs_all : list Z) : bool :=
  (* every function executed through the decorated object ran with the profiler enabled *)
  run_depths_ok (o_runs1 o) && run_depths_ok (o_runs2 o)
  (* ... the same functions as without decoration *)
  && lz_eqb (run_ids (o_runs1 o)) (run_ids (o_orig o))
  (* its lines - first line, the middle line (from which the exception is raised in raising runs), the
     clean-up line, the line of the first suspension - are in the statistics with the exact number of
     executions the driver counted *)
  && lz_eqb hits execs_all
  (* each executed function is registered exactly once *)
  && forallb (fun f => (f =? -2) || (count_z f (o_funcs1 o) =? 1)) (run_ids (o_runs1 o))
  (* decorating again: no new registration, no new layer, same depth *)
  && lz_eqb (o_funcs2 o) (o_funcs1 o) && lz_eqb (o_shape2 o) (o_shape1 o) && lz_eqb (o_runs2 o) (o_runs1 o).

Definition case_ok (c : callable) (regs : list Z) (plan : list (access * Z)) (impl : c16_obs)
           (hits execs_all : list Z) : bool * bool :=
  (obs_eqb (model_obs c regs plan) impl, spec_ok impl hits execs_all).

(* ---- several objects decorated in a row (the originals are temporaries) ---------------- *)
Fixpoint decorate_all (regs : list Z) (cs : list callable) : list Z * list callable :=
  match cs with
  | [] => (regs, [])
  | c :: r => let st := decorate (regs, c) in
              let '(rf, ws) := decorate_all (fst st) r in (rf, snd st :: ws)
  end.

Definition execs_of (ran : list Z) (c : callable) : list Z :=
  flat_map (fun f => let n := count_z f ran in [n; n]) (leaf_ids c).

(* siblings: decorated one after the other before the case's own object, each result then used
   once through access a from depth 0.  Returns (model agrees, property holds on the observation):
   the property part says every returned object runs - under the profiler - exactly the functions
   of the object it was made from (Python's own semantics of that object, `invoke` on the original),
   each registered once, with exact hit counts. *)
Definition sibs_ok (a : access) (sibs : list callable) (impl_regs : list Z)
           (impl_shapes impl_runs : list (list Z)) (impl_execs impl_hits impl_execs_all : list Z) : bool * bool :=
  let '(rf, ws) := decorate_all [] sibs in
  let ran := flat_map (fun w => map fst (invoke 0 a w)) ws in
  (lz_eqb rf impl_regs
   && list_eqb lz_eqb (map encode ws) impl_shapes
   && list_eqb lz_eqb (map (fun w => enc_runs (invoke 0 a w)) ws) impl_runs
   && lz_eqb (flat_map (execs_of ran) sibs) impl_execs,
   forallb run_depths_ok impl_runs
   && list_eqb lz_eqb (map run_ids impl_runs) (map (fun s => map fst (invoke 0 a s) ++ [-2]) sibs)
   && forallb (fun r => forallb (fun f => (f =? -2) || (count_z f impl_regs =? 1)) (run_ids r)) impl_runs
   && lz_eqb impl_hits impl_execs_all).

Definition both (x y : bool * bool) : bool * bool := (fst x && fst y, snd x && snd y).
