(* C16 - proofs by structural induction over the algebra of callables (any nesting depth). *)
From LP Require Import Prelude.Py Wrap.CallableBase Gen.Dispatch Wrap.Callable.

(* induction principle that goes through the optional accessors of a property *)
Section CallableInd.
  Variable P : callable -> Prop.
  Definition oP (o : option callable) : Prop := match o with Some x => P x | None => True end.
  Hypothesis HFn : forall k f, P (Fn k f).
  Hypothesis HWr : forall k f, P (Wrapped k f).
  Hypothesis HCm : forall x, P x -> P (ClassM x).
  Hypothesis HSm : forall x, P x -> P (StaticM x).
  Hypothesis HBd : forall x, P x -> P (Bound x).
  Hypothesis HPt : forall x, P x -> P (Partial x).
  Hypothesis HPm : forall x, P x -> P (PartialM x).
  Hypothesis HPr : forall g s d, oP g -> oP s -> oP d -> P (PropOf g s d).
  Hypothesis HCp : forall x, P x -> P (CachedProp x).
  Fixpoint callable_ind' (c : callable) : P c :=
    match c with
    | Fn k f => HFn k f
    | Wrapped k f => HWr k f
    | ClassM x => HCm x (callable_ind' x)
    | StaticM x => HSm x (callable_ind' x)
    | Bound x => HBd x (callable_ind' x)
    | Partial x => HPt x (callable_ind' x)
    | PartialM x => HPm x (callable_ind' x)
    | PropOf g s d =>
        HPr g s d
          (match g return oP g with Some x => callable_ind' x | None => I end)
          (match s return oP s with Some x => callable_ind' x | None => I end)
          (match d return oP d with Some x => callable_ind' x | None => I end)
    | CachedProp x => HCp x (callable_ind' x)
    end.
End CallableInd.

Ltac cind c := induction c as [k f|k f|x IH|x IH|x IH|x IH|x IH|g s d' IHg IHs IHd|x IH] using callable_ind'.
Ltac opts := repeat match goal with
  | o : option callable |- _ => destruct o
  end; cbn [oP] in *; cbn beta in *.

(* ---- the dispatch chain of wrap_callable (translated) ---------------------------- *)
Definition expected_wkind (c : callable) : wkind :=
  match c with
  | ClassM _ => WClassmethod | StaticM _ => WStaticmethod | Bound _ => WBoundmethod
  | PartialM _ => WPartialmethod | Partial _ => WPartial | PropOf _ _ _ => WProperty
  | CachedProp _ => WCachedProperty
  | Fn KAsyncGen _ | Wrapped KAsyncGen _ => WAsyncGenerator
  | Fn KCoro _ | Wrapped KCoro _ => WCoroutine
  | Fn KGen _ | Wrapped KGen _ => WGenerator
  | Fn KPlain _ | Wrapped KPlain _ => WFunction
  end.

Theorem dispatch_table c : wrap_callable c = Ok (expected_wkind c).
Proof. destruct c as [[]|[]| | | | | | |]; reflexivity. Qed.

(* the attributes each wrapper-object method wraps and rebuilds are the ones `wrap` recurses into *)
Theorem impl_attrs_table :
  wrapper_impl_attrs WClassmethod = ["__func__"] /\ wrapper_impl_attrs WStaticmethod = ["__func__"]
  /\ wrapper_impl_attrs WBoundmethod = ["__func__"] /\ wrapper_impl_attrs WPartialmethod = ["func"]
  /\ wrapper_impl_attrs WPartial = ["func"] /\ wrapper_impl_attrs WProperty = ["fget"; "fset"; "fdel"]
  /\ wrapper_impl_attrs WCachedProperty = ["func"]
  /\ leaf_wrappers_guarded = true /\ add_callable_skips_marked = true.
Proof. repeat split. Qed.

(* ---- _get_underlying_functions (translated) computes `leaves` ---------------------- *)
Theorem underlying_ok c : forall fuel, (height c <= fuel)%nat -> get_underlying_functions fuel c = Ok (leaves c).
Proof.
  cind c; intros fuel H; cbn [height] in H; (destruct fuel as [|fuel]; [lia|]); cbn [get_underlying_functions];
    cbn [is_boundmethod is_classmethod is_staticmethod is_partial is_partialmethod is_cached_property is_property
         py_callable is_function orb negb attr___func__ attr_func attr_fget attr_fset attr_fdel leaves].
  - reflexivity.
  - reflexivity.
  - rewrite IH by lia. reflexivity.
  - rewrite IH by lia. reflexivity.
  - rewrite IH by lia. reflexivity.
  - rewrite IH by lia. reflexivity.
  - rewrite IH by lia. reflexivity.
  - destruct g as [g|], s as [s|], d' as [d'|]; cbn [oP] in *;
      repeat match goal with
      | IHx : forall fuel, (height ?x <= fuel)%nat -> _ |- context [get_underlying_functions fuel ?x] =>
          rewrite (IHx fuel) by lia
      end; cbn [app]; rewrite ?app_nil_r, <- ?app_assoc; reflexivity.
  - rewrite IH by lia. reflexivity.
Qed.

Corollary underlying_never_fails c : exists fuel, get_underlying_functions fuel c = Ok (leaves c).
Proof. exists (height c). apply underlying_ok. lia. Qed.

(* ---- wrap ----------------------------------------------------------------------------- *)
Theorem wrap_idempotent c : wrap (wrap c) = wrap c.
Proof. cind c; cbn [wrap]; try rewrite IH; try reflexivity. opts; cbn [wrap]; rewrite ?IHg, ?IHs, ?IHd; reflexivity. Qed.

Lemma leaves_wrap c : leaves (wrap c) = map wrap (leaves c).
Proof.
  cind c; cbn [wrap leaves map]; try exact IH; try reflexivity.
  opts; cbn [app map]; rewrite ?map_app, ?app_nil_r, ?IHg, ?IHs, ?IHd; reflexivity.
Qed.

Lemma leaves_are_leaves c : forall l, In l (leaves c) -> (exists k f, l = Fn k f) \/ (exists k f, l = Wrapped k f).
Proof.
  cind c; cbn [leaves]; intros l H; try (apply IH; exact H).
  - destruct H as [H|[]]. left. eauto.
  - destruct H as [H|[]]. right. eauto.
  - opts; repeat (apply in_app_or in H; destruct H as [H|H]); auto; try contradiction.
Qed.

(* decorating the returned object again registers nothing *)
Theorem register_wrap c : register (wrap c) = [].
Proof.
  unfold register. rewrite leaves_wrap.
  assert (G : forall l, In l (leaves c) -> new_id (wrap l) = []).
  { intros l H. destruct (leaves_are_leaves c l H) as [(k & f & ->)|(k & f & ->)]; reflexivity. }
  induction (leaves c) as [|l ls IH]; [reflexivity|].
  cbn [map flat_map]. rewrite G by (left; reflexivity). rewrite IH; [reflexivity|].
  intros l' H'. apply G. right. exact H'.
Qed.

Theorem decorate_idempotent regs c : decorate (decorate (regs, c)) = decorate (regs, c).
Proof. unfold decorate. cbn [fst snd]. rewrite register_wrap, wrap_idempotent, app_nil_r. reflexivity. Qed.

(* ---- invoke ------------------------------------------------------------------------------ *)
(* through the decorated object every underlying function runs exactly one enable level above
   the caller - so with the profiler enabled, and not twice *)
Theorem runs_one_level_up c : forall d a f e, In (f, e) (invoke d a (wrap c)) -> e = d + 1.
Proof.
  cind c; intros d a f0 e H; cbn [wrap invoke] in H; try (eapply IH; exact H).
  - destruct H as [H|[]]. inversion H. reflexivity.
  - destruct H as [H|[]]. inversion H. reflexivity.
  - destruct a; opts; try contradiction; eauto.
  - destruct a; try contradiction; eapply IH; exact H.
Qed.

(* ... and the functions that run are the ones the undecorated object runs *)
Theorem same_functions_run c : forall d a, map fst (invoke d a (wrap c)) = map fst (invoke d a c).
Proof.
  cind c; intros d a; cbn [wrap invoke]; try apply IH; try reflexivity.
  - destruct a; opts; auto.
  - destruct a; auto.
Qed.

Theorem invoke_wrap_twice c d a : invoke d a (wrap (wrap c)) = invoke d a (wrap c).
Proof. rewrite wrap_idempotent. reflexivity. Qed.

Theorem no_second_layer c :
  wrap (wrap c) = wrap c /\ register (wrap c) = []
  /\ forall d a, invoke d a (wrap (wrap c)) = invoke d a (wrap c).
Proof. exact (conj (wrap_idempotent c) (conj (register_wrap c) (invoke_wrap_twice c))). Qed.

(* whatever runs is a leaf *)
Lemma invoke_in_leaves c : forall d a f e, In (f, e) (invoke d a c) -> In f (leaf_ids c).
Proof.
  unfold leaf_ids.
  cind c; intros d a f0 e H; cbn [invoke leaves] in *; try (eapply IH; exact H).
  - destruct H as [H|[]]. inversion H. left. reflexivity.
  - destruct H as [H|[]]. inversion H. left. reflexivity.
  - rewrite !flat_map_app.
    destruct a; opts; try contradiction; cbn [flat_map app] in *; rewrite ?app_nil_r;
      repeat (apply in_or_app; try (left; eapply IHg; exact H); try (left; eapply IHs; exact H);
              try (left; eapply IHd; exact H); right); eauto.
  - destruct a; try contradiction; eapply IH; exact H.
Qed.

Lemma leaf_ids_wrap c : leaf_ids (wrap c) = leaf_ids c.
Proof.
  unfold leaf_ids. rewrite leaves_wrap.
  assert (G : forall l, In l (leaves c) -> leaf_id (wrap l) = leaf_id l).
  { intros l H. destruct (leaves_are_leaves c l H) as [(k & f & ->)|(k & f & ->)]; reflexivity. }
  induction (leaves c) as [|l ls IH]; [reflexivity|].
  cbn [map flat_map]. rewrite G by (left; reflexivity). rewrite IH; [reflexivity|].
  intros l' H'. apply G. right. exact H'.
Qed.

Lemma leaf_ids_split c : forall f, In f (leaf_ids c) <-> In f (fresh_ids c) \/ In f (wrapped_ids c).
Proof.
  intros f. unfold leaf_ids, fresh_ids, wrapped_ids.
  assert (G : forall l, In l (leaves c) -> (exists k f, l = Fn k f) \/ (exists k f, l = Wrapped k f))
    by apply leaves_are_leaves.
  induction (leaves c) as [|l ls IH]; cbn [flat_map]; [tauto|].
  rewrite !in_app_iff. rewrite IH by (intros; apply G; right; assumption).
  destruct (G l (or_introl eq_refl)) as [(k & g & ->)|(k & g & ->)]; cbn [leaf_id new_id known_id In]; tauto.
Qed.

(* every function executed through the decorated object is registered, exactly once *)
Theorem registered_exactly_once c regs :
  NoDup regs -> NoDup (fresh_ids c) ->
  (forall f, In f (fresh_ids c) -> ~ In f regs) ->      (* not decorated before *)
  (forall f, In f (wrapped_ids c) -> In f regs) ->      (* wrappers made by this profiler were registered then *)
  NoDup (fst (decorate (regs, c)))
  /\ forall d a f e, In (f, e) (invoke d a (snd (decorate (regs, c)))) -> In f (fst (decorate (regs, c))).
Proof.
  intros Hr Hf Hfresh Hw. unfold decorate. cbn [fst snd]. split.
  - unfold register. fold (fresh_ids c).
    clear Hw. induction regs as [|r regs IH]; cbn [app]; [exact Hf|].
    inversion Hr as [|? ? Hn Hr']. subst. constructor.
    + rewrite in_app_iff. intros [H|H]; [exact (Hn H)|]. apply (Hfresh r H). left. reflexivity.
    + apply IH; [exact Hr'|]. intros f H1 H2. apply (Hfresh f H1). right. exact H2.
  - intros d a f e H. apply invoke_in_leaves in H. rewrite leaf_ids_wrap in H.
    apply leaf_ids_split in H. rewrite in_app_iff. destruct H as [H|H].
    + right. exact H.
    + left. apply Hw. exact H.
Qed.

(* decorating several objects in a row: what each one becomes does not depend on the others,
   and the registrations simply accumulate (no cross-talk between decorations) *)
Theorem decorate_all_independent cs : forall regs,
  decorate_all regs cs = (regs ++ flat_map register cs, map wrap cs).
Proof.
  induction cs as [|c cs IH]; intros regs; cbn [decorate_all flat_map map].
  - rewrite app_nil_r. reflexivity.
  - unfold decorate at 1. cbn [fst snd]. rewrite IH. rewrite app_assoc. reflexivity.
Qed.

Theorem each_result_runs_its_own_functions cs regs n c d a :
  nth_error cs n = Some c ->
  exists w, nth_error (snd (decorate_all regs cs)) n = Some w
            /\ map fst (invoke d a w) = map fst (invoke d a c)
            /\ forall f e, In (f, e) (invoke d a w) -> e = d + 1.
Proof.
  intros H. rewrite decorate_all_independent. cbn [snd]. exists (wrap c). split.
  - rewrite nth_error_map, H. reflexivity.
  - split; [apply same_functions_run|]. intros f e. apply runs_one_level_up.
Qed.

(* the same function object used twice inside one object IS handed to add_function twice
   (the marker lives on the wrapper, not on the function) *)
Theorem shared_function_registered_twice :
  register (PropOf (Some (Fn KPlain 1)) (Some (Fn KPlain 1)) None) = [1; 1].
Proof. reflexivity. Qed.

(* non-vacuity: a depth-5 composition with an already-profiled part *)
Definition ex_callable : callable :=
  ClassM (Partial (Bound (Partial (Fn KGen 7)))).
Definition ex_prop : callable :=
  PropOf (Some (Partial (Wrapped KPlain 3))) (Some (Fn KCoro 4)) None.
Theorem c16_nonvacuous :
  decorate ([3], ex_prop) = ([3; 4], PropOf (Some (Partial (Wrapped KPlain 3))) (Some (Wrapped KCoro 4)) None)
  /\ invoke 0 ASet (snd (decorate ([3], ex_prop))) = [(4, 1)]
  /\ invoke 0 AGet (snd (decorate ([3], ex_prop))) = [(3, 1)]
  /\ invoke 0 ASet ex_prop = [(4, 0)]
  /\ NoDup [3] /\ NoDup (fresh_ids ex_prop)
  /\ (forall f, In f (fresh_ids ex_prop) -> ~ In f [3]) /\ (forall f, In f (wrapped_ids ex_prop) -> In f [3])
  /\ invoke 0 ACall (wrap ex_callable) = [(7, 1)]
  /\ get_underlying_functions 6 ex_callable = Ok [Fn KGen 7].
Proof.
  repeat split; try reflexivity.
  - repeat constructor; cbn; tauto.
  - repeat constructor; cbn; tauto.
  - cbn. intros f [H|[]] [G|[]]. lia.
  - cbn. intros f [H|[]]. left. exact H.
Qed.
