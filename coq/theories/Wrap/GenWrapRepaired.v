(* Wrap/GenWrapRepaired.v - a repair sketch for wrap_generator / wrap_async_generator and the
   proof that it restores the property.  This is NOT what /repo contains; it documents that
   the defects refuted in Wrap/GenWrap.v have a small fix:

       def wrapper(ARGS):
           g = func(ARGS)
           input_ = None
           exc = None
           while True:
               self.enable_by_count()
               try:
                   item = g.send(input_) if exc is None else g.throw(exc)
               except StopIteration as e:
                   return e.value                   # was: return
               finally:
                   self.disable_by_count()
               try:
                   input_ = (yield item)
                   exc = None
               except BaseException as e:           # was: not handled (incl. GeneratorExit from close())
                   exc = e

   (async version: asend / athrow, `except StopAsyncIteration: return`.) *)
From Coq Require Import List ZArith Bool Lia.
From LP Require Import Wrap.Protocol Wrap.GenWrap Wrap.CoroWrap.
Import ListNotations.
Open Scope Z_scope.

Section Repaired.
  Context {S : Type}.
  Variable k : kind.
  Variable b : ebody S.
  Variable kill : S -> list event.
  Variable s0 : S.

  Definition fixed_loop (g : gstate S) (o : op) : list event * bstep (wstate S) :=
    let '(ev, out, g') := gen_op k b s0 g o in
    match out with
    | OYield item => ([EEnable] ++ ev ++ [EDisable], BYield item (WAt g'))
    | OStop v => ([EEnable] ++ ev ++ [EDisable] ++ drop b kill g', BReturn v)
    | OStopAsync => ([EEnable] ++ ev ++ [EDisable] ++ drop b kill g', BReturn vnone)
    | ORaise e => ([EEnable] ++ ev ++ [EDisable] ++ drop b kill g', BRaise e)
    | ONone => ([EEnable] ++ ev ++ [EDisable] ++ drop b kill g', BRaise OtherErr)
    end.

  Definition wrap_gen_fixed : ebody (wstate S) := fun ws r =>
    match ws, r with
    | WInit, SendV _ => fixed_loop GCreated (OpSend vnone)
    | WInit, ThrowE e => ([], BRaise e)
    | WAt g, SendV v => fixed_loop g (OpSend v)
    | WAt g, ThrowE e => fixed_loop g (OpThrow e)
    end.
End Repaired.

Definition repaired_observe {S} (k : kind) (b : body S) (s0 : S) (ops : list op) :=
  observe k (wrap_gen_fixed k (observed b) nokill s0) (wkill (observed b) nokill) WInit ops.

Section RepairedProof.
  Context {S : Type}.
  Variable k : kind.
  Variable b : body S.
  Variable s0 : S.
  Hypothesis k_not_coro : k <> KCoro.
  Hypothesis Hclose : honours_close b.

  Let W := wrap_gen_fixed k (observed b) nokill s0.
  Let WK := wkill (observed b) nokill.

  Ltac fin := cbn; repeat split; try constructor.
  Ltac rw := repeat match goal with H : (_ =? _) = _ |- _ => rewrite H end.
  Ltac raise_case x :=
    destruct (x =? StopIter) eqn:?; try destruct (x =? StopAsyncIter) eqn:?;
    try destruct (x =? GenExit) eqn:?; cbn; rw; cbn; rw; fin.

  Lemma fsim_step : forall p w o,
    sim p w ->
    let '(evp, outp, p') := gen_op k (observed b) s0 p o in
    let '(evw, outw, w') := gen_op k W WInit w o in
    erase evw = evp /\ outw = outp /\ sim p' w'.
  Proof.
    intros p w o H. destruct H as [| s |]; subst W; destruct o as [v | e |];
      unfold gen_op, wrap_gen_fixed, fixed_loop, gen_op, observed, settle, settle_close, pep479.
    - destruct (v =? vnone) eqn:Ev; [|fin].
      change (vnone =? vnone) with true. cbv iota.
      destruct (b s0 (SendV vnone)) as [y s' | rv | x] eqn:Eb.
      + fin.
      + destruct k; try congruence; fin.
      + destruct k; try congruence; raise_case x.
    - fin.
    - fin.
    - destruct (b s (SendV v)) as [y s' | rv | x] eqn:Eb.
      + fin.
      + destruct k; try congruence; fin.
      + destruct k; try congruence; raise_case x.
    - destruct (b s (ThrowE e)) as [y s' | rv | x] eqn:Eb.
      + fin.
      + destruct k; try congruence; fin.
      + destruct k; try congruence; raise_case x.
    - destruct (b s (ThrowE GenExit)) as [y s' | rv | x] eqn:Eb.
      + exfalso. exact (Hclose _ _ _ Eb).
      + destruct k; try congruence; fin.
      + destruct k; try congruence; raise_case x.
    - fin.
    - fin.
    - fin.
  Qed.

  Lemma fsim_drop : forall p w, sim p w -> erase (drop W WK w) = drop (observed b) nokill p.
  Proof.
    intros p w H. destruct H as [| s |]; try reflexivity.
    subst W WK. unfold drop, wrap_gen_fixed, fixed_loop, gen_op, observed, settle, pep479, nokill.
    destruct (b s (ThrowE GenExit)) as [y s' | rv | x] eqn:Eb.
    - exfalso. exact (Hclose _ _ _ Eb).
    - destruct k; reflexivity.
    - destruct k; destruct (x =? StopIter); try destruct (x =? StopAsyncIter); reflexivity.
  Qed.

  Lemma fsim_run : forall ops p w,
    sim p w ->
    let '(trp, p') := run k (observed b) s0 p ops in
    let '(trw, w') := run k W WInit w ops in
    map (fun x => (erase (fst x), snd x)) trw = trp /\ sim p' w'.
  Proof.
    induction ops as [|o ops IH]; intros p w H; cbn [run].
    - split; [reflexivity | assumption].
    - pose proof (fsim_step p w o H) as Hstep.
      destruct (gen_op k (observed b) s0 p o) as [[evp outp] p'].
      destruct (gen_op k W WInit w o) as [[evw outw] w'].
      destruct Hstep as (He & Ho' & Hsim).
      specialize (IH p' w' Hsim).
      destruct (run k (observed b) s0 p' ops) as [trp p''].
      destruct (run k W WInit w' ops) as [trw w''].
      destruct IH as [Ht Hsim']. split; [|assumption].
      cbn [map fst snd]. rewrite He, Ho', Ht. reflexivity.
  Qed.

  Theorem wrap_gen_fixed_transparent : forall ops,
    erase_obs (repaired_observe k b s0 ops) = plain_observe k b s0 ops.
  Proof.
    intros ops. unfold repaired_observe, plain_observe, observe.
    pose proof (fsim_run ops GCreated GCreated sim_created) as H. fold W. fold WK.
    destruct (run k (observed b) s0 GCreated ops) as [trp p'].
    destruct (run k W WInit GCreated ops) as [trw w'].
    destruct H as [Ht Hsim]. unfold erase_obs; cbn [fst snd].
    rewrite Ht, (fsim_drop _ _ Hsim). reflexivity.
  Qed.
End RepairedProof.

(* the three witnesses that refute the current wrapper are answered correctly by the repair
   (wit_stubborn violates the close contract, so it is outside the theorem; its per-operation
   answers are nevertheless those of the original) *)
Lemma repaired_on_witnesses :
  erase_obs (repaired_observe KGen wit_ret 0 [OpNext; OpNext]) = plain_observe KGen wit_ret 0 [OpNext; OpNext]
  /\ erase_obs (repaired_observe KGen wit_catch 0 [OpNext; OpThrow ValueErr; OpClose])
     = plain_observe KGen wit_catch 0 [OpNext; OpThrow ValueErr; OpClose]
  /\ fst (erase_obs (repaired_observe KGen wit_stubborn 0 [OpNext; OpClose]))
     = fst (plain_observe KGen wit_stubborn 0 [OpNext; OpClose])
  /\ plain_observe KGen wit_catch 0 [OpNext; OpThrow ValueErr; OpClose]
     = ([([EIn (SendV 0)], OYield 1); ([EIn (ThrowE ValueErr)], OYield 5); ([EIn (ThrowE GenExit)], ONone)], []).
Proof. repeat split; vm_compute; reflexivity. Qed.

(* a body that honours the close contract, handles a thrown ValueError and returns a value *)
Definition wit_good : body Z := fun s r =>
  match r with
  | SendV v => if s =? 0 then BYield 1 1 else if s =? 1 then BYield (10 + v) 2 else BReturn 7
  | ThrowE e => if e =? ValueErr then BYield 5 s else BRaise e
  end.

Lemma wit_good_honours_close : honours_close wit_good.
Proof. intros s v s'. unfold wit_good. cbn. discriminate. Qed.

Lemma repaired_nonvacuous :
  honours_close wit_good
  /\ plain_observe KGen wit_good 0 [OpNext; OpSend 2; OpThrow ValueErr; OpNext; OpNext]
     = ([([EIn (SendV 0)], OYield 1); ([EIn (SendV 2)], OYield 12); ([EIn (ThrowE ValueErr)], OYield 5);
         ([EIn (SendV 0)], OStop 7); ([], OStop 0)], [])
  /\ repaired_observe KGen wit_good 0 [OpNext; OpThrow ValueErr; OpClose]
     = ([([EEnable; EIn (SendV 0); EDisable], OYield 1); ([EEnable; EIn (ThrowE ValueErr); EDisable], OYield 5);
         ([EEnable; EIn (ThrowE GenExit); EDisable], ONone)], []).
Proof.
  split; [exact wit_good_honours_close|]. split; vm_compute; reflexivity.
Qed.
