(* Wrap/GenWrapRepaired.v - the forwarding variant of wrap_generator / wrap_async_generator
   (fwd = true in Wrap/GenWrap.v): the repair of "throw()/close() are not forwarded".
   This IS what /repo contains since commit 767d84e (`repo_forwards = true`).

       def wrapper(ARGS):
           g = func(ARGS)
           input_ = exc = None
           while True:
               self.enable_by_count()
               try:
                   item = g.send(input_) if exc is None else g.throw(exc)
               except StopIteration as e:
                   return e.value
               finally:
                   exc = None
                   self.disable_by_count()
               try:
                   input_ = (yield item)
               except BaseException as e:       # throw() / close() / finalisation: forward to g
                   exc = e

   (async: `(await g.asend(input_)) if exc is None else (await g.athrow(exc))`,
   `except StopAsyncIteration: return`.)

   Proved in Wrap/GenWrap.v for this variant: wrap_gen_fwd_ops (every body, every history: all
   answers and everything the body sees during the operations are the original's) and
   wrap_gen_fwd_full (plus finalisation, for bodies that honour the close contract).  The one
   thing no wrapper holding the inner generator can hide: a body that yields when it is finalised
   is finalised a second time when the wrapper's frame is destroyed. *)
From Coq Require Import List ZArith Bool Lia.
From LP Require Import Wrap.Protocol Wrap.GenWrap.
Import ListNotations.
Open Scope Z_scope.

Definition repaired_observe {S} (k : kind) (b : body S) (s0 : S) (ops : list op) :=
  wrapped_observe_with true k b s0 ops.

(* the witnesses that refute the non-forwarding wrapper are answered like the original *)
Lemma repaired_on_witnesses :
  erase_obs (repaired_observe KGen wit_catch 0 [OpNext; OpThrow ValueErr; OpClose])
     = plain_observe KGen wit_catch 0 [OpNext; OpThrow ValueErr; OpClose]
  /\ plain_observe KGen wit_catch 0 [OpNext; OpThrow ValueErr; OpClose]
     = ([([EIn (SendV 0)], OYield 1); ([EIn (ThrowE ValueErr)], OYield 5); ([EIn (ThrowE GenExit)], ONone)], [])
  /\ fst (erase_obs (repaired_observe KGen wit_stubborn 0 [OpNext; OpClose; OpNext]))
     = fst (plain_observe KGen wit_stubborn 0 [OpNext; OpClose; OpNext])
  /\ fst (plain_observe KGen wit_stubborn 0 [OpNext; OpClose; OpNext])
     = [([EIn (SendV 0)], OYield 1); ([EIn (ThrowE GenExit)], ORaise RuntimeErr); ([EIn (SendV 0)], OStop 0)]
  /\ erase_obs (repaired_observe KAsync wit_catch 0 [OpNext; OpThrow ValueErr])
     = plain_observe KAsync wit_catch 0 [OpNext; OpThrow ValueErr].
Proof. repeat split; vm_compute; reflexivity. Qed.

(* the return value is handed on (44481f3) - stated for the variant /repo contains *)
Lemma return_value_kept_current :
  erase_obs (wrapped_observe KGen wit_ret 0 [OpNext; OpNext])
  = ([([EIn (SendV 0)], OYield 1); ([EIn (SendV 0)], OStop 7)], [])
  /\ plain_observe KGen wit_ret 0 [OpNext; OpNext]
  = ([([EIn (SendV 0)], OYield 1); ([EIn (SendV 0)], OStop 7)], []).
Proof. split; vm_compute; reflexivity. Qed.

(* the residual difference, outside the close contract: finalisation of a stubborn body *)
Lemma repaired_residual :
  snd (erase_obs (repaired_observe KGen wit_stubborn 0 [OpNext])) = [EIn (ThrowE GenExit); EIn (ThrowE GenExit)]
  /\ snd (plain_observe KGen wit_stubborn 0 [OpNext]) = [EIn (ThrowE GenExit)]
  /\ ~ honours_close wit_stubborn.
Proof.
  repeat split; try (vm_compute; reflexivity).
  intros H. exact (H 1 2 2 eq_refl).
Qed.

(* a body that honours the close contract, handles a thrown ValueError and returns a value *)
Definition wit_good : body Z := fun s r =>
  match r with
  | SendV v => if s =? 0 then BYield 1 1 else if s =? 1 then BYield (10 + v) 2 else BReturn 7
  | ThrowE e => if e =? ValueErr then BYield 5 s else BRaise e
  end.

Lemma wit_good_honours_close : honours_close wit_good.
Proof. intros s v s'. unfold wit_good. cbn. discriminate. Qed.

Lemma repaired_nonvacuous :
  honours_close wit_good
  /\ plain_observe KGen wit_good 0 [OpNext; OpSend 2; OpThrow ValueErr; OpNext; OpNext]
     = ([([EIn (SendV 0)], OYield 1); ([EIn (SendV 2)], OYield 12); ([EIn (ThrowE ValueErr)], OYield 5);
         ([EIn (SendV 0)], OStop 7); ([], OStop 0)], [])
  /\ repaired_observe KGen wit_good 0 [OpNext; OpThrow ValueErr; OpClose]
     = ([([EEnable; EIn (SendV 0); EDisable], OYield 1); ([EEnable; EIn (ThrowE ValueErr); EDisable], OYield 5);
         ([EEnable; EIn (ThrowE GenExit); EDisable], ONone)], []).
Proof.
  split; [exact wit_good_honours_close|]. split; vm_compute; reflexivity.
Qed.
