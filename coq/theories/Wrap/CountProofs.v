(* C05 - proofs about the translated by-count methods (Gen/ByCount.v) embedded in the
   thread-indexed world of Wrap/Count.v. *)
From LP Require Import Prelude.Py Wrap.CountBase Gen.ByCount Wrap.Count.

Lemma key_lp t : key LP t = t.
Proof. reflexivity. Qed.
Lemma key_cp t : key CP t = 0.
Proof. reflexivity. Qed.

(* ---- what one translated method does to the state it sees -------------------- *)
Lemma lp_en_spec c tr tl m :
  0 <= c -> (m = true -> tl = (0 <? c)) ->
  lp_enable_by_count (mk_pstate c tr tl m)
  = Ok (tt, mk_pstate (c + 1) (if c =? 0 then true else tr) (if (c =? 0) && m then true else tl) m).
Proof.
  intros Hc Hm.
  unfold lp_enable_by_count, lp_enable, lp_sys_monitoring_register, env_use_tool, env_settrace,
    set_tool, set_trace, set_enable_count.
  cbn [f_enable_count f_trace f_tool f_is_main].
  destruct (Z.eqb_spec c 0) as [E|E]; cbn [andb]; [|reflexivity].
  destruct m; cbn [negb].
  - rewrite (Hm eq_refl). subst c. cbn. reflexivity.
  - cbn. reflexivity.
Qed.

Lemma lp_dis_spec c tr tl m :
  lp_disable_by_count (mk_pstate c tr tl m)
  = Ok (tt, if c >? 0
            then mk_pstate (c - 1) (if c - 1 =? 0 then false else tr) (if (c - 1 =? 0) && m then false else tl) m
            else mk_pstate c tr tl m).
Proof.
  unfold lp_disable_by_count, lp_disable, lp_sys_monitoring_deregister, env_free_tool, env_unsettrace,
    set_tool, set_trace, set_enable_count.
  cbn [f_enable_count f_trace f_tool f_is_main].
  destruct (c >? 0); [|reflexivity].
  destruct (c - 1 =? 0); cbn [andb]; [|reflexivity].
  destruct m; cbn; reflexivity.
Qed.

Lemma cp_en_spec c tr tl m sc bi :
  0 <= c -> tl = (0 <? c) ->
  cp_enable_by_count (mk_pstate c tr tl m) sc bi
  = Ok (tt, mk_pstate (c + 1) tr (if c =? 0 then true else tl) m).
Proof.
  intros Hc Hm.
  unfold cp_enable_by_count, cprofile_enable, env_use_tool, set_tool, set_enable_count.
  cbn [f_enable_count f_trace f_tool f_is_main].
  destruct (Z.eqb_spec c 0) as [E|E]; [|reflexivity].
  subst. cbn. reflexivity.
Qed.

Lemma cp_dis_spec c tr tl m :
  cp_disable_by_count (mk_pstate c tr tl m)
  = Ok (tt, if c >? 0
            then mk_pstate (c - 1) tr (if c - 1 =? 0 then false else tl) m
            else mk_pstate c tr tl m).
Proof.
  unfold cp_disable_by_count, cprofile_disable, env_free_tool, set_tool, set_enable_count.
  cbn [f_enable_count f_trace f_tool f_is_main].
  destruct (c >? 0); [|reflexivity].
  destruct (c - 1 =? 0); reflexivity.
Qed.

(* the context-manager methods of the Cython class are the by-count pair *)
Lemma lp_enter_is_enable s : lp_enter s = lp_enable_by_count s.
Proof. unfold lp_enter. destruct (lp_enable_by_count s) as [[[] s']|e]; reflexivity. Qed.
Lemma lp_exit_is_disable s a b c : lp_exit s a b c = lp_disable_by_count s.
Proof. unfold lp_exit. destruct (lp_disable_by_count s) as [[[] s']|e]; reflexivity. Qed.

Ltac ifs := repeat match goal with
  | |- context [if ?b then _ else _] => let E := fresh "E" in destruct b eqn:E
  end; try reflexivity; try lia.

Lemma context_manager_is_by_count s a b c :
  lp_enter s = lp_enable_by_count s /\ lp_exit s a b c = lp_disable_by_count s.
Proof. split; [apply lp_enter_is_enable|apply lp_exit_is_disable]. Qed.

(* ---- one step of the world ---------------------------------------------------- *)
Lemma weq_refl w : weq w w.
Proof. repeat split. Qed.
Lemma weq_sym a b : weq a b -> weq b a.
Proof. intros (H1 & H2 & H3). repeat split; intros; symmetry; auto. Qed.
Lemma weq_trans a b c : weq a b -> weq b c -> weq a c.
Proof.
  intros (H1 & H2 & H3) (G1 & G2 & G3). repeat split; intros.
  - rewrite H1. apply G1.
  - rewrite H2. apply G2.
  - congruence.
Qed.

Lemma weq_inv k a b : weq a b -> inv k a -> inv k b.
Proof.
  intros (H1 & H2 & H3) (I1 & I2 & I3). repeat split.
  - intros x. rewrite <- H1. apply I1.
  - rewrite <- H3, <- H1. exact I2.
  - intros Hk t. rewrite <- H2, <- H1. apply I3. exact Hk.
Qed.

Lemma step_spec k t p w :
  inv k w -> exists w', step k t p w = Ok w' /\ weq w' (astep k t p w).
Proof.
  intros (I1 & I2 & I3). unfold step, view.
  destruct k, p; cbn [meth]; rewrite ?key_lp, ?key_cp.
  - (* LP enable *)
    rewrite lp_en_spec.
    + eexists. split; [reflexivity|]. unfold store, astep, weq.
      cbn [w_count w_trace w_tool f_enable_count f_trace f_tool clamp_step]. rewrite key_lp.
      split; [|split].
      * intros x. reflexivity.
      * intros x. unfold upd. destruct (x =? t) eqn:E; [|reflexivity].
        specialize (I1 t). rewrite (I3 eq_refl t). ifs.
      * unfold main_thread. destruct (Z.eqb_spec t 0) as [E|E].
        -- subst. specialize (I1 0). rewrite I2. cbn [andb]. ifs.
        -- rewrite andb_false_r. reflexivity.
    + apply I1.
    + intros E. unfold main_thread in E. apply Z.eqb_eq in E. subst. exact I2.
  - (* LP disable *)
    rewrite lp_dis_spec.
    destruct (w_count w t >? 0) eqn:G.
    + eexists. split; [reflexivity|]. unfold store, astep, weq.
      cbn [w_count w_trace w_tool f_enable_count f_trace f_tool clamp_step]. rewrite key_lp.
      split; [|split].
      * intros x. unfold upd. ifs.
      * intros x. unfold upd. destruct (x =? t) eqn:E; [|reflexivity].
        rewrite (I3 eq_refl t). ifs.
      * unfold main_thread. destruct (Z.eqb_spec t 0) as [E|E].
        -- subst. rewrite I2. rewrite ?andb_true_r. ifs.
        -- rewrite andb_false_r. reflexivity.
    + eexists. split; [reflexivity|]. unfold store, astep, weq.
      cbn [w_count w_trace w_tool f_enable_count f_trace f_tool clamp_step]. rewrite key_lp.
      specialize (I1 t). split; [|split].
      * intros x. unfold upd. destruct (Z.eqb_spec x t); subst; lia.
      * intros x. unfold upd. destruct (Z.eqb_spec x t) as [E|E]; [|reflexivity].
        subst. rewrite (I3 eq_refl t). ifs.
      * unfold main_thread. destruct (Z.eqb_spec t 0) as [E|E]; [|reflexivity].
        subst. rewrite I2. rewrite ?andb_true_r. ifs.
  - (* CP enable *)
    rewrite cp_en_spec; [|apply I1|exact I2].
    eexists. split; [reflexivity|]. unfold store, astep, weq.
    cbn [w_count w_trace w_tool f_enable_count f_trace f_tool clamp_step]. rewrite key_cp.
    specialize (I1 0). split; [|split].
    + intros x. reflexivity.
    + intros x. unfold upd. destruct (Z.eqb_spec x t); subst; reflexivity.
    + rewrite I2. ifs.
  - (* CP disable *)
    rewrite cp_dis_spec.
    destruct (w_count w 0 >? 0) eqn:G.
    + eexists. split; [reflexivity|]. unfold store, astep, weq.
      cbn [w_count w_trace w_tool f_enable_count f_trace f_tool clamp_step]. rewrite key_cp.
      split; [|split].
      * intros x. unfold upd. ifs.
      * intros x. unfold upd. destruct (Z.eqb_spec x t); subst; reflexivity.
      * rewrite I2. ifs.
    + eexists. split; [reflexivity|]. unfold store, astep, weq.
      cbn [w_count w_trace w_tool f_enable_count f_trace f_tool clamp_step]. rewrite key_cp.
      specialize (I1 0). split; [|split].
      * intros x. unfold upd. destruct (Z.eqb_spec x 0); subst; lia.
      * intros x. unfold upd. destruct (Z.eqb_spec x t); subst; reflexivity.
      * rewrite I2. ifs.
Qed.

Lemma astep_inv k t p w : inv k w -> inv k (astep k t p w).
Proof.
  intros (I1 & I2 & I3). unfold astep. repeat split; cbn [w_count w_trace w_tool].
  - intros x. unfold upd. destruct (x =? key k t); [|apply I1].
    specialize (I1 (key k t)). destruct p; cbn [clamp_step]; lia.
  - destruct k; rewrite ?key_lp, ?key_cp; unfold upd, main_thread.
    + destruct (Z.eqb_spec t 0) as [E|E].
      * subst. rewrite Z.eqb_refl. reflexivity.
      * destruct (Z.eqb_spec 0 t); [lia|]. exact I2.
    + rewrite Z.eqb_refl. reflexivity.
  - intros Hk t0. subst k. rewrite key_lp. unfold upd.
    destruct (t0 =? t); [reflexivity|]. apply I3. reflexivity.
Qed.

Lemma astep_weq k t p a b : weq a b -> weq (astep k t p a) (astep k t p b).
Proof.
  intros (H1 & H2 & H3). unfold astep. repeat split; cbn [w_count w_trace w_tool]; intros.
  - unfold upd. rewrite !H1. reflexivity.
  - destruct k; [|apply H2]. unfold upd. rewrite H1, H2. reflexivity.
  - rewrite H1, H3. reflexivity.
Qed.

Lemma arun_weq k h : forall a b, weq a b -> weq (arun k h a) (arun k h b).
Proof.
  induction h as [|[t p] h IH]; intros a b H; cbn [arun]; [exact H|].
  apply IH. apply astep_weq. exact H.
Qed.

Lemma arun_inv k h : forall w, inv k w -> inv k (arun k h w).
Proof.
  induction h as [|[t p] h IH]; intros w H; cbn [arun]; [exact H|].
  apply IH. apply astep_inv. exact H.
Qed.

(* the translated methods implement the abstract machine on every history, and never raise *)
Theorem run_refines k h : forall w,
  inv k w -> exists w', run k h w = Ok w' /\ weq w' (arun k h w).
Proof.
  induction h as [|[t p] h IH]; intros w H; cbn [run arun].
  - exists w. split; [reflexivity|apply weq_refl].
  - destruct (step_spec k t p w H) as (w1 & E1 & Q1). rewrite E1.
    assert (H1 : inv k w1).
    { apply (weq_inv k (astep k t p w)); [apply weq_sym; exact Q1|apply astep_inv; exact H]. }
    destruct (IH w1 H1) as (w2 & E2 & Q2). exists w2. split; [exact E2|].
    eapply weq_trans; [exact Q2|]. apply arun_weq. exact Q1.
Qed.

Lemma inv_w0 k : inv k w0.
Proof. repeat split; cbn; intros; lia. Qed.

Theorem run_inv k h w : inv k w -> exists w', run k h w = Ok w' /\ inv k w'.
Proof.
  intros H. destruct (run_refines k h w H) as (w' & E & Q). exists w'. split; [exact E|].
  apply (weq_inv k (arun k h w)); [apply weq_sym; exact Q|apply arun_inv; exact H].
Qed.

(* ---- counts as folds ------------------------------------------------------------ *)
Lemma arun_count_lp h : forall w t,
  w_count (arun LP h w) t = ref_count (own t h) (w_count w t).
Proof.
  induction h as [|[t0 p] h IH]; intros w t; cbn [arun]; [reflexivity|].
  rewrite IH. unfold own. cbn [filter fst]. unfold astep. rewrite key_lp. cbn [w_count]. unfold upd.
  rewrite (Z.eqb_sym t t0).
  destruct (Z.eqb_spec t0 t) as [E|E].
  - subst. cbn [map snd]. unfold ref_count. cbn [fold_left]. reflexivity.
  - reflexivity.
Qed.

Lemma arun_count_cp h : forall w,
  w_count (arun CP h w) 0 = ref_count (map snd h) (w_count w 0).
Proof.
  induction h as [|[t0 p] h IH]; intros w; cbn [arun]; [reflexivity|].
  rewrite IH. unfold astep. rewrite key_cp. cbn [w_count map snd]. unfold upd. rewrite Z.eqb_refl.
  reflexivity.
Qed.

Theorem count_fold_lp h w :
  inv LP w -> exists w', run LP h w = Ok w' /\ forall t, w_count w' t = ref_count (own t h) (w_count w t).
Proof.
  intros H. destruct (run_refines LP h w H) as (w' & E & (Q & _)). exists w'. split; [exact E|].
  intros t. rewrite Q. apply arun_count_lp.
Qed.

Theorem count_fold_cp h w :
  inv CP w -> exists w', run CP h w = Ok w' /\
    forall t, w_count w' (key CP t) = ref_count (map snd h) (w_count w (key CP t)).
Proof.
  intros H. destruct (run_refines CP h w H) as (w' & E & (Q & _)). exists w'. split; [exact E|].
  intros t. rewrite key_cp, Q. apply arun_count_cp.
Qed.

Lemma ref_count_nonneg ps : forall c, 0 <= c -> 0 <= ref_count ps c.
Proof.
  induction ps as [|p ps IH]; intros c H; unfold ref_count in *; cbn [fold_left]; [exact H|].
  apply IH. destruct p; cbn [clamp_step]; lia.
Qed.

Lemma ref_depth ps : forall c d e,
  0 <= c -> 0 <= d -> depth ps d = Some e -> ref_count ps (c + d) = c + e /\ 0 <= e.
Proof.
  induction ps as [|p ps IH]; intros c d e Hc Hd E; cbn [depth] in E.
  - inversion E. subst. split; [reflexivity|exact Hd].
  - unfold ref_count. cbn [fold_left]. destruct p; cbn [clamp_step].
    + replace (c + d + 1) with (c + (d + 1)) by lia. apply IH; [lia|lia|exact E].
    + destruct (0 <? d) eqn:G; [|discriminate].
      replace (Z.max 0 (c + d - 1)) with (c + (d - 1)) by lia. apply IH; [lia|lia|exact E].
Qed.

Lemma depth_counts ps : forall d e, depth ps d = Some e -> e = d + n_en ps - n_dis ps.
Proof.
  induction ps as [|p ps IH]; intros d e E; cbn [depth n_en n_dis] in *.
  - inversion E. lia.
  - destruct p.
    + apply IH in E. lia.
    + destruct (0 <? d); [|discriminate]. apply IH in E. lia.
Qed.

(* without surplus exits the count is literally entries minus exits *)
Theorem ref_count_exact ps c :
  0 <= c -> no_surplus ps c = true -> ref_count ps c = c + n_en ps - n_dis ps.
Proof.
  intros Hc H. unfold no_surplus in H. destruct (depth ps c) as [e|] eqn:E; [|discriminate].
  destruct (ref_depth ps 0 c e (Z.le_refl 0) Hc E) as [R _]. rewrite Z.add_0_l in R. rewrite R.
  apply depth_counts in E. lia.
Qed.

Theorem matched_restores_count ps c : 0 <= c -> matched ps = true -> ref_count ps c = c.
Proof.
  intros Hc H. unfold matched in H. destruct (depth ps 0) as [e|] eqn:E; [|discriminate].
  apply Z.eqb_eq in H. subst e.
  destruct (ref_depth ps c 0 0 Hc (Z.le_refl 0) E) as [R _]. rewrite !Z.add_0_r in R. exact R.
Qed.

(* ---- decorated callables ---------------------------------------------------------- *)
Lemma depth_app a : forall b d,
  depth (a ++ b) d = match depth a d with Some e => depth b e | None => None end.
Proof.
  induction a as [|p a IH]; intros b d; cbn [app depth]; [reflexivity|].
  destruct p; [apply IH|]. destruct (0 <? d); [apply IH|reflexivity].
Qed.

Lemma depth_shift ps : forall d e x, 0 <= x -> depth ps d = Some e -> depth ps (d + x) = Some (e + x).
Proof.
  induction ps as [|p ps IH]; intros d e x Hx E; cbn [depth] in *.
  - inversion E. reflexivity.
  - destruct p.
    + replace (d + x + 1) with (d + 1 + x) by lia. apply IH; assumption.
    + destruct (0 <? d) eqn:G; [|discriminate].
      replace (0 <? d + x) with true by lia.
      replace (d + x - 1) with (d - 1 + x) by lia. apply IH; assumption.
Qed.

(* whatever a disciplined construct executes - completely or cut short by an exception -
   is a matched sequence *)
Lemma disciplined_depth o : disciplined o = true -> depth (fst (exec o)) 0 = Some 0.
Proof.
  induction o as [p| | |a IHa b IHb|body IH|body IH]; cbn [disciplined exec]; intros H.
  - discriminate.
  - reflexivity.
  - reflexivity.
  - apply andb_prop in H as [Ha Hb]. specialize (IHa Ha). specialize (IHb Hb).
    destruct (exec a) as [pa ra]. destruct ra; cbn [fst] in *; [exact IHa|].
    destruct (exec b) as [pb rb]. cbn [fst] in *. rewrite depth_app, IHa. exact IHb.
  - specialize (IH H). destruct (exec body) as [ps raised]. cbn [fst] in *. cbn [depth].
    rewrite depth_app. rewrite (depth_shift ps 0 0 1 ltac:(lia) IH). reflexivity.
  - specialize (IH H). destruct (exec body) as [ps raised]. cbn [fst] in *. exact IH.
Qed.

Lemma disciplined_matched o : disciplined o = true -> matched (fst (exec o)) = true.
Proof. intros H. unfold matched. rewrite (disciplined_depth o H). reflexivity. Qed.

(* Everything a thread observes is restored by a matched stretch of its own operations,
   whatever the other threads do meanwhile (LineProfiler). *)
Theorem matched_restores_lp h w w' t :
  inv LP w -> run LP h w = Ok w' -> matched (own t h) = true ->
  w_count w' t = w_count w t /\ w_trace w' t = w_trace w t /\ (t = main_thread -> w_tool w' = w_tool w).
Proof.
  intros H E M.
  destruct (run_inv LP h w H) as (w1 & E1 & (J1 & J2 & J3)). rewrite E in E1. inversion E1. subst w1.
  destruct (count_fold_lp h w H) as (w2 & E2 & C). rewrite E in E2. inversion E2. subst w2.
  destruct H as (I1 & I2 & I3).
  assert (Ct : w_count w' t = w_count w t).
  { rewrite C. apply matched_restores_count; [apply I1|exact M]. }
  split; [exact Ct|]. split.
  - rewrite (J3 eq_refl), (I3 eq_refl), Ct. reflexivity.
  - intros Et. subst t. unfold main_thread in Ct. rewrite J2, I2, Ct. reflexivity.
Qed.

Theorem call_restores_lp o h w w' t :
  inv LP w -> disciplined o = true -> own t h = fst (exec (Block o)) -> run LP h w = Ok w' ->
  w_count w' t = w_count w t /\ w_trace w' t = w_trace w t /\ (t = main_thread -> w_tool w' = w_tool w).
Proof.
  intros H D O E. apply (matched_restores_lp h w w' t H E). rewrite O.
  apply (disciplined_matched (Block o)). exact D.
Qed.

(* ContextualProfile: same statement for the one shared counter, all threads together *)
Theorem matched_restores_cp h w w' :
  inv CP w -> run CP h w = Ok w' -> matched (map snd h) = true ->
  w_count w' 0 = w_count w 0 /\ w_tool w' = w_tool w.
Proof.
  intros H E M.
  destruct (run_inv CP h w H) as (w1 & E1 & (J1 & J2 & J3)). rewrite E in E1. inversion E1. subst w1.
  destruct (count_fold_cp h w H) as (w2 & E2 & C). rewrite E in E2. inversion E2. subst w2.
  destruct H as (I1 & I2 & I3). specialize (C 0). rewrite key_cp in C.
  assert (Ct : w_count w' 0 = w_count w 0).
  { rewrite C. apply matched_restores_count; [apply I1|exact M]. }
  split; [exact Ct|]. rewrite J2, I2, Ct. reflexivity.
Qed.

(* while a decorated call's body runs (any stretch `ps` of the body's own operations that
   contains no surplus exit), the count is positive - so tracing is on inside the call *)
Theorem inside_call_positive ps c e :
  0 <= c -> depth ps 0 = Some e -> 0 < ref_count (En :: ps) c.
Proof.
  intros Hc E. unfold ref_count. cbn [fold_left clamp_step].
  destruct (ref_depth ps (c + 1) 0 e ltac:(lia) (Z.le_refl 0) E) as [R He].
  unfold ref_count in R. rewrite Z.add_0_r in R. rewrite R. lia.
Qed.

(* ---- threads ------------------------------------------------------------------- *)
(* LineProfiler: adjacent operations of different threads commute *)
Lemma astep_commute t1 p1 t2 p2 w :
  t1 <> t2 -> weq (astep LP t2 p2 (astep LP t1 p1 w)) (astep LP t1 p1 (astep LP t2 p2 w)).
Proof.
  intros N. unfold astep. rewrite !key_lp. cbn [w_count w_trace w_tool]. unfold upd, main_thread.
  repeat split; cbn [w_count w_trace w_tool]; intros.
  - destruct (Z.eqb_spec x t1), (Z.eqb_spec x t2), (Z.eqb_spec t1 t2), (Z.eqb_spec t2 t1); try lia; reflexivity.
  - destruct (Z.eqb_spec t t1), (Z.eqb_spec t t2), (Z.eqb_spec t1 t2), (Z.eqb_spec t2 t1); try lia; reflexivity.
  - destruct (Z.eqb_spec t1 0), (Z.eqb_spec t2 0), (Z.eqb_spec 0 t1), (Z.eqb_spec 0 t2),
      (Z.eqb_spec t1 t2), (Z.eqb_spec t2 t1); try lia; reflexivity.
Qed.

Theorem threads_commute_lp h1 h2 t1 p1 t2 p2 w :
  inv LP w -> t1 <> t2 ->
  exists a b, run LP (h1 ++ (t1, p1) :: (t2, p2) :: h2) w = Ok a
           /\ run LP (h1 ++ (t2, p2) :: (t1, p1) :: h2) w = Ok b /\ weq a b.
Proof.
  intros H N.
  destruct (run_refines LP (h1 ++ (t1, p1) :: (t2, p2) :: h2) w H) as (a & Ea & Qa).
  destruct (run_refines LP (h1 ++ (t2, p2) :: (t1, p1) :: h2) w H) as (b & Eb & Qb).
  exists a, b. split; [exact Ea|]. split; [exact Eb|].
  eapply weq_trans; [exact Qa|]. eapply weq_trans; [|apply weq_sym; exact Qb].
  assert (G : forall h w, arun LP (h1 ++ h) w = arun LP h (arun LP h1 w)).
  { clear. induction h1 as [|[t p] h1 IH]; intros h w; cbn [app arun]; [reflexivity|apply IH]. }
  rewrite !G. cbn [arun]. apply arun_weq. apply astep_commute. exact N.
Qed.

(* what a thread sees depends on its own operations only *)
Theorem thread_independent_lp h w w' t :
  inv LP w -> run LP h w = Ok w' ->
  w_count w' t = ref_count (own t h) (w_count w t)
  /\ w_trace w' t = (0 <? ref_count (own t h) (w_count w t))
  /\ w_tool w' = (0 <? ref_count (own main_thread h) (w_count w main_thread)).
Proof.
  intros H E.
  destruct (run_inv LP h w H) as (w1 & E1 & (J1 & J2 & J3)). rewrite E in E1. inversion E1. subst w1.
  destruct (count_fold_lp h w H) as (w2 & E2 & C). rewrite E in E2. inversion E2. subst w2.
  split; [apply C|]. split.
  - rewrite (J3 eq_refl). rewrite C. reflexivity.
  - rewrite J2. unfold main_thread. rewrite C. reflexivity.
Qed.

(* ContextualProfile keeps ONE counter: a surplus disable issued by thread 1 switches the
   profiler off under thread 0, which entered once and never left. *)
Definition cp_witness : list (thread * prim) := [(0, En); (1, Dis)].
Theorem cp_shared_counter_refutes_per_thread :
  exists w', run CP cp_witness w0 = Ok w'
    /\ ref_count (own 0 cp_witness) 0 = 1
    /\ w_count w' (key CP 0) = 0 /\ w_tool w' = false.
Proof. eexists. vm_compute. repeat split. Qed.

(* the same history under LineProfiler keeps thread 0 enabled *)
Theorem lp_witness_ok :
  exists w', run LP cp_witness w0 = Ok w' /\ w_count w' (key LP 0) = 1 /\ w_tool w' = true /\ w_trace w' 0 = true.
Proof. eexists. vm_compute. repeat split. Qed.

(* non-vacuity: a concrete raising nested call on a worker thread, interleaved with the main thread *)
Definition ex_op : op := Seq (Block (Seq Skip Raise)) Skip.
Definition ex_hist : list (thread * prim) :=
  [(0, En); (1, En); (1, En); (0, En); (1, Dis); (0, Dis); (1, Dis)].
Theorem call_restores_nonvacuous :
  disciplined ex_op = true
  /\ exec (Block ex_op) = ([En; En; Dis; Dis], true)
  /\ own 1 ex_hist = fst (exec (Block ex_op))
  /\ inv LP w0
  /\ exists w', run LP ex_hist w0 = Ok w' /\ w_count w' 1 = 0 /\ w_count w' 0 = 1 /\ w_trace w' 0 = true
                /\ w_trace w' 1 = false /\ w_tool w' = true.
Proof.
  split; [reflexivity|]. split; [reflexivity|]. split; [reflexivity|]. split; [apply inv_w0|].
  eexists. vm_compute. repeat split.
Qed.

(* when the count returns to zero the trace slot and the tool registration are released *)
Theorem released_at_zero k h w w' t :
  inv k w -> run k h w = Ok w' -> w_count w' (key k t) = 0 ->
  (k = LP -> w_trace w' t = false) /\ ((t = main_thread \/ k = CP) -> w_tool w' = false).
Proof.
  intros H E Z0.
  destruct (run_inv k h w H) as (w1 & E1 & (J1 & J2 & J3)). rewrite E in E1. inversion E1. subst w1.
  split.
  - intros Hk. subst k. rewrite key_lp in Z0. rewrite (J3 eq_refl), Z0. reflexivity.
  - intros [Ht|Hk].
    + subst t. destruct k; rewrite ?key_lp, ?key_cp in Z0; unfold main_thread in Z0; rewrite J2, Z0; reflexivity.
    + subst k. rewrite key_cp in Z0. rewrite J2, Z0. reflexivity.
Qed.

(* ... and while it is positive they are held *)
Theorem held_while_positive k h w w' t :
  inv k w -> run k h w = Ok w' -> 0 < w_count w' (key k t) ->
  (k = LP -> w_trace w' t = true) /\ ((t = main_thread \/ k = CP) -> w_tool w' = true).
Proof.
  intros H E Z0.
  destruct (run_inv k h w H) as (w1 & E1 & (J1 & J2 & J3)). rewrite E in E1. inversion E1. subst w1.
  split.
  - intros Hk. subst k. rewrite key_lp in Z0. rewrite (J3 eq_refl). lia.
  - intros [Ht|Hk].
    + subst t. destruct k; rewrite ?key_lp, ?key_cp in Z0; unfold main_thread in Z0; rewrite J2; lia.
    + subst k. rewrite key_cp in Z0. rewrite J2. lia.
Qed.
