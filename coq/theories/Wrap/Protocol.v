(* Wrap/Protocol.v - an executable model of the ENVIRONMENT: CPython 3.12's
   generator / coroutine / async-generator object protocol, as a function of an
   arbitrary body automaton.

   This file does not describe line_profiler; it describes what CPython does with a
   generator-like object whose code is `body`.  It is validated on every run of the
   C03 check by driving random table-driven real generators, coroutines and async
   generators UNWRAPPED and comparing with `observe` below (harness/props/c03.py,
   stream "protocol").

   Scope: bodies are automata that cannot re-enter their own object, so the
   transient state "running" (ValueError: generator already executing) is never
   observable by a sequence of operations and is not represented.  Async-generator
   bodies never await a pending awaitable: each asend/athrow/aclose awaitable
   finishes in one step (single suspension kind). *)
From Coq Require Import List ZArith Bool Lia.
Import ListNotations.
Open Scope Z_scope.

Definition val := Z.                 (* 0 encodes None *)
Definition exc := Z.                 (* exception classes, interned *)
Definition vnone : val := 0.
Definition ValueErr : exc := 1.
Definition KeyErr : exc := 2.
Definition GenExit : exc := 3.
Definition StopIter : exc := 4.
Definition RuntimeErr : exc := 5.
Definition TypeErr : exc := 6.
Definition StopAsyncIter : exc := 7.
Definition ZeroDivErr : exc := 8.
(* BaseException subclasses that are not Exception *)
Definition KeyboardInt : exc := 9.
Definition SystemExitErr : exc := 10.
Definition CancelledErr : exc := 11.
Definition UserSignal : exc := 12.
Definition OtherErr : exc := 99.

(* how a suspended (or fresh) body is resumed, and what it does next *)
Inductive resume := SendV (v : val) | ThrowE (e : exc).
Inductive bstep (S : Type) := BYield (v : val) (s : S) | BReturn (v : val) | BRaise (e : exc).
Arguments BYield {S} v s.
Arguments BReturn {S} v.
Arguments BRaise {S} e.

(* side effects a body can have that an observer can see: being resumed (the values sent
   in / exceptions thrown in, as the body's own code sees them) and, for the profiler's
   wrappers, switching the profiler on and off *)
Inductive event := EIn (r : resume) | EEnable | EDisable.

Definition body (S : Type) := S -> resume -> bstep S.
Definition ebody (S : Type) := S -> resume -> list event * bstep S.

(* a user-written body: its only effect is that it sees how it was resumed *)
Definition observed {S} (b : body S) : ebody S := fun s r => ([EIn r], b s r).
(* ... and destroying its suspended frame has no effect an observer can see *)
Definition nokill {S} : S -> list event := fun _ => [].

Inductive kind := KGen | KCoro | KAsync.
(* GHalfClosed: async generators only - the frame is suspended at s but aclose() has been
   attempted (ag_closed is set): asend still resumes the body, athrow/aclose answer
   StopAsyncIteration without touching it (CPython 3.12 async_gen_athrow_send) *)
Inductive gstate (S : Type) := GCreated | GSuspended (s : S) | GHalfClosed (s : S) | GClosed.
Arguments GCreated {S}.
Arguments GSuspended {S} s.
Arguments GHalfClosed {S} s.
Arguments GClosed {S}.

(* next(g) = g.send(None); for async generators read asend / athrow / aclose *)
Inductive op := OpSend (v : val) | OpThrow (e : exc) | OpClose.
Definition OpNext : op := OpSend vnone.

Inductive outcome :=
| OYield (v : val)        (* the operation returned v *)
| OStop (v : val)         (* StopIteration(v) *)
| OStopAsync              (* StopAsyncIteration *)
| ORaise (e : exc)
| ONone.                  (* close()/aclose() returned None *)

(* PEP 479: StopIteration escaping a generator/coroutine body (and StopAsyncIteration
   escaping an async generator body) becomes RuntimeError *)
Definition pep479 (k : kind) (e : exc) : exc :=
  if e =? StopIter then RuntimeErr
  else match k with
       | KAsync => if e =? StopAsyncIter then RuntimeErr else e
       | _ => e
       end.

(* an exception e leaving an operation, as the caller of the operation sees it.  A raised
   StopIteration() instance IS the answer "StopIteration(None)"; for an async generator the
   operation is an awaitable, for which StopIteration means "finished with None" and
   StopAsyncIteration is the exhaustion answer *)
Definition raise_out (k : kind) (e : exc) : outcome :=
  match k with
  | KAsync => if e =? StopIter then OYield vnone else if e =? StopAsyncIter then OStopAsync else ORaise e
  | _ => if e =? StopIter then OStop vnone else ORaise e
  end.

Section Object.
  Context {S : Type}.
  Variable k : kind.
  Variable b : ebody S.
  Variable kill : S -> list event.   (* effects of destroying the frame while it is suspended at s *)
  Variable s0 : S.           (* where the code starts *)

  (* the body ran for a send / throw and finished the step with r *)
  Definition settle (r : bstep S) : outcome * gstate S :=
    match r with
    | BYield v s' => (OYield v, GSuspended s')
    | BReturn v => (match k with KAsync => OStopAsync | _ => OStop v end, GClosed)
    | BRaise e => (ORaise (pep479 k e), GClosed)
    end.

  (* the body ran because close() threw GeneratorExit into it *)
  Definition settle_close (r : bstep S) : outcome * gstate S :=
    match r with
    | BYield _ s' => (ORaise RuntimeErr,                     (* "generator ignored GeneratorExit" *)
                      match k with KAsync => GHalfClosed s' | _ => GSuspended s' end)
    | BReturn _ => (ONone, GClosed)
    | BRaise e => let e' := pep479 k e in
                  (if e' =? GenExit then ONone else ORaise e', GClosed)
    end.

  Definition closed_send : outcome :=
    match k with KGen => OStop vnone | KCoro => ORaise RuntimeErr | KAsync => OStopAsync end.
  Definition closed_throw (e : exc) : outcome :=
    match k with KGen => raise_out k e | KCoro => ORaise RuntimeErr | KAsync => OYield vnone end.

  Definition gen_op (st : gstate S) (o : op) : list event * outcome * gstate S :=
    match st, o with
    | GCreated, OpSend v =>
        if v =? vnone then let '(ev, r) := b s0 (SendV vnone) in let '(out, st') := settle r in (ev, out, st')
        else ([], ORaise TypeErr, GCreated)       (* can't send non-None value to a just-started ... *)
    | GCreated, OpThrow e => ([], raise_out k e, GClosed)          (* raised at the function's first line: no handler *)
    | GCreated, OpClose => ([], ONone, GClosed)
    | GSuspended s, OpSend v => let '(ev, r) := b s (SendV v) in let '(out, st') := settle r in (ev, out, st')
    | GSuspended s, OpThrow e => let '(ev, r) := b s (ThrowE e) in let '(out, st') := settle r in (ev, out, st')
    | GSuspended s, OpClose => let '(ev, r) := b s (ThrowE GenExit) in let '(out, st') := settle_close r in (ev, out, st')
    | GHalfClosed s, OpSend v =>
        let '(ev, r) := b s (SendV v) in let '(out, st') := settle r in
        (ev, out, match st' with GSuspended s' => GHalfClosed s' | x => x end)
    | GHalfClosed s, OpThrow _ => ([], OStopAsync, GHalfClosed s)
    | GHalfClosed s, OpClose => ([], OStopAsync, GHalfClosed s)
    | GClosed, OpSend _ => ([], closed_send, GClosed)
    | GClosed, OpThrow e => ([], closed_throw e, GClosed)
    | GClosed, OpClose => ([], ONone, GClosed)
    end.

  (* the last reference goes away: CPython finalises a suspended object by close();
     whatever that raises is unraisable (reported to sys.unraisablehook, not to the program).
     If the body answers by yielding again, the frame is destroyed where it then stands. *)
  Definition drop (st : gstate S) : list event :=
    match st with
    | GSuspended s | GHalfClosed s =>
        let '(ev, r) := b s (ThrowE GenExit) in
        ev ++ match r with BYield _ s' => kill s' | _ => [] end
    | _ => []
    end.

  Fixpoint run (st : gstate S) (ops : list op) : list (list event * outcome) * gstate S :=
    match ops with
    | [] => ([], st)
    | o :: rest =>
        let '(ev, out, st') := gen_op st o in
        let '(tr, fin) := run st' rest in
        ((ev, out) :: tr, fin)
    end.

  (* everything an observer sees: per operation the effects and the answer, then the
     effects of dropping the object *)
  Definition observe (ops : list op) : list (list event * outcome) * list event :=
    let '(tr, fin) := run GCreated ops in (tr, drop fin).
End Object.

(* the language's contract for close(): a body must not yield (await again) when
   GeneratorExit is thrown in *)
Definition honours_close {S} (b : body S) : Prop :=
  forall s v s', b s (ThrowE GenExit) <> BYield v s'.

(* profiler switching is what the wrappers add on purpose; the property compares
   everything else *)
Definition is_prof (e : event) : bool := match e with EIn _ => false | _ => true end.
Definition erase (evs : list event) : list event := filter (fun e => negb (is_prof e)) evs.
Definition erase_obs (o : list (list event * outcome) * list event) :=
  (map (fun p => (erase (fst p), snd p)) (fst o), erase (snd o)).

Lemma erase_app : forall a b, erase (a ++ b) = erase a ++ erase b.
Proof. intros a b. unfold erase. apply filter_app. Qed.

Lemma run_app {S} k (b : ebody S) s0 : forall ops1 ops2 st,
  run k b s0 st (ops1 ++ ops2) =
  let '(tr1, st1) := run k b s0 st ops1 in
  let '(tr2, st2) := run k b s0 st1 ops2 in (tr1 ++ tr2, st2).
Proof.
  induction ops1 as [|o ops1 IH]; intros ops2 st; cbn [run app].
  - destruct (run k b s0 st ops2); reflexivity.
  - destruct (gen_op k b s0 st o) as [[ev out] st'].
    rewrite IH. destruct (run k b s0 st' ops1) as [tr1 st1].
    destruct (run k b s0 st1 ops2) as [tr2 st2]. reflexivity.
Qed.

(* ---- decidable equality on observations (used by the shards and the witnesses) ---- *)
Definition resume_eqb (a b : resume) : bool :=
  match a, b with
  | SendV x, SendV y => x =? y
  | ThrowE x, ThrowE y => x =? y
  | _, _ => false
  end.
Definition event_eqb (a b : event) : bool :=
  match a, b with
  | EIn x, EIn y => resume_eqb x y
  | EEnable, EEnable => true
  | EDisable, EDisable => true
  | _, _ => false
  end.
Definition outcome_eqb (a b : outcome) : bool :=
  match a, b with
  | OYield x, OYield y => x =? y
  | OStop x, OStop y => x =? y
  | OStopAsync, OStopAsync => true
  | ORaise x, ORaise y => x =? y
  | ONone, ONone => true
  | _, _ => false
  end.

Fixpoint list_eqb {A} (eqb : A -> A -> bool) (l1 l2 : list A) : bool :=
  match l1, l2 with
  | [], [] => true
  | x :: t1, y :: t2 => eqb x y && list_eqb eqb t1 t2
  | _, _ => false
  end.

Lemma list_eqb_spec {A} (eqb : A -> A -> bool) :
  (forall x y, eqb x y = true <-> x = y) ->
  forall l1 l2, list_eqb eqb l1 l2 = true <-> l1 = l2.
Proof.
  intros H. induction l1 as [|x t IH]; destruct l2 as [|y t2]; cbn; try (split; congruence).
  rewrite andb_true_iff, H, IH. split.
  - intros [-> ->]; reflexivity.
  - intros E; inversion E; auto.
Qed.

Lemma resume_eqb_spec : forall a b, resume_eqb a b = true <-> a = b.
Proof.
  destruct a, b; cbn; try (split; congruence); rewrite Z.eqb_eq; split; congruence.
Qed.
Lemma event_eqb_spec : forall a b, event_eqb a b = true <-> a = b.
Proof.
  destruct a, b; cbn; try (split; congruence).
  rewrite resume_eqb_spec. split; congruence.
Qed.
Lemma outcome_eqb_spec : forall a b, outcome_eqb a b = true <-> a = b.
Proof.
  destruct a, b; cbn; try (split; congruence); rewrite Z.eqb_eq; split; congruence.
Qed.

Definition step_eqb (a b : list event * outcome) : bool :=
  list_eqb event_eqb (fst a) (fst b) && outcome_eqb (snd a) (snd b).
Definition obs_eqb (a b : list (list event * outcome) * list event) : bool :=
  list_eqb step_eqb (fst a) (fst b) && list_eqb event_eqb (snd a) (snd b).

Lemma step_eqb_spec : forall a b, step_eqb a b = true <-> a = b.
Proof.
  intros [e1 o1] [e2 o2]. unfold step_eqb; cbn.
  rewrite andb_true_iff, (list_eqb_spec _ event_eqb_spec), outcome_eqb_spec.
  split; [intros [-> ->]; reflexivity | intros E; inversion E; auto].
Qed.
Lemma obs_eqb_spec : forall a b, obs_eqb a b = true <-> a = b.
Proof.
  intros [t1 f1] [t2 f2]. unfold obs_eqb; cbn.
  rewrite andb_true_iff, (list_eqb_spec _ step_eqb_spec), (list_eqb_spec _ event_eqb_spec).
  split; [intros [-> ->]; reflexivity | intros E; inversion E; auto].
Qed.
