(* Wrap/GenWrap.v - ByCountProfilerMixin.wrap_generator and wrap_async_generator
   (/repo/line_profiler/profiler_mixin.py) as body-automaton transformers.

       def wrapper(ARGS):
           g = func(ARGS)
           input_ = None
           while True:
               self.enable_by_count()
               try:
                   item = g.send(input_)          # await g.asend(input_)
               except StopIteration:              # StopAsyncIteration
                   return
               finally:
                   self.disable_by_count()
               input_ = (yield item)

   The wrapper is itself a generator (async generator): CPython's protocol
   (Wrap/Protocol.v) is applied to *this* automaton to get the wrapped object.
   Hand model, tied to the source by correspondence only (harness/props/c03.py). *)
From Coq Require Import List ZArith Bool Lia.
From LP Require Import Wrap.Protocol.
Import ListNotations.
Open Scope Z_scope.

(* where the wrapper's frame is: not started, or suspended at `input_ = (yield item)`
   holding the inner object g *)
Inductive wstate (S : Type) := WInit | WAt (g : gstate S).
Arguments WInit {S}.
Arguments WAt {S} g.

Section Wrap.
  Context {S : Type}.
  Variable k : kind.               (* KGen: wrap_generator, KAsync: wrap_async_generator *)
  Variable b : ebody S.            (* the decorated function's code *)
  Variable kill : S -> list event.
  Variable s0 : S.

  (* one trip round the loop: enable; try: item = g.send(input_) ... finally: disable *)
  Definition wrap_loop (g : gstate S) (input_ : val) : list event * bstep (wstate S) :=
    let '(ev, out, g') := gen_op k b s0 g (OpSend input_) in
    match out with
    | OYield item => ([EEnable] ++ ev ++ [EDisable], BYield item (WAt g'))
    | OStop _ | OStopAsync =>
        (* `except StopIteration: return` - a bare return: the value is not looked at *)
        ([EEnable] ++ ev ++ [EDisable] ++ drop b kill g', BReturn vnone)
    | ORaise e =>
        (* propagates through `finally`; the frame dies and with it the reference to g *)
        ([EEnable] ++ ev ++ [EDisable] ++ drop b kill g', BRaise e)
    | ONone => ([EEnable] ++ ev ++ [EDisable] ++ drop b kill g', BRaise OtherErr)   (* send never answers this *)
    end.

  Definition wrap_gen : ebody (wstate S) := fun ws r =>
    match r with
    | SendV v =>
        match ws with
        | WInit => wrap_loop GCreated vnone        (* g = func(...); input_ = None *)
        | WAt g => wrap_loop g v                   (* input_ = (yield item) *)
        end
    | ThrowE e =>
        (* the exception is raised by the `yield item` expression, which is outside the
           try statement: nothing catches it, nothing is forwarded to g; the frame dies and
           g is finalised by the interpreter *)
        match ws with
        | WInit => ([], BRaise e)
        | WAt g => (drop b kill g, BRaise e)
        end
    end.

  (* destroying the wrapper's suspended frame releases its local g *)
  Definition wkill (ws : wstate S) : list event :=
    match ws with WInit => [] | WAt g => drop b kill g end.
End Wrap.

Definition wrapped_observe {S} (k : kind) (b : body S) (s0 : S) (ops : list op) :=
  observe k (wrap_gen k (observed b) nokill s0) (wkill (observed b) nokill) WInit ops.
Definition plain_observe {S} (k : kind) (b : body S) (s0 : S) (ops : list op) :=
  observe k (observed b) nokill s0 ops.

(* ------------------------------------------------------------------------------------ *)
(* What IS preserved: next/send-only histories of bodies whose return value is None.   *)

Definition is_send (o : op) : bool := match o with OpSend _ => true | _ => false end.

(* the body never returns anything but None *)
Definition returns_none {S} (b : body S) : Prop := forall s r v, b s r = BReturn v -> v = vnone.

(* simulation between the original object and the wrapper object *)
Inductive sim {S} : gstate S -> gstate (wstate S) -> Prop :=
| sim_created : sim GCreated GCreated
| sim_susp : forall s, sim (GSuspended s) (GSuspended (WAt (GSuspended s)))
| sim_closed : sim GClosed GClosed.

Section Partial.
  Context {S : Type}.
  Variable k : kind.
  Variable b : body S.
  Variable s0 : S.
  Hypothesis k_not_coro : k <> KCoro.
  Hypothesis ret_none : k = KGen -> returns_none b.

  Let W := wrap_gen k (observed b) nokill s0.
  Let WK := wkill (observed b) nokill.

  Lemma sim_send : forall p w v,
    sim p w ->
    let '(evp, outp, p') := gen_op k (observed b) s0 p (OpSend v) in
    let '(evw, outw, w') := gen_op k W WInit w (OpSend v) in
    erase evw = evp /\ outw = outp /\ sim p' w'.
  Proof.
    intros p w v H. destruct H as [| s |]; subst W;
      unfold gen_op, wrap_gen, wrap_loop, gen_op, observed, settle, pep479.
    - destruct (v =? vnone) eqn:Ev; [|cbn; repeat split; constructor].
      change (vnone =? vnone) with true. cbv iota.
      destruct (b s0 (SendV vnone)) as [y s' | rv | e] eqn:Eb.
      + cbn; repeat split; constructor.
      + destruct k; try congruence; cbn;
          try rewrite (ret_none eq_refl _ _ _ Eb); repeat split; constructor.
      + destruct k; try congruence; destruct (e =? StopIter) eqn:E1;
          try destruct (e =? StopAsyncIter) eqn:E2; cbn; rewrite ?E1, ?E2; cbn; repeat split; constructor.
    - destruct (b s (SendV v)) as [y s' | rv | e] eqn:Eb.
      + cbn; repeat split; constructor.
      + destruct k; try congruence; cbn;
          try rewrite (ret_none eq_refl _ _ _ Eb); repeat split; constructor.
      + destruct k; try congruence; destruct (e =? StopIter) eqn:E1;
          try destruct (e =? StopAsyncIter) eqn:E2; cbn; rewrite ?E1, ?E2; cbn; repeat split; constructor.
    - destruct k; try congruence; cbn; repeat split; constructor.
  Qed.

  Lemma sim_drop : forall p w, sim p w -> erase (drop W WK w) = drop (observed b) nokill p.
  Proof.
    intros p w H. destruct H as [| s |]; try reflexivity.
    subst W WK. unfold drop, wrap_gen, observed, nokill. cbn.
    destruct (b s (ThrowE GenExit)); reflexivity.
  Qed.

  Lemma sim_run : forall ops p w,
    forallb is_send ops = true -> sim p w ->
    let '(trp, p') := run k (observed b) s0 p ops in
    let '(trw, w') := run k W WInit w ops in
    map (fun x => (erase (fst x), snd x)) trw = trp /\ sim p' w'.
  Proof.
    induction ops as [|o ops IH]; intros p w Hs H; cbn [run].
    - split; [reflexivity | assumption].
    - cbn [forallb] in Hs. apply andb_true_iff in Hs. destruct Hs as [Ho Hs].
      destruct o as [v | e |]; cbn in Ho; try discriminate.
      pose proof (sim_send p w v H) as Hstep.
      destruct (gen_op k (observed b) s0 p (OpSend v)) as [[evp outp] p'].
      destruct (gen_op k W WInit w (OpSend v)) as [[evw outw] w'].
      destruct Hstep as (He & Ho' & Hsim).
      specialize (IH p' w' Hs Hsim).
      destruct (run k (observed b) s0 p' ops) as [trp p''].
      destruct (run k W WInit w' ops) as [trw w''].
      destruct IH as [Ht Hsim']. split; [|assumption].
      cbn [map fst snd]. rewrite He, Ho', Ht. reflexivity.
  Qed.

  Theorem wrap_gen_send_only : forall ops,
    forallb is_send ops = true ->
    erase_obs (wrapped_observe k b s0 ops) = plain_observe k b s0 ops.
  Proof.
    intros ops Hs. unfold wrapped_observe, plain_observe, observe.
    pose proof (sim_run ops GCreated GCreated Hs sim_created) as H. fold W. fold WK.
    destruct (run k (observed b) s0 GCreated ops) as [trp p'].
    destruct (run k W WInit GCreated ops) as [trw w'].
    destruct H as [Ht Hsim]. unfold erase_obs; cbn [fst snd].
    rewrite Ht, (sim_drop _ _ Hsim). reflexivity.
  Qed.
End Partial.

(* ------------------------------------------------------------------------------------ *)
(* What is NOT preserved: concrete witnesses (replayed on the real code by the harness). *)

(* gen_ret: `x = yield 1; return 7`  -- state 0: yield 1 -> 1; state 1: return 7 *)
Definition wit_ret : body Z := fun s r =>
  if s =? 0 then BYield 1 1 else BReturn 7.

(* gen_catch: `try: yield 1  except ValueError: yield 5` then return None *)
Definition wit_catch : body Z := fun s r =>
  if s =? 0 then BYield 1 1
  else if s =? 1 then match r with ThrowE e => if e =? ValueErr then BYield 5 2 else BRaise e | SendV _ => BReturn 0 end
  else match r with ThrowE e => BRaise e | SendV _ => BReturn 0 end.

(* gen_stubborn: `yield 1` and on GeneratorExit `yield 2` (ignores close) *)
Definition wit_stubborn : body Z := fun s r =>
  if s =? 0 then BYield 1 1
  else match r with ThrowE e => if e =? GenExit then BYield 2 2 else BRaise e | SendV _ => BReturn 0 end.

Lemma refuted_return :
  erase_obs (wrapped_observe KGen wit_ret 0 [OpNext; OpNext])
  = ([([EIn (SendV 0)], OYield 1); ([EIn (SendV 0)], OStop 0)], [])
  /\ plain_observe KGen wit_ret 0 [OpNext; OpNext]
  = ([([EIn (SendV 0)], OYield 1); ([EIn (SendV 0)], OStop 7)], []).
Proof. split; vm_compute; reflexivity. Qed.

Lemma refuted_throw :
  erase_obs (wrapped_observe KGen wit_catch 0 [OpNext; OpThrow ValueErr])
  = ([([EIn (SendV 0)], OYield 1); ([EIn (ThrowE GenExit)], ORaise ValueErr)], [])
  /\ plain_observe KGen wit_catch 0 [OpNext; OpThrow ValueErr]
  = ([([EIn (SendV 0)], OYield 1); ([EIn (ThrowE ValueErr)], OYield 5)], [EIn (ThrowE GenExit)]).
Proof. split; vm_compute; reflexivity. Qed.

Lemma refuted_close :
  erase_obs (wrapped_observe KGen wit_stubborn 0 [OpNext; OpClose])
  = ([([EIn (SendV 0)], OYield 1); ([EIn (ThrowE GenExit)], ONone)], [])
  /\ plain_observe KGen wit_stubborn 0 [OpNext; OpClose]
  = ([([EIn (SendV 0)], OYield 1); ([EIn (ThrowE GenExit)], ORaise RuntimeErr)], [EIn (ThrowE GenExit)]).
Proof. split; vm_compute; reflexivity. Qed.

Lemma refuted_athrow :
  erase_obs (wrapped_observe KAsync wit_catch 0 [OpNext; OpThrow ValueErr])
  = ([([EIn (SendV 0)], OYield 1); ([EIn (ThrowE GenExit)], ORaise ValueErr)], [])
  /\ plain_observe KAsync wit_catch 0 [OpNext; OpThrow ValueErr]
  = ([([EIn (SendV 0)], OYield 1); ([EIn (ThrowE ValueErr)], OYield 5)], [EIn (ThrowE GenExit)]).
Proof. split; vm_compute; reflexivity. Qed.

Lemma refuted_aclose :
  erase_obs (wrapped_observe KAsync wit_stubborn 0 [OpNext; OpClose])
  = ([([EIn (SendV 0)], OYield 1); ([EIn (ThrowE GenExit)], ONone)], [])
  /\ plain_observe KAsync wit_stubborn 0 [OpNext; OpClose]
  = ([([EIn (SendV 0)], OYield 1); ([EIn (ThrowE GenExit)], ORaise RuntimeErr)], [EIn (ThrowE GenExit)]).
Proof. split; vm_compute; reflexivity. Qed.

(* the hypotheses of the partial theorem are satisfiable by a non-trivial history *)
Definition wit_echo : body Z := fun s r =>
  match r with
  | SendV v => if s <? 3 then BYield (10 + v) (s + 1) else BReturn 0
  | ThrowE e => BRaise e
  end.

Lemma wit_echo_returns_none : returns_none wit_echo.
Proof.
  intros s r v. unfold wit_echo. destruct r as [x | e]; [|discriminate].
  destruct (s <? 3); [discriminate|]. intros E; inversion E; reflexivity.
Qed.

Lemma partial_nonvacuous :
  returns_none wit_echo
  /\ forallb is_send [OpNext; OpSend 2; OpSend 3; OpNext; OpNext] = true
  /\ plain_observe KGen wit_echo 0 [OpNext; OpSend 2; OpSend 3; OpNext; OpNext]
     = ([([EIn (SendV 0)], OYield 10); ([EIn (SendV 2)], OYield 12); ([EIn (SendV 3)], OYield 13);
         ([EIn (SendV 0)], OStop 0); ([], OStop 0)], [])
  /\ wrapped_observe KGen wit_echo 0 [OpNext; OpSend 2]
     = ([([EEnable; EIn (SendV 0); EDisable], OYield 10); ([EEnable; EIn (SendV 2); EDisable], OYield 12)],
        [EIn (ThrowE GenExit)]).
Proof.
  split; [exact wit_echo_returns_none|]. repeat split; vm_compute; reflexivity.
Qed.

(* the property at full strength, for generators and for async generators, is false of this model *)
Definition transparent_for (k : kind) : Prop :=
  forall (S : Type) (b : body S) (s0 : S) (ops : list op),
    erase_obs (wrapped_observe k b s0 ops) = plain_observe k b s0 ops.

Lemma generator_full_false : ~ transparent_for KGen.
Proof.
  intros H. specialize (H Z wit_ret 0 [OpNext; OpNext]).
  destruct refuted_return as [Hw Hp]. rewrite Hw, Hp in H. discriminate.
Qed.

Lemma async_generator_full_false : ~ transparent_for KAsync.
Proof.
  intros H. specialize (H Z wit_catch 0 [OpNext; OpThrow ValueErr]).
  destruct refuted_athrow as [Hw Hp]. rewrite Hw, Hp in H. discriminate.
Qed.
