(* Wrap/GenWrap.v - ByCountProfilerMixin.wrap_generator and wrap_async_generator
   (/repo/line_profiler/profiler_mixin.py) as body-automaton transformers.

       def wrapper(ARGS):
           g = func(ARGS)
           input_ = exc = None
           while True:
               self.enable_by_count()
               try:
                   item = g.send(input_) if exc is None else g.throw(exc)    # await g.asend / g.athrow
               except StopIteration as e:         # StopAsyncIteration
                   return e.value                 # (async: bare return - there is no value)
               finally:
                   exc = None
                   self.disable_by_count()
               try:
                   input_ = (yield item)
               except BaseException as e:         # throw()/close(): forward to g      (since /repo 767d84e)
                   exc = e

   The wrapper is itself a generator (async generator): CPython's protocol
   (Wrap/Protocol.v) is applied to *this* automaton to get the wrapped object.
   Hand model, tied to the source by correspondence only (harness/props/c03.py).

   The model has one switch, `fwd`: does the wrapper forward what is thrown at its `yield`
   (throw()/close(), athrow()/aclose()) to the inner generator?  /repo since 767d84e: yes
   (`repo_forwards` below); fwd = false is the wrapper /repo had before (the `try/except`
   round the yield absent, `item = g.send(input_)` only).  Both variants are proved about,
   the correspondence check uses the one `repo_forwards` names. *)
From Coq Require Import List ZArith Bool Lia.
From LP Require Import Wrap.Protocol.
Import ListNotations.
Open Scope Z_scope.

(* THE ONE LINE that says which wrapper /repo contains (true since /repo 767d84e: throw/close
   forwarding in wrap_generator and wrap_async_generator; false = the former wrapper) *)
Definition repo_forwards : bool := true.

(* where the wrapper's frame is: not started, or suspended at `input_ = (yield item)`
   holding the inner object g *)
Inductive wstate (S : Type) := WInit | WAt (g : gstate S).
Arguments WInit {S}.
Arguments WAt {S} g.

Section Wrap.
  Context {S : Type}.
  Variable fwd : bool.             (* forward throw()/close() to g? *)
  Variable k : kind.               (* KGen: wrap_generator, KAsync: wrap_async_generator *)
  Variable b : ebody S.            (* the decorated function's code *)
  Variable kill : S -> list event.
  Variable s0 : S.

  (* one trip round the loop: enable; try: item = g.send(input_) [g.throw(exc)] ... finally: disable *)
  Definition wrap_loop (g : gstate S) (o : op) : list event * bstep (wstate S) :=
    let '(ev, out, g') := gen_op k b s0 g o in
    match out with
    | OYield item => ([EEnable] ++ ev ++ [EDisable], BYield item (WAt g'))
    | OStop v =>
        (* `except StopIteration as e: return e.value` *)
        ([EEnable] ++ ev ++ [EDisable] ++ drop b kill g', BReturn v)
    | OStopAsync =>
        (* `except StopAsyncIteration: return` *)
        ([EEnable] ++ ev ++ [EDisable] ++ drop b kill g', BReturn vnone)
    | ORaise e =>
        (* propagates through `finally`; the frame dies and with it the reference to g *)
        ([EEnable] ++ ev ++ [EDisable] ++ drop b kill g', BRaise e)
    | ONone => ([EEnable] ++ ev ++ [EDisable] ++ drop b kill g', BRaise OtherErr)   (* send/throw never answer this *)
    end.

  Definition wrap_gen : ebody (wstate S) := fun ws r =>
    match r with
    | SendV v =>
        match ws with
        | WInit => wrap_loop GCreated (OpSend vnone)     (* g = func(...); input_ = None *)
        | WAt g => wrap_loop g (OpSend v)                (* input_ = (yield item) *)
        end
    | ThrowE e =>
        match ws with
        | WInit => ([], BRaise e)
        | WAt g =>
            if fwd then
              (* repaired: `except BaseException as e: exc = e` round the yield, then g.throw(exc) *)
              wrap_loop g (OpThrow e)
            else
              (* /repo: the exception is raised by the `yield item` expression, which is outside
                 the try statement: nothing catches it, nothing is forwarded to g; the frame dies
                 and g is finalised by the interpreter *)
              (drop b kill g, BRaise e)
        end
    end.

  (* destroying the wrapper's suspended frame releases its local g *)
  Definition wkill (ws : wstate S) : list event :=
    match ws with WInit => [] | WAt g => drop b kill g end.
End Wrap.

Definition wrapped_observe_with {S} (fwd : bool) (k : kind) (b : body S) (s0 : S) (ops : list op) :=
  observe k (wrap_gen fwd k (observed b) nokill s0) (wkill (observed b) nokill) WInit ops.
(* the object /repo's wrapper returns *)
Definition wrapped_observe {S} (k : kind) (b : body S) (s0 : S) (ops : list op) :=
  wrapped_observe_with repo_forwards k b s0 ops.
Definition plain_observe {S} (k : kind) (b : body S) (s0 : S) (ops : list op) :=
  observe k (observed b) nokill s0 ops.

Definition is_send (o : op) : bool := match o with OpSend _ => true | _ => false end.

(* simulation between the original object and the wrapper object *)
Inductive sim {S} : gstate S -> gstate (wstate S) -> Prop :=
| sim_created : sim GCreated GCreated
| sim_susp : forall s, sim (GSuspended s) (GSuspended (WAt (GSuspended s)))
| sim_half : forall s, sim (GHalfClosed s) (GHalfClosed (WAt (GSuspended s)))
| sim_closed : sim GClosed GClosed.

Section Simulation.
  Context {S : Type}.
  Variable fwd : bool.
  Variable k : kind.
  Variable b : body S.
  Variable s0 : S.
  Hypothesis k_not_coro : k <> KCoro.

  Let W := wrap_gen fwd k (observed b) nokill s0.
  Let WK := wkill (observed b) nokill.

  Ltac fin := cbn; repeat split; try constructor.
  Ltac rw := repeat match goal with H : (_ =? _) = _ |- _ => rewrite H end.
  Ltac raise_case x :=
    destruct (x =? StopIter) eqn:?; try destruct (x =? StopAsyncIter) eqn:?;
    try destruct (x =? GenExit) eqn:?; cbn; rw; cbn; rw; fin.
  Ltac body_cases s r :=
    let x := fresh "x" in
    destruct (b s r) as [? ? | ? | x] eqn:?;
    [ destruct k; try congruence; fin
    | destruct k; try congruence; fin
    | destruct k; try congruence; raise_case x ].

  (* one operation: next()/send() always; throw()/close() when the wrapper forwards *)
  Lemma sim_step : forall p w o,
    fwd = true \/ is_send o = true ->
    sim p w ->
    let '(evp, outp, p') := gen_op k (observed b) s0 p o in
    let '(evw, outw, w') := gen_op k W WInit w o in
    erase evw = evp /\ outw = outp /\ sim p' w'.
  Proof.
    intros p w o Hop H.
    assert (Hf : is_send o = false -> fwd = true) by (destruct Hop as [Hx | Hx]; [auto | rewrite Hx; discriminate]).
    destruct H as [| s | s |]; subst W; destruct o as [v | e |];
      try (rewrite (Hf eq_refl)); clear Hop Hf;
      unfold gen_op, wrap_gen, wrap_loop, gen_op, observed, settle, settle_close, pep479.
    - destruct (v =? vnone) eqn:Ev; [|fin].
      change (vnone =? vnone) with true. cbv iota. body_cases s0 (SendV vnone).
    - fin.
    - fin.
    - body_cases s (SendV v).
    - body_cases s (ThrowE e).
    - body_cases s (ThrowE GenExit).
    - body_cases s (SendV v).
    - destruct k; try congruence; fin.
    - destruct k; try congruence; fin.
    - destruct k; try congruence; fin.
    - fin.
    - fin.
  Qed.

  Lemma sim_run : forall ops p w,
    fwd = true \/ forallb is_send ops = true ->
    sim p w ->
    let '(trp, p') := run k (observed b) s0 p ops in
    let '(trw, w') := run k W WInit w ops in
    map (fun x => (erase (fst x), snd x)) trw = trp /\ sim p' w'.
  Proof.
    induction ops as [|o ops IH]; intros p w Hs H; cbn [run].
    - split; [reflexivity | assumption].
    - assert (Ho : fwd = true \/ is_send o = true).
      { destruct Hs as [Hs | Hs]; [left; assumption|]. cbn [forallb] in Hs.
        apply andb_true_iff in Hs. right. tauto. }
      assert (Hs' : fwd = true \/ forallb is_send ops = true).
      { destruct Hs as [Hs | Hs]; [left; assumption|]. cbn [forallb] in Hs.
        apply andb_true_iff in Hs. right. tauto. }
      pose proof (sim_step p w o Ho H) as Hstep.
      destruct (gen_op k (observed b) s0 p o) as [[evp outp] p'].
      destruct (gen_op k W WInit w o) as [[evw outw] w'].
      destruct Hstep as (He & Ho' & Hsim).
      specialize (IH p' w' Hs' Hsim).
      destruct (run k (observed b) s0 p' ops) as [trp p''].
      destruct (run k W WInit w' ops) as [trw w''].
      destruct IH as [Ht Hsim']. split; [|assumption].
      cbn [map fst snd]. rewrite He, Ho', Ht. reflexivity.
  Qed.

  (* finalisation: the non-forwarding wrapper simply dies and g is finalised once - any body;
     the forwarding wrapper passes GeneratorExit on, and agrees if the body honours it *)
  Lemma sim_drop : forall p w,
    fwd = false \/ honours_close b ->
    sim p w -> erase (drop W WK w) = drop (observed b) nokill p.
  Proof.
    intros p w Hh H. destruct H as [| s | s |]; try reflexivity;
      subst W WK; unfold drop, wrap_gen, wrap_loop, wkill, drop, gen_op, observed, settle, pep479, nokill;
      destruct fwd.
    all: try (destruct (b s (ThrowE GenExit)) as [y s' | rv | x] eqn:Eb; cbn; reflexivity).
    all: destruct Hh as [Hh | Hh]; [discriminate|].
    all: destruct (b s (ThrowE GenExit)) as [y s' | rv | x] eqn:Eb;
      [ exfalso; exact (Hh _ _ _ Eb)
      | destruct k; reflexivity
      | destruct k; destruct (x =? StopIter); try destruct (x =? StopAsyncIter); reflexivity ].
  Qed.
End Simulation.

(* ------------------------------------------------------------------------------------ *)
(* What IS preserved by /repo's wrapper (and by any variant): next()/send()-only          *)
(* histories - yielded values, values sent in, exceptions raised by the body, the return  *)
(* value, behaviour after exhaustion, finalisation.                                        *)
Theorem wrap_gen_send_only {S} : forall (k : kind) (b : body S) (s0 : S) (ops : list op),
  k <> KCoro ->
  forallb is_send ops = true ->
  erase_obs (wrapped_observe_with false k b s0 ops) = plain_observe k b s0 ops.
Proof.
  intros k b s0 ops Hk Hs. unfold wrapped_observe_with, plain_observe, observe.
  pose proof (sim_run false k b s0 Hk ops GCreated GCreated (or_intror Hs) sim_created) as H.
  destruct (run k (observed b) s0 GCreated ops) as [trp p'].
  destruct (run k (wrap_gen false k (observed b) nokill s0) WInit GCreated ops) as [trw w'].
  destruct H as [Ht Hsim]. unfold erase_obs; cbn [fst snd]. rewrite Ht.
  rewrite (sim_drop false k b s0 Hk _ _ (or_introl eq_refl) Hsim). reflexivity.
Qed.

(* The forwarding variant: every history.  For every body the answers to the operations (and
   what the body sees during them) are those of the original; if the body honours the close
   contract, so is finalisation. *)
Theorem wrap_gen_fwd_ops {S} : forall (k : kind) (b : body S) (s0 : S) (ops : list op),
  k <> KCoro ->
  fst (erase_obs (wrapped_observe_with true k b s0 ops)) = fst (plain_observe k b s0 ops).
Proof.
  intros k b s0 ops Hk. unfold wrapped_observe_with, plain_observe, observe.
  pose proof (sim_run true k b s0 Hk ops GCreated GCreated (or_introl eq_refl) sim_created) as H.
  destruct (run k (observed b) s0 GCreated ops) as [trp p'].
  destruct (run k (wrap_gen true k (observed b) nokill s0) WInit GCreated ops) as [trw w'].
  destruct H as [Ht Hsim]. unfold erase_obs; cbn [fst snd]. exact Ht.
Qed.

Theorem wrap_gen_fwd_full {S} : forall (k : kind) (b : body S) (s0 : S) (ops : list op),
  k <> KCoro ->
  honours_close b ->
  erase_obs (wrapped_observe_with true k b s0 ops) = plain_observe k b s0 ops.
Proof.
  intros k b s0 ops Hk Hc. unfold wrapped_observe_with, plain_observe, observe.
  pose proof (sim_run true k b s0 Hk ops GCreated GCreated (or_introl eq_refl) sim_created) as H.
  destruct (run k (observed b) s0 GCreated ops) as [trp p'].
  destruct (run k (wrap_gen true k (observed b) nokill s0) WInit GCreated ops) as [trw w'].
  destruct H as [Ht Hsim]. unfold erase_obs; cbn [fst snd]. rewrite Ht.
  rewrite (sim_drop true k b s0 Hk _ _ (or_intror Hc) Hsim). reflexivity.
Qed.

(* ------------------------------------------------------------------------------------ *)
(* Witnesses (replayed on the real code by the harness).                                *)

(* gen_ret: `x = yield 1; return 7` *)
Definition wit_ret : body Z := fun s r =>
  match r with
  | SendV _ => if s =? 0 then BYield 1 1 else BReturn 7
  | ThrowE e => BRaise e
  end.

(* gen_catch: `try: yield 1  except ValueError: yield 5` then return None *)
Definition wit_catch : body Z := fun s r =>
  match r with
  | SendV _ => if s =? 0 then BYield 1 1 else BReturn 0
  | ThrowE e => if (s =? 1) && (e =? ValueErr) then BYield 5 2 else BRaise e
  end.

(* gen_stubborn: `yield 1` and on GeneratorExit `yield 2` (ignores close) *)
Definition wit_stubborn : body Z := fun s r =>
  match r with
  | SendV _ => if s =? 0 then BYield 1 1 else BReturn 0
  | ThrowE e => if e =? GenExit then BYield 2 2 else BRaise e
  end.

(* the return value is kept (was dropped before /repo commit 44481f3) *)
Lemma return_value_kept :
  erase_obs (wrapped_observe_with false KGen wit_ret 0 [OpNext; OpNext])
  = ([([EIn (SendV 0)], OYield 1); ([EIn (SendV 0)], OStop 7)], [])
  /\ plain_observe KGen wit_ret 0 [OpNext; OpNext]
  = ([([EIn (SendV 0)], OYield 1); ([EIn (SendV 0)], OStop 7)], []).
Proof. split; vm_compute; reflexivity. Qed.

Lemma refuted_throw :
  erase_obs (wrapped_observe_with false KGen wit_catch 0 [OpNext; OpThrow ValueErr])
  = ([([EIn (SendV 0)], OYield 1); ([EIn (ThrowE GenExit)], ORaise ValueErr)], [])
  /\ plain_observe KGen wit_catch 0 [OpNext; OpThrow ValueErr]
  = ([([EIn (SendV 0)], OYield 1); ([EIn (ThrowE ValueErr)], OYield 5)], [EIn (ThrowE GenExit)]).
Proof. split; vm_compute; reflexivity. Qed.

Lemma refuted_close :
  erase_obs (wrapped_observe_with false KGen wit_stubborn 0 [OpNext; OpClose])
  = ([([EIn (SendV 0)], OYield 1); ([EIn (ThrowE GenExit)], ONone)], [])
  /\ plain_observe KGen wit_stubborn 0 [OpNext; OpClose]
  = ([([EIn (SendV 0)], OYield 1); ([EIn (ThrowE GenExit)], ORaise RuntimeErr)], [EIn (ThrowE GenExit)]).
Proof. split; vm_compute; reflexivity. Qed.

Lemma refuted_athrow :
  erase_obs (wrapped_observe_with false KAsync wit_catch 0 [OpNext; OpThrow ValueErr])
  = ([([EIn (SendV 0)], OYield 1); ([EIn (ThrowE GenExit)], ORaise ValueErr)], [])
  /\ plain_observe KAsync wit_catch 0 [OpNext; OpThrow ValueErr]
  = ([([EIn (SendV 0)], OYield 1); ([EIn (ThrowE ValueErr)], OYield 5)], [EIn (ThrowE GenExit)]).
Proof. split; vm_compute; reflexivity. Qed.

Lemma refuted_aclose :
  erase_obs (wrapped_observe_with false KAsync wit_stubborn 0 [OpNext; OpClose])
  = ([([EIn (SendV 0)], OYield 1); ([EIn (ThrowE GenExit)], ONone)], [])
  /\ plain_observe KAsync wit_stubborn 0 [OpNext; OpClose]
  = ([([EIn (SendV 0)], OYield 1); ([EIn (ThrowE GenExit)], ORaise RuntimeErr)], [EIn (ThrowE GenExit)]).
Proof. split; vm_compute; reflexivity. Qed.

(* a non-trivial next()/send()-only history with a return value *)
Definition wit_echo : body Z := fun s r =>
  match r with
  | SendV v => if s <? 3 then BYield (10 + v) (s + 1) else BReturn 9
  | ThrowE e => BRaise e
  end.

Lemma partial_nonvacuous :
  forallb is_send [OpNext; OpSend 2; OpSend 3; OpNext; OpNext] = true
  /\ plain_observe KGen wit_echo 0 [OpNext; OpSend 2; OpSend 3; OpNext; OpNext]
     = ([([EIn (SendV 0)], OYield 10); ([EIn (SendV 2)], OYield 12); ([EIn (SendV 3)], OYield 13);
         ([EIn (SendV 0)], OStop 9); ([], OStop 0)], [])
  /\ wrapped_observe_with false KGen wit_echo 0 [OpNext; OpSend 2]
     = ([([EEnable; EIn (SendV 0); EDisable], OYield 10); ([EEnable; EIn (SendV 2); EDisable], OYield 12)],
        [EIn (ThrowE GenExit)]).
Proof. repeat split; vm_compute; reflexivity. Qed.

(* the property at full strength for a wrapper variant *)
Definition transparent_for (fwd : bool) (k : kind) : Prop :=
  forall (S : Type) (b : body S) (s0 : S) (ops : list op),
    erase_obs (wrapped_observe_with fwd k b s0 ops) = plain_observe k b s0 ops.

Lemma generator_full_false : ~ transparent_for false KGen.
Proof.
  intros H. specialize (H Z wit_catch 0 [OpNext; OpThrow ValueErr]).
  destruct refuted_throw as [Hw Hp]. rewrite Hw, Hp in H. discriminate.
Qed.

Lemma async_generator_full_false : ~ transparent_for false KAsync.
Proof.
  intros H. specialize (H Z wit_catch 0 [OpNext; OpThrow ValueErr]).
  destruct refuted_athrow as [Hw Hp]. rewrite Hw, Hp in H. discriminate.
Qed.

(* what holds of the wrapper /repo contains, whichever it is (compiles for either value of
   repo_forwards): refuted without forwarding, transparent (close contract) with it *)
Definition current_claim (fwd : bool) : Prop :=
  if fwd then
    forall (k : kind) (S : Type) (b : body S) (s0 : S) (ops : list op),
      k <> KCoro -> honours_close b ->
      erase_obs (wrapped_observe_with true k b s0 ops) = plain_observe k b s0 ops
  else ~ transparent_for false KGen /\ ~ transparent_for false KAsync.

Lemma current_claim_holds : current_claim repo_forwards.
Proof.
  unfold repo_forwards.
  match goal with
  | |- current_claim true => exact (fun k S b s0 ops Hk Hc => wrap_gen_fwd_full k b s0 ops Hk Hc)
  | |- current_claim false => exact (conj generator_full_false async_generator_full_false)
  end.
Qed.
