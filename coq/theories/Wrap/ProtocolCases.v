(* Wrap/ProtocolCases.v - what the C03 case shards evaluate with vm_compute.
   For every case the harness supplies the implementation's observed output; each
   `*_ok` returns (model output = implementation output, property holds on the
   implementation's output).  Executable definitions only. *)
From Coq Require Import List ZArith Bool Lia String.
From LP Require Import Wrap.Protocol Wrap.ProtocolTable Wrap.GenWrap Wrap.CoroWrap Wrap.GenWrapFun Wrap.GenWrapRepaired.
Import ListNotations.
Open Scope Z_scope.

(* ---- protocol stream: generators / coroutines / async generators --------------------- *)
Definition model_obs (k : kind) (wrapped : bool) (t : table) (ops : list op) : zobs :=
  enc_obs
    (if wrapped then
       match k with
       | KCoro => coro_wrapped_observe (tbody t) 0 ops
       | _ => wrapped_observe k (tbody t) 0 ops
       end
     else observe k (observed (tbody t)) nokill 0 ops).

(* the hypotheses of C03_coroutine, decided on a table and an op list *)
Definition table_honours_close (t : table) : bool :=
  forallb (fun row => match nth_error row 3 with Some (AY _ _ _) => false | _ => true end) t.
Definition coro_hyp (t : table) (ops : list op) : bool :=
  table_honours_close t && forallb no_ge_throw ops.

Lemma table_honours_close_sound : forall t, table_honours_close t = true -> honours_close (tbody t).
Proof.
  intros t H s v s'. unfold tbody. cbn [col thrown idx option_map].
  change (ValueErr =? GenExit) with false. change (KeyErr =? GenExit) with false.
  change (GenExit =? GenExit) with true. cbn [option_map].
  destruct (nth_error t (Z.to_nat s)) as [row|] eqn:Er; [|discriminate].
  unfold table_honours_close in H. rewrite forallb_forall in H.
  specialize (H row (nth_error_In _ _ Er)).
  destruct (nth_error row 3) as [[k e n | k e | e |]|]; try discriminate.
Qed.

(* the close contract decides whether FINALISATION is judged: a body that yields while it is being
   finalised is in error (CPython reports RuntimeError to sys.unraisablehook) and what it observes
   afterwards is not claimed.  The answers to the operations are always judged. *)
Definition gen_spec (t : table) (impl ref : zobs) : bool :=
  list_eqb zlist_eqb (fst (zerase_obs impl)) (fst ref)
  && (negb (table_honours_close t) || zlist_eqb (snd (zerase_obs impl)) (snd ref)).

(* impl: what the real (wrapped or unwrapped) object did; ref: what the real UNWRAPPED object
   did.  For coroutines the property is only claimed under the hypotheses of C03_coroutine. *)
Definition pcase_ok (k : kind) (wrapped : bool) (t : table) (ops : list op) (impl ref : zobs) : bool * bool :=
  (zobs_eqb (model_obs k wrapped t ops) impl,
   match k with
   | KCoro => negb (coro_hyp t ops) || zobs_eqb (zerase_obs impl) ref
   | _ => gen_spec t impl ref
   end).

(* ---- nest stream: decorated functions / `with profiler:` blocks inside one another ----- *)
Inductive layer := LWrap (p : Z) | LWith (p : Z).

(* `with prof:` is __enter__ = enable_by_count, __exit__ = disable_by_count: for the block it
   guards this is the same bracket as wrap_function (build_on below) *)
Definition enc_fres (r : fres) : Z := match r with FRet v => 1000 + v | FRaise e => 4000 + e end.

(* the innermost, undecorated function: returns / raises r and counts that it ran (slot 9 of the
   counter table is not a profiler; it stands for the body's side effect) *)
Definition inner_fn (r : fres) : fn := fun _ m =>
  (r, {| owner := owner m; count := upd (count m) 9 (count m 9 + 1) |}).

Fixpoint build_on (ls : list layer) (f : fn) : fn :=
  match ls with
  | [] => f
  | LWrap p :: r => wrap_function p (build_on r f)
  | LWith p :: r => wrap_function p (build_on r f)
  end.

(* [result; tool id free afterwards; enable_count of profilers 0..3 afterwards; times the body ran] *)
Definition nest_obs (ls : list layer) (r : fres) : list Z :=
  let '(res, m) := build_on ls (inner_fn r) 0 mon0 in
  [enc_fres res; match owner m with None => 1 | Some _ => 0 end; count m 0; count m 1; count m 2; count m 3; count m 9].

Definition ncase_ok (ls : list layer) (r : fres) (impl : list Z) : bool * bool :=
  (zlist_eqb (nest_obs ls r) impl,
   (nth 0 impl (-1) =? enc_fres r) && (nth 1 impl (-1) =? 1) && (nth 6 impl (-1) =? 1)).

(* ---- metadata stream ------------------------------------------------------------------- *)
Definition kind_eqb (a b : fkind) : bool :=
  match a, b with
  | FPlain, FPlain | FGenerator, FGenerator | FCoroutine, FCoroutine | FAsyncGenerator, FAsyncGenerator
  | FGenCoroutine, FGenCoroutine => true
  | _, _ => false
  end.
Definition optstr_eqb (a b : option string) : bool :=
  match a, b with
  | None, None => true
  | Some x, Some y => String.eqb x y
  | _, _ => false
  end.
Definition fmeta_eqb (a b : fmeta) : bool :=
  String.eqb (m_name a) (m_name b) && optstr_eqb (m_doc a) (m_doc b) && (m_sig a =? m_sig b) && kind_eqb (m_kind a) (m_kind b).

(* orig: the decorated function's metadata; impl: the metadata of what the profiler returned *)
Definition mcase_ok (orig impl : fmeta) : bool * bool :=
  (fmeta_eqb (wrap_meta orig) impl, fmeta_eqb impl orig).

(* ---- await stream: the operations go to a coroutine that awaits the callable's result --------- *)
(* k = KGen: a generator function marked @types.coroutine; k = KCoro: a coroutine function *)
Definition await_model (k : kind) (wrapped : bool) (t : table) (ops : list op) : zobs :=
  enc_obs
    (match k, wrapped with
     | KCoro, false => awaited_observe KCoro (observed (tbody t)) nokill 0 ops
     | KCoro, true => awaited_observe KCoro (wrap_coro (observed (tbody t)) nokill 0) (ckill (observed (tbody t)) nokill) CInit ops
     | _, false => awaited_observe KGen (observed (tbody t)) nokill 0 ops
     | _, true => awaited_observe KGen (wrap_gen repo_forwards KGen (observed (tbody t)) nokill 0)
                                  (wkill (observed (tbody t)) nokill) WInit ops
     end).

(* judged whenever the body honours the close contract *)
Definition acase_ok (k : kind) (wrapped : bool) (t : table) (ops : list op) (impl ref : zobs) : bool * bool :=
  (zobs_eqb (await_model k wrapped t ops) impl,
   negb (table_honours_close t) || zobs_eqb (zerase_obs impl) ref).

(* ---- kern stream: decorated calls interleaved with ticks of kernprof's interval timer ---------- *)
(* prof: 0 = LineProfiler (kernprof -l -i), 1 = ContextualProfile (kernprof -b -i); the decorated function
   returns its argument + 10.  impl: the results of the calls as observed under the real kernprof.main *)
Definition kern_fn : Z -> fres := fun a => FRet (a + 10).
Definition kcase_ok (prof : Z) (steps : list pstep) (impl : list Z) : bool * bool :=
  let tick := if prof =? 0 then dump_line_profiler 5 else dump_cprofile 5 in
  (zlist_eqb (map enc_fres (fst (run_steps tick (wrap_function 5 (pure kern_fn)) steps mon0))) impl,
   zlist_eqb (map (fun a => enc_fres (kern_fn a)) (call_args steps)) impl).

(* ---- diagnostic: does the implementation behave like the OTHER wrapper variant? ----------
   Evaluated only when the model named by `repo_forwards` disagrees with the implementation: if
   every wrapped generator / async generator case agrees with the other variant, the tree has
   changed sides and the line `Definition repo_forwards` in Wrap/GenWrap.v has to be flipped. *)
Definition rcase_ok (k : kind) (t : table) (ops : list op) (impl : zobs) : bool :=
  zobs_eqb (enc_obs (wrapped_observe_with (negb repo_forwards) k (tbody t) 0 ops)) impl.
