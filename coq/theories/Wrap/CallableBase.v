(* C16 - the algebra of supported callables and the observations the translated
   dispatch code (Gen/Dispatch.v: ByCountProfilerMixin.wrap_callable,
   line_profiler._get_underlying_functions) makes on them. *)
From LP Require Import Prelude.Py.

Inductive fkind := KPlain | KGen | KCoro | KAsyncGen.

(* A Python object that can be handed to the profiler's decorator.
   `Fn k f`      - a def / generator / async def / async generator function object, identity f
   `Wrapped k f` - the wrapper function THIS profiler made earlier for `Fn k f`
                   (carries __line_profiler_id__ == id(profiler), __wrapped__ is f)
   the rest      - the standard-library wrapper objects around callables. *)
Inductive callable :=
| Fn (k : fkind) (f : Z)
| Wrapped (k : fkind) (f : Z)
| ClassM (c : callable)              (* classmethod(c) *)
| StaticM (c : callable)             (* staticmethod(c) *)
| Bound (c : callable)               (* types.MethodType(c, obj) *)
| Partial (c : callable)             (* functools.partial(c, *args, **kw) *)
| PartialM (c : callable)            (* functools.partialmethod(c, *args, **kw) *)
| PropOf (g s d : option callable)     (* property(fget, fset, fdel) *)
| CachedProp (c : callable).         (* functools.cached_property(c) *)

(* ---- the predicates of profiler_mixin.py ----------------------------------------- *)
Definition is_classmethod (c : callable) : bool := match c with ClassM _ => true | _ => false end.
Definition is_staticmethod (c : callable) : bool := match c with StaticM _ => true | _ => false end.
Definition is_boundmethod (c : callable) : bool := match c with Bound _ => true | _ => false end.
Definition is_partialmethod (c : callable) : bool := match c with PartialM _ => true | _ => false end.
Definition is_partial (c : callable) : bool := match c with Partial _ => true | _ => false end.
Definition is_property (c : callable) : bool := match c with PropOf _ _ _ => true | _ => false end.
Definition is_cached_property (c : callable) : bool := match c with CachedProp _ => true | _ => false end.
Definition fkind_eqb (a b : fkind) : bool :=
  match a, b with KPlain, KPlain | KGen, KGen | KCoro, KCoro | KAsyncGen, KAsyncGen => true | _, _ => false end.
Definition has_kind (k : fkind) (c : callable) : bool :=
  match c with Fn k' _ | Wrapped k' _ => fkind_eqb k k' | _ => false end.
(* inspect.isasyncgenfunction / iscoroutinefunction / isgeneratorfunction on what reaches them *)
Definition is_async_generator := has_kind KAsyncGen.
Definition is_coroutine := has_kind KCoro.
Definition is_generator := has_kind KGen.
(* inspect.isfunction *)
Definition is_function (c : callable) : bool := match c with Fn _ _ | Wrapped _ _ => true | _ => false end.
(* builtin callable(): classmethod / property / partialmethod / cached_property objects are not *)
Definition py_callable (c : callable) : bool :=
  match c with Fn _ _ | Wrapped _ _ | Bound _ | Partial _ | StaticM _ => true | _ => false end.

(* ---- attribute reads --------------------------------------------------------------- *)
Definition attr___func__ (c : callable) : callable :=
  match c with ClassM x | StaticM x | Bound x => x | _ => c end.
Definition attr_func (c : callable) : callable :=
  match c with Partial x | PartialM x | CachedProp x => x | _ => c end.
Definition attr_fget (c : callable) : option callable := match c with PropOf g _ _ => g | _ => None end.
Definition attr_fset (c : callable) : option callable := match c with PropOf _ s _ => s | _ => None end.
Definition attr_fdel (c : callable) : option callable := match c with PropOf _ _ d => d | _ => None end.
(* type(func).__call__ of a callable object that is not a function: not in the algebra *)
Definition type_call (c : callable) : callable := c.

(* which wrap_* method wrap_callable hands the object to *)
Inductive wkind :=
| WClassmethod | WStaticmethod | WBoundmethod | WPartialmethod | WPartial | WProperty
| WCachedProperty | WAsyncGenerator | WCoroutine | WGenerator | WFunction.
