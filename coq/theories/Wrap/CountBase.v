(* C05 - the state the translated by-count methods (Gen/ByCount.v) run on, and the
   model of the CPython 3.12 environment they call into.

   `pstate` is what ONE call of a profiler method can see and change: the
   `enable_count` it reads (for LineProfiler the calling thread's
   `threaddata.enable_count`, for ContextualProfile the plain attribute), the calling
   thread's trace slot (`sys.gettrace() is profiler`), the interpreter-wide
   sys.monitoring PROFILER_ID registration, and whether the calling thread is the main
   thread.  Wrap/Count.v embeds it in a thread-indexed world.

   The four environment functions are validated on every run by the C05
   correspondence (observed `sys.gettrace()` / `sys.monitoring.get_tool`). *)
From LP Require Import Prelude.Py.

Record pstate := mk_pstate {
  f_enable_count : Z;     (* self.enable_count as seen from the calling thread *)
  f_trace : bool;         (* the calling thread's trace slot holds the profiler *)
  f_tool : bool;          (* sys.monitoring.get_tool(PROFILER_ID) is not None *)
  f_is_main : bool        (* threading.current_thread() == threading.main_thread() *)
}.

Definition set_enable_count (v : Z) (s : pstate) : pstate :=
  mk_pstate v (f_trace s) (f_tool s) (f_is_main s).
Definition set_trace (v : bool) (s : pstate) : pstate :=
  mk_pstate (f_enable_count s) v (f_tool s) (f_is_main s).
Definition set_tool (v : bool) (s : pstate) : pstate :=
  mk_pstate (f_enable_count s) (f_trace s) v (f_is_main s).

(* sys.monitoring.use_tool_id(PROFILER_ID, name): ValueError when the id is in use *)
Definition env_use_tool (s : pstate) : res (unit * pstate) :=
  if f_tool s then Err ValueError else Ok (tt, set_tool true s).
(* sys.monitoring.free_tool_id(PROFILER_ID) *)
Definition env_free_tool (s : pstate) : res (unit * pstate) := Ok (tt, set_tool false s).
(* PyEval_SetTrace(python_trace_callback, self): this thread's slot now holds the profiler *)
Definition env_settrace (s : pstate) : pstate := set_trace true s.
(* unset_trace() == PyEval_SetTrace(NULL, NULL) *)
Definition env_unsettrace (s : pstate) : pstate := set_trace false s.

(* cProfile.Profile.enable()/disable() on CPython 3.12: the profiler is a
   sys.monitoring tool for the whole interpreter; the trace slot is not used. *)
Definition cprofile_enable (s : pstate) : res (unit * pstate) := env_use_tool s.
Definition cprofile_disable (s : pstate) : res (unit * pstate) := env_free_tool s.
