(* Wrap/GenWrapFun.v - ByCountProfilerMixin.wrap_function, the part of enable_by_count /
   disable_by_count that a decorated callable can observe (success or ValueError from
   sys.monitoring.use_tool_id on CPython 3.12), and functools.wraps metadata.

       def wrapper(ARGS):
           self.enable_by_count()
           try:
               result = func(ARGS)
           finally:
               self.disable_by_count()
           return result

   LineProfiler.enable():  sys.monitoring.use_tool_id(PROFILER_ID, 'line_profiler')   (main thread)
   LineProfiler.disable(): sys.monitoring.free_tool_id(PROFILER_ID)
   cProfile.Profile.enable()/disable() (kernprof.ContextualProfile) claim/free the same id.
   use_tool_id raises ValueError when the id is already in use.  Hand model, tied by
   correspondence (stream "nest" of harness/props/c03.py). *)
From Coq Require Import List ZArith Bool Lia String.
From LP Require Import Wrap.Protocol.
Import ListNotations.
Open Scope Z_scope.

(* process state a decorated call can observe: who holds sys.monitoring.PROFILER_ID, and each
   profiler instance's enable_count (main thread) *)
Record mon := { owner : option Z; count : Z -> Z }.

Definition upd (f : Z -> Z) (p n : Z) : Z -> Z := fun q => if q =? p then n else f q.
Definition mon0 : mon := {| owner := None; count := fun _ => 0 |}.

(* if self.enable_count == 0: self.enable();  self.enable_count += 1 *)
Definition enable_by_count (p : Z) (m : mon) : option exc * mon :=
  if count m p =? 0 then
    match owner m with
    | None => (None, {| owner := Some p; count := upd (count m) p 1 |})
    | Some _ => (Some ValueErr, m)                      (* use_tool_id: already in use *)
    end
  else (None, {| owner := owner m; count := upd (count m) p (count m p + 1) |}).

(* if self.enable_count > 0: self.enable_count -= 1; if self.enable_count == 0: self.disable() *)
Definition disable_by_count (p : Z) (m : mon) : mon :=
  if 0 <? count m p then
    let c := count m p - 1 in
    {| owner := if c =? 0 then None else owner m; count := upd (count m) p c |}
  else m.

Inductive fres := FRet (v : val) | FRaise (e : exc).

(* a Python function of one (encoded) argument list; it may itself call decorated code, so it
   runs in and may change the profiler state *)
Definition fn := Z -> mon -> fres * mon.
Definition pure (g : Z -> fres) : fn := fun a m => (g a, m).

Definition wrap_function (p : Z) (f : fn) : fn := fun a m =>
  match enable_by_count p m with
  | (Some e, m1) => (FRaise e, m1)                      (* raised before the try statement *)
  | (None, m1) =>
      let '(r, m2) := f a m1 in (r, disable_by_count p m2)
  end.

(* profiler p can be switched on: it already is, or nobody holds the tool id *)
Definition can_enable (p : Z) (m : mon) : Prop := count m p <> 0 \/ owner m = None.

Lemma enable_ok : forall p m, can_enable p m -> fst (enable_by_count p m) = None.
Proof.
  intros p m [H | H]; unfold enable_by_count.
  - apply Z.eqb_neq in H. rewrite H. reflexivity.
  - rewrite H. destruct (count m p =? 0); reflexivity.
Qed.

(* the wrapper hands back exactly what the callee handed back - for every callee *)
Theorem wrap_function_result : forall p f a m,
  can_enable p m ->
  fst (wrap_function p f a m) = fst (f a (snd (enable_by_count p m))).
Proof.
  intros p f a m H. unfold wrap_function. pose proof (enable_ok p m H) as E.
  destruct (enable_by_count p m) as [[e|] m1]; cbn in E; [discriminate|].
  cbn [snd]. destruct (f a m1) as [r m2]. reflexivity.
Qed.

Theorem wrap_function_pure : forall p g a m,
  can_enable p m -> fst (wrap_function p (pure g) a m) = g a.
Proof. intros p g a m H. rewrite (wrap_function_result p _ a m H). reflexivity. Qed.

(* the same profiler may be nested in itself to any depth (by-count) *)
Fixpoint wrap_n (n : nat) (p : Z) (f : fn) : fn :=
  match n with O => f | S n' => wrap_function p (wrap_n n' p f) end.

Lemma enabled_count_nonzero : forall p m,
  0 <= count m p -> can_enable p m ->
  let m1 := snd (enable_by_count p m) in count m1 p <> 0 /\ 0 <= count m1 p.
Proof.
  intros p m Hc H. unfold enable_by_count.
  destruct (count m p =? 0) eqn:E.
  - destruct H as [H | H]; [apply Z.eqb_eq in E; contradiction|].
    rewrite H. cbn. unfold upd. rewrite Z.eqb_refl. lia.
  - cbn. unfold upd. rewrite Z.eqb_refl. apply Z.eqb_neq in E. lia.
Qed.

Theorem wrap_same_profiler_nested : forall n p g a m,
  0 <= count m p -> can_enable p m -> fst (wrap_n n p (pure g) a m) = g a.
Proof.
  induction n as [|n IH]; intros p g a m Hc H; cbn [wrap_n].
  - reflexivity.
  - rewrite (wrap_function_result p _ a m H).
    destruct (enabled_count_nonzero p m Hc H) as [Hnz Hge].
    apply IH; [assumption | left; assumption].
Qed.

(* a different profiler inside an enabled one: the decorated callee is never reached *)
Theorem two_profilers_raise : forall p q g a,
  p <> q ->
  fst (wrap_function p (wrap_function q (pure g)) a mon0) = FRaise ValueErr.
Proof.
  intros p q g a Hpq. unfold wrap_function at 1. cbn.
  unfold wrap_function, enable_by_count. cbn. unfold upd.
  assert (E : (q =? p) = false) by (apply Z.eqb_neq; congruence).
  rewrite E. cbn. reflexivity.
Qed.

(* ... and afterwards the outer profiler is off again and the tool id is free: only the call failed *)
Lemma two_profilers_state_restored : forall p q g a,
  p <> q ->
  let m := snd (wrap_function p (wrap_function q (pure g)) a mon0) in
  owner m = None /\ count m p = 0 /\ count m q = 0.
Proof.
  intros p q g a Hpq. unfold wrap_function at 1. cbn.
  unfold wrap_function, enable_by_count. cbn. unfold upd.
  assert (E : (q =? p) = false) by (apply Z.eqb_neq; congruence).
  rewrite E. cbn. unfold disable_by_count. cbn. unfold upd. rewrite Z.eqb_refl. cbn.
  rewrite Z.eqb_refl, E. repeat split; reflexivity.
Qed.

Definition const7 : Z -> fres := fun _ => FRet 7.

Lemma two_profilers_witness :
  fst (wrap_function 1 (wrap_function 2 (pure const7)) 0 mon0) = FRaise ValueErr
  /\ const7 0 = FRet 7
  /\ fst (wrap_function 1 (wrap_function 1 (pure const7)) 0 mon0) = FRet 7.
Proof. repeat split; vm_compute; reflexivity. Qed.

(* ---- kernprof -i: the interval timer --------------------------------------------------- *)
(* `kernprof -i N` starts RepeatedTimer(N, prof.dump_stats, outfile): every N seconds another thread
   calls prof.dump_stats(outfile) while the program - and the callables it decorated with kernprof's
   profiler - keeps running.  What that call does to the state a decorated call can observe:
     LineProfiler.dump_stats      : get_stats() + pickle                      - nothing
     ContextualProfile (cProfile) : Profile.dump_stats -> create_stats() -> self.disable():
                                    the tool id is released if this profiler holds it;
                                    enable_count is NOT touched
   Hand model of that glue, tied by correspondence (stream "kern" of harness/props/c03.py: the real
   kernprof.main runs in-process, the function it hands to RepeatedTimer is called from a thread). *)
Definition dump_line_profiler (p : Z) (m : mon) : mon := m.
Definition dump_cprofile (p : Z) (m : mon) : mon :=
  match owner m with
  | Some q => if q =? p then {| owner := None; count := count m |} else m
  | None => m
  end.

(* a program under kernprof: calls of decorated functions (argument a) interleaved with timer ticks *)
Inductive pstep := SCall (a : Z) | STick.

Fixpoint run_steps (tick : mon -> mon) (f : fn) (steps : list pstep) (m : mon) : list fres * mon :=
  match steps with
  | [] => ([], m)
  | SCall a :: rest => let '(r, m1) := f a m in let '(rs, m2) := run_steps tick f rest m1 in (r :: rs, m2)
  | STick :: rest => run_steps tick f rest (tick m)
  end.

Fixpoint call_args (steps : list pstep) : list Z :=
  match steps with [] => [] | SCall a :: r => a :: call_args r | STick :: r => call_args r end.

(* the bookkeeping invariant the wrappers rely on: whenever this profiler's count is 0 nobody holds
   the tool id (so enable() will succeed) *)
Definition timer_inv (p : Z) (m : mon) : Prop := 0 <= count m p /\ (count m p = 0 -> owner m = None).

Lemma timer_inv_can_enable : forall p m, timer_inv p m -> can_enable p m.
Proof.
  intros p m [Hc Ho]. destruct (Z.eq_dec (count m p) 0) as [E | E]; [right; auto | left; exact E].
Qed.

Lemma wrap_pure_keeps_inv : forall p g a m,
  timer_inv p m -> timer_inv p (snd (wrap_function p (pure g) a m)).
Proof.
  intros p g a m [Hc Ho]. unfold wrap_function, enable_by_count, pure.
  destruct (count m p =? 0) eqn:E.
  - apply Z.eqb_eq in E. rewrite (Ho E). cbn. unfold disable_by_count. cbn. unfold upd. rewrite Z.eqb_refl. cbn.
    unfold timer_inv. cbn. rewrite Z.eqb_refl. split; [lia | reflexivity].
  - apply Z.eqb_neq in E. cbn. unfold disable_by_count. cbn. unfold upd. rewrite Z.eqb_refl.
    destruct (0 <? count m p + 1) eqn:E2; [|lia].
    replace (count m p + 1 - 1) with (count m p) by lia.
    apply Z.eqb_neq in E. rewrite E. unfold timer_inv. cbn. rewrite Z.eqb_refl.
    split; [lia | intros H; apply Z.eqb_neq in E; contradiction].
Qed.

Lemma dump_cprofile_keeps_inv : forall p m, timer_inv p m -> timer_inv p (dump_cprofile p m).
Proof.
  intros p m [Hc Ho]. unfold dump_cprofile, timer_inv.
  destruct (owner m) as [q|] eqn:Eo; [|rewrite Eo; auto].
  destruct (q =? p); cbn; [auto | rewrite Eo; auto].
Qed.

(* ticks that respect the invariant never change what a decorated call returns *)
Theorem timer_harmless : forall (tick : mon -> mon) p g,
  (forall m, timer_inv p m -> timer_inv p (tick m)) ->
  forall steps m, timer_inv p m ->
    fst (run_steps tick (wrap_function p (pure g)) steps m) = map g (call_args steps).
Proof.
  intros tick p g Ht. induction steps as [|st rest IH]; intros m Hi; cbn [run_steps call_args map].
  - reflexivity.
  - destruct st as [a|].
    + pose proof (wrap_function_pure p g a m (timer_inv_can_enable p m Hi)) as Hr.
      pose proof (wrap_pure_keeps_inv p g a m Hi) as Hi'.
      destruct (wrap_function p (pure g) a m) as [r m1]. cbn in Hr, Hi'.
      specialize (IH m1 Hi'). destruct (run_steps tick (wrap_function p (pure g)) rest m1) as [rs m2].
      cbn in *. rewrite Hr, IH. reflexivity.
    + apply IH. apply Ht. exact Hi.
Qed.

Corollary timer_harmless_cprofile : forall p g steps,
  fst (run_steps (dump_cprofile p) (wrap_function p (pure g)) steps mon0) = map g (call_args steps).
Proof.
  intros. apply timer_harmless; [apply dump_cprofile_keeps_inv|].
  split; cbn; [lia | reflexivity].
Qed.

Corollary timer_harmless_line_profiler : forall p g steps,
  fst (run_steps (dump_line_profiler p) (wrap_function p (pure g)) steps mon0) = map g (call_args steps).
Proof.
  intros. apply timer_harmless; [auto|]. split; cbn; [lia | reflexivity].
Qed.

(* why the timer must stay out of the by-count bookkeeping: a tick that switched the profiler back on
   (dump, then prof.enable()) leaves "enabled with count 0", and the next decorated call raises *)
Definition dump_and_resume (p : Z) (m : mon) : mon :=
  let m1 := dump_cprofile p m in
  match owner m1 with None => {| owner := Some p; count := count m1 |} | Some _ => m1 end.

Lemma resuming_tick_breaks_calls :
  fst (run_steps (dump_and_resume 2) (wrap_function 2 (pure const7)) [SCall 0; STick; SCall 0] mon0)
  = [FRet 7; FRaise ValueErr].
Proof. vm_compute. reflexivity. Qed.

(* ---- metadata ------------------------------------------------------------------------ *)
(* FGenCoroutine: a generator function carrying CO_ITERABLE_COROUTINE (@types.coroutine): for inspect it
   is a generator function (isgeneratorfunction, not iscoroutinefunction), and its result may be awaited *)
Inductive fkind := FPlain | FGenerator | FCoroutine | FAsyncGenerator | FGenCoroutine.

(* what inspect / help() show of a function: __name__, __doc__, inspect.signature (an opaque
   id), and which of isgeneratorfunction / iscoroutinefunction / isasyncgenfunction holds
   (plus the iterable-coroutine flag) *)
Record fmeta := { m_name : string; m_doc : option string; m_sig : Z; m_kind : fkind }.

(* the four closures in profiler_mixin.py before functools.wraps is applied: all are called
   wrapper, undocumented, take (star-args, star-star-kwds) (signature id -1); their kind is fixed by how
   they are written (def / def+yield / async def / async def+yield) *)
Definition template (k : fkind) : fmeta :=
  {| m_name := "wrapper"%string; m_doc := None; m_sig := -1; m_kind := k |}.

(* functools.wraps(func): __name__, __doc__ (also __qualname__, __module__, __dict__) are copied
   and __wrapped__ = func, which inspect.signature follows.  Code flags are not touched. *)
Definition wraps (orig tmpl : fmeta) : fmeta :=
  {| m_name := m_name orig; m_doc := m_doc orig; m_sig := m_sig orig; m_kind := m_kind tmpl |}.

(* wrap_callable's elif chain for plain functions: is_async_generator (inspect.isasyncgenfunction),
   is_coroutine (inspect.iscoroutinefunction), is_generator (inspect.isgeneratorfunction), else function -
   each picks the wrap_* whose closure has that kind.  A @types.coroutine function is a generator
   function for inspect: it gets wrap_generator's plain `def ... yield` closure ... *)
Definition dispatch (m : fmeta) : fkind :=
  match m_kind m with
  | FAsyncGenerator => FAsyncGenerator
  | FCoroutine => FCoroutine
  | FGenerator => FGenerator
  | FGenCoroutine => FGenerator
  | FPlain => FPlain
  end.

(* ... which wrap_generator then marks with types.coroutine when the decorated function carries
   CO_ITERABLE_COROUTINE (since /repo f61df74):
       if func.__code__.co_flags & inspect.CO_ITERABLE_COROUTINE: wrapper = types.coroutine(wrapper)
   types.coroutine on a generator function sets the flag on its code and returns the function *)
Definition types_coroutine (t : fmeta) : fmeta :=
  {| m_name := m_name t; m_doc := m_doc t; m_sig := m_sig t;
     m_kind := match m_kind t with FGenerator => FGenCoroutine | k => k end |}.

Definition wrap_meta (m : fmeta) : fmeta :=
  let w := wraps m (template (dispatch m)) in
  match m_kind m with FGenCoroutine => types_coroutine w | _ => w end.

Theorem wrap_meta_id : forall m, wrap_meta m = m.
Proof. intros [n d s k]. destruct k; reflexivity. Qed.

(* name, doc and signature are kept for every kind (also without the f61df74 marking) *)
Theorem wrap_meta_names : forall m,
  m_name (wrap_meta m) = m_name m /\ m_doc (wrap_meta m) = m_doc m /\ m_sig (wrap_meta m) = m_sig m.
Proof. intros [n d s k]. destruct k; repeat split. Qed.

(* the marking is needed: without it the kind of a @types.coroutine function is not preserved (the result
   of the decorated function could not be awaited) - what /repo did before f61df74 *)
Theorem unmarked_gencoroutine_loses_kind : forall m,
  m_kind m = FGenCoroutine ->
  m_kind (wraps m (template (dispatch m))) = FGenerator /\ wraps m (template (dispatch m)) <> m.
Proof.
  intros [n d s k] H. cbn in H. subst k. split; [reflexivity|]. unfold wraps; cbn. congruence.
Qed.

Lemma wrap_meta_nonvacuous :
  wrap_meta {| m_name := "fib"%string; m_doc := Some "doc"%string; m_sig := 3; m_kind := FAsyncGenerator |}
  = {| m_name := "fib"%string; m_doc := Some "doc"%string; m_sig := 3; m_kind := FAsyncGenerator |}
  /\ template FAsyncGenerator <> {| m_name := "fib"%string; m_doc := Some "doc"%string; m_sig := 3; m_kind := FAsyncGenerator |}
  /\ wrap_meta {| m_name := "sleep0"%string; m_doc := None; m_sig := 1; m_kind := FGenCoroutine |}
     = {| m_name := "sleep0"%string; m_doc := None; m_sig := 1; m_kind := FGenCoroutine |}.
Proof. split; [reflexivity | split; [discriminate | reflexivity]]. Qed.
