(* Wrap/ProtocolTable.v - table-driven body automata (the bodies the correspondence
   harness generates as REAL Python generators / coroutines / async generators, see
   harness/drivers/c03.py::make_body) and the integer encoding of observations that
   the case shards use.  Executable definitions only. *)
From Coq Require Import List ZArith Bool Lia.
From LP Require Import Wrap.Protocol.
Import ListNotations.
Open Scope Z_scope.

Inductive action :=
| AY (k : Z) (echo : bool) (nxt : Z)     (* yield k (+ the value sent in if echo); continue in state nxt *)
| AR (k : Z) (echo : bool)               (* return k (+ the value sent in if echo) *)
| AX (e : exc)                           (* raise e *)
| ARR.                                   (* re-raise what was thrown in (ValueError after a send) *)

Definition table := list (list action).

(* column 0: resumed by a send; column i+1: resumed by a throw of the i-th of these *)
Definition thrown : list exc :=
  [ValueErr; KeyErr; GenExit; StopIter; StopAsyncIter; KeyboardInt; SystemExitErr; CancelledErr; UserSignal].

Fixpoint idx (l : list Z) (x : Z) : option nat :=
  match l with
  | [] => None
  | y :: t => if y =? x then Some O else option_map S (idx t x)
  end.

Definition col (r : resume) : option nat :=
  match r with
  | SendV _ => Some O
  | ThrowE e => option_map S (idx thrown e)
  end.

Definition sent (r : resume) : Z := match r with SendV v => v | ThrowE _ => 0 end.
Definition reraise (r : resume) : bstep Z :=
  match r with ThrowE e => BRaise e | SendV _ => BRaise ValueErr end.

Definition tbody (t : table) : body Z := fun s r =>
  match col r with
  | None => reraise r
  | Some c =>
      match nth_error t (Z.to_nat s) with
      | None => BRaise OtherErr
      | Some row =>
          match nth_error row c with
          | None => reraise r                      (* a short row: no handler for this exception *)
          | Some (AY k echo n) => BYield (k + (if echo then sent r else 0)) n
          | Some (AR k echo) => BReturn (k + (if echo then sent r else 0))
          | Some (AX e) => BRaise e
          | Some ARR => reraise r
          end
      end
  end.

(* ---- integer encoding shared with harness/drivers/c03.py ------------------------- *)
Definition enc_event (e : event) : Z :=
  match e with
  | EEnable => 1
  | EDisable => 2
  | EIn (SendV v) => 100 + v
  | EIn (ThrowE x) => 200 + x
  end.
Definition enc_outcome (o : outcome) : Z :=
  match o with
  | OYield v => 1000 + v
  | OStop v => 2000 + v
  | OStopAsync => 3000
  | ORaise e => 4000 + e
  | ONone => 5000
  end.
Definition zobs := (list (list Z) * list Z)%type.
Definition enc_obs (o : list (list event * outcome) * list event) : zobs :=
  (map (fun p => map enc_event (fst p) ++ [enc_outcome (snd p)]) (fst o), map enc_event (snd o)).

Definition zlist_eqb := list_eqb Z.eqb.
Definition zobs_eqb (a b : zobs) : bool :=
  list_eqb zlist_eqb (fst a) (fst b) && zlist_eqb (snd a) (snd b).

(* drop the profiler-switching events (codes 1 and 2; outcomes are >= 1000) *)
Definition zerase (l : list Z) : list Z := filter (fun z => negb ((z =? 1) || (z =? 2))) l.
Definition zerase_obs (o : zobs) : zobs := (map zerase (fst o), zerase (snd o)).

Fixpoint false_indices_from (i : Z) (l : list bool) : list Z :=
  match l with
  | [] => []
  | b :: t => (if b then [] else [i]) ++ false_indices_from (i + 1) t
  end.
Definition false_indices (l : list bool) : list Z := false_indices_from 0 l.
