(* C05 - the by-count discipline: executable definitions.

   World = thread-indexed embedding of the state the translated methods
   (Gen/ByCount.v) act on; `step` runs a translated method in a thread; `run` a
   whole multi-thread history.  The reference counter (`clamp_step`, `ref_count`)
   is the property read literally.  Proofs: Wrap/CountProofs.v. *)
From LP Require Import Prelude.Py Wrap.CountBase Gen.ByCount.

Inductive kind := LP    (* line_profiler.LineProfiler *)
                | CP.   (* kernprof.ContextualProfile *)
Inductive prim := En    (* enable_by_count / __enter__ *)
                | Dis.  (* disable_by_count / __exit__ *)

Definition thread := Z.
Definition main_thread : thread := 0.

Record world := mk_world {
  w_count : Z -> Z;          (* enable_count cells, see `key` *)
  w_trace : thread -> bool;  (* thread's trace slot holds the profiler *)
  w_tool : bool              (* PROFILER_ID registered *)
}.

Definition upd {A} (f : Z -> A) (k : Z) (v : A) : Z -> A :=
  fun x => if Z.eqb x k then v else f x.

(* which cell a thread's `self.enable_count` denotes: decided by the source
   (Gen/ByCount.v: threading.local() vs plain attribute) *)
Definition thread_local (k : kind) : bool :=
  match k with LP => lp_count_thread_local | CP => cp_count_thread_local end.
Definition key (k : kind) (t : thread) : Z := if thread_local k then t else 0.

Definition view (k : kind) (t : thread) (w : world) : pstate :=
  mk_pstate (w_count w (key k t)) (w_trace w t) (w_tool w) (Z.eqb t main_thread).
Definition store (k : kind) (t : thread) (s : pstate) (w : world) : world :=
  mk_world (upd (w_count w) (key k t) (f_enable_count s)) (upd (w_trace w) t (f_trace s)) (f_tool s).

Definition meth (k : kind) (p : prim) (s : pstate) : res (unit * pstate) :=
  match k, p with
  | LP, En => lp_enable_by_count s
  | LP, Dis => lp_disable_by_count s
  | CP, En => cp_enable_by_count s true true
  | CP, Dis => cp_disable_by_count s
  end.

Definition step (k : kind) (t : thread) (p : prim) (w : world) : res world :=
  match meth k p (view k t w) with
  | Ok (_, s) => Ok (store k t s w)
  | Err e => Err e
  end.

Fixpoint run (k : kind) (h : list (thread * prim)) (w : world) : res world :=
  match h with
  | [] => Ok w
  | (t, p) :: h' => match step k t p w with Ok w' => run k h' w' | Err e => Err e end
  end.

Definition w0 : world := mk_world (fun _ => 0) (fun _ => false) false.

(* ---- the reference counter: entries minus exits, surplus exits ignored ------- *)
Definition clamp_step (c : Z) (p : prim) : Z :=
  match p with En => c + 1 | Dis => Z.max 0 (c - 1) end.
Definition ref_count (ps : list prim) (c : Z) : Z := fold_left clamp_step ps c.

(* the operations a thread issued itself *)
Definition own (t : thread) (h : list (thread * prim)) : list prim :=
  map snd (filter (fun x => Z.eqb (fst x) t) h).

Fixpoint n_en (ps : list prim) : Z :=
  match ps with [] => 0 | En :: r => 1 + n_en r | Dis :: r => n_en r end.
Fixpoint n_dis (ps : list prim) : Z :=
  match ps with [] => 0 | Dis :: r => 1 + n_dis r | En :: r => n_dis r end.

(* nesting depth after `ps` starting from depth d; None = an exit without a matching
   earlier entry (a surplus disable) *)
Fixpoint depth (ps : list prim) (d : Z) : option Z :=
  match ps with
  | [] => Some d
  | En :: r => depth r (d + 1)
  | Dis :: r => if 0 <? d then depth r (d - 1) else None
  end.
Definition no_surplus (ps : list prim) (d : Z) : bool :=
  match depth ps d with Some _ => true | None => false end.
(* ... and every entry is exited: what completed calls / with-blocks / generator steps /
   finished or closed coroutines contribute, however such pieces interleave *)
Definition matched (ps : list prim) : bool :=
  match depth ps 0 with Some e => e =? 0 | None => false end.

(* ---- the invariant ----------------------------------------------------------- *)
Definition inv (k : kind) (w : world) : Prop :=
  (forall x, 0 <= w_count w x)
  /\ w_tool w = (0 <? w_count w 0)
  /\ (k = LP -> forall t, w_trace w t = (0 <? w_count w t)).

(* pointwise equality of worlds (no functional extensionality needed) *)
Definition weq (a b : world) : Prop :=
  (forall x, w_count a x = w_count b x) /\ (forall t, w_trace a t = w_trace b t) /\ w_tool a = w_tool b.

(* ---- decorated callables as trees of executed operations --------------------- *)
(* wrap_function / wrap_generator (one resume) / wrap_coroutine (run to the end) /
   `with profiler:` all have the shape
       enable_by_count(); try: BODY finally: disable_by_count()
   = `Block BODY`.  One resume of a wrapped generator is such a block around g.send(x); so
   is the turn that forwards close() / throw() / the finalisation of a dropped, suspended
   wrapper into the wrapped generator (g.throw(exc) between the same pair).  `Seq a b` runs
   b unless a raised; `Raise` raises; `Catch b` is user code swallowing whatever b raises;
   `Skip` stands for the operations that run no step at all (creating a wrapped generator,
   closing / dropping one that was never started, next() of an exhausted one).  `exec`
   gives the by-count operations that actually run, in order, and whether an exception
   leaves the construct. *)
Inductive op :=
| Prim (p : prim)
| Skip
| Raise
| Seq (a b : op)
| Block (body : op)
| Catch (body : op).

Fixpoint exec (o : op) : list prim * bool :=
  match o with
  | Prim p => ([p], false)
  | Skip => ([], false)
  | Raise => ([], true)
  | Seq a b => let '(pa, ra) := exec a in
               if ra then (pa, true) else let '(pb, rb) := exec b in (pa ++ pb, rb)
  | Block body => let '(ps, raised) := exec body in (En :: ps ++ [Dis], raised)
  | Catch body => (fst (exec body), false)
  end.

(* a callable's body is `disciplined` when it uses the profiler only through decorated
   calls / with-blocks (no bare enable_by_count / disable_by_count of its own) *)
Fixpoint disciplined (o : op) : bool :=
  match o with
  | Prim _ => false
  | Skip | Raise => true
  | Seq a b => disciplined a && disciplined b
  | Block body | Catch body => disciplined body
  end.

Definition on_thread (t : thread) (ps : list prim) : list (thread * prim) := map (fun p => (t, p)) ps.

(* ---- the abstract machine the translated methods are proved to implement ------ *)
Definition astep (k : kind) (t : thread) (p : prim) (w : world) : world :=
  let c := clamp_step (w_count w (key k t)) p in
  mk_world (upd (w_count w) (key k t) c)
           (match k with LP => upd (w_trace w) t (0 <? c) | CP => w_trace w end)
           (match k with LP => if t =? main_thread then 0 <? c else w_tool w | CP => 0 <? c end).
Fixpoint arun (k : kind) (h : list (thread * prim)) (w : world) : world :=
  match h with [] => w | (t, p) :: h' => arun k h' (astep k t p w) end.
