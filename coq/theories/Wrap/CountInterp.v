(* C05 - the executable bridge used by the correspondence shards.

   A history of public operations (`cop`, mirrored by harness/drivers/c05.py) is first
   expanded - by the hand model of the wrappers in profiler_mixin.py and of the
   generator / coroutine / async-generator objects - into a flat list of events
   (by-count operations and observation points, each tagged with its thread); the events
   are then played on a machine:
     * `model k`: the translated methods (Wrap/Count.v `step`), observing
       enable_count / trace slot / tool exactly where the driver observes them;
     * `spec k n`: the property read literally - one reference counter PER THREAD,
       tracing on iff it is positive, tool held iff the main thread's (LineProfiler) /
       some thread's (ContextualProfile) counter is positive.
   Theorem `lp_meets_spec` (CountInterpProofs.v): for LineProfiler the two machines give
   the same observations on every event list. *)
From LP Require Import Prelude.Py Wrap.CountBase Gen.ByCount Wrap.Count.

Inductive objop :=
| GNew (n : Z) | GNewR (n : Z) | GNext | GClose | GThrow | GDrop
| CoStart | CoResume | CoClose | CoThrow | CoDrop
| AgStart | AgResume | AgClose.

Inductive cop :=
| CPrim (p : prim)        (* enable_by_count() / disable_by_count() *)
| CCtx (p : prim)         (* __enter__() / __exit__(None, None, None) *)
| CObs
| CRaise
| CSeq (a b : cop)
| CCall (body : cop)      (* decorated plain function (wrap_function) *)
| CWith (body : cop)      (* with profiler: body *)
| CCatch (body : cop)
| CRun (body : cop)       (* run(stmt) / runctx(stmt, g, l) with a str or a code object / runcall(f): the
                            statement or function executes `body` *)
| CRunEmpty               (* run('') / runctx('', g, l) *)
| CRunBad                 (* a statement that does not COMPILE: exec raises SyntaxError before running anything *)
| CObj (o : objop) (s : Z).

(* wrapped generator not yet started with k resumes to go / suspended at a yield with k
   resumes left / suspended wrapped coroutine / wrapped async generator suspended inside a
   step / between steps (one more step ends it) *)
Inductive slot := SEmpty | SGenFresh (k : Z) | SGenSusp (k : Z) | SCo | SAgMid | SAgYield.

Inductive event := EPrim (t : thread) (p : prim) | EObs (t : thread) | EObsAll.

(* One resume of wrap_generator / wrap_async_generator is
       enable_by_count(); try: item = g.send(x) | g.throw(exc)  finally: disable_by_count()
   close() / throw() / dropping a SUSPENDED wrapper raises at the wrapper's own `yield`, is
   caught there and forwarded to the wrapped generator by one more such turn (the wrapped
   body's clean-up code - which observes - runs inside it).  On a wrapper that was never
   started nothing runs.  The bodies used by the driver observe once per resume and once
   in their clean-up code. *)
Definition gen_step (t : thread) : list event := [EPrim t En; EObs t; EPrim t Dis].

Definition obj_expand (t : thread) (o : objop) (st : slot) : list event * slot :=
  match o, st with
  | GNew n, SEmpty | GNewR n, SEmpty => ([], SGenFresh (n + 1))   (* GNewR: the body raises instead of returning *)
  | GNext, SGenFresh k | GNext, SGenSusp k => (gen_step t, if k <=? 1 then SEmpty else SGenSusp (k - 1))
  | GClose, SGenFresh _ | GThrow, SGenFresh _ | GDrop, SGenFresh _ => ([], SEmpty)
  | GClose, SGenSusp _ | GThrow, SGenSusp _ | GDrop, SGenSusp _ => (gen_step t, SEmpty)
  | CoStart, SEmpty => ([EPrim t En; EObs t], SCo)
  | CoResume, SCo => ([EObs t; EPrim t Dis], SEmpty)
  | CoClose, SCo | CoThrow, SCo | CoDrop, SCo => ([EObs t; EPrim t Dis], SEmpty)
  | AgStart, SEmpty => ([EPrim t En; EObs t], SAgMid)
  | AgResume, SAgMid => ([EObs t; EPrim t Dis], SAgYield)
  | AgResume, SAgYield => (gen_step t, SEmpty)
  | AgClose, SAgMid => ([EObs t; EPrim t Dis], SEmpty)
  | AgClose, SAgYield => (gen_step t, SEmpty)
  | _, _ => ([], st)
  end.

Definition is_gen_op (o : objop) : bool :=
  match o with GNew _ | GNewR _ | GNext | GClose | GThrow | GDrop => true | _ => false end.

(* events, new slots, and whether an exception leaves the construct *)
Fixpoint expand (t : thread) (c : cop) (sl : Z -> slot) : list event * (Z -> slot) * bool :=
  match c with
  | CPrim p | CCtx p => ([EPrim t p], sl, false)
  | CObs => ([EObs t], sl, false)
  | CRaise => ([], sl, true)
  | CSeq a b =>
      let '(ea, sa, ra) := expand t a sl in
      if ra then (ea, sa, true)
      else let '(eb, sb, rb) := expand t b sa in (ea ++ eb, sb, rb)
  | CCall body | CWith body | CRun body =>
      let '(eb, sb, rb) := expand t body sl in (EPrim t En :: eb ++ [EPrim t Dis], sb, rb)
  | CRunEmpty => ([EPrim t En; EPrim t Dis], sl, false)
  | CRunBad => ([EPrim t En; EPrim t Dis], sl, true)
  | CCatch body => let '(eb, sb, _) := expand t body sl in (eb, sb, false)
  | CObj o s => let '(e, st) := obj_expand t o (sl s) in (e, upd sl s st, false)
  end.

Fixpoint expand_hist (h : list (thread * cop)) (sl : Z -> slot) : list event :=
  match h with
  | [] => []
  | (t, c) :: h' => let '(e, sl', _) := expand t c sl in e ++ EObsAll :: expand_hist h' sl'
  end.

(* the flat by-count history inside an event list: what `run` of Wrap/Count.v consumes *)
Fixpoint prims_of (evs : list event) : list (thread * prim) :=
  match evs with
  | [] => []
  | EPrim t p :: r => (t, p) :: prims_of r
  | _ :: r => prims_of r
  end.

Record machine (M : Type) := mk_machine {
  m_step : thread -> prim -> M -> option M;
  m_obs : thread -> M -> list Z
}.
Arguments mk_machine {M}.
Arguments m_step {M}.
Arguments m_obs {M}.

Fixpoint threads_from (i : Z) (n : nat) : list thread :=
  match n with O => [] | S n' => i :: threads_from (i + 1) n' end.

Fixpoint play {M} (mc : machine M) (n : nat) (evs : list event) (m : M) : list Z :=
  match evs with
  | [] => []
  | EPrim t p :: r => match m_step mc t p m with
                      | Some m' => play mc n r m'
                      | None => [-1]
                      end
  | EObs t :: r => m_obs mc t m ++ play mc n r m
  | EObsAll :: r => flat_map (fun t => m_obs mc t m) (threads_from 0 n) ++ play mc n r m
  end.

Definition model (k : kind) : machine world :=
  mk_machine
    (fun t p w => match step k t p w with Ok w' => Some w' | Err _ => None end)
    (fun t w => [w_count w (key k t); Z.b2z (w_trace w t); Z.b2z (w_tool w)]).

Definition spec (k : kind) (n : nat) : machine (thread -> Z) :=
  mk_machine
    (fun t p f => Some (upd f t (clamp_step (f t) p)))
    (fun t f => [f t;
                 match k with LP => Z.b2z (0 <? f t) | CP => 0 end;
                 match k with
                 | LP => Z.b2z (0 <? f main_thread)
                 | CP => Z.b2z (existsb (fun u => 0 <? f u) (threads_from 0 n))
                 end]).

Definition no_slots : Z -> slot := fun _ => SEmpty.

Definition model_out (k : kind) (n : nat) (h : list (thread * cop)) : list Z :=
  play (model k) n (expand_hist h no_slots) w0.
Definition spec_out (k : kind) (n : nat) (h : list (thread * cop)) : list Z :=
  play (spec k n) n (expand_hist h no_slots) (fun _ => 0).

(* one correspondence case: (model agrees with the implementation's observations,
   the implementation's observations satisfy the property) *)
Definition case_ok (k : kind) (n : nat) (h : list (thread * cop)) (impl : list Z) : bool * bool :=
  (list_eqb Z.eqb (model_out k n h) impl, list_eqb Z.eqb (spec_out k n h) impl).

(* the tree of Wrap/Count.v that an object-free cop denotes *)
Fixpoint abstract (c : cop) : op :=
  match c with
  | CPrim p | CCtx p => Prim p
  | CObs => Skip
  | CRaise => Raise
  | CSeq a b => Seq (abstract a) (abstract b)
  | CCall body | CWith body | CRun body => Block (abstract body)
  | CRunEmpty => Block Skip
  | CRunBad => Block Raise
  | CCatch body => Catch (abstract body)
  | CObj _ _ => Skip
  end.
Fixpoint object_free (c : cop) : bool :=
  match c with
  | CObj _ _ => false
  | CSeq a b => object_free a && object_free b
  | CCall b | CWith b | CCatch b | CRun b => object_free b
  | _ => true
  end.
