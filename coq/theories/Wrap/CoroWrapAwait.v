(* Wrap/CoroWrapAwait.v - awaiting a decorated @types.coroutine generator function.

   `async def outer(): return await f()` is how another coroutine (an event loop's task) uses a
   generator function marked @types.coroutine.  Since /repo f61df74 the profiler's wrapper keeps that mark,
   so `await decorated()` delegates to the wrapper generator (Wrap/GenWrap.v, forwarding variant), which in
   turn drives the decorated generator.  Theorem: what a client of `outer` sees is what it sees when `outer`
   awaits the original - every body that honours the close contract, every history. *)
From Coq Require Import List ZArith Bool Lia.
From LP Require Import Wrap.Protocol Wrap.GenWrap Wrap.CoroWrap.
Import ListNotations.
Open Scope Z_scope.

Section AwaitWrapped.
  Context {S : Type}.
  Variable b : body S.
  Variable s0 : S.
  Hypothesis Hclose : honours_close b.

  Let W := wrap_gen true KGen (observed b) nokill s0.
  Let WK := wkill (observed b) nokill.
  Let Ap := await_of KGen (observed b) nokill s0.
  Let Aw := await_of KGen W WK WInit.

  Lemma kgen_not_coro : KGen <> KCoro.
  Proof. discriminate. Qed.

  (* what the two awaiting frames do next is related *)
  Inductive brel : bstep (cstate S) -> bstep (cstate (wstate S)) -> Prop :=
  | brel_yield : forall x p w, sim p w -> brel (BYield x (CAwait p)) (BYield x (CAwait w))
  | brel_return : forall v, brel (BReturn v) (BReturn v)
  | brel_raise : forall e, brel (BRaise e) (BRaise e).

  Inductive crel : cstate S -> cstate (wstate S) -> Prop :=
  | crel_init : crel CInit CInit
  | crel_await : forall p w, sim p w -> crel (CAwait p) (CAwait w).

  Inductive asim : gstate (cstate S) -> gstate (cstate (wstate S)) -> Prop :=
  | asim_created : asim GCreated GCreated
  | asim_susp : forall cp cw, crel cp cw -> asim (GSuspended cp) (GSuspended cw)
  | asim_closed : asim GClosed GClosed.

  Lemma drop_rel : forall p w, sim p w -> erase (drop W WK w) = drop (observed b) nokill p.
  Proof. intros p w H. exact (sim_drop true KGen b s0 kgen_not_coro p w (or_intror Hclose) H). Qed.

  Lemma after_rel : forall evp evw out p' w',
    erase evw = evp -> sim p' w' ->
    erase (fst (after_plain_await W WK evw out w')) = fst (after_plain_await (observed b) nokill evp out p')
    /\ brel (snd (after_plain_await (observed b) nokill evp out p')) (snd (after_plain_await W WK evw out w')).
  Proof.
    intros evp evw out p' w' He Hs. destruct out; cbn [after_plain_await fst snd];
      rewrite ?erase_app, ?He, ?(drop_rel _ _ Hs); split; try reflexivity; constructor; assumption.
  Qed.

  (* one resumption of the awaiting frames *)
  Lemma body_rel : forall cp cw r,
    crel cp cw ->
    erase (fst (Aw cw r)) = fst (Ap cp r) /\ brel (snd (Ap cp r)) (snd (Aw cw r)).
  Proof.
    intros cp cw r H. subst Ap Aw. destruct H as [| p w Hs]; destruct r as [v | e]; unfold await_of.
    - pose proof (sim_step true KGen b s0 kgen_not_coro GCreated GCreated (OpSend vnone) (or_introl eq_refl) sim_created) as Hst.
      fold W in Hst.
      destruct (gen_op KGen (observed b) s0 GCreated (OpSend vnone)) as [[evp outp] p'].
      destruct (gen_op KGen W WInit GCreated (OpSend vnone)) as [[evw outw] w'].
      destruct Hst as (He & Ho & Hs'). subst outw. apply after_rel; assumption.
    - cbn. split; [reflexivity | constructor].
    - pose proof (sim_step true KGen b s0 kgen_not_coro p w (OpSend v) (or_introl eq_refl) Hs) as Hst.
      fold W in Hst.
      destruct (gen_op KGen (observed b) s0 p (OpSend v)) as [[evp outp] p'].
      destruct (gen_op KGen W WInit w (OpSend v)) as [[evw outw] w'].
      destruct Hst as (He & Ho & Hs'). subst outw. apply after_rel; assumption.
    - destruct (e =? GenExit).
      + pose proof (sim_step true KGen b s0 kgen_not_coro p w OpClose (or_introl eq_refl) Hs) as Hst.
        fold W in Hst.
        destruct (gen_op KGen (observed b) s0 p OpClose) as [[evp outp] p'].
        destruct (gen_op KGen W WInit w OpClose) as [[evw outw] w'].
        destruct Hst as (He & Ho & Hs'). subst outw.
        destruct outp; cbn [fst snd]; rewrite ?erase_app, ?He, ?(drop_rel _ _ Hs'); split; try reflexivity; constructor.
      + pose proof (sim_step true KGen b s0 kgen_not_coro p w (OpThrow e) (or_introl eq_refl) Hs) as Hst.
        fold W in Hst.
        destruct (gen_op KGen (observed b) s0 p (OpThrow e)) as [[evp outp] p'].
        destruct (gen_op KGen W WInit w (OpThrow e)) as [[evw outw] w'].
        destruct Hst as (He & Ho & Hs'). subst outw. apply after_rel; assumption.
  Qed.

  Lemma settle_rel : forall rp rw,
    brel rp rw ->
    fst (settle KCoro rw) = fst (settle KCoro rp) /\ asim (snd (settle KCoro rp)) (snd (settle KCoro rw)).
  Proof.
    intros rp rw H. destruct H; cbn; split; try reflexivity; repeat constructor; assumption.
  Qed.

  Lemma settle_close_rel : forall rp rw,
    brel rp rw ->
    fst (settle_close KCoro rw) = fst (settle_close KCoro rp)
    /\ asim (snd (settle_close KCoro rp)) (snd (settle_close KCoro rw)).
  Proof.
    intros rp rw H. destruct H; cbn; split; try reflexivity; repeat constructor; assumption.
  Qed.

  Lemma asim_step : forall P Q o,
    asim P Q ->
    let '(evp, outp, P') := gen_op KCoro Ap CInit P o in
    let '(evw, outw, Q') := gen_op KCoro Aw CInit Q o in
    erase evw = evp /\ outw = outp /\ asim P' Q'.
  Proof.
    intros P Q o H. destruct H as [| cp cw Hc |]; destruct o as [v | e |]; cbn [gen_op].
    - destruct (v =? vnone); [|repeat split; constructor].
      destruct (body_rel CInit CInit (SendV vnone) crel_init) as [He Hb].
      destruct (Ap CInit (SendV vnone)) as [evp rp]. destruct (Aw CInit (SendV vnone)) as [evw rw].
      cbn [fst snd] in He, Hb. destruct (settle_rel _ _ Hb) as [Ho Hs].
      destruct (settle KCoro rp) as [op P']. destruct (settle KCoro rw) as [ow Q']. cbn in Ho, Hs. subst. auto.
    - repeat split; constructor.
    - repeat split; constructor.
    - destruct (body_rel cp cw (SendV v) Hc) as [He Hb].
      destruct (Ap cp (SendV v)) as [evp rp]. destruct (Aw cw (SendV v)) as [evw rw].
      cbn [fst snd] in He, Hb. destruct (settle_rel _ _ Hb) as [Ho Hs].
      destruct (settle KCoro rp) as [op P']. destruct (settle KCoro rw) as [ow Q']. cbn in Ho, Hs. subst. auto.
    - destruct (body_rel cp cw (ThrowE e) Hc) as [He Hb].
      destruct (Ap cp (ThrowE e)) as [evp rp]. destruct (Aw cw (ThrowE e)) as [evw rw].
      cbn [fst snd] in He, Hb. destruct (settle_rel _ _ Hb) as [Ho Hs].
      destruct (settle KCoro rp) as [op P']. destruct (settle KCoro rw) as [ow Q']. cbn in Ho, Hs. subst. auto.
    - destruct (body_rel cp cw (ThrowE GenExit) Hc) as [He Hb].
      destruct (Ap cp (ThrowE GenExit)) as [evp rp]. destruct (Aw cw (ThrowE GenExit)) as [evw rw].
      cbn [fst snd] in He, Hb. destruct (settle_close_rel _ _ Hb) as [Ho Hs].
      destruct (settle_close KCoro rp) as [op P']. destruct (settle_close KCoro rw) as [ow Q']. cbn in Ho, Hs. subst. auto.
    - repeat split; constructor.
    - repeat split; constructor.
    - repeat split; constructor.
  Qed.

  Lemma asim_run : forall ops P Q,
    asim P Q ->
    let '(trp, P') := run KCoro Ap CInit P ops in
    let '(trw, Q') := run KCoro Aw CInit Q ops in
    map (fun x => (erase (fst x), snd x)) trw = trp /\ asim P' Q'.
  Proof.
    induction ops as [|o ops IH]; intros P Q H; cbn [run].
    - split; [reflexivity | assumption].
    - pose proof (asim_step P Q o H) as Hstep.
      destruct (gen_op KCoro Ap CInit P o) as [[evp outp] P'].
      destruct (gen_op KCoro Aw CInit Q o) as [[evw outw] Q'].
      destruct Hstep as (He & Ho & Hs). specialize (IH P' Q' Hs).
      destruct (run KCoro Ap CInit P' ops) as [trp P''].
      destruct (run KCoro Aw CInit Q' ops) as [trw Q''].
      destruct IH as [Ht Hs']. split; [|assumption].
      cbn [map fst snd]. rewrite He, Ho, Ht. reflexivity.
  Qed.

  (* dropping the awaiting coroutine: GeneratorExit goes down the chain *)
  Lemma asim_drop : forall P Q,
    asim P Q ->
    erase (drop Aw (akill W WK) Q) = drop Ap (akill (observed b) nokill) P.
  Proof.
    intros P Q H. destruct H as [| cp cw Hc |]; try reflexivity. unfold drop.
    destruct (body_rel cp cw (ThrowE GenExit) Hc) as [He Hb].
    destruct (Ap cp (ThrowE GenExit)) as [evp rp]. destruct (Aw cw (ThrowE GenExit)) as [evw rw].
    cbn [fst snd] in He, Hb. rewrite erase_app, He.
    destruct Hb as [x p w Hs | v | e]; try reflexivity.
    cbn [akill]. rewrite (drop_rel _ _ Hs). reflexivity.
  Qed.

  Theorem await_wrapped_transparent : forall ops,
    erase_obs (awaited_observe KGen W WK WInit ops) = awaited_observe KGen (observed b) nokill s0 ops.
  Proof.
    intros ops. unfold awaited_observe, observe. fold Ap. fold Aw.
    pose proof (asim_run ops GCreated GCreated asim_created) as H.
    destruct (run KCoro Ap CInit GCreated ops) as [trp P'].
    destruct (run KCoro Aw CInit GCreated ops) as [trw Q'].
    destruct H as [Ht Hs]. unfold erase_obs; cbn [fst snd].
    rewrite Ht, (asim_drop _ _ Hs). reflexivity.
  Qed.
End AwaitWrapped.

(* `x = await exchange(1)` style body: yields requests, gets replies, handles a thrown KeyError, returns *)
Definition awit : body Z := fun s r =>
  match r with
  | SendV v => if s =? 0 then BYield 1 1 else if s =? 1 then BYield (10 + v) 2 else BReturn (20 + v)
  | ThrowE e => if e =? KeyErr then BYield 5 s else BRaise e
  end.

Lemma awit_honours_close : honours_close awit.
Proof. intros s v s'. unfold awit. cbn. discriminate. Qed.

Lemma await_nonvacuous :
  honours_close awit
  /\ awaited_observe KGen (observed awit) nokill 0 [OpNext; OpSend 2; OpThrow KeyErr; OpSend 3]
     = ([([EIn (SendV 0)], OYield 1); ([EIn (SendV 2)], OYield 12); ([EIn (ThrowE KeyErr)], OYield 5);
         ([EIn (SendV 3)], OStop 23)], [])
  /\ awaited_observe KGen (wrap_gen true KGen (observed awit) nokill 0) (wkill (observed awit) nokill) WInit
       [OpNext; OpClose]
     = ([([EEnable; EIn (SendV 0); EDisable], OYield 1); ([EEnable; EIn (ThrowE GenExit); EDisable], ONone)], []).
Proof. split; [exact awit_honours_close|]. split; vm_compute; reflexivity. Qed.
