(* C05 - the bridge between the correspondence interpreter (CountInterp.v) and the
   theorems (CountProofs.v). *)
From LP Require Import Prelude.Py Wrap.CountBase Gen.ByCount Wrap.Count Wrap.CountProofs Wrap.CountInterp.

(* an object-free public operation expands to exactly the by-count operations of the tree
   the theorems talk about, on the executing thread, with the same exceptional outcome *)
Lemma prims_of_app a b : prims_of (a ++ b) = prims_of a ++ prims_of b.
Proof.
  induction a as [|e a IH]; cbn [app prims_of]; [reflexivity|].
  destruct e; cbn [app]; rewrite IH; reflexivity.
Qed.

Lemma on_thread_app t a b : on_thread t (a ++ b) = on_thread t a ++ on_thread t b.
Proof. unfold on_thread. apply map_app. Qed.

Theorem expand_abstract t c : forall sl,
  object_free c = true ->
  prims_of (fst (fst (expand t c sl))) = on_thread t (fst (exec (abstract c)))
  /\ snd (expand t c sl) = snd (exec (abstract c))
  /\ snd (fst (expand t c sl)) = sl.
Proof.
  induction c as [p|p| | |a IHa b IHb|body IH|body IH|body IH|body IH| | |o s]; intros sl F;
    cbn [object_free expand abstract exec] in *.
  - repeat split.
  - repeat split.
  - repeat split.
  - repeat split.
  - apply andb_prop in F as [Fa Fb].
    destruct (IHa sl Fa) as (A1 & A2 & A3).
    destruct (expand t a sl) as [[ea sa] ra]. destruct (exec (abstract a)) as [pa xa].
    cbn [fst snd] in *. subst xa sa.
    destruct ra; cbn [fst snd]; [repeat split; assumption|].
    destruct (IHb sl Fb) as (B1 & B2 & B3).
    destruct (expand t b sl) as [[eb sb] rb]. destruct (exec (abstract b)) as [pb xb].
    cbn [fst snd] in *. subst xb sb.
    rewrite prims_of_app, on_thread_app, A1, B1. repeat split.
  - destruct (IH sl F) as (A1 & A2 & A3).
    destruct (expand t body sl) as [[eb sb] rb]. destruct (exec (abstract body)) as [pb xb].
    cbn [fst snd] in *. subst xb sb.
    cbn [prims_of]. rewrite prims_of_app, A1. cbn [prims_of on_thread map].
    unfold on_thread. rewrite map_app. cbn [map]. repeat split.
  - destruct (IH sl F) as (A1 & A2 & A3).
    destruct (expand t body sl) as [[eb sb] rb]. destruct (exec (abstract body)) as [pb xb].
    cbn [fst snd] in *. subst xb sb.
    cbn [prims_of]. rewrite prims_of_app, A1. cbn [prims_of on_thread map].
    unfold on_thread. rewrite map_app. cbn [map]. repeat split.
  - destruct (IH sl F) as (A1 & A2 & A3).
    destruct (expand t body sl) as [[eb sb] rb]. destruct (exec (abstract body)) as [pb xb].
    cbn [fst snd] in *. subst sb. repeat split. exact A1.
  - destruct (IH sl F) as (A1 & A2 & A3).
    destruct (expand t body sl) as [[eb sb] rb]. destruct (exec (abstract body)) as [pb xb].
    cbn [fst snd] in *. subst xb sb.
    cbn [prims_of]. rewrite prims_of_app, A1. cbn [prims_of on_thread map].
    unfold on_thread. rewrite map_app. cbn [map]. repeat split.
  - repeat split.
  - repeat split.
  - discriminate.
Qed.

(* Every operation on a wrapped generator object - resume, close, throw, drop, whatever state
   the object is in (never started, suspended, exhausted) - contributes a MATCHED stretch of
   by-count operations: the forwarded close()/throw() turn runs between one
   enable_by_count()/disable_by_count() pair like an ordinary resume. *)
Theorem generator_ops_matched t o st :
  is_gen_op o = true -> matched (map snd (prims_of (fst (obj_expand t o st)))) = true.
Proof. destruct o, st; intros H; try discriminate H; reflexivity. Qed.

(* ... so by C05_matched_restores they leave count, trace slot and tool as found.  A step of a
   wrapped coroutine / async generator that is suspended half-way holds one entry until it is
   resumed, closed, thrown into or dropped; begin and end together are matched. *)
Theorem suspended_steps_matched t :
  matched (map snd (prims_of (fst (obj_expand t CoStart SEmpty) ++ fst (obj_expand t CoClose SCo)))) = true
  /\ matched (map snd (prims_of (fst (obj_expand t CoStart SEmpty) ++ fst (obj_expand t CoResume SCo)))) = true
  /\ matched (map snd (prims_of (fst (obj_expand t AgStart SEmpty) ++ fst (obj_expand t AgClose SAgMid)))) = true
  /\ matched (map snd (prims_of (fst (obj_expand t AgStart SEmpty) ++ fst (obj_expand t AgResume SAgMid)))) = true
  /\ matched (map snd (prims_of (fst (obj_expand t AgClose SAgYield)))) = true
  /\ matched (map snd (prims_of (fst (obj_expand t AgResume SAgYield)))) = true.
Proof. repeat split. Qed.

(* ---- the translated LineProfiler methods meet the literal per-thread reading --------- *)
Lemma lp_obs_eq n w f t :
  inv LP w -> (forall x, w_count w x = f x) ->
  m_obs (model LP) t w = m_obs (spec LP n) t f.
Proof.
  intros (I1 & I2 & I3) C. cbn [m_obs model spec]. rewrite key_lp, (I3 eq_refl t), I2.
  unfold main_thread. rewrite !C. reflexivity.
Qed.

Theorem lp_meets_spec n evs : forall w f,
  inv LP w -> (forall x, w_count w x = f x) ->
  play (model LP) n evs w = play (spec LP n) n evs f.
Proof.
  induction evs as [|e evs IH]; intros w f H C; cbn [play]; [reflexivity|].
  destruct e as [t p|t|].
  - destruct (step_spec LP t p w H) as (w' & E & Q).
    cbn [m_step model spec]. rewrite E.
    apply IH.
    + apply (weq_inv LP (astep LP t p w)); [apply weq_sym; exact Q|apply astep_inv; exact H].
    + intros x. destruct Q as (Q1 & _). rewrite Q1. unfold astep. rewrite key_lp. cbn [w_count].
      unfold upd. rewrite !C. reflexivity.
  - rewrite (lp_obs_eq n w f t H C). f_equal. apply IH; assumption.
  - f_equal; [|apply IH; assumption].
    induction (threads_from 0 n) as [|u us IHu]; cbn [flat_map]; [reflexivity|].
    rewrite (lp_obs_eq n w f u H C), IHu. reflexivity.
Qed.

Corollary lp_model_is_spec n h : model_out LP n h = spec_out LP n h.
Proof.
  unfold model_out, spec_out. apply lp_meets_spec; [apply inv_w0|reflexivity].
Qed.

(* ContextualProfile: the same per-thread reading fails on a two-thread history *)
Definition cp_witness_hist : list (thread * cop) := [(0, CPrim En); (1, CPrim Dis)].
Theorem cp_fails_spec :
  model_out CP 2 cp_witness_hist = [1; 0; 1; 1; 0; 1; 0; 0; 0; 0; 0; 0]
  /\ spec_out CP 2 cp_witness_hist = [1; 0; 1; 0; 0; 1; 1; 0; 1; 0; 0; 1].
Proof. split; vm_compute; reflexivity. Qed.

(* with one thread ContextualProfile meets it too (the counter is then that thread's) *)
Lemma cp1_obs_eq w f :
  inv CP w -> (forall t, w_trace w t = false) -> w_count w 0 = f 0 ->
  m_obs (model CP) 0 w = m_obs (spec CP 1) 0 f.
Proof.
  intros (I1 & I2 & I3) T C. cbn [m_obs model spec threads_from existsb].
  rewrite key_cp, T, I2, C, orb_false_r. reflexivity.
Qed.

Fixpoint only_thread0 (evs : list event) : bool :=
  match evs with
  | [] => true
  | EPrim t _ :: r | EObs t :: r => (t =? 0) && only_thread0 r
  | EObsAll :: r => only_thread0 r
  end.

Theorem cp_meets_spec_single_thread evs : forall w f,
  only_thread0 evs = true ->
  inv CP w -> (forall t, w_trace w t = false) -> w_count w 0 = f 0 ->
  play (model CP) 1 evs w = play (spec CP 1) 1 evs f.
Proof.
  induction evs as [|e evs IH]; intros w f O H T C; cbn [play]; [reflexivity|].
  destruct e as [t p|t|]; cbn [only_thread0] in O.
  - apply andb_prop in O as [Ot O]. apply Z.eqb_eq in Ot. subst t.
    destruct (step_spec CP 0 p w H) as (w' & E & Q).
    cbn [m_step model spec]. rewrite E.
    apply IH; [exact O| | |].
    + apply (weq_inv CP (astep CP 0 p w)); [apply weq_sym; exact Q|apply astep_inv; exact H].
    + intros t. destruct Q as (_ & Q2 & _). rewrite Q2. unfold astep. cbn [w_trace]. apply T.
    + destruct Q as (Q1 & _). rewrite Q1. unfold astep. rewrite key_cp. cbn [w_count].
      unfold upd. cbn. rewrite C. reflexivity.
  - apply andb_prop in O as [Ot O]. apply Z.eqb_eq in Ot. subst t.
    rewrite (cp1_obs_eq w f H T C). f_equal. apply IH; assumption.
  - cbn [threads_from flat_map]. rewrite (cp1_obs_eq w f H T C). f_equal. apply IH; assumption.
Qed.
