(* C17: the translated get_module_from_importfrom agrees with importlib's
   _resolve_name for every package depth, position, valid level and target. *)
From LP Require Import Prelude.Py Prelude.PyLemmas Gen.RelImport.

(* Specification: importlib._bootstrap._resolve_name(name, package, level)
     bits = package.rsplit('.', level - 1)
     if len(bits) < level: raise ImportError(...)
     base = bits[0]
     return f'{base}.{name}' if name else base
   None stands for the ImportError.  (Validated against importlib.util.resolve_name
   by the correspondence harness.) *)
Definition resolve_name (name : option string) (package : string) (level : Z) : option string :=
  let bits := rsplit_dot package (level - 1) in
  if py_len bits <? level then None
  else match bits with
       | [] => None
       | base :: _ =>
           Some (match name with
                 | Some n => if str_empty n then base else (base ++ "." ++ n)%string
                 | None => base
                 end)
       end.

(* The package python assigns to a module file at dotted position comps ++ [stem]
   (stem = module name, "__init__" or "__main__"): everything but the last component. *)
Definition package_of (pcomps : list string) : string := join "." pcomps.
Definition position (pcomps : list string) (stem : string) : string := join "." (pcomps ++ [stem]).

Lemma firstn_nonempty {A} (l : list A) n : l <> [] -> (0 < n)%nat -> firstn n l <> [].
Proof. destruct l; [congruence|]. destruct n; [lia|]. discriminate. Qed.

Lemma chunks_eq (pcomps : list string) (stem : string) (level : Z) :
  1 <= level <= Z.of_nat (length pcomps) ->
  py_slice (pcomps ++ [stem]) None (Some (- level))
  = firstn (Z.to_nat (Z.of_nat (length pcomps) + 1 - level)) pcomps.
Proof.
  intros H. unfold py_slice, norm_idx. rewrite app_length. cbn [length].
  destruct (- level <? 0) eqn:E; [|lia].
  cbn [skipn Z.to_nat].
  replace (Z.max 0 (Z.min (Z.of_nat (length pcomps + 1)) (- level + Z.of_nat (length pcomps + 1))) - 0)
    with (Z.of_nat (length pcomps) + 1 - level) by lia.
  change (skipn 0 (pcomps ++ [stem])) with (pcomps ++ [stem]).
  rewrite firstn_app.
  replace (Z.to_nat (Z.of_nat (length pcomps) + 1 - level) - length pcomps)%nat with O by lia.
  cbn [firstn]. apply app_nil_r.
Qed.

Lemma base_eq (pcomps : list string) (level : Z) :
  pcomps <> [] -> forallb (no_char dot) pcomps = true ->
  1 <= level <= Z.of_nat (length pcomps) ->
  exists rest,
    rsplit_dot (package_of pcomps) (level - 1)
    = join "." (firstn (Z.to_nat (Z.of_nat (length pcomps) + 1 - level)) pcomps) :: rest
    /\ Z.of_nat (length rest) = level - 1.
Proof.
  intros Hne Hdots Hl. unfold rsplit_dot, package_of.
  change "."%string with (String dot EmptyString).
  rewrite split_join by assumption.
  destruct (Z.of_nat (length pcomps) - 1 <=? level - 1) eqn:E.
  - assert (level = Z.of_nat (length pcomps)) as -> by lia.
    destruct pcomps as [|x t]; [congruence|]. exists t. split.
    + replace (Z.to_nat (Z.of_nat (length (x :: t)) + 1 - Z.of_nat (length (x :: t)))) with 1%nat by lia.
      reflexivity.
    + cbn [length]. lia.
  - exists (skipn (Z.to_nat (Z.of_nat (length pcomps) - (level - 1))) pcomps). split.
    + replace (Z.of_nat (length pcomps) - (level - 1)) with (Z.of_nat (length pcomps) + 1 - level) by lia.
      reflexivity.
    + rewrite skipn_length. lia.
Qed.

Theorem resolve_agrees (pcomps : list string) (stem : string) (level : Z) (target : option string) :
  pcomps <> [] ->
  forallb (no_char dot) (pcomps ++ [stem]) = true ->
  1 <= level <= Z.of_nat (length pcomps) ->
  get_module_from_importfrom level target (position pcomps stem)
  = Ok (resolve_name target (package_of pcomps) level).
Proof.
  intros Hne Hdots Hl.
  assert (Hd2 : forallb (no_char dot) pcomps = true).
  { rewrite forallb_app in Hdots. apply andb_prop in Hdots as [H _]. exact H. }
  unfold get_module_from_importfrom, position, resolve_name.
  destruct (Z.eqb level 0) eqn:E0; [lia|]. cbn [negb].
  change "."%string with (String dot EmptyString) at 1.
  rewrite split_join; [|destruct pcomps; discriminate|exact Hdots].
  rewrite chunks_eq by exact Hl.
  destruct (base_eq pcomps level Hne Hd2 Hl) as [rest [Hb Hr]].
  rewrite Hb. unfold py_len. cbn [length].
  destruct (Z.of_nat (S (length rest)) <? level) eqn:E1; [lia|].
  set (chunks := firstn (Z.to_nat (Z.of_nat (length pcomps) + 1 - level)) pcomps).
  assert (Hc : chunks <> []) by (apply firstn_nonempty; [exact Hne|lia]).
  destruct target as [t|]; [|reflexivity].
  destruct (str_empty t) eqn:Et; cbn [negb]; [reflexivity|].
  rewrite join_snoc by exact Hc. reflexivity.
Qed.

(* level 0 (an absolute import) is returned untouched *)
Theorem absolute_untouched (target : option string) (module : string) :
  get_module_from_importfrom 0 target module = Ok target.
Proof. reflexivity. Qed.

(* Non-vacuity: a concrete position meeting the hypotheses, with its result. *)
Example resolve_example :
  get_module_from_importfrom 2 (Some "baz") "foo.bar.foobar" = Ok (Some "foo.baz")
  /\ resolve_name (Some "baz") "foo.bar" 2 = Some "foo.baz"
  /\ forallb (no_char dot) (["foo"; "bar"] ++ ["foobar"]) = true.
Proof. vm_compute. repeat split. Qed.

(* executable comparison used by the case shards:
   does the implementation's observed answer equal the model's and the spec's? *)
Definition ostr_eqb := opt_eqb String.eqb.
Definition case_ok (level : Z) (target : option string) (module : string)
           (impl_out : option string) (importlib_out : option string) (valid : bool) : bool * bool :=
  let model := match get_module_from_importfrom level target module with Ok r => r | Err _ => None end in
  (ostr_eqb model impl_out,                       (* correspondence model = implementation *)
   if valid then ostr_eqb impl_out importlib_out   (* spec on the implementation's own output *)
   else true).
