(* C18: package_modpaths(with_pkg=True) - the listing the -p selection uses - yields exactly
   the .py files (the __init__.py of the package and of its sub-packages included) whose
   every directory from the package down to their own has an __init__.py. *)
From LP Require Import Prelude.Py Prelude.PyLemmas
     Resolve.FsModel Resolve.FsModelLemmas Resolve.ModPath Resolve.ModPathSpec
     Resolve.ModPathWalk Resolve.ModPathWalkGen.

Lemma py_fname_split f : py_fname f = py_module_fname f || String.eqb f INIT.
Proof.
  unfold py_module_fname, py_fname. destruct (String.eqb_spec f INIT) as [->|Hne].
  - reflexivity.
  - cbn [negb]. rewrite andb_true_r, orb_false_r. reflexivity.
Qed.

Lemma py_module_not_init : py_module_fname INIT = false.
Proof. reflexivity. Qed.

Lemma no_dir_named_child x ch kv :
  no_dir_named x (Dir ch) = true -> In kv ch -> no_dir_named x (snd kv) = true.
Proof.
  cbn [no_dir_named]. rewrite forallb_forall. intros H Hin. specialize (H kv Hin).
  apply andb_prop in H as [_ H]. exact H.
Qed.

Lemma no_dir_named_assoc_file x ch :
  no_dir_named x (Dir ch) = true -> is_some (assoc x ch) = true -> assoc x ch = Some File.
Proof.
  intros Hn Hs. destruct (assoc x ch) as [[|c]|] eqn:E; [reflexivity| |discriminate].
  exfalso. cbn [no_dir_named] in Hn. rewrite forallb_forall in Hn.
  specialize (Hn _ (assoc_in _ _ _ E)). cbn [fst snd node_is_dir] in Hn.
  rewrite String.eqb_refl in Hn. discriminate.
Qed.

(* walking with the filter ".py" = the package's own __init__.py + what the with_pkg walk yields *)
Lemma walk_pkg_walkP n :
  forall dpath q, wf_node n = true -> no_dir_named INIT n = true ->
    (In q (walkP py_fname dpath n)
     <-> (q = dpath ++ [INIT] /\ match n with Dir ch => is_some (assoc INIT ch) = true | File => False end)
         \/ In q (walk_pkg dpath n)).
Proof.
  induction n as [|ch IH] using node_ind'; intros dpath q Hwf Hreg.
  - cbn [walkP walk_pkg]. tauto.
  - destruct (wf_dir _ Hwf) as [Hnd Hch]. rewrite Forall_forall in IH.
    cbn [walkP walk_pkg]. destruct (is_some (assoc INIT ch)) eqn:Ei.
    2:{ split; [contradiction|]. intros [[_ H]|H]; [discriminate|contradiction]. }
    pose proof (no_dir_named_assoc_file _ _ Hreg Ei) as Hinit.
    rewrite !in_app_iff. split.
    + intros [Hf|Hr].
      * apply in_map_iff in Hf as [f [<- Hf]]. apply filter_In in Hf as [Hin Hp].
        rewrite py_fname_split in Hp. apply orb_prop in Hp as [Hp|Hp].
        -- right. left. apply in_map_iff. exists f. split; [reflexivity|].
           apply filter_In. split; assumption.
        -- apply String.eqb_eq in Hp. subst f. left. split; reflexivity.
      * apply in_flat_map in Hr as [[d c] [Hin Hq]]. cbn [fst snd] in Hq.
        destruct c as [|c0]; [contradiction|].
        apply (IH _ Hin (dpath ++ [d]) q (Hch _ Hin) (no_dir_named_child _ _ _ Hreg Hin)) in Hq.
        cbn [snd] in Hq. destruct Hq as [[-> Hc]|Hq].
        -- right. right. left. apply in_flat_map. exists (d, Dir c0). split; [exact Hin|].
           cbn [fst snd]. rewrite Hc. rewrite <- app_assoc. left; reflexivity.
        -- right. right. right. apply in_flat_map. exists (d, Dir c0). split; [exact Hin|exact Hq].
    + intros [[-> _]|[Hf|[Hi|Hr]]].
      * left. apply in_map_iff. exists INIT. split; [reflexivity|]. apply filter_In. split; [|reflexivity].
        apply fnames_in. apply assoc_in. exact Hinit.
      * left. apply in_map_iff in Hf as [f [<- Hf]]. apply filter_In in Hf as [Hin Hp].
        apply in_map_iff. exists f. split; [reflexivity|]. apply filter_In. split; [exact Hin|].
        rewrite py_fname_split, Hp. reflexivity.
      * right. apply in_flat_map in Hi as [[d c] [Hin Hq]]. cbn [fst snd] in Hq.
        destruct c as [|c0]; [contradiction|].
        destruct (is_some (assoc INIT c0)) eqn:Ec; [|contradiction].
        destruct Hq as [<-|[]].
        apply in_flat_map. exists (d, Dir c0). split; [exact Hin|]. cbn [fst snd].
        apply (IH _ Hin (dpath ++ [d]) _ (Hch _ Hin) (no_dir_named_child _ _ _ Hreg Hin)).
        left. cbn [snd]. split; [rewrite <- app_assoc; reflexivity|exact Ec].
      * right. apply in_flat_map in Hr as [[d c] [Hin Hq]]. cbn [fst snd] in Hq.
        destruct c as [|c0]; [contradiction|].
        apply in_flat_map. exists (d, Dir c0). split; [exact Hin|]. cbn [fst snd].
        apply (IH _ Hin (dpath ++ [d]) _ (Hch _ Hin) (no_dir_named_child _ _ _ Hreg Hin)).
        right. exact Hq.
Qed.

Lemma listed_paths_pkg_is_P fs pkg p : listed_paths_pkg fs pkg p = listed_pathsP py_fname fs pkg p.
Proof. reflexivity. Qed.

Lemma listing_with_packages fs pkg :
  wf_node fs = true -> no_dir_named INIT fs = true -> isdir fs pkg = true ->
  forall q, In q (package_modpaths_pkg fs pkg) <-> listed_paths_pkg fs pkg q = true.
Proof.
  intros Hwf Hreg Hdir q. unfold package_modpaths_pkg. unfold isdir in Hdir.
  destruct (get fs pkg) as [[|ch]|] eqn:Hg; try discriminate.
  rewrite listed_paths_pkg_is_P, <- (walkP_listed py_fname fs pkg ch Hwf Hg q).
  rewrite (walk_pkg_walkP (Dir ch) pkg q (wf_get _ _ _ Hwf Hg) (no_dir_named_get _ _ _ _ Hreg Hg)).
  rewrite in_app_iff, (exists_init_assoc _ _ _ Hg).
  destruct (is_some (assoc INIT ch)); cbn [In]; intuition congruence.
Qed.
