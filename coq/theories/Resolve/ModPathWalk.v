(* C18, listing half: package_modpaths yields exactly the .py module files of the
   package and its sub-packages, each once.  Unbounded depth: induction over the tree. *)
From Coq Require Import FinFun.
From LP Require Import Prelude.Py Prelude.PyLemmas
     Resolve.FsModel Resolve.FsModelLemmas Resolve.ModPath Resolve.ModPathSpec.

Lemma listed_rel_nil n : listed_rel n [] = false.
Proof. destruct n; reflexivity. Qed.

Lemma listed_rel_file rel : listed_rel File rel = false.
Proof. destruct rel; reflexivity. Qed.

Lemma listed_rel_cons ch d rel' :
  listed_rel (Dir ch) (d :: rel') =
  is_some (assoc INIT ch) &&
  match rel' with
  | [] => match assoc d ch with Some File => py_module_fname d | _ => false end
  | _ :: _ => match assoc d ch with Some (Dir c) => listed_rel (Dir c) rel' | _ => false end
  end.
Proof. destruct rel'; reflexivity. Qed.

Lemma fnames_in f ch : In f (fnames ch) <-> In (f, File) ch.
Proof.
  unfold fnames. rewrite in_map_iff. split.
  - intros [[k v] [E Hin]]. apply filter_In in Hin as [Hin Hf]. cbn [fst snd] in *. subst k.
    destruct v; [exact Hin|discriminate].
  - intros Hin. exists (f, File). split; [reflexivity|]. apply filter_In. split; [exact Hin|reflexivity].
Qed.

Lemma wf_dir ch :
  wf_node (Dir ch) = true ->
  NoDup (map fst ch) /\ forall kv, In kv ch -> wf_node (snd kv) = true.
Proof.
  cbn [wf_node]. intros H. apply andb_prop in H as [H1 H2]. split.
  - apply nodupb_NoDup; exact H1.
  - rewrite forallb_forall in H2. exact H2.
Qed.

(* ---- membership -------------------------------------------------------------------- *)
Lemma walk_spec n :
  forall dpath p, wf_node n = true ->
    (In p (walk dpath n) <-> exists rel, p = dpath ++ rel /\ listed_rel n rel = true).
Proof.
  induction n as [|ch IH] using node_ind'; intros dpath p Hwf.
  - cbn [walk]. split; [contradiction|]. intros [rel [_ H]]. rewrite listed_rel_file in H. discriminate.
  - destruct (wf_dir _ Hwf) as [Hnd Hch]. rewrite Forall_forall in IH.
    cbn [walk]. destruct (is_some (assoc INIT ch)) eqn:Ei.
    + rewrite in_app_iff. split.
      * intros [Hfile|Hdir].
        -- apply in_map_iff in Hfile as [f [<- Hf]]. apply filter_In in Hf as [Hin Hpy].
           apply fnames_in in Hin. exists [f]. split; [reflexivity|].
           rewrite listed_rel_cons, Ei, (in_assoc _ _ _ Hnd Hin). exact Hpy.
        -- apply in_flat_map in Hdir as [[d c] [Hin Hp]]. cbn [fst snd] in Hp.
           destruct c as [|c0]; [contradiction|].
           apply (IH _ Hin (dpath ++ [d]) p (Hch _ Hin)) in Hp as [rel' [-> Hl]].
           exists (d :: rel'). split; [rewrite <- app_assoc; reflexivity|].
           rewrite listed_rel_cons, Ei. destruct rel' as [|x rel''].
           ++ rewrite listed_rel_nil in Hl. discriminate.
           ++ rewrite (in_assoc _ _ _ Hnd Hin). exact Hl.
      * intros [rel [-> Hl]]. destruct rel as [|d rel']; [rewrite listed_rel_nil in Hl; discriminate|].
        rewrite listed_rel_cons, Ei in Hl. cbn [andb] in Hl. destruct rel' as [|x rel''].
        -- left. destruct (assoc d ch) as [[|c0]|] eqn:Ea; try discriminate.
           apply in_map_iff. exists d. split; [reflexivity|]. apply filter_In. split; [|exact Hl].
           apply fnames_in. apply assoc_in. exact Ea.
        -- right. destruct (assoc d ch) as [[|c0]|] eqn:Ea; try discriminate.
           pose proof (assoc_in _ _ _ Ea) as Hin.
           apply in_flat_map. exists (d, Dir c0). split; [exact Hin|]. cbn [fst snd].
           apply (IH _ Hin (dpath ++ [d]) _ (Hch _ Hin)). exists (x :: rel'').
           split; [rewrite <- app_assoc; reflexivity|exact Hl].
    + split; [contradiction|]. intros [rel [_ Hl]].
      destruct rel as [|d rel']; [rewrite listed_rel_nil in Hl; discriminate|].
      rewrite listed_rel_cons, Ei in Hl. discriminate.
Qed.

(* ---- no file twice ------------------------------------------------------------------- *)
Lemma NoDup_app_intro {A} (a b : list A) :
  NoDup a -> NoDup b -> (forall x, In x a -> ~ In x b) -> NoDup (a ++ b).
Proof.
  induction a as [|x a IH]; cbn [app]; intros Ha Hb Hd; [exact Hb|].
  inversion Ha as [|? ? Hx Ha']; subst. constructor.
  - rewrite in_app_iff. intros [H|H]; [exact (Hx H)|]. exact (Hd x (or_introl eq_refl) H).
  - apply IH; [exact Ha'|exact Hb|]. intros y Hy. apply Hd. right; exact Hy.
Qed.

Lemma NoDup_keys_filter (g : name * node -> bool) ch :
  NoDup (map fst ch) -> NoDup (map fst (filter g ch)).
Proof.
  induction ch as [|kv t IH]; cbn [map filter]; intros H; [constructor|].
  inversion H as [|? ? Hx H']; subst. destruct (g kv); [|apply IH; exact H'].
  cbn [map]. constructor; [|apply IH; exact H'].
  intros Hin. apply Hx. apply in_map_iff in Hin as [kv' [E Hin]]. apply filter_In in Hin as [Hin _].
  rewrite <- E. apply in_map. exact Hin.
Qed.

Lemma flat_map_nodup (g : name * node -> list path) dpath ch :
  NoDup (map fst ch) ->
  (forall kv, In kv ch -> NoDup (g kv)) ->
  (forall kv p, In kv ch -> In p (g kv) -> exists rel, p = dpath ++ fst kv :: rel) ->
  NoDup (flat_map g ch).
Proof.
  induction ch as [|kv t IH]; cbn [map flat_map]; intros Hk Hn Hp; [constructor|].
  inversion Hk as [|? ? Hx Hk']; subst. apply NoDup_app_intro.
  - apply Hn. left; reflexivity.
  - apply IH; [exact Hk'| |]; intros; [apply Hn|eapply Hp]; try (right; eassumption); eassumption.
  - intros p Hin Hin2. apply in_flat_map in Hin2 as [kv' [Hin' Hp']].
    destruct (Hp kv p (or_introl eq_refl) Hin) as [rel E].
    destruct (Hp kv' p (or_intror Hin') Hp') as [rel' E'].
    rewrite E in E'. apply app_inv_head in E'. injection E' as E1 _.
    apply Hx. rewrite E1. apply in_map. exact Hin'.
Qed.

Lemma walk_prefix n :
  forall dpath p, In p (walk dpath n) -> exists rel, rel <> [] /\ p = dpath ++ rel.
Proof.
  induction n as [|ch IH] using node_ind'; intros dpath p; cbn [walk]; [contradiction|].
  rewrite Forall_forall in IH.
  destruct (is_some (assoc INIT ch)); [|contradiction].
  rewrite in_app_iff. intros [H|H].
  - apply in_map_iff in H as [f [<- _]]. exists [f]. split; [discriminate|reflexivity].
  - apply in_flat_map in H as [[d c] [Hin Hp]]. cbn [fst snd] in Hp. destruct c as [|c0]; [contradiction|].
    destruct (IH _ Hin _ _ Hp) as [rel [_ ->]]. exists (d :: rel). split; [discriminate|].
    rewrite <- app_assoc. reflexivity.
Qed.

Lemma walk_nodup n : forall dpath, wf_node n = true -> NoDup (walk dpath n).
Proof.
  induction n as [|ch IH] using node_ind'; intros dpath Hwf; cbn [walk]; [constructor|].
  destruct (wf_dir _ Hwf) as [Hnd Hch]. rewrite Forall_forall in IH.
  destruct (is_some (assoc INIT ch)); [|constructor].
  apply NoDup_app_intro.
  - apply Injective_map_NoDup.
    + intros f f' E. apply app_inv_head in E. injection E as E. exact E.
    + apply NoDup_filter. unfold fnames. apply NoDup_keys_filter. exact Hnd.
  - apply flat_map_nodup with (dpath := dpath); [exact Hnd| |].
    + intros [d c] Hin. cbn [fst snd]. destruct c as [|c0]; [constructor|].
      apply (IH _ Hin). exact (Hch _ Hin).
    + intros [d c] p Hin Hp. cbn [fst snd] in *. destruct c as [|c0]; [contradiction|].
      destruct (walk_prefix _ _ _ Hp) as [rel [_ ->]]. exists rel. rewrite <- app_assoc. reflexivity.
  - intros p Hfile Hdir.
    apply in_map_iff in Hfile as [f [<- Hf]]. apply filter_In in Hf as [Hin _]. apply fnames_in in Hin.
    apply in_flat_map in Hdir as [[d c] [Hin' Hp]]. cbn [fst snd] in Hp. destruct c as [|c0]; [contradiction|].
    destruct (walk_prefix _ _ _ Hp) as [rel [_ E]]. rewrite <- app_assoc in E.
    apply app_inv_head in E. injection E as E1 _. subst d.
    pose proof (in_assoc _ _ _ Hnd Hin) as A1. pose proof (in_assoc _ _ _ Hnd Hin') as A2.
    rewrite A1 in A2. discriminate.
Qed.

(* ---- the listing predicate read on paths ------------------------------------------------ *)
Lemma exists_init_assoc fs pkg ch :
  get fs pkg = Some (Dir ch) -> exists_ fs (pkg ++ [INIT]) = is_some (assoc INIT ch).
Proof.
  intros H. unfold exists_. rewrite get_app, H. cbn [get]. destruct (assoc INIT ch); reflexivity.
Qed.

Lemma wf_get fs p n : wf_node fs = true -> get fs p = Some n -> wf_node n = true.
Proof.
  revert fs; induction p as [|c p IH]; intros fs Hwf; cbn [get].
  - intros [= <-]. exact Hwf.
  - destruct fs as [|ch]; [discriminate|]. destruct (assoc c ch) as [n'|] eqn:E; [|discriminate].
    destruct (wf_dir _ Hwf) as [_ Hch]. apply IH. exact (Hch _ (assoc_in _ _ _ E)).
Qed.

Lemma listed_rel_paths fs :
  forall rel pkg n, get fs pkg = Some n ->
    listed_rel n rel =
    negb (list_empty rel) && isfile fs (pkg ++ rel) && py_module_fname (last rel EmptyString)
    && inits_down fs pkg rel.
Proof.
  induction rel as [|d rel' IH]; intros pkg n Hg.
  - rewrite listed_rel_nil. reflexivity.
  - cbn [list_empty negb andb inits_down].
    destruct n as [|ch].
    + rewrite listed_rel_file. unfold isfile. rewrite get_app, Hg. reflexivity.
    + rewrite listed_rel_cons, (exists_init_assoc _ _ _ Hg).
      destruct (is_some (assoc INIT ch)); cbn [andb]; [|rewrite andb_false_r; reflexivity].
      destruct rel' as [|x rel''].
      * cbn [last inits_down]. rewrite andb_true_r. unfold isfile at 1. rewrite get_app, Hg. cbn [get].
        destruct (assoc d ch) as [[|c0]|]; reflexivity.
      * change (last (d :: x :: rel'') EmptyString) with (last (x :: rel'') EmptyString).
        assert (Hpath : pkg ++ d :: x :: rel'' = (pkg ++ [d]) ++ x :: rel'')
          by (rewrite <- app_assoc; reflexivity).
        destruct (assoc d ch) as [[|c0]|] eqn:Ea.
        -- unfold isfile. rewrite Hpath, get_app. rewrite get_app, Hg. cbn [get]. rewrite Ea. reflexivity.
        -- rewrite (IH (pkg ++ [d]) (Dir c0)) by (rewrite get_app, Hg; cbn [get]; rewrite Ea; reflexivity).
           cbn [list_empty negb andb]. rewrite Hpath. reflexivity.
        -- unfold isfile. rewrite Hpath, get_app. rewrite get_app, Hg. cbn [get]. rewrite Ea. reflexivity.
Qed.

Lemma listed_is_listed_paths fs pkg p : listed fs pkg p = listed_paths fs pkg p.
Proof.
  unfold listed, listed_paths. destruct (is_prefix pkg p) eqn:Ep; [|reflexivity]. cbn [andb].
  pose proof (is_prefix_app _ _ Ep) as E. set (rel := skipn (length pkg) p) in *.
  assert (Hb : basename p = last rel EmptyString \/ rel = []).
  { destruct rel as [|x rel'] eqn:Er; [right; reflexivity|left].
    rewrite E. unfold basename. destruct (exists_last (l := x :: rel') ltac:(discriminate)) as [l' [y ->]].
    rewrite app_assoc, !last_last. reflexivity. }
  destruct (get fs pkg) as [n|] eqn:Hg.
  - rewrite (listed_rel_paths fs rel pkg n Hg). rewrite <- E.
    destruct Hb as [Hb | Hb]; rewrite Hb; reflexivity.
  - destruct rel as [|x rel'] eqn:Er; [reflexivity|]. cbn [list_empty negb andb].
    unfold isfile. rewrite E, get_app, Hg. reflexivity.
Qed.

(* ---- package_modpaths ---------------------------------------------------------------------- *)
Lemma package_listing fs pkg :
  wf_node fs = true -> isdir fs pkg = true ->
  forall p, In p (package_modpaths fs pkg) <-> listed_paths fs pkg p = true.
Proof.
  intros Hwf Hdir p. unfold package_modpaths. unfold isdir in Hdir.
  destruct (get fs pkg) as [[|ch]|] eqn:Hg; try discriminate.
  rewrite (walk_spec (Dir ch) pkg p (wf_get _ _ _ Hwf Hg)).
  rewrite <- listed_is_listed_paths. unfold listed. rewrite Hg. split.
  - intros [rel [-> Hl]]. rewrite is_prefix_self_app, skipn_self_app. exact Hl.
  - intros H. apply andb_prop in H as [Hp Hl]. exists (skipn (length pkg) p).
    split; [apply is_prefix_app; exact Hp|exact Hl].
Qed.

Lemma package_listing_nodup fs pkg :
  wf_node fs = true -> NoDup (package_modpaths fs pkg).
Proof.
  intros Hwf. unfold package_modpaths. destruct (get fs pkg) as [[|ch]|] eqn:Hg.
  - constructor; [intros []|constructor].
  - apply walk_nodup. exact (wf_get _ _ _ Hwf Hg).
  - constructor.
Qed.

Lemma package_listing_file fs pkg :
  isfile fs pkg = true -> package_modpaths fs pkg = [pkg].
Proof. unfold isfile, package_modpaths. destruct (get fs pkg) as [[|]|]; try discriminate. reflexivity. Qed.

(* nothing from a sub-directory that is not a package: a listed file has an __init__.py in
   every directory between the package and itself *)
Lemma listed_paths_inits fs pkg p :
  listed_paths fs pkg p = true ->
  inits_down fs pkg (skipn (length pkg) p) = true /\ isfile fs p = true
  /\ py_module_fname (basename p) = true.
Proof.
  unfold listed_paths. intros H. repeat (apply andb_prop in H as [H ?]). auto.
Qed.

Lemma package_listing_once fs pkg :
  wf_node fs = true ->
  NoDup (package_modpaths fs pkg)
  /\ (isfile fs pkg = true -> package_modpaths fs pkg = [pkg]).
Proof.
  intros H. split; [apply package_listing_nodup; exact H|apply package_listing_file].
Qed.
