(* C18, lookup half: the util_static name lookup against PathFinder's resolution,
   for every tree, every list of roots and every name (unbounded depth: induction over
   the component list and over the list of roots). *)
From LP Require Import Prelude.Py Prelude.PyLemmas
     Resolve.FsModel Resolve.FsModelLemmas Resolve.ModPath Resolve.ModPathSpec.

(* ---- the validity loop, read from the root downwards -------------------------- *)
Fixpoint pkgs_down (fs : node) (d : path) (l : list name) : bool :=
  match l with
  | [] => true
  | c :: t => exists_ fs (d ++ [c; INIT]) && pkgs_down fs (d ++ [c]) t
  end.

Lemma app_cons_assoc {A} (d : list A) c l : (d ++ [c]) ++ l = d ++ c :: l.
Proof. rewrite <- app_assoc. reflexivity. Qed.

Lemma pkgs_down_snoc fs d l x :
  pkgs_down fs d (l ++ [x]) = pkgs_down fs d l && exists_ fs (d ++ l ++ [x; INIT]).
Proof.
  revert d; induction l as [|c l IH]; intros d; cbn [app pkgs_down].
  - rewrite andb_true_r. reflexivity.
  - rewrite IH, app_cons_assoc, andb_assoc. reflexivity.
Qed.

Lemma isvalid_loop_rev fs base l : isvalid_loop fs base (rev l) = pkgs_down fs base l.
Proof.
  induction l as [|x l IH] using rev_ind; [reflexivity|].
  rewrite rev_unit. cbn [isvalid_loop]. rewrite pkgs_down_snoc, IH.
  cbn [rev]. rewrite rev_involutive. rewrite <- (app_assoc l [x] [INIT]). cbn [app].
  destruct (exists_ fs (base ++ l ++ [x; INIT])).
  - rewrite andb_true_r. reflexivity.
  - rewrite andb_false_r. reflexivity.
Qed.

Lemma isvalid_down fs base rel : isvalid fs base rel = pkgs_down fs base (removelast rel).
Proof. unfold isvalid. apply isvalid_loop_rev. Qed.

Lemma removelast_cons2 {A} (a b : A) l : removelast (a :: b :: l) = a :: removelast (b :: l).
Proof. reflexivity. Qed.

Lemma last_cons2 {A} (a b : A) l d : last (a :: b :: l) d = last (b :: l) d.
Proof. reflexivity. Qed.

Lemma with_last_py_cons2 a b l : with_last_py (a :: b :: l) = a :: with_last_py (b :: l).
Proof. unfold with_last_py. rewrite removelast_cons2, last_cons2. reflexivity. Qed.

Lemma removelast_with_last_py comps : removelast (with_last_py comps) = removelast comps.
Proof. unfold with_last_py. apply removelast_last. Qed.

(* check_dpath in descending form *)
Lemma check_dpath_alt fs r comps :
  check_dpath fs r comps =
  if exists_ fs (r ++ comps) && isfile fs ((r ++ comps) ++ [INIT]) && pkgs_down fs r (removelast comps)
  then Some (r ++ comps)
  else if isfile fs (r ++ with_last_py comps) && pkgs_down fs r (removelast comps)
       then Some (r ++ with_last_py comps) else None.
Proof.
  unfold check_dpath. rewrite !isvalid_down, removelast_with_last_py. reflexivity.
Qed.

Lemma check_dpath_cons fs r c c2 rest :
  check_dpath fs r (c :: c2 :: rest) =
  if exists_ fs (r ++ [c; INIT]) then check_dpath fs (r ++ [c]) (c2 :: rest) else None.
Proof.
  rewrite !check_dpath_alt, with_last_py_cons2, removelast_cons2. cbn [pkgs_down].
  rewrite !app_cons_assoc.
  destruct (exists_ fs (r ++ [c; INIT])); [reflexivity|].
  rewrite !andb_false_r. reflexivity.
Qed.

Lemma check_dpath_one fs r c :
  check_dpath fs r [c] =
  if isfile fs (r ++ [c; INIT]) then Some (r ++ [c])
  else if isfile fs (r ++ [py c]) then Some (r ++ [py c]) else None.
Proof.
  rewrite check_dpath_alt. cbn [removelast pkgs_down with_last_py]. unfold with_last_py.
  cbn [removelast last app]. rewrite app_cons_assoc, !andb_true_r.
  destruct (isfile fs (r ++ [c; INIT])) eqn:E.
  - change [c; INIT] with ([c] ++ [INIT]) in E. rewrite app_assoc in E.
    rewrite (exists_prefix _ _ _ (isfile_exists _ _ E)). reflexivity.
  - rewrite andb_false_r. reflexivity.
Qed.

(* ---- one root: the helper's check is the import system's chain in that root ---- *)
Lemma path_find_one fs r c :
  path_find fs [r] c false = finder fs r c.
Proof. cbn [path_find]. destruct (finder fs r c); reflexivity. Qed.

Lemma check_single fs r comps :
  no_dir_named INIT fs = true ->
  check_dpath fs r comps = found_path (import_chain fs [r] comps false) \/ comps = [].
Proof.
  intros Hreg. destruct comps as [|c rest]; [right; reflexivity|left].
  revert r c; induction rest as [|c2 rest IH]; intros r c.
  - rewrite check_dpath_one. cbn [import_chain]. rewrite path_find_one. unfold finder.
    destruct (isfile fs (r ++ [c; INIT])); [reflexivity|].
    destruct (isfile fs (r ++ [py c])); [reflexivity|].
    destruct (isdir fs (r ++ [c])); reflexivity.
  - rewrite check_dpath_cons. cbn [import_chain]. rewrite path_find_one. unfold finder.
    change [c; INIT] with ([c] ++ [INIT]). rewrite app_assoc.
    rewrite (no_dir_named_exists_isfile INIT fs (r ++ [c]) Hreg).
    destruct (isfile fs ((r ++ [c]) ++ [INIT])).
    + apply IH.
    + destruct (isfile fs (r ++ [py c])); [reflexivity|].
      destruct (isdir fs (r ++ [c])); reflexivity.
Qed.

Lemma check_single' fs r c rest :
  no_dir_named INIT fs = true ->
  check_dpath fs r (c :: rest) = found_path (import_chain fs [r] (c :: rest) false).
Proof.
  intros H. destruct (check_single fs r (c :: rest) H) as [E|E]; [exact E|discriminate].
Qed.

(* ---- several roots ---------------------------------------------------------------- *)
Lemma import_chain_cons_root fs r rs c rest ns :
  import_chain fs (r :: rs) (c :: rest) ns =
  match finder fs r c with
  | RegPkg _ | RegMod _ => import_chain fs [r] (c :: rest) false
  | NsPortion => import_chain fs rs (c :: rest) true
  | NotHere => import_chain fs rs (c :: rest) ns
  end.
Proof. cbn [import_chain path_find]. destruct (finder fs r c); reflexivity. Qed.

Lemma import_single_not_regular fs r c rest :
  is_regular (finder fs r c) = false -> found_path (import_chain fs [r] (c :: rest) false) = None.
Proof.
  intros H. cbn [import_chain]. rewrite path_find_one. destruct (finder fs r c); try discriminate; reflexivity.
Qed.

(* whenever the import system finds a regular module or package, the helper returns it *)
Lemma import_found_lookup fs roots comps ns p k :
  no_dir_named INIT fs = true ->
  import_chain fs roots comps ns = Found p k ->
  syspath_lookup fs roots comps = Some p.
Proof.
  intros Hreg. destruct comps as [|c rest]; [destruct roots; discriminate|].
  revert ns; induction roots as [|r rs IH]; intros ns.
  - cbn [import_chain path_find]. destruct ns; discriminate.
  - rewrite import_chain_cons_root. cbn [syspath_lookup]. rewrite check_single' by exact Hreg.
    destruct (finder fs r c) eqn:E.
    + intros ->. reflexivity.
    + intros ->. reflexivity.
    + rewrite import_single_not_regular by (rewrite E; reflexivity). apply IH.
    + rewrite import_single_not_regular by (rewrite E; reflexivity). apply IH.
Qed.

(* under the no-shadow hypothesis the two agree completely *)
Lemma lookup_agrees fs roots c rest ns :
  no_dir_named INIT fs = true ->
  no_shadow fs roots (c :: rest) = true ->
  syspath_lookup fs roots (c :: rest) = found_path (import_chain fs roots (c :: rest) ns).
Proof.
  intros Hreg. revert ns; induction roots as [|r rs IH]; intros ns Hns.
  - cbn [import_chain path_find syspath_lookup]. destruct ns; reflexivity.
  - rewrite import_chain_cons_root. cbn [syspath_lookup no_shadow hd] in *.
    rewrite check_single' by exact Hreg.
    destruct (finder fs r c) eqn:E; cbn [is_regular] in Hns.
    + destruct (import_chain fs [r] (c :: rest) false); try discriminate. reflexivity.
    + destruct (import_chain fs [r] (c :: rest) false); try discriminate. reflexivity.
    + rewrite import_single_not_regular by (rewrite E; reflexivity). apply IH; exact Hns.
    + rewrite import_single_not_regular by (rewrite E; reflexivity). apply IH; exact Hns.
Qed.

Lemma names_ok_cons comps : names_ok comps = true -> exists c rest, comps = c :: rest.
Proof. destruct comps as [|c rest]; [discriminate|]. intros _. eauto. Qed.

(* a name absent (as a regular chain) from every root is not found *)
Lemma lookup_missing fs roots comps :
  no_dir_named INIT fs = true ->
  names_ok comps = true ->
  forallb (fun r => negb (is_found (import_chain fs [r] comps false))) roots = true ->
  syspath_lookup fs roots comps = None.
Proof.
  intros Hreg Hn. destruct (names_ok_cons _ Hn) as [c [rest ->]].
  induction roots as [|r rs IH]; cbn [forallb syspath_lookup]; [reflexivity|].
  intros H. apply andb_prop in H as [H1 H2]. rewrite check_single' by exact Hreg.
  destruct (import_chain fs [r] (c :: rest) false); try discriminate; apply IH; exact H2.
Qed.

(* what the helper returns exists: a package directory with __init__.py, or a file, under a root *)
Lemma lookup_is_real fs roots comps p :
  syspath_lookup fs roots comps = Some p ->
  exists r, In r roots /\
    ((p = r ++ comps /\ isfile fs (p ++ [INIT]) = true /\ pkgs_down fs r (removelast comps) = true)
     \/ (p = r ++ with_last_py comps /\ isfile fs p = true /\ pkgs_down fs r (removelast comps) = true)).
Proof.
  induction roots as [|r rs IH]; cbn [syspath_lookup]; [discriminate|].
  destruct (check_dpath fs r comps) as [q|] eqn:E.
  - intros [= ->]. exists r. split; [left; reflexivity|].
    rewrite check_dpath_alt in E.
    destruct (exists_ fs (r ++ comps) && isfile fs ((r ++ comps) ++ [INIT]) && pkgs_down fs r (removelast comps)) eqn:E1.
    + injection E as <-. apply andb_prop in E1 as [E1 E3]. apply andb_prop in E1 as [_ E2]. left. auto.
    + destruct (isfile fs (r ++ with_last_py comps) && pkgs_down fs r (removelast comps)) eqn:E2; [|discriminate].
      injection E as <-. apply andb_prop in E2 as [E2 E3]. right. auto.
  - intros H. destruct (IH H) as [r' [Hin Hr]]. exists r'. split; [right; exact Hin|exact Hr].
Qed.

(* ---- the refutation witness --------------------------------------------------------- *)
Definition shadow_fs : node :=
  Dir [("r1", Dir [("a", Dir [(INIT, File)])]);
       ("r2", Dir [("a", Dir [(INIT, File); ("b.py", File)])])].
Definition shadow_roots : list path := [["r1"]; ["r2"]].
Definition shadow_name : list name := ["a"; "b"].

Lemma shadow_witness :
  wf_node shadow_fs = true /\ no_dir_named INIT shadow_fs = true /\ names_ok shadow_name = true
  /\ modname_to_modpath shadow_fs shadow_roots shadow_name true false = Some ["r2"; "a"; "b.py"]
  /\ import_name shadow_fs shadow_roots shadow_name = NoModule
  /\ no_shadow shadow_fs shadow_roots shadow_name = false.
Proof. vm_compute. repeat split; reflexivity. Qed.
