(* E5 - row evaluators used by the C18 correspondence shards (coq/cases/c18_*.v).
   Every row yields (model_ok, spec_ok): model_ok compares the model with what the
   implementation (and the real PathFinder) returned; spec_ok evaluates the
   property predicate on the implementation's own output. *)
From LP Require Import Prelude.Py Resolve.FsModel Resolve.ModPath Resolve.ModPathSpec Resolve.ModPathSelect.

Definition opt_path_eqb (a b : option path) : bool := opt_eqb path_eqb a b.

Definition ires_eqb (a b : ires) : bool :=
  match a, b with
  | Found p k, Found q k' => path_eqb p q && Bool.eqb k k'
  | ViaNamespace, ViaNamespace => true
  | NoModule, NoModule => true
  | _, _ => false
  end.

(* what modpath_to_modname returned: None = not called, Some None = ValueError *)
Definition back_eqb (m : res (list name)) (o : option string) : bool :=
  match m, o with
  | Ok l, Some s => String.eqb (join "." l) s
  | Err ValueError, None => true
  | _, _ => false
  end.

Definition dunder_last (comps : list name) : bool :=
  let cn := last comps EmptyString in String.eqb cn "__init__" || String.eqb cn "__main__".

(* one name lookup.
   out  : modname_to_modpath(name, hide_init, hide_main, sys_path=roots)
   raw  : _syspath_modname_to_modpath(name, sys_path=roots)
   back : modpath_to_modname(out, hide_init, hide_main) when out is not None
   pf   : importlib.machinery.PathFinder walked parent-first over the same roots
   fms  : kernprof.find_module_script(name) with sys.path = roots (Some None = SystemExit) *)
Definition lookup_row (fs : node) (roots : list path) (comps : list name) (hi hm : bool)
           (out raw : option path) (back : option (option string)) (pf : ires)
           (fms : option (option path)) : bool * bool :=
  let m_out := modname_to_modpath fs roots comps hi hm in
  let model_ok :=
    opt_path_eqb m_out out
    && opt_path_eqb (syspath_lookup fs roots comps) raw
    && match out, back with
       | Some p, Some b => back_eqb (modpath_to_modname fs p hi hm) b
       | None, None => true
       | _, _ => false
       end
    && ires_eqb (import_name fs roots comps) pf
    && match fms with
       | None => true
       | Some f => opt_path_eqb (find_module_script fs roots comps) f
       end in
  let spec := import_name fs roots comps in
  let spec_ok :=
    (* lookup = what the import system loads; missing names yield nothing *)
    match spec with
    | Found p k =>
        opt_path_eqb raw (Some p)
        && (hm || opt_path_eqb out (Some (spec_path hi p k)))
    | NoModule => opt_path_eqb out None && opt_path_eqb raw None
    | ViaNamespace => true
    end
    (* turning the path back into a name returns the original name *)
    && match out, back with
       | Some _, Some b =>
           if hi && negb (dunder_last comps) then
             match b with Some s => String.eqb s (join "." comps) | None => false end
           else true
       | _, _ => true
       end in
  (model_ok, spec_ok).

(* package_modpaths(pkg): out is the list the implementation yielded *)
Definition listing_row (fs : node) (pkg : path) (out : list path) : bool * bool :=
  let model_ok := perm_eqb (package_modpaths fs pkg) out in
  let spec_ok :=
    if isfile fs pkg then path_list_eqb out [pkg]
    else
      forallb (listed_paths fs pkg) out
      && path_nodupb out
      && forallb (fun p => negb (listed_paths fs pkg p) || path_in p out) (all_files fs) in
  (model_ok, spec_ok).

(* modpath_to_modname / split_modpath / normalize_modpath on an arbitrary path of the tree *)
Definition split_eqb (m : res (path * list name)) (o : option (path * list name)) : bool :=
  match m, o with
  | Ok (d, parts), Some (d', parts') => path_eqb d d' && path_eqb parts parts'
  | Err ValueError, None => true
  | _, _ => false
  end.

Definition m2n_row (fs : node) (p : path) (hi hm : bool)
           (name_out : option string) (split_out : option (path * list name)) (norm_out : path)
  : bool * bool :=
  (back_eqb (modpath_to_modname fs p hi hm) name_out
   && split_eqb (split_modpath fs p) split_out
   && path_eqb (normalize fs p hi hm) norm_out,
   true).

(* package_modpaths(pkg, with_pkg=True) *)
Definition listpkg_row (fs : node) (pkg : path) (out : list path) : bool * bool :=
  let model_ok := perm_eqb (package_modpaths_pkg fs pkg) out in
  let spec_ok :=
    if isfile fs pkg then path_list_eqb out [pkg]
    else
      forallb (listed_paths_pkg fs pkg) out
      && path_nodupb out
      && forallb (fun p => negb (listed_paths_pkg fs pkg p) || path_in p out) (all_files fs) in
  (model_ok, spec_ok).

Definition count_str (x : string) (l : list string) : nat := length (filter (String.eqb x) l).
Definition str_perm_eqb (a b : list string) : bool :=
  Nat.eqb (length a) (length b) && forallb (fun x => Nat.eqb (count_str x a) (count_str x b)) a.

(* ProfmodExtractor._get_modnames_to_profile_from_prof_mod(script, entries) with sys.path = sys_path.
   out: the list returned (None: an exception).  judge = Some comps: the entries are the single
   dotted name comps in a tree whose file names are regular; then the selection must be the
   name itself plus exactly the names under which the import system knows the modules and
   sub-packages inside it. *)
Definition select_row (fs : node) (sys_path : list path) (script : path) (entries : list pentry)
           (out : option (list string)) (judge : option (list name)) : bool * bool :=
  let model_ok :=
    match modnames_to_profile fs sys_path script entries, out with
    | Ok l, Some o => str_perm_eqb l o
    | Err _, None => true
    | _, _ => false
    end in
  let roots := dirname script :: sys_path in
  let spec_ok :=
    match judge with
    | None => true
    | Some comps =>
        match import_name fs roots comps with
        | Found p k =>
            match out with
            | None => false
            | Some o =>
                str_in (join "." comps) o
                && forallb (fun s => match import_name fs roots (split dot s) with
                                     | Found q _ => is_prefix p q
                                     | _ => false
                                     end) o
                && forallb (fun q => negb (listed_paths_pkg fs p q)
                                     || str_in (join "." (comps ++ relname (skipn (length p) q))) o)
                           (all_files fs)
            end
        | _ => true
        end
    end in
  (model_ok, spec_ok).

Definition tree_ok (fs : node) : bool := wf_node fs.
