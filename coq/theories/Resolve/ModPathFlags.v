(* C18: what modname_to_modpath returns with hide_main=False, in terms of the
   import system's answer: the package directory (hide_init) or its __init__.py,
   or the module file. *)
From LP Require Import Prelude.Py Prelude.PyLemmas
     Resolve.FsModel Resolve.FsModelLemmas Resolve.ModPath Resolve.ModPathSpec
     Resolve.ModPathLookup Resolve.ModPathRound.

Lemma path_find_kind fs dirs c ns :
  match path_find fs dirs c ns with
  | RegPkg p => isfile fs (p ++ [INIT]) = true
  | RegMod p => isfile fs p = true
  | _ => True
  end.
Proof.
  revert ns; induction dirs as [|d ds IH]; intros ns; cbn [path_find].
  - destruct ns; exact I.
  - unfold finder.
    destruct (isfile fs (d ++ [c; INIT])) eqn:E1.
    + rewrite <- app_assoc. exact E1.
    + destruct (isfile fs (d ++ [py c])) eqn:E2; [exact E2|].
      destruct (isdir fs (d ++ [c])); apply IH.
Qed.

Lemma import_found_kind fs :
  forall comps search ns p k,
    import_chain fs search comps ns = Found p k ->
    if k then isfile fs (p ++ [INIT]) = true else isfile fs p = true.
Proof.
  induction comps as [|c rest IH]; intros search ns p k; cbn [import_chain]; [discriminate|].
  pose proof (path_find_kind fs search c ns) as Hk.
  destruct (path_find fs search c ns) as [q|q| |]; try discriminate.
  - destruct rest as [|c2 rest'].
    + intros [= <- <-]. exact Hk.
    + apply IH.
  - destruct rest as [|c2 rest']; [|discriminate]. intros [= <- <-]. exact Hk.
Qed.

Lemma hd_not_init_pre (pre : list name) cn :
  String.eqb (hd EmptyString (pre ++ [cn])) "__init__" = false ->
  String.eqb cn "__init__" = true -> pre <> [].
Proof. intros H1 H2 ->. cbn [app hd] in H1. congruence. Qed.

Lemma normalize_is_spec_path fs roots comps hi p k :
  no_dir_named INIT fs = true -> names_ok comps = true ->
  String.eqb (hd EmptyString comps) "__init__" = false ->
  import_name fs roots comps = Found p k ->
  normalize fs p hi false = spec_path hi p k.
Proof.
  intros Hreg Hnames Hhd Himp.
  destruct (names_ok_parts _ Hnames) as [Hne Hn].
  pose proof (import_found_kind _ _ _ _ _ _ Himp) as Hk.
  pose proof (import_found_lookup _ _ _ _ _ _ Hreg Himp) as Hl.
  destruct (lookup_is_real _ _ _ _ Hl) as [r [_ [[Hp [Hf _]]|[Hp [Hf _]]]]].
  - (* the package directory r/comps *)
    destruct k.
    + unfold spec_path. subst p. destruct hi.
      * apply normalize_pkgdir; assumption.
      * apply normalize_add_init. apply isfile_exists. exact Hf.
    + exfalso. pose proof (isfile_exists _ _ Hf) as He.
      rewrite (file_no_child _ _ [INIT] Hk) in He by discriminate. discriminate.
  - (* the module file r/pre/cn.py *)
    destruct k.
    + exfalso. pose proof (isfile_exists _ _ Hk) as He.
      rewrite (file_no_child _ _ [INIT] Hf) in He by discriminate. discriminate.
    + destruct (exists_last Hne) as [pre [cn E]]. subst comps.
      unfold with_last_py in Hp. rewrite removelast_last, last_last in Hp.
      rewrite forallb_snoc in Hn. apply andb_prop in Hn as [Hn1 Hn2].
      subst p. rewrite app_assoc in *.
      rewrite (normalize_file fs (r ++ pre) (py cn) hi false Hf).
      unfold spec_path, basename, dirname. rewrite last_last, removelast_last.
      rewrite (py_eqb_init _ Hn2). destruct hi; cbn [andb]; [|reflexivity].
      destruct (String.eqb cn "__init__") eqn:Ei; [|reflexivity].
      assert (Hpre : pre <> []) by (eapply hd_not_init_pre; eassumption).
      change (last (r ++ pre) EmptyString) with (basename (r ++ pre)).
      rewrite basename_app by exact Hpre.
      rewrite (name_ok_not_main _ (last_name_ok _ Hpre Hn1)). reflexivity.
Qed.

(* import finds a regular module or package => the helper returns exactly it *)
Lemma import_found_modpath fs roots comps hi p k :
  no_dir_named INIT fs = true -> names_ok comps = true ->
  String.eqb (hd EmptyString comps) "__init__" = false ->
  import_name fs roots comps = Found p k ->
  syspath_lookup fs roots comps = Some p
  /\ modname_to_modpath fs roots comps hi false = Some (spec_path hi p k).
Proof.
  intros Hreg Hnames Hhd Himp.
  pose proof (import_found_lookup _ _ _ _ _ _ Hreg Himp) as Hl. split; [exact Hl|].
  unfold modname_to_modpath. rewrite Hl. f_equal. eapply normalize_is_spec_path; eassumption.
Qed.

Lemma lookup_agrees_flags fs roots comps hi :
  no_dir_named INIT fs = true -> names_ok comps = true ->
  String.eqb (hd EmptyString comps) "__init__" = false ->
  no_shadow fs roots comps = true ->
  syspath_lookup fs roots comps = found_path (import_name fs roots comps)
  /\ modname_to_modpath fs roots comps hi false = spec_answer hi (import_name fs roots comps).
Proof.
  intros Hreg Hnames Hhd Hns.
  destruct (names_ok_cons _ Hnames) as [c [rest E]]. subst comps.
  pose proof (lookup_agrees fs roots c rest false Hreg Hns) as Hl.
  split; [exact Hl|].
  destruct (import_name fs roots (c :: rest)) as [p k| |] eqn:Himp.
  - apply (import_found_modpath fs roots (c :: rest) hi p k); assumption.
  - unfold modname_to_modpath. fold (import_name fs roots (c :: rest)) in Hl. rewrite Himp in Hl.
    rewrite Hl. reflexivity.
  - unfold modname_to_modpath. fold (import_name fs roots (c :: rest)) in Hl. rewrite Himp in Hl.
    rewrite Hl. reflexivity.
Qed.

Lemma lookup_default_flags fs roots comps :
  no_dir_named INIT fs = true -> names_ok comps = true ->
  String.eqb (hd EmptyString comps) "__init__" = false ->
  no_shadow fs roots comps = true ->
  modname_to_modpath fs roots comps true false = spec_answer true (import_name fs roots comps).
Proof. intros H1 H2 H3 H4. exact (proj2 (lookup_agrees_flags fs roots comps true H1 H2 H3 H4)). Qed.

Lemma shadow_refuted :
  exists fs roots comps p,
    wf_node fs = true /\ no_dir_named INIT fs = true /\ names_ok comps = true
    /\ modname_to_modpath fs roots comps true false = Some p
    /\ import_name fs roots comps = NoModule.
Proof.
  exists shadow_fs, shadow_roots, shadow_name, ["r2"; "a"; "b.py"].
  pose proof shadow_witness as H. tauto.
Qed.

Lemma missing_is_none fs roots comps :
  no_dir_named INIT fs = true -> names_ok comps = true ->
  forallb (fun r => negb (is_found (import_chain fs [r] comps false))) roots = true ->
  syspath_lookup fs roots comps = None
  /\ forall hi hm, modname_to_modpath fs roots comps hi hm = None.
Proof.
  intros H1 H2 H3. pose proof (lookup_missing fs roots comps H1 H2 H3) as H.
  split; [exact H|]. intros hi hm. unfold modname_to_modpath. rewrite H. reflexivity.
Qed.

(* ---- a tree on which every hypothesis holds and every answer is non-trivial ---------------- *)
Definition demo_fs : node :=
  Dir [("r0", Dir [("foo", Dir [(INIT, File); (MAIN, File); ("foobar.py", File);
                                 ("foo_bar", Dir [(INIT, File); ("x.py", File)]);
                                 ("nons", Dir [("y.py", File)]); ("data.txt", File)]);
                   ("foobar.py", File)]);
       ("r1", Dir [("foo.py", File); ("pk", Dir [(INIT, File); ("m.py", File)])])].
Definition demo_roots : list path := [["r0"]; ["r1"]].

Lemma demo :
  wf_node demo_fs = true /\ no_dir_named INIT demo_fs = true /\ roots_plain demo_fs demo_roots = true
  /\ names_ok ["foo"; "foo_bar"; "x"] = true
  /\ no_shadow demo_fs demo_roots ["foo"; "foo_bar"; "x"] = true
  /\ import_name demo_fs demo_roots ["foo"; "foo_bar"; "x"] = Found ["r0"; "foo"; "foo_bar"; "x.py"] false
  /\ modname_to_modpath demo_fs demo_roots ["foo"; "foo_bar"; "x"] true false = Some ["r0"; "foo"; "foo_bar"; "x.py"]
  /\ modpath_to_modname demo_fs ["r0"; "foo"; "foo_bar"; "x.py"] true false = Ok ["foo"; "foo_bar"; "x"]
  /\ modname_to_modpath demo_fs demo_roots ["foo"] true false = Some ["r0"; "foo"]
  /\ modname_to_modpath demo_fs demo_roots ["pk"; "m"] true false = Some ["r1"; "pk"; "m.py"]
  /\ modname_to_modpath demo_fs demo_roots ["foo"; "nons"; "y"] true false = None
  /\ isdir demo_fs ["r0"; "foo"] = true
  /\ package_modpaths demo_fs ["r0"; "foo"]
     = [["r0"; "foo"; MAIN]; ["r0"; "foo"; "foobar.py"]; ["r0"; "foo"; "foo_bar"; "x.py"]].
Proof. vm_compute. repeat split; reflexivity. Qed.
