(* C18: the names under which the files of a listed package are reported keep the package's
   own dotted name as prefix, at every nesting depth; and what the -p selection model
   (ModPathSelect.v) returns for a package selected by dotted name. *)
From LP Require Import Prelude.Py Prelude.PyLemmas
     Resolve.FsModel Resolve.FsModelLemmas Resolve.ModPath Resolve.ModPathSpec
     Resolve.ModPathLookup Resolve.ModPathRound Resolve.ModPathWalk Resolve.ModPathListPkg
     Resolve.ModPathSelect.

Lemma rsplit_dot1_app f st e : rsplit_dot1 f = Some (st, e) -> f = (st ++ e)%string.
Proof.
  revert st e; induction f as [|a f IH]; intros st e; cbn [rsplit_dot1]; [discriminate|].
  destruct (rsplit_dot1 f) as [[st' e']|].
  - intros [= <- <-]. cbn [append]. f_equal. apply IH. reflexivity.
  - destruct (Ascii.eqb a dot); [|discriminate]. intros [= <- <-]. reflexivity.
Qed.

Lemma pkgs_down_app fs r a b :
  pkgs_down fs r (a ++ b) = pkgs_down fs r a && pkgs_down fs (r ++ a) b.
Proof.
  revert r; induction a as [|c a IH]; intros r; cbn [app pkgs_down].
  - rewrite app_nil_r. reflexivity.
  - rewrite IH, app_cons_assoc, andb_assoc. reflexivity.
Qed.

Lemma inits_down_snoc fs d pre f :
  inits_down fs d (pre ++ [f]) = exists_ fs (d ++ [INIT]) && pkgs_down fs d pre.
Proof.
  revert d; induction pre as [|c pre IH]; intros d; cbn [app inits_down pkgs_down].
  - reflexivity.
  - rewrite IH. rewrite <- (app_assoc d [c] [INIT]). reflexivity.
Qed.

Lemma pkgs_down_full fs r comps :
  comps <> [] -> pkgs_down fs r (removelast comps) = true ->
  isfile fs ((r ++ comps) ++ [INIT]) = true -> pkgs_down fs r comps = true.
Proof.
  intros Hc Hd Hf. destruct (exists_last Hc) as [l' [x E]]. rewrite E in *.
  rewrite removelast_last in Hd. rewrite pkgs_down_snoc, Hd.
  rewrite <- !app_assoc in Hf. cbn [app] in Hf. rewrite (isfile_exists _ _ Hf). reflexivity.
Qed.

(* B: a file listed for the package r/comps is named comps ++ relname(its place in the package) *)
Lemma listed_name fs r comps q :
  exists_ fs (r ++ [INIT]) = false -> comps <> [] -> forallb name_ok comps = true ->
  pkgs_down fs r comps = true ->
  listed_paths_pkg fs (r ++ comps) q = true ->
  nice_rel (skipn (length (r ++ comps)) q) = true ->
  modpath_to_modname fs q true false = Ok (comps ++ relname (skipn (length (r ++ comps)) q)).
Proof.
  intros Hr Hc Hn Hd Hl Hnice. unfold listed_paths_pkg in Hl.
  repeat (apply andb_prop in Hl as [Hl ?]).
  pose proof (is_prefix_app _ _ Hl) as Eq. set (rel := skipn (length (r ++ comps)) q) in *.
  unfold nice_rel in Hnice. apply andb_prop in Hnice as [Hnice Hlast].
  apply andb_prop in Hnice as [Hne Hpre].
  assert (Hrel : rel <> []) by (destruct rel; [discriminate|discriminate]).
  destruct (exists_last Hrel) as [pre [f Erel]]. rewrite Erel in *.
  rewrite removelast_last in Hpre. rewrite last_last in Hlast.
  destruct (rsplit_dot1 f) as [[st e]|] eqn:Es; [|discriminate].
  apply andb_prop in Hlast as [Hst He]. apply String.eqb_eq in He. subst e.
  pose proof (rsplit_dot1_app _ _ _ Es) as Ef. change (st ++ ".py")%string with (py st) in Ef. subst f.
  match goal with H : inits_down _ _ _ = true |- _ => rewrite inits_down_snoc in H;
    apply andb_prop in H as [_ Hdown] end.
  assert (Hall : pkgs_down fs r (comps ++ pre) = true) by (rewrite pkgs_down_app, Hd, Hdown; reflexivity).
  assert (Hnames : forallb name_ok (comps ++ pre) = true) by (rewrite forallb_app, Hn, Hpre; reflexivity).
  assert (Hq : q = (r ++ comps ++ pre) ++ [py st]).
  { rewrite Eq. rewrite <- !app_assoc. reflexivity. }
  match goal with H : isfile fs q = true |- _ => rename H into Hf end.
  rewrite Hq in Hf |- *.
  rewrite m2n_name_of by (apply isfile_exists; exact Hf).
  rewrite (normalize_file fs (r ++ comps ++ pre) (py st) true false Hf).
  rewrite (py_eqb_init _ Hst). cbn [andb].
  unfold relname. rewrite last_last, removelast_last, (py_eqb_init _ Hst).
  assert (Hne2 : comps ++ pre <> []) by (destruct comps; [congruence|discriminate]).
  destruct (String.eqb st "__init__") eqn:Ei.
  - rewrite basename_app by exact Hne2.
    rewrite (name_ok_not_main _ (last_name_ok _ Hne2 Hnames)). cbn [andb].
    apply name_of_dir; assumption.
  - unfold py at 2. rewrite splitext_py by (try apply name_ok_nonempty; try apply name_ok_nodot; exact Hst).
    cbn [fst]. rewrite <- app_assoc, (app_assoc comps pre [st]).
    apply name_of_file; try assumption. rewrite app_assoc. exact Hf.
Qed.

(* ---- the selection loop ------------------------------------------------------------------- *)
Lemma add_new_in s acc x : In s (add_new acc x) <-> In s acc \/ s = x.
Proof.
  unfold add_new. destruct (str_in x acc) eqn:E.
  - split; [auto|]. intros [H| ->]; [exact H|]. apply str_in_In. exact E.
  - rewrite in_app_iff. cbn [In]. intuition congruence.
Qed.

Lemma fold_add_new_in s xs : forall acc, In s (fold_left add_new xs acc) <-> In s acc \/ In s xs.
Proof.
  induction xs as [|x xs IH]; intros acc; cbn [fold_left In]; [tauto|].
  rewrite IH, add_new_in. intuition congruence.
Qed.

Lemma names_of_paths_ok fs (g : path -> list name) l :
  (forall q, In q l -> modpath_to_modname fs q true false = Ok (g q)) ->
  names_of_paths fs l = Ok (map (fun q => join "." (g q)) l).
Proof.
  induction l as [|q l IH]; intros H; cbn [names_of_paths map]; [reflexivity|].
  rewrite (H q (or_introl eq_refl)). rewrite IH by (intros q' Hq'; apply H; right; exact Hq').
  reflexivity.
Qed.

(* C: a regular package selected by its dotted name (any depth): the selection is the name
   itself plus, for every python file listed for the package, the package's name followed by
   the file's place inside the package - nothing loses the parents' prefix *)
Lemma selection_names fs sp script (comps : list name) p :
  wf_node fs = true -> no_dir_named INIT fs = true ->
  roots_plain fs (dirname script :: sp) = true -> names_ok comps = true ->
  syspath_lookup fs (dirname script :: sp) comps = Some p -> isdir fs p = true ->
  forallb (fun q => nice_rel (skipn (length p) q)) (package_modpaths_pkg fs p) = true ->
  exists l, modnames_to_profile fs sp script [PName comps] = Ok l
    /\ forall s, In s l <->
         s = join "." comps
         \/ exists q, listed_paths_pkg fs p q = true
                      /\ s = join "." (comps ++ relname (skipn (length p) q)).
Proof.
  intros Hwf Hreg Hroots Hnames Hl Hdir Hnice.
  destruct (names_ok_parts _ Hnames) as [Hne Hn].
  destruct (lookup_is_real _ _ _ _ Hl) as [r [Hin [[Hp [Hf Hd]]|[Hp [Hf _]]]]].
  2:{ rewrite (isfile_not_isdir _ _ Hf) in Hdir. discriminate. }
  pose proof (roots_plain_in _ _ _ Hroots Hin) as Hr.
  pose proof (pkgs_down_full fs r comps Hne Hd ltac:(rewrite <- Hp; exact Hf)) as Hfull.
  assert (Hnorm : normalize fs p true false = p) by (rewrite Hp; apply normalize_pkgdir; assumption).
  assert (Hself : modpath_to_modname fs p true false = Ok comps).
  { rewrite m2n_name_of by (apply isdir_exists; exact Hdir). rewrite Hnorm, Hp.
    apply name_of_dir; assumption. }
  assert (Hlist : forall q, In q (package_modpaths_pkg fs p) ->
            modpath_to_modname fs q true false = Ok (comps ++ relname (skipn (length p) q))).
  { intros q Hq. rewrite forallb_forall in Hnice. specialize (Hnice q Hq).
    apply (listing_with_packages fs p Hwf Hreg Hdir) in Hq. rewrite Hp in *.
    apply listed_name; assumption. }
  eexists. split.
  - unfold modnames_to_profile. cbn [select_loop]. unfold select_entry, entry_target, modname_to_modpath.
    rewrite Hl, Hnorm, Hself.
    rewrite (names_of_paths_ok fs (fun q => comps ++ relname (skipn (length p) q)) _ Hlist).
    reflexivity.
  - intros s. rewrite fold_add_new_in. cbn [In]. split.
    + intros [[]|[<-|H]]; [left; reflexivity|]. right.
      apply in_map_iff in H as [q [<- Hq]]. exists q. split; [|reflexivity].
      apply (listing_with_packages fs p Hwf Hreg Hdir). exact Hq.
    + intros [->|[q [Hq ->]]]; [right; left; reflexivity|]. right. right.
      apply in_map_iff. exists q. split; [reflexivity|].
      apply (listing_with_packages fs p Hwf Hreg Hdir). exact Hq.
Qed.

(* a concrete nested layout with a top-level look-alike of the inner package *)
Definition nested_fs : node :=
  Dir [("r0", Dir [("sub", Dir [(INIT, File); ("b.py", File)]);
                   ("pkg", Dir [(INIT, File); ("a.py", File);
                                ("sub", Dir [(INIT, File); ("b.py", File);
                                             ("deep", Dir [(INIT, File); ("c.py", File)]);
                                             ("plain", Dir [("e.py", File)])])])])].

Lemma nested_demo :
  modnames_to_profile nested_fs [["r0"]] ["r0"; "script.py"] [PName ["pkg"; "sub"]]
  = Ok ["pkg.sub"; "pkg.sub.b"; "pkg.sub.deep"; "pkg.sub.deep.c"]
  /\ modnames_to_profile nested_fs [["r0"]] ["r0"; "script.py"] [PPath ["r0"; "pkg"; "sub"; "deep"]]
     = Ok ["pkg.sub.deep"; "pkg.sub.deep.c"]
  /\ package_modpaths_pkg nested_fs ["r0"; "pkg"; "sub"]
     = [["r0"; "pkg"; "sub"; INIT]; ["r0"; "pkg"; "sub"; "b.py"]; ["r0"; "pkg"; "sub"; "deep"; INIT];
        ["r0"; "pkg"; "sub"; "deep"; "c.py"]]
  /\ forallb (fun q => nice_rel (skipn 3 q)) (package_modpaths_pkg nested_fs ["r0"; "pkg"; "sub"]) = true
  /\ roots_plain nested_fs [["r0"]; ["r0"]] = true.
Proof. vm_compute. repeat split; reflexivity. Qed.
