(* E5 - file-system model used by C18 (and available to C09).

   A file system is a finite tree: every directory maps component names to
   files or directories, i.e. a finite map from component lists (paths) to
   File | Dir that is prefix-closed by construction.  A path is the list of its
   components below the model's root; search roots are paths.  os.path's
   exists / isfile / isdir / join / dirname / basename / split are read on
   component lists.  Executable definitions only in this file; lemmas in
   FsModelLemmas.v. *)
From LP Require Import Prelude.Py.

Definition name := string.
Definition path := list name.

Inductive node :=
| File
| Dir (ch : list (name * node)).

(* directory lookup: first entry wins (a well-formed directory has no duplicates) *)
Fixpoint assoc (k : name) (ch : list (name * node)) : option node :=
  match ch with
  | [] => None
  | (k', v) :: t => if String.eqb k' k then Some v else assoc k t
  end.

Fixpoint get (n : node) (p : path) : option node :=
  match p with
  | [] => Some n
  | c :: p' =>
      match n with
      | File => None
      | Dir ch => match assoc c ch with Some n' => get n' p' | None => None end
      end
  end.

Definition is_some {A} (o : option A) : bool := match o with Some _ => true | None => false end.
Definition node_is_file (n : node) : bool := match n with File => true | Dir _ => false end.
Definition node_is_dir (n : node) : bool := match n with File => false | Dir _ => true end.

(* os.path.exists / isfile / isdir *)
Definition exists_ (fs : node) (p : path) : bool := is_some (get fs p).
Definition isfile (fs : node) (p : path) : bool :=
  match get fs p with Some File => true | _ => false end.
Definition isdir (fs : node) (p : path) : bool :=
  match get fs p with Some (Dir _) => true | _ => false end.

(* os.path.join(p, q) for a relative q is p ++ q; dirname / basename / split *)
Definition dirname (p : path) : path := removelast p.
Definition basename (p : path) : name := last p "".
Definition psplit (p : path) : path * name := (dirname p, basename p).

Definition path_eqb (a b : path) : bool := list_eqb String.eqb a b.

Fixpoint is_prefix (a b : path) : bool :=
  match a, b with
  | [], _ => true
  | x :: a', y :: b' => String.eqb x y && is_prefix a' b'
  | _ :: _, [] => false
  end.

(* well-formed: no directory lists a name twice *)
Fixpoint nodupb (l : list name) : bool :=
  match l with
  | [] => true
  | x :: t => negb (str_in x t) && nodupb t
  end.

Fixpoint wf_node (n : node) : bool :=
  match n with
  | File => true
  | Dir ch => nodupb (map fst ch) && forallb (fun kv => wf_node (snd kv)) ch
  end.

(* every file path of the tree (relative to the node), used by executable specs *)
Fixpoint all_files (n : node) : list path :=
  match n with
  | File => [[]]
  | Dir ch => flat_map (fun kv => map (cons (fst kv)) (all_files (snd kv))) ch
  end.

(* no directory anywhere carries the given name (used with "__init__.py") *)
Fixpoint no_dir_named (x : name) (n : node) : bool :=
  match n with
  | File => true
  | Dir ch => forallb (fun kv => negb (String.eqb (fst kv) x && node_is_dir (snd kv)) && no_dir_named x (snd kv)) ch
  end.

(* ---- strings: os.path.splitext on one component ------------------------------ *)
(* split at the last dot *)
Fixpoint rsplit_dot1 (s : string) : option (string * string) :=
  match s with
  | EmptyString => None
  | String a t =>
      match rsplit_dot1 t with
      | Some (st, e) => Some (String a st, e)
      | None => if Ascii.eqb a dot then Some (EmptyString, s) else None
      end
  end.

Fixpoint all_dots (s : string) : bool :=
  match s with EmptyString => true | String a t => Ascii.eqb a dot && all_dots t end.

(* genericpath._splitext: leading dots do not start an extension *)
Definition splitext (s : string) : string * string :=
  match rsplit_dot1 s with
  | Some (st, e) => if all_dots st then (s, EmptyString) else (st, e)
  | None => (s, EmptyString)
  end.

Definition path_list_eqb (a b : list path) : bool := list_eqb path_eqb a b.

Definition path_in (p : path) (l : list path) : bool := existsb (path_eqb p) l.

Fixpoint path_nodupb (l : list path) : bool :=
  match l with
  | [] => true
  | x :: t => negb (path_in x t) && path_nodupb t
  end.

(* same elements with the same multiplicities (listing order is the directory
   order of the operating system, which the model does not fix) *)
Definition count_path (p : path) (l : list path) : nat := length (filter (path_eqb p) l).
Definition perm_eqb (a b : list path) : bool :=
  Nat.eqb (length a) (length b) && forallb (fun p => Nat.eqb (count_path p a) (count_path p b)) a.
