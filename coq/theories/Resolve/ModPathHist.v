(* E5 - histories: file-system operations interleaved with queries to the resolver.
   The property speaks about "the directory tree"; a resolver that maps names and
   paths the way the import system does is a function of the CURRENT tree only, whatever
   was asked before and whatever the tree looked like before.  The model below has no
   state but the tree; the correspondence harness drives the implementation with such
   histories inside ONE process and compares every answer with `ask` on the tree of that
   moment. *)
From LP Require Import Prelude.Py Resolve.FsModel Resolve.ModPath Resolve.ModPathSelect.

(* ---- operations on the tree ----------------------------------------------------- *)
Fixpoint upd_child (c : name) (f : option node -> option node) (ch : list (name * node))
  : list (name * node) :=
  match ch with
  | [] => match f None with Some v => [(c, v)] | None => [] end
  | (k, v) :: t =>
      if String.eqb k c
      then match f (Some v) with Some v' => (k, v') :: t | None => t end
      else (k, v) :: upd_child c f t
  end.

(* create p (and missing parents, os.makedirs style) holding v *)
Fixpoint put (p : path) (v : node) (n : node) : node :=
  match p with
  | [] => v
  | c :: p' =>
      match n with
      | File => File
      | Dir ch =>
          Dir (upd_child c (fun o => Some (put p' v (match o with Some x => x | None => Dir [] end))) ch)
      end
  end.

(* os.remove / shutil.rmtree *)
Fixpoint del (p : path) (n : node) : node :=
  match p with
  | [] => n
  | c :: p' =>
      match n with
      | File => File
      | Dir ch =>
          match p' with
          | [] => Dir (upd_child c (fun _ => None) ch)
          | _ :: _ => Dir (upd_child c (fun o => match o with Some x => Some (del p' x) | None => None end) ch)
          end
      end
  end.

Inductive fsop :=
| MkFile (p : path)
| MkDir (p : path)
| Remove (p : path)
| Replace (t : node).          (* the whole tree is deleted and another one written at the same place *)

Definition apply_op (o : fsop) (fs : node) : node :=
  match o with
  | MkFile p => put p File fs
  | MkDir p => if isdir fs p then fs else put p (Dir []) fs
  | Remove p => del p fs
  | Replace t => t
  end.

(* ---- queries ----------------------------------------------------------------------- *)
Inductive query :=
| QLookup (roots : list path) (comps : list name) (hide_init hide_main : bool)
| QName (p : path) (hide_init hide_main : bool)
| QList (p : path)
| QListPkg (p : path)
| QSelect (sys_path : list path) (script : path) (entries : list pentry).

Inductive answer :=
| APath (o : option path)
| AName (r : res (list name))
| APaths (l : list path)
| ANames (r : res (list string)).

Definition ask (fs : node) (q : query) : answer :=
  match q with
  | QLookup roots comps hi hm => APath (modname_to_modpath fs roots comps hi hm)
  | QName p hi hm => AName (modpath_to_modname fs p hi hm)
  | QList p => APaths (package_modpaths fs p)
  | QListPkg p => APaths (package_modpaths_pkg fs p)
  | QSelect sp script entries => ANames (modnames_to_profile fs sp script entries)
  end.

Inductive event := Do (o : fsop) | Ask (q : query).

Fixpoint fs_after (fs : node) (h : list event) : node :=
  match h with
  | [] => fs
  | Do o :: t => fs_after (apply_op o fs) t
  | Ask _ :: t => fs_after fs t
  end.

Fixpoint run (fs : node) (h : list event) : list answer :=
  match h with
  | [] => []
  | Do o :: t => run (apply_op o fs) t
  | Ask q :: t => ask fs q :: run fs t
  end.

(* ---- every answer is a function of the tree of that moment --------------------------- *)
Lemma fs_after_app fs h1 h2 : fs_after fs (h1 ++ h2) = fs_after (fs_after fs h1) h2.
Proof.
  revert fs; induction h1 as [|[o|q] t IH]; intros fs; cbn [app fs_after]; [reflexivity|apply IH|apply IH].
Qed.

Lemma run_app fs h1 h2 : run fs (h1 ++ h2) = run fs h1 ++ run (fs_after fs h1) h2.
Proof.
  revert fs; induction h1 as [|[o|q] t IH]; intros fs; cbn [app run fs_after].
  - reflexivity.
  - apply IH.
  - rewrite IH. reflexivity.
Qed.

Lemma history_last fs h q :
  run fs (h ++ [Ask q]) = run fs h ++ [ask (fs_after fs h) q].
Proof. rewrite run_app. reflexivity. Qed.

(* two histories that end in the same tree are indistinguishable by any later query *)
Lemma history_independent fs1 h1 fs2 h2 later :
  fs_after fs1 h1 = fs_after fs2 h2 ->
  run (fs_after fs1 h1) later = run (fs_after fs2 h2) later
  /\ (forall d, last (run fs1 (h1 ++ later)) d = last (run fs1 h1 ++ run (fs_after fs2 h2) later) d).
Proof.
  intros E. split; [rewrite E; reflexivity|]. intros d. rewrite run_app, E. reflexivity.
Qed.

(* asking never changes the tree, so a repeated question gets the same answer *)
Lemma asks_keep_fs fs qs : fs_after fs (map Ask qs) = fs.
Proof. induction qs as [|q t IH]; cbn [map fs_after]; [reflexivity|exact IH]. Qed.

Lemma ask_after_asks fs qs q :
  run fs (map Ask qs ++ [Ask q]) = run fs (map Ask qs) ++ [ask fs q].
Proof. rewrite history_last, asks_keep_fs. reflexivity. Qed.

(* the answer to the last question of any history is `ask` on the tree the history ends in;
   hence two histories ending in the same tree get the same answer to the same question *)
Lemma history_answer :
  (forall fs h q d, last (run fs (h ++ [Ask q])) d = ask (fs_after fs h) q)
  /\ (forall fs1 h1 fs2 h2 q d,
        fs_after fs1 h1 = fs_after fs2 h2 ->
        last (run fs1 (h1 ++ [Ask q])) d = last (run fs2 (h2 ++ [Ask q])) d)
  /\ (forall fs qs q, run fs (map Ask qs ++ [Ask q]) = run fs (map Ask qs) ++ [ask fs q]).
Proof.
  assert (H : forall fs h q d, last (run fs (h ++ [Ask q])) d = ask (fs_after fs h) q)
    by (intros fs h q d; rewrite history_last, last_last; reflexivity).
  split; [exact H|]. split; [|exact ask_after_asks].
  intros fs1 h1 fs2 h2 q d E. rewrite !H, E. reflexivity.
Qed.

(* ---- the scenario of a directory that becomes / stops being a package ------------------ *)
Definition hist_fs : node :=
  Dir [("r0", Dir [("pkg", Dir [(INIT, File); ("tools", Dir [("helper.py", File)])])])].
Definition hist_helper : path := ["r0"; "pkg"; "tools"; "helper.py"].
Definition hist_init : path := ["r0"; "pkg"; "tools"; INIT].

Lemma history_demo :
  run hist_fs [Ask (QName hist_helper true false);
               Ask (QLookup [["r0"]] ["pkg"; "tools"; "helper"] true false);
               Do (MkFile hist_init);
               Ask (QName hist_helper true false);
               Ask (QLookup [["r0"]] ["pkg"; "tools"; "helper"] true false);
               Ask (QList ["r0"; "pkg"]);
               Do (Remove hist_init);
               Ask (QName hist_helper true false);
               Ask (QList ["r0"; "pkg"])]
  = [AName (Ok ["helper"]); APath None;
     AName (Ok ["pkg"; "tools"; "helper"]); APath (Some hist_helper); APaths [hist_helper];
     AName (Ok ["helper"]); APaths []].
Proof. vm_compute. reflexivity. Qed.
