(* E5 - model of line_profiler/autoprofile/util_static.py over FsModel:
   _syspath_modname_to_modpath (without the egg-link / editable-install / compiled
   extension branches), modname_to_modpath, normalize_modpath, split_modpath,
   modpath_to_modname, package_modpaths (default flags), kernprof.find_module_script.
   A dotted module name is its list of components; `modname.replace('.', os.sep)`
   joined to a search root is list append.  Executable definitions only; the
   correspondence harness (harness/props/c18.py) runs these against the real
   functions on generated directory trees on every run. *)
From LP Require Import Prelude.Py Resolve.FsModel.

Definition INIT : name := "__init__.py".
Definition MAIN : name := "__main__.py".
Definition py (c : name) : name := (c ++ ".py")%string.

(* def _isvalid(modpath, base):
       subdir = dirname(modpath)
       while subdir and subdir != base:
           if not exists(join(subdir, '__init__.py')): return False
           subdir = dirname(subdir)
       return True
   called with modpath = join(base, rel) only; the loop variable is
   base ++ rev sub_rev, sub_rev running over the reversed proper prefixes of rel. *)
Fixpoint isvalid_loop (fs : node) (base : path) (sub_rev : list name) : bool :=
  match sub_rev with
  | [] => true
  | _ :: up =>
      if exists_ fs (base ++ rev sub_rev ++ [INIT]) then isvalid_loop fs base up else false
  end.

Definition isvalid (fs : node) (base : path) (rel : list name) : bool :=
  isvalid_loop fs base (rev (removelast rel)).

(* _fname_we + '.py' : the extension lands on the last component *)
Definition with_last_py (comps : list name) : list name :=
  removelast comps ++ [py (last comps "")].

(* def check_dpath(dpath):
       modpath = join(dpath, _fname_we)
       if exists(modpath):
           if isfile(join(modpath, '__init__.py')):
               if _isvalid(modpath, dpath): return modpath
       for fname in candidate_fnames:        # only _fname_we + '.py' is modelled
           modpath = join(dpath, fname)
           if isfile(modpath):
               if _isvalid(modpath, dpath): return modpath *)
Definition check_dpath (fs : node) (dpath : path) (comps : list name) : option path :=
  let modpath := dpath ++ comps in
  if exists_ fs modpath && isfile fs (modpath ++ [INIT]) && isvalid fs dpath comps
  then Some modpath
  else
    let modpath := dpath ++ with_last_py comps in
    if isfile fs modpath && isvalid fs dpath (with_last_py comps) then Some modpath else None.

(* for dpath in candidate_dpaths: modpath = check_dpath(dpath); if modpath: break *)
Fixpoint syspath_lookup (fs : node) (roots : list path) (comps : list name) : option path :=
  match roots with
  | [] => None
  | r :: rs =>
      match check_dpath fs r comps with
      | Some p => Some p
      | None => syspath_lookup fs rs comps
      end
  end.

(* def normalize_modpath(modpath, hide_init=True, hide_main=False) *)
Definition normalize (fs : node) (modpath : path) (hide_init hide_main : bool) : path :=
  let '(modpath, hide_main) :=
    if hide_init then
      if String.eqb (basename modpath) INIT then (dirname modpath, true) else (modpath, hide_main)
    else
      if exists_ fs (modpath ++ [INIT]) then (modpath ++ [INIT], hide_main) else (modpath, hide_main) in
  if hide_main then
    if String.eqb (basename modpath) MAIN then
      if exists_ fs (dirname modpath ++ [INIT]) then dirname modpath else modpath
    else modpath
  else modpath.

(* def modname_to_modpath(modname, hide_init=True, hide_main=False, sys_path=None) *)
Definition modname_to_modpath (fs : node) (roots : list path) (comps : list name)
           (hide_init hide_main : bool) : option path :=
  match syspath_lookup fs roots comps with
  | None => None
  | Some modpath => Some (normalize fs modpath hide_init hide_main)
  end.

(* while exists(join(dpath, '__init__.py')): dpath, dname = split(dpath); parts.append(dname)
   rev_d is dpath reversed; parts is kept in final (already reversed) order.  At the
   root of the model ("/") the real loop would not terminate if /__init__.py existed. *)
Fixpoint climb (fs : node) (rev_d : list name) (parts : list name) : path * list name :=
  match rev_d with
  | [] => ([], parts)
  | dname :: up =>
      if exists_ fs (rev rev_d ++ [INIT]) then climb fs up (dname :: parts) else (rev rev_d, parts)
  end.

(* def split_modpath(modpath, check=True) -> (directory, rel_modpath components) *)
Definition split_modpath (fs : node) (modpath : path) : res (path * list name) :=
  if negb (exists_ fs modpath) then Err ValueError
  else if isdir fs modpath && negb (exists_ fs (modpath ++ [INIT])) then Err ValueError
  else Ok (climb fs (rev (dirname modpath)) [basename modpath]).

(* modname = splitext(rel_modpath)[0]
   if '.' in modname: modname, abi_tag = modname.split('.', 1)
   modname = modname.replace('/', '.')            -- on the component list *)
Definition strip_ext (parts : list name) : list name :=
  removelast parts ++ [fst (splitext (last parts ""))].

Fixpoint cut_first_dot (l : list name) : list name :=
  match l with
  | [] => []
  | c :: t => if no_char dot c then c :: cut_first_dot t else [hd EmptyString (split dot c)]
  end.

(* def modpath_to_modname(modpath, hide_init=True, hide_main=False, check=True, relativeto=None) *)
Definition modpath_to_modname (fs : node) (modpath : path) (hide_init hide_main : bool)
  : res (list name) :=
  if negb (exists_ fs modpath) then Err ValueError
  else
    match split_modpath fs (normalize fs modpath hide_init hide_main) with
    | Err e => Err e
    | Ok (_, parts) => Ok (cut_first_dot (strip_ext parts))
    end.

(* def package_modpaths(pkgpath)  -- with_pkg=False, with_mod=True, recursive=True,
   with_libs=False, check=True:
     if isfile(pkgpath): yield pkgpath
     else:
       for dpath, dnames, fnames in os.walk(pkgpath):
         ispkg = exists(join(dpath, '__init__.py'))
         if ispkg: for fname in fnames: if splitext(fname)[1] in ['.py'] and fname != '__init__.py': yield join(dpath, fname)
         else: del dnames[:] *)
Definition py_module_fname (f : name) : bool :=
  String.eqb (snd (splitext f)) ".py" && negb (String.eqb f INIT).

Definition fnames (ch : list (name * node)) : list name :=
  map fst (filter (fun kv => node_is_file (snd kv)) ch).

Fixpoint walk (dpath : path) (n : node) : list path :=
  match n with
  | File => []
  | Dir ch =>
      if is_some (assoc INIT ch)
      then map (fun f => dpath ++ [f]) (filter py_module_fname (fnames ch))
           ++ flat_map (fun kv => match snd kv with
                                  | File => []
                                  | Dir _ => walk (dpath ++ [fst kv]) (snd kv)
                                  end) ch
      else []
  end.

Definition package_modpaths (fs : node) (pkgpath : path) : list path :=
  match get fs pkgpath with
  | Some File => [pkgpath]
  | Some n => walk pkgpath n
  | None => []
  end.

(* package_modpaths(pkgpath, with_pkg=True)  -- what ProfmodExtractor calls:
     if isfile(pkgpath): yield pkgpath
     else:
       root_path = join(pkgpath, '__init__.py'); if exists(root_path): yield root_path
       for dpath, dnames, fnames in os.walk(pkgpath):
         if exists(join(dpath, '__init__.py')):
           <module files as above>
           for dname in dnames: path = join(dpath, dname, '__init__.py'); if exists(path): yield path
         else: del dnames[:] *)
Definition dnames (ch : list (name * node)) : list name :=
  map fst (filter (fun kv => node_is_dir (snd kv)) ch).

Fixpoint walk_pkg (dpath : path) (n : node) : list path :=
  match n with
  | File => []
  | Dir ch =>
      if is_some (assoc INIT ch)
      then map (fun f => dpath ++ [f]) (filter py_module_fname (fnames ch))
           ++ flat_map (fun kv => match snd kv with
                                  | File => []
                                  | Dir ch' => if is_some (assoc INIT ch') then [dpath ++ [fst kv; INIT]] else []
                                  end) ch
           ++ flat_map (fun kv => match snd kv with
                                  | File => []
                                  | Dir _ => walk_pkg (dpath ++ [fst kv]) (snd kv)
                                  end) ch
      else []
  end.

Definition package_modpaths_pkg (fs : node) (pkgpath : path) : list path :=
  match get fs pkgpath with
  | Some File => [pkgpath]
  | Some n => (if exists_ fs (pkgpath ++ [INIT]) then [pkgpath ++ [INIT]] else []) ++ walk_pkg pkgpath n
  | None => []
  end.

(* kernprof.find_module_script:
     for suffix in '.__main__', '': fname = modname_to_modpath(module_name + suffix); if fname: return fname *)
Definition find_module_script (fs : node) (roots : list path) (comps : list name) : option path :=
  match modname_to_modpath fs roots (comps ++ ["__main__"]) true false with
  | Some p => Some p
  | None => modname_to_modpath fs roots comps true false
  end.
