(* Lemmas about the file-system model and the string helpers of FsModel.v *)
From LP Require Import Prelude.Py Prelude.PyLemmas Resolve.FsModel.

(* ---- induction over trees (nested through list) ------------------------------ *)
Section NodeInd.
  Variable P : node -> Prop.
  Hypothesis HF : P File.
  Hypothesis HD : forall ch, Forall (fun kv => P (snd kv)) ch -> P (Dir ch).

  Fixpoint node_ind' (n : node) : P n :=
    match n with
    | File => HF
    | Dir ch =>
        HD ch ((fix go (l : list (name * node)) : Forall (fun kv => P (snd kv)) l :=
                  match l with
                  | [] => Forall_nil _
                  | kv :: t => Forall_cons kv (node_ind' (snd kv)) (go t)
                  end) ch)
    end.
End NodeInd.

(* ---- assoc ------------------------------------------------------------------- *)
Lemma assoc_in k ch v : assoc k ch = Some v -> In (k, v) ch.
Proof.
  induction ch as [|[k' v'] t IH]; cbn [assoc]; [discriminate|].
  destruct (String.eqb_spec k' k) as [->|Hne].
  - intros [= ->]. left; reflexivity.
  - intros H. right. apply IH; exact H.
Qed.

Lemma str_in_In x l : str_in x l = true <-> In x l.
Proof.
  unfold str_in. rewrite existsb_exists. split.
  - intros [y [Hy E]]. apply String.eqb_eq in E. subst y. exact Hy.
  - intros H. exists x. split; [exact H|apply String.eqb_refl].
Qed.

Lemma nodupb_NoDup l : nodupb l = true -> NoDup l.
Proof.
  induction l as [|x t IH]; cbn [nodupb]; intros H; [constructor|].
  apply andb_prop in H as [H1 H2]. constructor; [|apply IH; exact H2].
  intros Hin. apply str_in_In in Hin. rewrite Hin in H1. discriminate.
Qed.

Lemma in_assoc k v ch : NoDup (map fst ch) -> In (k, v) ch -> assoc k ch = Some v.
Proof.
  induction ch as [|[k' v'] t IH]; cbn [map fst assoc]; intros Hnd Hin; [contradiction|].
  inversion Hnd as [|? ? Hnot Hnd']; subst.
  destruct Hin as [[= -> ->]|Hin].
  - rewrite String.eqb_refl. reflexivity.
  - destruct (String.eqb_spec k' k) as [->|Hne].
    + exfalso. apply Hnot. change k with (fst (k, v)). apply in_map. exact Hin.
    + apply IH; assumption.
Qed.

Lemma assoc_none_notin k ch : assoc k ch = None -> ~ In k (map fst ch).
Proof.
  induction ch as [|[k' v'] t IH]; cbn [assoc map fst]; intros H Hin; [contradiction|].
  destruct (String.eqb_spec k' k) as [->|Hne]; [discriminate|].
  destruct Hin as [->|Hin]; [congruence|]. exact (IH H Hin).
Qed.

(* ---- get --------------------------------------------------------------------- *)
Lemma get_app n p q :
  get n (p ++ q) = match get n p with Some m => get m q | None => None end.
Proof.
  revert n; induction p as [|c p IH]; intros n; cbn [app get]; [reflexivity|].
  destruct n as [|ch]; [reflexivity|]. destruct (assoc c ch); [apply IH|reflexivity].
Qed.

Lemma get_file_child p : p <> [] -> get File p = None.
Proof. destruct p; [congruence|reflexivity]. Qed.

Lemma exists_prefix fs p q : exists_ fs (p ++ q) = true -> exists_ fs p = true.
Proof.
  unfold exists_. rewrite get_app. destruct (get fs p); [reflexivity|discriminate].
Qed.

Lemma isfile_exists fs p : isfile fs p = true -> exists_ fs p = true.
Proof. unfold isfile, exists_. destruct (get fs p) as [[|]|]; cbn; congruence. Qed.

Lemma isdir_exists fs p : isdir fs p = true -> exists_ fs p = true.
Proof. unfold isdir, exists_. destruct (get fs p) as [[|]|]; cbn; congruence. Qed.

Lemma isfile_not_isdir fs p : isfile fs p = true -> isdir fs p = false.
Proof. unfold isfile, isdir. destruct (get fs p) as [[|]|]; congruence. Qed.

Lemma exists_child_isdir fs p c : exists_ fs (p ++ [c]) = true -> isdir fs p = true.
Proof.
  unfold exists_, isdir. rewrite get_app. destruct (get fs p) as [[|ch]|]; cbn; congruence.
Qed.

Lemma file_no_child fs p q : isfile fs p = true -> q <> [] -> exists_ fs (p ++ q) = false.
Proof.
  unfold isfile, exists_. intros H Hq. rewrite get_app.
  destruct (get fs p) as [[|]|]; try discriminate. rewrite get_file_child by exact Hq. reflexivity.
Qed.

(* ---- trees without a directory called x --------------------------------------- *)
Lemma no_dir_named_get x fs p m :
  no_dir_named x fs = true -> get fs p = Some m -> no_dir_named x m = true.
Proof.
  revert fs; induction p as [|c p IH]; intros fs Hn; cbn [get].
  - intros [= ->]. exact Hn.
  - destruct fs as [|ch]; [discriminate|]. destruct (assoc c ch) as [n'|] eqn:E; [|discriminate].
    intros Hg. apply IH with (fs := n'); [|exact Hg].
    cbn [no_dir_named] in Hn. rewrite forallb_forall in Hn.
    specialize (Hn _ (assoc_in _ _ _ E)). cbn [fst snd] in Hn.
    apply andb_prop in Hn as [_ Hn]. exact Hn.
Qed.

Lemma no_dir_named_exists_isfile x fs p :
  no_dir_named x fs = true -> exists_ fs (p ++ [x]) = isfile fs (p ++ [x]).
Proof.
  intros Hn. unfold exists_, isfile. rewrite get_app.
  destruct (get fs p) as [m|] eqn:E; [|reflexivity].
  pose proof (no_dir_named_get _ _ _ _ Hn E) as Hm.
  destruct m as [|ch]; [reflexivity|]. cbn [get].
  destruct (assoc x ch) as [n'|] eqn:E2; [|reflexivity].
  destruct n' as [|ch']; [reflexivity|]. exfalso.
  cbn [no_dir_named] in Hm. rewrite forallb_forall in Hm.
  specialize (Hm _ (assoc_in _ _ _ E2)). cbn [fst snd node_is_dir] in Hm.
  rewrite String.eqb_refl in Hm. discriminate.
Qed.

(* ---- path equality ------------------------------------------------------------ *)
Lemma path_eqb_eq a b : path_eqb a b = true <-> a = b.
Proof.
  unfold path_eqb. revert b; induction a as [|x a IH]; intros [|y b]; cbn [list_eqb]; split;
    try congruence; try discriminate.
  - intros H. apply andb_prop in H as [H1 H2]. apply String.eqb_eq in H1. apply IH in H2. congruence.
  - intros [= -> ->]. rewrite String.eqb_refl. apply IH. reflexivity.
Qed.

Lemma is_prefix_app a b : is_prefix a b = true -> b = a ++ skipn (length a) b.
Proof.
  revert b; induction a as [|x a IH]; intros b; cbn [is_prefix length skipn app]; [reflexivity|].
  destruct b as [|y b]; [discriminate|]. intros H. apply andb_prop in H as [H1 H2].
  apply String.eqb_eq in H1. subst y. cbn [skipn]. f_equal. apply IH; exact H2.
Qed.

Lemma is_prefix_self_app a r : is_prefix a (a ++ r) = true.
Proof. induction a as [|x a IH]; cbn [is_prefix app]; [reflexivity|]. rewrite String.eqb_refl. exact IH. Qed.

Lemma skipn_self_app {A} (a r : list A) : skipn (length a) (a ++ r) = r.
Proof. induction a as [|x a IH]; cbn [length skipn app]; [reflexivity|exact IH]. Qed.

(* ---- strings ------------------------------------------------------------------ *)
Lemma rsplit_nodot c : no_char dot c = true -> rsplit_dot1 c = None.
Proof.
  induction c as [|a c IH]; cbn [no_char rsplit_dot1]; [reflexivity|].
  intros H. apply andb_prop in H as [H1 H2]. rewrite IH by exact H2.
  destruct (Ascii.eqb a dot); [discriminate|reflexivity].
Qed.

Lemma rsplit_py c : no_char dot c = true -> rsplit_dot1 (c ++ ".py") = Some (c, ".py").
Proof.
  induction c as [|a c IH]; cbn [no_char append]; intros H.
  - reflexivity.
  - apply andb_prop in H as [H1 H2]. cbn [rsplit_dot1]. rewrite IH by exact H2. reflexivity.
Qed.

Lemma all_dots_nodot c : c <> EmptyString -> no_char dot c = true -> all_dots c = false.
Proof.
  destruct c as [|a c]; [congruence|]. cbn [no_char all_dots]. intros _ H.
  apply andb_prop in H as [H1 _]. destruct (Ascii.eqb a dot); [discriminate|reflexivity].
Qed.

Lemma splitext_py c :
  c <> EmptyString -> no_char dot c = true -> splitext (c ++ ".py") = (c, ".py").
Proof.
  intros Hne Hd. unfold splitext. rewrite rsplit_py by exact Hd.
  rewrite all_dots_nodot by assumption. reflexivity.
Qed.

Lemma splitext_nodot c : no_char dot c = true -> splitext c = (c, EmptyString).
Proof. intros Hd. unfold splitext. rewrite rsplit_nodot by exact Hd. reflexivity. Qed.

Lemma no_char_app_dot c x : no_char dot (c ++ String dot x) = false.
Proof.
  induction c as [|a c IH]; cbn [append no_char].
  - rewrite Ascii.eqb_refl. reflexivity.
  - rewrite IH. apply andb_false_r.
Qed.

(* a dot-free prefix before the first dot is determined by the whole string *)
Lemma app_dot_inj a b x y :
  no_char dot a = true -> no_char dot b = true ->
  (a ++ String dot x = b ++ String dot y)%string -> a = b.
Proof.
  revert b; induction a as [|c a IH]; intros [|d b]; cbn [no_char append]; intros Ha Hb H.
  - reflexivity.
  - inversion H; subst. rewrite Ascii.eqb_refl in Hb. discriminate.
  - inversion H; subst. rewrite Ascii.eqb_refl in Ha. discriminate.
  - inversion H; subst. apply andb_prop in Ha as [_ Ha]. apply andb_prop in Hb as [_ Hb].
    f_equal. eapply IH; eassumption.
Qed.
