(* E5 - SPECIFICATION side of C18: how CPython's import system
   (importlib.machinery.PathFinder / FileFinder, source files and regular
   packages only) maps a dotted name to a file.  Executable; validated against
   the real PathFinder by the correspondence harness on every run. *)
From LP Require Import Prelude.Py Resolve.FsModel Resolve.ModPath.

(* FileFinder(dir).find_spec(c):
     if c in listdir(dir): base = dir/c
        if isfile(base/__init__.py): return regular package      (submodule_search_locations=[base])
        else is_namespace = isdir(base)
     if isfile(dir/c.py): return module
     if is_namespace: return namespace portion (loader None)
     return None *)
Inductive fres :=
| RegPkg (dir : path)      (* package directory; origin is dir/__init__.py *)
| RegMod (file : path)
| NsPortion
| NotHere.

Definition finder (fs : node) (dir : path) (c : name) : fres :=
  if isfile fs (dir ++ [c; INIT]) then RegPkg (dir ++ [c])
  else if isfile fs (dir ++ [py c]) then RegMod (dir ++ [py c])
  else if isdir fs (dir ++ [c]) then NsPortion
  else NotHere.

(* PathFinder._get_spec over the entries of `path`: the first entry with a
   loader wins, namespace portions are collected and only used when no entry
   has a regular package or module. *)
Fixpoint path_find (fs : node) (dirs : list path) (c : name) (ns : bool) : fres :=
  match dirs with
  | [] => if ns then NsPortion else NotHere
  | d :: ds =>
      match finder fs d c with
      | RegPkg p => RegPkg p
      | RegMod p => RegMod p
      | NsPortion => path_find fs ds c true
      | NotHere => path_find fs ds c ns
      end
  end.

(* Importing a.b.c imports a, then a.b only inside a's directory, ... ; a module
   that is not a package has no submodules.  A chain that runs through a
   namespace package is outside "regular packages and modules". *)
Inductive ires :=
| Found (p : path) (is_pkg : bool)   (* p: the module file, or the package directory *)
| ViaNamespace
| NoModule.

Fixpoint import_chain (fs : node) (search : list path) (comps : list name) (ns : bool) : ires :=
  match comps with
  | [] => NoModule
  | c :: rest =>
      match path_find fs search c ns with
      | RegPkg p => match rest with [] => Found p true | _ => import_chain fs [p] rest false end
      | RegMod p => match rest with [] => Found p false | _ => NoModule end
      | NsPortion => ViaNamespace
      | NotHere => NoModule
      end
  end.

Definition import_name (fs : node) (roots : list path) (comps : list name) : ires :=
  import_chain fs roots comps false.

(* the file the import loads: spec.origin *)
Definition origin (p : path) (is_pkg : bool) : path := if is_pkg then p ++ [INIT] else p.

Definition is_found (r : ires) : bool := match r with Found _ _ => true | _ => false end.
Definition found_path (r : ires) : option path := match r with Found p _ => Some p | _ => None end.

Definition is_regular (f : fres) : bool :=
  match f with RegPkg _ | RegMod _ => true | _ => false end.

(* Hypothesis of the partial theorem: the first root that has the top-level name
   as a regular package or module also has the whole chain. *)
Fixpoint no_shadow (fs : node) (roots : list path) (comps : list name) : bool :=
  match roots with
  | [] => true
  | r :: rs =>
      if is_regular (finder fs r (hd EmptyString comps))
      then is_found (import_chain fs [r] comps false)
      else no_shadow fs rs comps
  end.

(* names of regular packages and modules: non-empty, no dot *)
Definition name_ok (c : name) : bool := negb (str_empty c) && no_char dot c.
Definition names_ok (comps : list name) : bool :=
  negb (list_empty comps) && forallb name_ok comps.

(* no search root is itself a package directory *)
Definition roots_plain (fs : node) (roots : list path) : bool :=
  forallb (fun r => negb (exists_ fs (r ++ [INIT]))) roots.

(* what the round trip through default-flag-style normalisation gives back *)
Definition expected_name (hide_init hide_main : bool) (comps : list name) (is_pkg : bool) : list name :=
  let pre := removelast comps in
  let cn := last comps EmptyString in
  if is_pkg then (if hide_init then comps else comps ++ ["__init__"])
  else if hide_init && String.eqb cn "__init__" then pre
  else if hide_main && String.eqb cn "__main__" && negb (list_empty pre)
       then (if hide_init then pre else pre ++ ["__init__"])
  else comps.

(* the path the property asks for, for hide_main = False: the package directory
   (hide_init) or its __init__.py, or the module file *)
Definition spec_path (hide_init : bool) (p : path) (is_pkg : bool) : path :=
  if is_pkg then (if hide_init then p else p ++ [INIT])
  else if hide_init && String.eqb (basename p) INIT then dirname p
  else p.

Definition spec_answer (hide_init : bool) (r : ires) : option path :=
  match r with Found p k => Some (spec_path hide_init p k) | _ => None end.

(* package listing: p is a module file of the package at pkg: below pkg, a file
   with extension .py other than __init__.py, and every directory from pkg down to
   the file's own directory has an __init__.py *)
Fixpoint listed_rel (n : node) (rel : list name) : bool :=
  match n, rel with
  | Dir ch, [f] =>
      is_some (assoc INIT ch)
      && match assoc f ch with Some File => py_module_fname f | _ => false end
  | Dir ch, d :: rel' =>
      is_some (assoc INIT ch)
      && match assoc d ch with Some (Dir c) => listed_rel (Dir c) rel' | _ => false end
  | _, _ => false
  end.

Definition listed (fs : node) (pkg p : path) : bool :=
  is_prefix pkg p
  && match get fs pkg with
     | Some n => listed_rel n (skipn (length pkg) p)
     | None => false
     end.

(* the same, read directly on paths (what the docstring of the property says) *)
Fixpoint inits_down (fs : node) (d : path) (l : list name) : bool :=
  match l with
  | [] => true
  | c :: t => exists_ fs (d ++ [INIT]) && inits_down fs (d ++ [c]) t
  end.

Definition listed_paths (fs : node) (pkg p : path) : bool :=
  let rel := skipn (length pkg) p in
  is_prefix pkg p && negb (list_empty rel) && isfile fs p && py_module_fname (basename p)
  && inits_down fs pkg rel.

(* the same with with_pkg=True (what the -p selection lists): the __init__.py files of the
   package and of its sub-packages are listed as well, i.e. every .py file whose every
   directory from the package down to its own has an __init__.py *)
Definition py_fname (f : name) : bool := String.eqb (snd (splitext f)) ".py".

Definition listed_paths_pkg (fs : node) (pkg p : path) : bool :=
  let rel := skipn (length pkg) p in
  is_prefix pkg p && negb (list_empty rel) && isfile fs p && py_fname (basename p)
  && inits_down fs pkg rel.

(* the dotted name, below the package's own name, of a file at rel inside the package:
   sub/__init__.py is the sub-package sub, sub/m.py the module sub.m *)
Definition relname (rel : list name) : list name :=
  if String.eqb (last rel EmptyString) INIT then removelast rel
  else removelast rel ++ [fst (splitext (last rel EmptyString))].

(* names of files inside a package that the naming theorems cover: dot-free directory
   names, file name <identifier>.py *)
Definition nice_rel (rel : list name) : bool :=
  negb (list_empty rel) && forallb name_ok (removelast rel)
  && match rsplit_dot1 (last rel EmptyString) with
     | Some (st, e) => name_ok st && String.eqb e ".py"
     | None => false
     end.
